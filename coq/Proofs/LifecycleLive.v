(* C20 — operator lifecycle, part 2: the shutdown completes.
   (a) the variant `mu` never increases except by Spawn and strictly decreases on every internal step;
   (b) progress: in every reachable state in which the shutdown has begun and run_tasks has not returned, some internal
       step is enabled;
   hence every maximal run of internal steps from such a state is finite (<= mu) and ends with run_tasks returned. *)
From Coq Require Import List Bool Arith Lia.
From KV Require Import Model.Lifecycle Proofs.Lifecycle.
Import ListNotations.

Ltac inv_step H :=
  repeat match type of H with
  | context [match ?x with _ => _ end] => let E := fresh "E" in destruct x eqn:E; try discriminate H
  end; try (injection H as <-).

Ltac use_cancel_spec :=
  repeat match goal with
  | E : cancel_roots _ = Some _ |- _ =>
      apply cancel_roots_spec in E; destruct E as (?&?&?&?&?&?&?&?&?&?&?&?&?&?&?)
  end.

(* ------------------------------------------------------------------ sums *)

Lemma sum_over_le : forall A (f g : A -> nat) l, (forall x, f x <= g x) -> sum_over f l <= sum_over g l.
Proof. unfold sum_over. induction l as [|a l IH]; intros H; cbn; [lia|]. specialize (IH H). specialize (H a). lia. Qed.

Lemma sum_over_lt : forall A (f g : A -> nat) l a, (forall x, f x <= g x) -> In a l -> f a < g a ->
  sum_over f l < sum_over g l.
Proof.
  unfold sum_over. induction l as [|b l IH]; intros a H Hin Hlt; cbn; [destruct Hin|].
  destruct Hin as [->|Hin].
  - pose proof (sum_over_le _ f g l H) as Hle. unfold sum_over in Hle. lia.
  - specialize (IH a H Hin Hlt). specialize (H b). lia.
Qed.

Lemma sum_over_app : forall A (f : A -> nat) l1 l2, sum_over f (l1 ++ l2) = sum_over f l1 + sum_over f l2.
Proof. unfold sum_over. induction l1 as [|a l IH]; intros; cbn; [reflexivity|]. rewrite IH. lia. Qed.

(* ------------------------------------------------------------------ phases only move down (except Spawn) *)

Lemma w_cancel_phase : forall t p, w_phase (cancel_phase t p) <= w_phase p.
Proof. intros t []; cbn; lia. Qed.

Lemma w_cancel_in : forall f ts t, w_phase (cancel_in f ts t) <= w_phase (f t).
Proof. intros. destruct (cancel_in_cases f ts t) as [->| ->]; [lia | apply w_cancel_phase]. Qed.

Lemma w_upd : forall f x p t, w_phase p <= w_phase (f x) -> w_phase (upd f x p t) <= w_phase (f t).
Proof. intros. destruct (upd_cases f x p t) as [[-> ->]|[_ ->]]; lia. Qed.

Lemma w_cancel_roots : forall s s' t, cancel_roots s = Some s' -> w_phase (ph s' t) <= w_phase (ph s t).
Proof.
  intros s s' t E. apply cancel_roots_spec in E. destruct E as (_&_&_&_&_&_&_&_&_&_&_&_&_&_&Hp).
  destruct (Hp t) as [->|[->|(->&Hx&->&_)]]; [lia | apply w_cancel_phase | rewrite Hx; cbn; lia].
Qed.

Lemma w_Finish : forall s t0 o s' t, step s (Finish t0 o) = Some s' -> w_phase (ph s' t) <= w_phase (ph s t).
Proof.
  intros s t0 o s' t H. unfold step in H.
  destruct (negb _) eqn:Eok in H; [discriminate|]. apply negb_false_iff in Eok.
  assert (H1 : w_phase (upd (ph s) t0 (PDone o) t) <= w_phase (ph s t)) by (apply w_upd; cbn; lia).
  destruct t0; try (injection H as <-; exact H1).
  destruct o; try (injection H as <-; exact H1).
  destruct (ph s (TWatcher w)) eqn:Ew; try (injection H as <-; exact H1).
  injection H as <-. cbn [ph set_ph].
  destruct (upd_cases (upd (ph s) (TWorker w n) (PDone (OErr e))) (TWatcher w) (PEnding (OErr (EOf (TWatcher w)))) t)
    as [[-> ->]|[_ ->]]; [rewrite Ew; cbn; lia | exact H1].
Qed.

Lemma w_noninc : forall s l s', (forall t b, l <> Spawn t b) -> step s l = Some s' ->
  forall t, w_phase (ph s' t) <= w_phase (ph s t).
Proof.
  intros s l s' Hn H t.
  destruct l; try (exfalso; eapply Hn; reflexivity); try (eapply w_Finish; eauto; fail);
    unfold step in H; inv_step H;
    unfold set_mn, set_hung, set_ph, set_act, add_grace; cbn [ph];
    try first [ apply Nat.le_refl
              | apply w_cancel_in
              | (eapply w_cancel_roots; eauto; fail)
              | (apply w_upd; match goal with E : ph s _ = _ |- _ => rewrite E; cbn; lia end)
              | (destruct (ph s t); cbn; lia) ].
Qed.

(* ------------------------------------------------------------------ frames of the other components *)

Lemma spawned_frame : forall s l s', (forall t b, l <> Spawn t b) -> step s l = Some s' -> spawned s' = spawned s.
Proof.
  intros s l s' Hn H.
  destruct l; try (exfalso; eapply Hn; reflexivity); unfold step in H; inv_step H; use_cancel_spec; cbn in *; congruence.
Qed.

Lemma w_main_noninc : forall s l s', step s l = Some s' -> w_main (mn s') <= w_main (mn s).
Proof.
  intros s l s' H.
  destruct l; unfold step in H; inv_step H; use_cancel_spec; cbn in *;
    repeat match goal with Hm : mn ?x = _ |- _ => rewrite Hm in * end; cbn; try lia.
Qed.

Lemma w_act_after_cancel : forall a a', act_after_cancel a a' -> w_act a' <= w_act a.
Proof.
  intros a a' H. unfold act_after_cancel in H.
  destruct H as [->|[[-> [->|[->| ->]]]|[[-> ->]|[[-> [p ->]]|[-> [->| ->]]]]]]; cbn; lia.
Qed.

Lemma w_act_noninc : forall s l s', step s l = Some s' -> w_act (act s') <= w_act (act s).
Proof.
  intros s l s' H.
  destruct l; unfold step in H; inv_step H; use_cancel_spec; cbn in *;
    try (match goal with Hc : act_after_cancel _ _ |- _ => apply w_act_after_cancel in Hc end);
    repeat match goal with Ha : act ?x = _ |- _ => rewrite Ha in * end; cbn in *; try lia.
Qed.

Lemma swept_mono : forall s l s', step s l = Some s' -> b2n (swept s') <= b2n (swept s).
Proof.
  intros s l s' H.
  destruct l; unfold step in H; inv_step H; use_cancel_spec; cbn in *;
    repeat match goal with Ha : swept ?x = _ |- _ => rewrite Ha in * end; cbn; try lia;
    destruct (swept s); cbn; lia.
Qed.

Lemma ostopped_mono : forall s l s', step s l = Some s' -> b2n (ostopped s') <= b2n (ostopped s).
Proof.
  intros s l s' H.
  destruct l; unfold step in H; inv_step H; use_cancel_spec; cbn in *;
    repeat match goal with Ha : ostopped ?x = _ |- _ => rewrite Ha in * end; cbn; try lia;
    destruct (ostopped s); cbn; lia.
Qed.

Lemma withdrawn_grows : forall s l s', step s l = Some s' ->
  withdrawn s' = withdrawn s \/ exists k, l = Withdraw k /\ withdrawn s' = k :: withdrawn s /\ mem_nat k (withdrawn s) = false.
Proof.
  intros s l s' H.
  destruct l; unfold step in H; inv_step H; use_cancel_spec; cbn in *; try (left; congruence).
  right. eexists; repeat split; eauto.
Qed.

Lemma graces_grows : forall s l s', step s l = Some s' ->
  graces s' = graces s \/ exists g, l = GraceTimeout g /\ graces s' = g :: graces s /\ mem_grace g (graces s) = false.
Proof.
  intros s l s' H.
  assert (Hc : (forall g', l <> GraceTimeout g') \/ exists gg, l = GraceTimeout gg).
  { destruct l; try (left; intros g' Hx; discriminate Hx). right; eauto. }
  destruct Hc as [Hn|[gg ->]].
  - left. eapply graces_other_step; eauto.
  - right. exists gg. unfold step in H. destruct (mem_grace gg (graces s)) eqn:Em; [discriminate|].
    repeat split; auto. inv_step H; reflexivity.
Qed.

Lemma b2n_mem_nat_cons : forall k k' l, b2n (mem_nat k (k' :: l)) <= b2n (mem_nat k l).
Proof. intros. unfold mem_nat. cbn. destruct (Nat.eqb k k'); cbn; [destruct (existsb _ l); cbn; lia | lia]. Qed.

Lemma b2n_mem_grace_cons : forall g g' l, b2n (mem_grace g (g' :: l)) <= b2n (mem_grace g l).
Proof. intros. unfold mem_grace. cbn. destruct (grace_eqb g g'); cbn; [destruct (existsb _ l); cbn; lia | lia]. Qed.

Definition wd_term (s : state) (t : task) : nat :=
  match t with TKeepalive k => b2n (mem_nat k (withdrawn s)) | _ => 0 end.
Definition gr_term (s : state) (t : task) : nat :=
  sum_over (fun g => b2n (mem_grace g (graces s))) (graces_of t).

Lemma wd_term_noninc : forall s l s' t, step s l = Some s' -> wd_term s' t <= wd_term s t.
Proof.
  intros s l s' t H. unfold wd_term. destruct t; try lia.
  destruct (withdrawn_grows _ _ _ H) as [->|(k'&_&->&_)]; [lia | apply b2n_mem_nat_cons].
Qed.

Lemma gr_term_noninc : forall s l s' t, step s l = Some s' -> gr_term s' t <= gr_term s t.
Proof.
  intros s l s' t H. unfold gr_term. apply sum_over_le. intros g.
  destruct (graces_grows _ _ _ H) as [->|(g'&_&->&_)]; [lia | apply b2n_mem_grace_cons].
Qed.

Lemma ghung_noninc : forall s l s', step s l = Some s' ->
  b2n (mem_grace GHung (graces s')) <= b2n (mem_grace GHung (graces s)).
Proof.
  intros s l s' H. destruct (graces_grows _ _ _ H) as [->|(g'&_&->&_)]; [lia | apply b2n_mem_grace_cons].
Qed.

(* mu written with the named terms *)
Lemma mu_unfold : forall s, mu s =
  w_main (mn s) + w_act (act s) + sum_over (fun t => w_phase (ph s t)) (all_tasks_of s)
  + b2n (swept s) + b2n (ostopped s) + sum_over (wd_term s) (spawned s)
  + b2n (mem_grace GHung (graces s)) + sum_over (gr_term s) (spawned s).
Proof. reflexivity. Qed.

Lemma all_tasks_frame : forall s s', spawned s' = spawned s -> all_tasks_of s' = all_tasks_of s.
Proof. intros s s' E. unfold all_tasks_of. now rewrite E. Qed.

(* (a1) no step other than the creation of a task increases the variant *)
Theorem mu_noninc : forall s l s', (forall t b, l <> Spawn t b) -> step s l = Some s' -> mu s' <= mu s.
Proof.
  intros s l s' Hn H. rewrite !mu_unfold.
  pose proof (spawned_frame _ _ _ Hn H) as Es. rewrite (all_tasks_frame _ _ Es), Es.
  pose proof (w_main_noninc _ _ _ H). pose proof (w_act_noninc _ _ _ H).
  pose proof (swept_mono _ _ _ H). pose proof (ostopped_mono _ _ _ H). pose proof (ghung_noninc _ _ _ H).
  pose proof (sum_over_le _ (fun t => w_phase (ph s' t)) (fun t => w_phase (ph s t)) (all_tasks_of s) (w_noninc _ _ _ Hn H)).
  pose proof (sum_over_le _ (wd_term s') (wd_term s) (spawned s) (fun t => wd_term_noninc _ _ _ t H)).
  pose proof (sum_over_le _ (gr_term s') (gr_term s) (spawned s) (fun t => gr_term_noninc _ _ _ t H)).
  lia.
Qed.

(* ------------------------------------------------------------------ (a2) every internal step strictly decreases it *)

Lemma cand_cases : forall s l, In l (internal_candidates s) ->
  In l [MainStop; RootsStopped; HungDone; GraceTimeout GHung; Sweep; OrchStop; ActRootsGone; CoreStopped;
        CleanupBegin; CleanupOk; Flag] \/
  (exists t o, In t (all_tasks_of s) /\ l = Finish t o) \/
  (exists t, In t (spawned s) /\ ((exists k, t = TKeepalive k /\ l = Withdraw k) \/
                                  (exists g, In g (graces_of t) /\ l = GraceTimeout g))) \/
  (exists r, l = Return r).
Proof.
  intros s l H. unfold internal_candidates in H.
  apply in_app_or in H as [H|H]; [left; exact H|].
  apply in_app_or in H as [H|H].
  { right; left. apply in_flat_map in H as (t&Hin&Hl). exists t.
    destruct (ph s t); try (destruct Hl; fail).
    - destruct (is_daemon t); [destruct Hl|]. destruct Hl as [<-|[]]. eauto.
    - destruct Hl as [<-|[]]. eauto.
    - destruct Hl as [<-|[]]. eauto. }
  apply in_app_or in H as [H|H].
  { right; right; left. apply in_flat_map in H as (t&Hin&Hl). exists t. split; [exact Hin|].
    destruct t; try (destruct Hl; fail).
    - destruct Hl as [<-|[]]. right. exists (GExit w). cbn. auto.
    - destruct Hl as [<-|[]]. left. eauto.
    - destruct Hl as [<-|[<-|[]]]; right; [exists (GBackoff d) | exists (GAbandon d)]; cbn; auto. }
  right; right; right.
  apply in_app_or in H as [H|H].
  - destruct H as [<-|[<-|[]]]; eauto.
  - apply in_flat_map in H as (t&_&Hl). destruct (failed_with (ph s t)); [|destruct Hl]. destruct Hl as [<-|[]]. eauto.
Qed.

Lemma w_main_strict : forall s l s', step s l = Some s' ->
  In l [MainStop; RootsStopped; HungDone; GraceTimeout GHung] \/ (exists r, l = Return r) ->
  w_main (mn s') < w_main (mn s).
Proof.
  intros s l s' H Hl.
  destruct Hl as [[<-|[<-|[<-|[<-|[]]]]]|[r ->]]; unfold step in H; inv_step H; use_cancel_spec; cbn in *;
    repeat match goal with Hm : mn ?x = _ |- _ => rewrite Hm in * end; cbn; lia.
Qed.

Lemma w_act_strict : forall s l s', step s l = Some s' ->
  In l [ActRootsGone; CoreStopped; CleanupBegin; CleanupOk; Flag] -> w_act (act s') < w_act (act s).
Proof.
  intros s l s' H Hl.
  destruct Hl as [<-|[<-|[<-|[<-|[<-|[]]]]]]; unfold step in H; inv_step H; cbn in *; lia.
Qed.

Lemma swept_strict : forall s s', step s Sweep = Some s' -> b2n (swept s') < b2n (swept s).
Proof. intros s s' H. unfold step in H. inv_step H. cbn. lia. Qed.

Lemma ostopped_strict : forall s s', step s OrchStop = Some s' -> b2n (ostopped s') < b2n (ostopped s).
Proof. intros s s' H. unfold step in H. inv_step H. cbn. lia. Qed.

Lemma w_Finish_strict : forall s t o s', step s (Finish t o) = Some s' -> w_phase (ph s' t) < w_phase (ph s t).
Proof.
  intros s t o s' H. unfold step in H.
  destruct (negb _) eqn:Eok in H; [discriminate|]. apply negb_false_iff in Eok.
  assert (Hpos : 0 < w_phase (ph s t)).
  { destruct (ph s t); cbn; try lia; discriminate Eok. }
  assert (H1 : w_phase (upd (ph s) t (PDone o) t) < w_phase (ph s t)) by (rewrite upd_same; cbn; exact Hpos).
  destruct t; try (injection H as <-; exact H1).
  destruct o; try (injection H as <-; exact H1).
  destruct (ph s (TWatcher w)) eqn:Ew; injection H as <-; exact H1.
Qed.

Lemma wd_strict : forall s k s', step s (Withdraw k) = Some s' -> wd_term s' (TKeepalive k) < wd_term s (TKeepalive k).
Proof.
  intros s k s' H. destruct (withdrawn_grows _ _ _ H) as [E|(k'&Ek&E&Em)].
  - exfalso. unfold step in H. inv_step H. cbn in E. revert E. clear. intros E.
    assert (Hl : length (k :: withdrawn s) = length (withdrawn s)) by now rewrite E. cbn in Hl. lia.
  - injection Ek as <-. unfold wd_term. rewrite E, Em. unfold mem_nat. cbn. rewrite Nat.eqb_refl. cbn. lia.
Qed.

Lemma gr_strict : forall s g s' t, step s (GraceTimeout g) = Some s' -> In g (graces_of t) -> gr_term s' t < gr_term s t.
Proof.
  intros s g s' t H Hin. destruct (graces_grows _ _ _ H) as [E|(g'&Eg&E&Em)].
  - exfalso. unfold step in H. destruct (mem_grace g (graces s)); [discriminate|].
    assert (Hl : length (graces s') = S (length (graces s))).
    { inv_step H; reflexivity. }
    rewrite E in Hl. lia.
  - injection Eg as <-. unfold gr_term. eapply sum_over_lt with (a := g); eauto.
    + intros x. rewrite E. apply b2n_mem_grace_cons.
    + rewrite E, Em. unfold mem_grace. cbn. assert (Hr : grace_eqb g g = true) by now apply grace_eqb_eq.
      rewrite Hr. cbn. lia.
Qed.

Lemma cand_not_spawn : forall s l, In l (internal_candidates s) -> forall t b, l <> Spawn t b.
Proof.
  intros s l H t b ->. apply cand_cases in H.
  destruct H as [H|[(t0&o&_&H)|[(t0&_&[(k&_&H)|(g&_&H)])|(r&H)]]]; try discriminate H.
  cbn in H. repeat (destruct H as [H|H]; try discriminate H). destruct H.
Qed.

Theorem mu_decreases : forall s l s', In l (internal_candidates s) -> step s l = Some s' -> mu s' < mu s.
Proof.
  intros s l s' Hc H. pose proof (cand_not_spawn _ _ Hc) as Hn. rewrite !mu_unfold.
  pose proof (spawned_frame _ _ _ Hn H) as Es. rewrite (all_tasks_frame _ _ Es), Es.
  pose proof (w_main_noninc _ _ _ H) as C1. pose proof (w_act_noninc _ _ _ H) as C2.
  pose proof (swept_mono _ _ _ H) as C3. pose proof (ostopped_mono _ _ _ H) as C4. pose proof (ghung_noninc _ _ _ H) as C5.
  pose proof (sum_over_le _ (fun t => w_phase (ph s' t)) (fun t => w_phase (ph s t)) (all_tasks_of s) (w_noninc _ _ _ Hn H)) as C6.
  pose proof (sum_over_le _ (wd_term s') (wd_term s) (spawned s) (fun t => wd_term_noninc _ _ _ t H)) as C7.
  pose proof (sum_over_le _ (gr_term s') (gr_term s) (spawned s) (fun t => gr_term_noninc _ _ _ t H)) as C8.
  apply cand_cases in Hc.
  destruct Hc as [Hl|[(t&o&Hin&->)|[(t&Hin&[(k&->&->)|(g&Hg&->)])|(r&->)]]].
  - cbn in Hl.
    destruct Hl as [<-|[<-|[<-|[<-|[<-|[<-|[<-|[<-|[<-|[<-|[<-|[]]]]]]]]]]]].
    + pose proof (w_main_strict _ _ _ H (or_introl (or_introl eq_refl))). lia.
    + pose proof (w_main_strict _ _ _ H (or_introl (or_intror (or_introl eq_refl)))). lia.
    + pose proof (w_main_strict _ _ _ H (or_introl (or_intror (or_intror (or_introl eq_refl))))). lia.
    + pose proof (w_main_strict _ _ _ H (or_introl (or_intror (or_intror (or_intror (or_introl eq_refl)))))). lia.
    + pose proof (swept_strict _ _ H). lia.
    + pose proof (ostopped_strict _ _ H). lia.
    + pose proof (w_act_strict _ _ _ H (or_introl eq_refl)). lia.
    + pose proof (w_act_strict _ _ _ H (or_intror (or_introl eq_refl))). lia.
    + pose proof (w_act_strict _ _ _ H (or_intror (or_intror (or_introl eq_refl)))). lia.
    + pose proof (w_act_strict _ _ _ H (or_intror (or_intror (or_intror (or_introl eq_refl))))). lia.
    + pose proof (w_act_strict _ _ _ H (or_intror (or_intror (or_intror (or_intror (or_introl eq_refl)))))). lia.
  - pose proof (sum_over_lt _ (fun t => w_phase (ph s' t)) (fun t => w_phase (ph s t)) (all_tasks_of s) t
                  (w_noninc _ _ _ Hn H) Hin (w_Finish_strict _ _ _ _ H)). lia.
  - pose proof (sum_over_lt _ (wd_term s') (wd_term s) (spawned s) (TKeepalive k)
                  (fun t => wd_term_noninc _ _ _ t H) Hin (wd_strict _ _ _ H)). lia.
  - pose proof (sum_over_lt _ (gr_term s') (gr_term s) (spawned s) t
                  (fun t => gr_term_noninc _ _ _ t H) Hin (gr_strict _ _ _ _ H Hg)). lia.
  - pose proof (w_main_strict _ _ _ H (or_intror (ex_intro _ r eq_refl))). lia.
Qed.

(* ------------------------------------------------------------------ how a phase can move in one step *)

Definition moves (p p' : phase) : bool :=
  match p, p' with
  | PAbsent, PAbsent | PAbsent, PRun => true
  | PWaitFlag, PWaitFlag | PWaitFlag, PRun | PWaitFlag, PCancelW => true
  | PRun, PRun | PRun, PEnding _ | PRun, PDone _ => true
  | PCancelW, PCancelW | PCancelW, PDone _ => true
  | PEnding o, PEnding o' => outcome_eqb o o'
  | PEnding _, PDone _ => true
  | PDone o, PDone o' => outcome_eqb o o'
  | _, _ => false
  end.

Lemma outcome_eqb_refl : forall o, outcome_eqb o o = true.
Proof. intros [|[]|]; cbn; auto; apply task_eqb_refl. Qed.

Lemma moves_refl : forall p, moves p p = true.
Proof. intros []; cbn; auto using outcome_eqb_refl. Qed.

Lemma moves_cancel_phase : forall t p, moves p (cancel_phase t p) = true.
Proof. intros t []; cbn; auto using outcome_eqb_refl. Qed.

Lemma moves_cancel_in : forall f ts t, moves (f t) (cancel_in f ts t) = true.
Proof. intros. destruct (cancel_in_cases f ts t) as [->| ->]; auto using moves_refl, moves_cancel_phase. Qed.

Lemma moves_upd : forall f x p t, moves (f x) p = true -> moves (f t) (upd f x p t) = true.
Proof. intros. destruct (upd_cases f x p t) as [[-> ->]|[_ ->]]; auto using moves_refl. Qed.

Lemma moves_cancel_roots : forall s s' t, cancel_roots s = Some s' -> moves (ph s t) (ph s' t) = true.
Proof.
  intros s s' t E. apply cancel_roots_spec in E. destruct E as (_&_&_&_&_&_&_&_&_&_&_&_&_&_&Hp).
  destruct (Hp t) as [->|[->|(->&Hx&->&_)]]; auto using moves_refl, moves_cancel_phase. rewrite Hx. reflexivity.
Qed.

Lemma moves_Finish : forall s t0 o s' t, step s (Finish t0 o) = Some s' -> moves (ph s t) (ph s' t) = true.
Proof.
  intros s t0 o s' t H. unfold step in H.
  destruct (negb _) eqn:Eok in H; [discriminate|]. apply negb_false_iff in Eok.
  assert (H1 : moves (ph s t) (upd (ph s) t0 (PDone o) t) = true).
  { apply moves_upd. destruct (ph s t0); try discriminate Eok; reflexivity. }
  destruct t0; try (injection H as <-; exact H1).
  destruct o; try (injection H as <-; exact H1).
  destruct (ph s (TWatcher w)) eqn:Ew; try (injection H as <-; exact H1).
  injection H as <-. cbn [ph set_ph].
  destruct (upd_cases (upd (ph s) (TWorker w n) (PDone (OErr e))) (TWatcher w) (PEnding (OErr (EOf (TWatcher w)))) t)
    as [[-> ->]|[_ ->]]; [rewrite Ew; reflexivity | exact H1].
Qed.

Lemma ph_moves : forall s l s', step s l = Some s' -> forall t, moves (ph s t) (ph s' t) = true.
Proof.
  intros s l s' H t.
  destruct l; try (eapply moves_Finish; eauto; fail);
    unfold step in H; inv_step H;
    unfold set_mn, set_hung, set_ph, set_act, add_grace; cbn [ph];
    try first [ apply moves_refl
              | apply moves_cancel_in
              | (eapply moves_cancel_roots; eauto; fail)
              | (apply moves_upd; match goal with E : ph s _ = _ |- _ => rewrite E; reflexivity end)
              | (destruct (ph s t); cbn; auto using outcome_eqb_refl; fail) ].
  (* Spawn *)
  apply moves_upd. unfold may_spawn in E. destruct (ph s t0); try reflexivity; rewrite ?andb_false_r in E; discriminate E.
Qed.

Lemma moves_cancel_seen : forall p p', moves p p' = true -> cancel_seen p = true -> cancel_seen p' = true.
Proof. intros [] [] H Hc; cbn in *; try discriminate; auto. Qed.

Definition dyn_ok (p : phase) : bool := match p with PRun | PEnding _ | PDone _ => true | _ => false end.
Lemma moves_dyn_ok : forall p p', moves p p' = true -> dyn_ok p = true -> dyn_ok p' = true.
Proof. intros [] [] H Hc; cbn in *; try discriminate; auto. Qed.

Lemma moves_present : forall p p', moves p p' = true -> p <> PAbsent -> p' <> PAbsent.
Proof. intros [] [] H Hc; cbn in *; try discriminate; auto; contradiction. Qed.

Lemma moves_done : forall p p', moves p p' = true -> is_done p = true -> is_done p' = true.
Proof. intros [] [] H Hc; cbn in *; try discriminate; auto. Qed.

Lemma cancel_seen_step : forall s l s' t, step s l = Some s' -> cancel_seen (ph s t) = true -> cancel_seen (ph s' t) = true.
Proof. intros. eapply moves_cancel_seen; eauto using ph_moves. Qed.

Lemma cancel_seen_cancel_phase : forall t p, p <> PAbsent -> cancel_seen (cancel_phase t p) = true.
Proof. intros t [] H; cbn; auto; contradiction. Qed.

(* ------------------------------------------------------------------ invariants of the reachable states *)

Definition is_dyn (t : task) : bool :=
  match t with TWatcher _ | TKeepalive _ | TWorker _ _ | TDaemon _ => true | _ => false end.

Definition I_static (s : state) : Prop := forall t, is_dyn t = false -> ph s t <> PAbsent.
Definition I_dyn (s : state) : Prop := forall t, In t (spawned s) -> is_dyn t = true /\ dyn_ok (ph s t) = true.
Definition I_asked (s : state) : Prop := forall d, In d (asked s) -> In (TDaemon d) (spawned s).
Definition I_ghung (s : state) : Prop :=
  mem_grace GHung (graces s) = true -> mn s = MStopHung \/ exists r, mn s = MReturned r.
Definition I_aband (s : state) : Prop :=
  forall d, mem_grace (GAbandon d) (graces s) = true -> mem_nat d (abandoned s) = true.
Definition I_hung_incl (s : state) : Prop := incl (hung s) (TAuth :: TWaiter :: spawned s).
Definition I_orch (s : state) : Prop :=
  ostopped s = true -> forall t, In t (spawned s) -> is_ensemble t = true -> cancel_seen (ph s t) = true.

Lemma I_static_step : forall s l s', I_static s -> step s l = Some s' -> I_static s'.
Proof. intros s l s' Hi H t Ht. eapply moves_present; eauto using ph_moves. Qed.

Lemma spawn_inv : forall s t b s', step s (Spawn t b) = Some s' ->
  may_spawn s t b = true /\ spawned s' = t :: spawned s /\ ph s' = upd (ph s) t PRun /\
  mn s' = mn s /\ act s' = act s /\ ostopped s' = ostopped s /\ asked s' = asked s /\ graces s' = graces s /\
  abandoned s' = abandoned s /\ hung s' = hung s /\ swept s' = swept s /\ withdrawn s' = withdrawn s.
Proof. intros s t b s' H. unfold step in H. destruct (may_spawn s t b) eqn:E; [|discriminate]. injection H as <-. cbn. tauto. Qed.

Lemma may_spawn_dyn : forall s t b, may_spawn s t b = true -> is_dyn t = true /\ ph s t = PAbsent.
Proof.
  intros s t b H. unfold may_spawn in H. apply andb_true_iff in H as [H Hk]. apply andb_true_iff in H as [_ Hp].
  split; [destruct t; try reflexivity; discriminate Hk | destruct (ph s t); try discriminate Hp; reflexivity].
Qed.

Lemma label_spawn_dec : forall l, (forall t b, l <> Spawn t b) \/ exists t b, l = Spawn t b.
Proof. intros l. destruct l; try (left; intros ? ? Hx; discriminate Hx). right; eauto. Qed.

Lemma I_dyn_step : forall s l s', I_dyn s -> step s l = Some s' -> I_dyn s'.
Proof.
  intros s l s' Hi H t Hin. destruct (label_spawn_dec l) as [Hn|(t0&b&->)].
  - rewrite (spawned_frame _ _ _ Hn H) in Hin. destruct (Hi t Hin) as [Hd Hp]. split; [exact Hd|].
    eapply moves_dyn_ok; eauto using ph_moves.
  - destruct (spawn_inv _ _ _ _ H) as (Hm&Es&Ep&_). destruct (may_spawn_dyn _ _ _ Hm) as [Hd Ha].
    rewrite Es in Hin. rewrite Ep. destruct Hin as [<-|Hin].
    + rewrite upd_same. auto.
    + destruct (Hi t Hin) as [Hd' Hp']. split; [exact Hd'|]. rewrite upd_other; [exact Hp'|].
      intros ->. rewrite Ha in Hp'. discriminate.
Qed.

Lemma I_asked_step : forall s l s', I_asked s -> step s l = Some s' -> I_asked s'.
Proof.
  intros s l s' Hi H d Hin. unfold I_asked in Hi.
  destruct l; unfold step in H; inv_step H; use_cancel_spec; cbn in *;
    repeat match goal with Hq : asked ?x = _ |- _ => rewrite Hq in * end;
    repeat match goal with Hq : spawned ?x = _ |- _ => rewrite Hq in * end;
    auto.
  (* Sweep *)
  apply in_app_or in Hin as [Hin|Hin]; [|auto].
  apply in_flat_map in Hin as (t&Ht&Hd). destruct t; try (destruct Hd; fail).
  destruct (is_live (ph s (TDaemon d0))); [|destruct Hd]. destruct Hd as [<-|[]]. exact Ht.
Qed.

Lemma I_ghung_step : forall s l s', I_ghung s -> step s l = Some s' -> I_ghung s'.
Proof.
  intros s l s' Hi H Hg. unfold I_ghung in Hi.
  destruct (graces_grows _ _ _ H) as [E|(g&->&E&Em)].
  - rewrite E in Hg. specialize (Hi Hg).
    destruct l; unfold step in H; inv_step H; use_cancel_spec; cbn in *;
      repeat match goal with Hq : mn ?x = _ |- _ => rewrite Hq in * end;
      try (destruct Hi as [Hi|[r Hi]]; congruence); eauto.
  - rewrite E in Hg. unfold mem_grace in Hg. cbn in Hg. apply orb_true_iff in Hg as [Hg|Hg].
    + destruct g; try discriminate Hg. unfold step in H. inv_step H. cbn. auto.
    + specialize (Hi Hg). unfold step in H. rewrite Em in H.
      destruct g; inv_step H; cbn in *; try (destruct Hi as [Hi|[r Hi]]; congruence); auto.
Qed.

Lemma I_aband_step : forall s l s', I_aband s -> step s l = Some s' -> I_aband s'.
Proof.
  intros s l s' Hi H d Hg. unfold I_aband in Hi.
  destruct (graces_grows _ _ _ H) as [E|(g&->&E&Em)].
  - rewrite E in Hg. specialize (Hi d Hg).
    destruct l; unfold step in H; inv_step H; use_cancel_spec; cbn in *;
      repeat match goal with Hq : abandoned ?x = _ |- _ => rewrite Hq in * end; auto;
      try (unfold mem_nat in *; cbn; rewrite Hi; apply orb_true_r).
  - rewrite E in Hg. unfold mem_grace in Hg. cbn in Hg.
    unfold step in H. rewrite Em in H.
    destruct g; inv_step H; cbn in *; try (apply Hi; exact Hg).
    apply orb_true_iff in Hg as [Hg|Hg].
    + rewrite Hg. reflexivity.
    + apply orb_true_iff. right. apply Hi. exact Hg.
Qed.

Lemma live_tasks_incl : forall s, incl (live_tasks s) (TAuth :: TWaiter :: spawned s).
Proof. intros s t H. unfold live_tasks in H. apply filter_In in H as [H _]. exact H. Qed.

Lemma I_hung_incl_step : forall s l s', I_hung_incl s -> step s l = Some s' -> I_hung_incl s'.
Proof.
  intros s l s' Hi H. unfold I_hung_incl in *.
  destruct l; unfold step in H; inv_step H; use_cancel_spec; cbn in *;
    repeat match goal with Hq : hung ?x = _ |- _ => rewrite Hq in * end;
    repeat match goal with Hq : spawned ?x = _ |- _ => rewrite Hq in * end;
    auto; try (apply live_tasks_incl).
  (* Spawn *)
  intros x Hx. specialize (Hi x Hx). cbn in *. tauto.
Qed.

Lemma I_orch_step : forall s l s', I_dyn s -> I_orch s -> step s l = Some s' -> I_orch s'.
Proof.
  intros s l s' Hd Hi H Ho t Hin He. unfold I_orch in Hi.
  destruct (ostopped s) eqn:Eo.
  - (* already stopped: no ensemble task is created any more *)
    destruct (label_spawn_dec l) as [Hn|(t0&b&->)].
    + rewrite (spawned_frame _ _ _ Hn H) in Hin. eapply cancel_seen_step; eauto.
    + destruct (spawn_inv _ _ _ _ H) as (Hm&Es&Ep&_). rewrite Es in Hin. destruct Hin as [<-|Hin].
      * exfalso. unfold may_spawn in Hm. apply andb_true_iff in Hm as [_ Hk]. rewrite Eo in Hk.
        destruct t0; try discriminate He; destruct b as [[]| | | | | |]; discriminate Hk.
      * eapply cancel_seen_step; eauto.
  - (* becomes stopped now: OrchStop *)
    assert (l = OrchStop).
    { destruct l; auto; exfalso; unfold step in H; inv_step H; use_cancel_spec; cbn in *; congruence. }
    subst l. unfold step in H. inv_step H. cbn in *.
    destruct (Hd t Hin) as [_ Hp].
    unfold cancel_in. assert (Hm : mem_task t (filter is_ensemble (spawned s)) = true).
    { unfold mem_task. apply existsb_exists. exists t. split; [apply filter_In; auto | apply task_eqb_refl]. }
    rewrite Hm. apply cancel_seen_cancel_phase. intros Ea. rewrite Ea in Hp. discriminate.
Qed.

(* ------------------------------------------------------------------ the startup/cleanup task under cancellation, exactly *)

Lemma mem_task_In : forall t l, mem_task t l = true -> In t l.
Proof. intros t l H. unfold mem_task in H. apply existsb_exists in H as (x&Hx&E). apply task_eqb_eq in E. now subst. Qed.

Lemma cancel_in_not_in : forall f ts t, ~ In t ts -> cancel_in f ts t = f t.
Proof. intros f ts t H. unfold cancel_in. destruct (mem_task t ts) eqn:E; [exfalso; apply H; now apply mem_task_In | reflexivity]. Qed.

Lemma cancel_in_in : forall f ts t, In t ts -> cancel_in f ts t = cancel_phase t (f t).
Proof.
  intros f ts t H. unfold cancel_in. assert (E : mem_task t ts = true).
  { unfold mem_task. apply existsb_exists. exists t. split; [exact H | apply task_eqb_refl]. }
  now rewrite E.
Qed.

Definition act_cancelled (s s' : state) : Prop :=
  match ph s (TRoot RAct) with
  | PRun =>
      match act s with
      | AStartup | AStartupBad | AWaitRoots =>
          act s' = AStopCore (Some OCancelled) /\ ph s' (TRoot RAct) = PRun /\ ph s' TAuth = cancel_phase TAuth (ph s TAuth)
      | AFlag => False
      | ASleep => act s' = AWaitRoots /\ ph s' (TRoot RAct) = PRun /\ ph s' TAuth = ph s TAuth
      | AStopCore _ | ACleanup | ACleanupRun =>
          act s' = AEnd /\ ph s' (TRoot RAct) = PDone OCancelled /\ ph s' TAuth = ph s TAuth
      | AEnd => act s' = AEnd /\ ph s' (TRoot RAct) = PRun /\ ph s' TAuth = ph s TAuth
      end
  | p => act s' = act s /\ ph s' (TRoot RAct) = p /\ ph s' TAuth = ph s TAuth
  end.

Lemma cancel_roots_exact : forall s s', cancel_roots s = Some s' ->
  (forall t, In t other_roots -> ph s' t = cancel_phase t (ph s t)) /\ act_cancelled s s'.
Proof.
  intros s s' E. unfold cancel_roots, cancel_act in E. unfold act_cancelled.
  assert (HA : ph (set_ph s (cancel_in (ph s) other_roots)) (TRoot RAct) = ph s (TRoot RAct)) by reflexivity.
  rewrite HA in E. change (act (set_ph s (cancel_in (ph s) other_roots))) with (act s) in E.
  destruct (ph s (TRoot RAct)) eqn:EA; try (injection E as <-; split; [|repeat split; auto];
    intros t Hin; cbn in Hin; repeat (destruct Hin as [<-|Hin]; [reflexivity|]); destruct Hin).
  destruct (act s) eqn:Ea; try discriminate E; injection E as <-;
    (split; [intros t Hin; cbn in Hin; repeat (destruct Hin as [<-|Hin]; [reflexivity|]); destruct Hin
            | repeat split; auto]).
Qed.

Definition I_act (s : state) : Prop :=
  (ph s (TRoot RAct) = PRun \/ is_done (ph s (TRoot RAct)) = true) /\
  (act s = AEnd <-> is_done (ph s (TRoot RAct)) = true).

Lemma not_dyn_not_spawned : forall s t, I_dyn s -> is_dyn t = false -> ~ In t (spawned s).
Proof. intros s t Hd Ht Hin. destruct (Hd t Hin) as [E _]. congruence. Qed.

Lemma act_not_in_pool : forall s, I_dyn s -> ~ In (TRoot RAct) (TAuth :: TWaiter :: spawned s).
Proof.
  intros s Hd [E|[E|Hin]]; [discriminate E | discriminate E | exact (not_dyn_not_spawned s (TRoot RAct) Hd eq_refl Hin)].
Qed.

(* how (act, phase of the startup/cleanup task, phase of the core task) can change in one step *)
Definition act_rel (s s' : state) : Prop :=
  (act s' = act s /\ ph s' (TRoot RAct) = ph s (TRoot RAct)) \/
  act_cancelled s s' \/
  (ph s (TRoot RAct) = PRun /\ ph s' (TRoot RAct) = PRun /\ w_act (act s') < w_act (act s) /\ act s' <> AEnd /\
   (forall p, act s' = AStopCore p -> ph s' TAuth = cancel_phase TAuth (ph s TAuth))) \/
  (ph s (TRoot RAct) = PRun /\ act s' = AEnd /\ is_done (ph s' (TRoot RAct)) = true).

Lemma Finish_act : forall s t o s', I_act s -> step s (Finish t o) = Some s' ->
  act s' = act s /\ ph s' (TRoot RAct) = ph s (TRoot RAct).
Proof.
  intros s t o s' [Hi _] H. unfold step in H.
  destruct (negb _) eqn:Eok in H; [discriminate|]. apply negb_false_iff in Eok.
  assert (Hne : t <> TRoot RAct).
  { intros ->. destruct Hi as [Hi|Hi]; [rewrite Hi in Eok; rewrite andb_false_r in Eok; discriminate|].
    destruct (ph s (TRoot RAct)); try discriminate Hi. discriminate Eok. }
  assert (H1 : upd (ph s) t (PDone o) (TRoot RAct) = ph s (TRoot RAct)) by (apply upd_other; congruence).
  destruct t; try (injection H as <-; split; [reflexivity | exact H1]).
  destruct o; try (injection H as <-; split; [reflexivity | exact H1]).
  destruct (ph s (TWatcher w)); injection H as <-; (split; [reflexivity | exact H1]).
Qed.

Lemma act_rel_step : forall s l s', I_dyn s -> I_hung_incl s -> I_act s -> step s l = Some s' -> act_rel s s'.
Proof.
  intros s l s' Hd Hh Hia H. unfold act_rel.
  assert (Hpool : forall ts, incl ts (TAuth :: TWaiter :: spawned s) -> cancel_in (ph s) ts (TRoot RAct) = ph s (TRoot RAct)).
  { intros ts Hinc. apply cancel_in_not_in. intros Hx. eapply act_not_in_pool; eauto. }
  assert (Hfil : forall f, cancel_in (ph s) (filter f (spawned s)) (TRoot RAct) = ph s (TRoot RAct)).
  { intros f. apply Hpool. intros x Hx. apply filter_In in Hx as [Hx _]. cbn. auto. }
  destruct l; try (left; eapply Finish_act; eauto; fail); unfold step in H.
  all: try (inv_step H; unfold set_mn, set_hung, set_ph, set_act, add_grace; cbn [ph act];
            rewrite ?Hfil, ?(Hpool _ Hh), ?(Hpool _ (live_tasks_incl s));
            first [ (left; split; reflexivity)
                  | (match goal with E : cancel_roots _ = Some _ |- _ =>
                       right; left; apply cancel_roots_exact in E; destruct E as [_ E]; exact E end)
                  | idtac ]).
  all: try (right; right; left; cbn [w_act]; repeat split; try reflexivity; try assumption; try lia; try discriminate;
            try (intros p Hp; first [discriminate Hp | reflexivity]); fail).
  all: try (right; right; right; rewrite ?upd_same; cbn; repeat split; auto; fail).
  all: try (left; split; assumption).
  - (* Flag *)
    assert (HR : ph s (TRoot RAct) = PRun).
    { destruct Hia as [[Hr|Hr] [_ Hb]]; [exact Hr|]. specialize (Hb Hr). congruence. }
    right; right; left. rewrite HR. cbn [w_act]. repeat split; try lia; try discriminate.
  - (* Spawn *)
    left. split; [reflexivity|]. apply upd_other. intros <-. destruct (may_spawn_dyn _ _ _ E) as [Hx _]. discriminate Hx.
Qed.

Lemma I_act_step : forall s l s', I_dyn s -> I_hung_incl s -> I_act s -> step s l = Some s' -> I_act s'.
Proof.
  intros s l s' Hd Hh Hia H. pose proof (act_rel_step _ _ _ Hd Hh Hia H) as Hr.
  destruct Hia as [Hi1 [Hi2 Hi3]]. unfold I_act.
  destruct Hr as [[Ea Ep]|[Hc|[(Hp&Hp'&Hw&Hne&_)|(Hp&Ha&Hdn)]]].
  - rewrite Ea, Ep. tauto.
  - unfold act_cancelled in Hc. destruct (ph s (TRoot RAct)) eqn:EA.
    all: try (destruct Hc as (Ea&Ep&_); rewrite Ea, Ep; destruct Hi1 as [Hx|Hx]; try discriminate Hx; tauto).
    destruct (act s) eqn:Eact; try contradiction; destruct Hc as (Ea&Ep&_); rewrite Ea, Ep; cbn;
      try (split; [auto | split; intros Hx; discriminate Hx]);
      try (split; [auto | split; auto]).
  - rewrite Hp'. split; [auto|]. split; intros Hx; [contradiction | discriminate Hx].
  - rewrite Ha. split; [auto|]. split; auto.
Qed.


Definition I_core (s : state) : Prop :=
  ph s (TRoot RAct) = PRun -> forall p, act s = AStopCore p -> cancel_seen (ph s TAuth) = true.

Lemma I_core_step : forall s l s', I_static s -> I_dyn s -> I_hung_incl s -> I_act s -> I_core s ->
  step s l = Some s' -> I_core s'.
Proof.
  intros s l s' Hs Hd Hh Hia Hi H Hp' p Ha'. unfold I_core in Hi.
  assert (Hcp : cancel_seen (cancel_phase TAuth (ph s TAuth)) = true) by (apply cancel_seen_cancel_phase, Hs; reflexivity).
  destruct (act_rel_step _ _ _ Hd Hh Hia H) as [[Ea Ep]|[Hc|[(Hp&_&_&_&Hk)|(_&Ha&_)]]].
  - rewrite Ea in Ha'. rewrite Ep in Hp'. eapply cancel_seen_step; eauto.
  - unfold act_cancelled in Hc. destruct (ph s (TRoot RAct)) eqn:EA;
      try (destruct Hc as (_&Ep&_); rewrite Ep in Hp'; discriminate Hp').
    destruct (act s) eqn:Eact; try contradiction; destruct Hc as (Ea&Ep&Et);
      try (rewrite Ea in Ha'; discriminate Ha'); try (rewrite Ep in Hp'; discriminate Hp').
    all: rewrite Et; exact Hcp.
  - rewrite (Hk p Ha'). exact Hcp.
  - rewrite Ha in Ha'. discriminate Ha'.
Qed.

Definition late (a : aphase) : Prop := a = AWaitRoots \/ (exists p, a = AStopCore p) \/ a = ACleanup \/ a = ACleanupRun.
Definition act_late (s : state) : Prop :=
  is_done (ph s (TRoot RAct)) = true \/ (ph s (TRoot RAct) = PRun /\ late (act s)).
Definition I_stop (s : state) : Prop :=
  mn s = MStopRoots \/ mn s = MCStopRoots ->
  (forall t, In t other_roots -> cancel_seen (ph s t) = true) /\ act_late s.

Lemma other_roots_static : forall t, In t other_roots -> is_dyn t = false.
Proof. intros t H. cbn in H. repeat (destruct H as [<-|H]; [reflexivity|]). destruct H. Qed.

Lemma late_down : forall a a', late a -> w_act a' < w_act a -> a' <> AEnd -> late a'.
Proof.
  intros a a' Hl Hw Hne. unfold late in *.
  destruct Hl as [->|[[p ->]|[->| ->]]]; destruct a'; cbn in Hw; try lia; try contradiction; eauto.
Qed.

Lemma act_late_step : forall s l s', I_dyn s -> I_hung_incl s -> I_act s -> act_late s -> step s l = Some s' -> act_late s'.
Proof.
  intros s l s' Hd Hh Hia Hl H. unfold act_late in *.
  destruct (act_rel_step _ _ _ Hd Hh Hia H) as [[Ea Ep]|[Hc|[(Hp&Hp'&Hw&Hne&_)|(_&_&Hdn)]]].
  - rewrite Ea, Ep. exact Hl.
  - unfold act_cancelled in Hc. destruct Hl as [Hdn|[Hr Hl]].
    + destruct (ph s (TRoot RAct)); try discriminate Hdn. destruct Hc as (_&Ep&_). left. now rewrite Ep.
    + rewrite Hr in Hc. unfold late in *.
      destruct Hl as [Ea|[[p Ea]|[Ea|Ea]]]; rewrite Ea in Hc; destruct Hc as (Ea'&Ep&_); rewrite Ea', Ep; cbn; eauto 6.
  - right. split; [exact Hp'|]. destruct Hl as [Hdn|[_ Hl]]; [rewrite Hp in Hdn; discriminate|].
    eapply late_down; eauto.
  - left. exact Hdn.
Qed.

Lemma mn_stop_enter : forall s l s', step s l = Some s' -> mn s' = MStopRoots \/ mn s' = MCStopRoots ->
  mn s = mn s' \/ (mn s = MWait /\ exists s1, cancel_roots s = Some s1 /\ ph s' = ph s1 /\ act s' = act s1).
Proof.
  intros s l s' H Hm.
  destruct l; unfold step in H; inv_step H; cbn in *;
    try (destruct Hm as [Hm|Hm]; discriminate Hm); try (left; reflexivity); try (left; congruence);
    try (right; split; [reflexivity | eexists; repeat split; eauto]).
Qed.

Lemma I_stop_step : forall s l s', I_static s -> I_dyn s -> I_hung_incl s -> I_act s -> I_stop s ->
  step s l = Some s' -> I_stop s'.
Proof.
  intros s l s' Hs Hd Hh Hia Hi H Hm. unfold I_stop in Hi.
  destruct (mn_stop_enter _ _ _ H Hm) as [Em|(Em&s1&Ec&Ep&Ea)].
  - rewrite <- Em in Hm. destruct (Hi Hm) as [Hr Hl]. split.
    + intros t Hin. eapply cancel_seen_step; eauto.
    + eapply act_late_step; eauto.
  - destruct (cancel_roots_exact _ _ Ec) as [Hr Hc]. split.
    + intros t Hin. rewrite Ep, (Hr t Hin). apply cancel_seen_cancel_phase, Hs, other_roots_static, Hin.
    + unfold act_late, late. rewrite Ep, Ea. unfold act_cancelled in Hc. destruct Hia as [Hi1 [Hi2 Hi3]].
      destruct (ph s (TRoot RAct)) eqn:EA; try (destruct Hi1 as [Hx|Hx]; discriminate Hx).
      * destruct (act s) eqn:Eact; try contradiction; destruct Hc as (Ea'&Ep'&_); rewrite Ea', Ep'; cbn; eauto 7.
      * destruct Hc as (_&Ep'&_). left. rewrite Ep'. reflexivity.
Qed.

Definition I_hungc (s : state) : Prop :=
  mn s = MStopHung \/ mn s = MCStopHung -> forall h, In h (hung s) -> cancel_seen (ph s h) = true.

Lemma pool_present : forall s t, I_static s -> I_dyn s -> In t (TAuth :: TWaiter :: spawned s) -> ph s t <> PAbsent.
Proof.
  intros s t Hs Hd [<-|[<-|Hin]]; try (apply Hs; reflexivity).
  destruct (Hd t Hin) as [_ Hp]. intros E. rewrite E in Hp. discriminate.
Qed.

Lemma mn_hung_enter : forall s l s', step s l = Some s' -> mn s' = MStopHung \/ mn s' = MCStopHung ->
  (mn s = mn s' /\ hung s' = hung s) \/
  (hung s' = hung s /\ all_done (ph s) (hung s) = true) \/
  (hung s' = hung s /\ ph s' = cancel_in (ph s) (hung s)) \/
  (hung s' = live_tasks s /\ ph s' = cancel_in (ph s) (live_tasks s)).
Proof.
  intros s l s' H Hm.
  destruct l; unfold step in H; inv_step H; use_cancel_spec; cbn in *;
    try (destruct Hm as [Hm|Hm]; discriminate Hm);
    try (left; split; [reflexivity | reflexivity]);
    try (left; split; congruence);
    try (right; left; split; [reflexivity | assumption]);
    try (right; left; split; reflexivity);
    try (right; right; left; split; reflexivity);
    try (right; right; right; split; reflexivity).
Qed.

Lemma I_hungc_step : forall s l s', I_static s -> I_dyn s -> I_hung_incl s -> I_hungc s -> step s l = Some s' -> I_hungc s'.
Proof.
  intros s l s' Hs Hd Hh Hi H Hm h Hin. unfold I_hungc in Hi.
  assert (Hcin : forall ts, In h ts -> incl ts (TAuth :: TWaiter :: spawned s) -> cancel_seen (cancel_in (ph s) ts h) = true).
  { intros ts Hx Hinc. rewrite (cancel_in_in _ _ _ Hx). apply cancel_seen_cancel_phase. eapply pool_present; eauto. }
  destruct (mn_hung_enter _ _ _ H Hm) as [[Em Eh]|[[Eh Ha]|[[Eh Ep]|[Eh Ep]]]]; rewrite Eh in Hin.
  - rewrite <- Em in Hm. eapply cancel_seen_step; eauto.
  - eapply cancel_seen_step; eauto. unfold all_done in Ha. rewrite forallb_forall in Ha. specialize (Ha h Hin).
    destruct (ph s h); try discriminate Ha. reflexivity.
  - rewrite Ep. apply Hcin; auto.
  - rewrite Ep. apply Hcin; auto using live_tasks_incl.
Qed.

(* ------------------------------------------------------------------ all invariants together *)

Definition Live (s : state) : Prop :=
  I_static s /\ I_dyn s /\ I_asked s /\ I_ghung s /\ I_aband s /\ I_hung_incl s /\ I_orch s /\ I_act s /\ I_core s /\
  I_stop s /\ I_hungc s.

Lemma Live_init : Live init.
Proof.
  unfold Live.
  refine (conj _ (conj _ (conj _ (conj _ (conj _ (conj _ (conj _ (conj _ (conj _ (conj _ _)))))))))).
  - intros t Ht. destruct t as [[]| | | | | |]; cbn in *; congruence.
  - intros t [].
  - intros d [].
  - intros Hx; discriminate Hx.
  - intros d Hx; discriminate Hx.
  - intros x [].
  - intros Hx; discriminate Hx.
  - split; [left; reflexivity | split; intros Hx; discriminate Hx].
  - intros _ p Hx; discriminate Hx.
  - intros [Hx|Hx]; discriminate Hx.
  - intros [Hx|Hx]; discriminate Hx.
Qed.

Lemma Live_step : forall s l s', Live s -> step s l = Some s' -> Live s'.
Proof.
  intros s l s' (A&B&C&D&E&F&G&Hh&I&J&K) H. unfold Live.
  refine (conj _ (conj _ (conj _ (conj _ (conj _ (conj _ (conj _ (conj _ (conj _ (conj _ _)))))))))).
  - eapply I_static_step; eauto.
  - eapply I_dyn_step; eauto.
  - eapply I_asked_step; eauto.
  - eapply I_ghung_step; eauto.
  - eapply I_aband_step; eauto.
  - eapply I_hung_incl_step; eauto.
  - eapply I_orch_step; eauto.
  - eapply I_act_step; eauto.
  - eapply I_core_step; eauto.
  - eapply I_stop_step; eauto.
  - eapply I_hungc_step; eauto.
Qed.

Lemma Live_reach : forall tr s, run init tr = Some s -> Live s.
Proof. intros tr s H. eapply (run_inv Live); eauto using Live_step, Live_init. Qed.

(* ------------------------------------------------------------------ (b) progress *)

Definition can_step (s : state) : Prop := exists l s', In l (internal_candidates s) /\ step s l = Some s'.

Lemma cand_fixed : forall s l,
  In l [MainStop; RootsStopped; HungDone; GraceTimeout GHung; Sweep; OrchStop; ActRootsGone; CoreStopped;
        CleanupBegin; CleanupOk; Flag] -> In l (internal_candidates s).
Proof. intros s l H. unfold internal_candidates. apply in_or_app. left. exact H. Qed.

Lemma cand_finish : forall s t l, In t (all_tasks_of s) ->
  In l (match ph s t with
        | PEnding o => [Finish t o]
        | PCancelW => [Finish t OCancelled]
        | PRun => if is_daemon t then [] else [Finish t OOk]
        | _ => [] end) -> In l (internal_candidates s).
Proof.
  intros s t l Hin Hl. unfold internal_candidates. apply in_or_app. right. apply in_or_app. left.
  apply in_flat_map. exists t. split; [exact Hin | exact Hl].
Qed.

Lemma cand_spawned : forall s t l, In t (spawned s) ->
  In l (match t with
        | TKeepalive k => [Withdraw k]
        | TWatcher w => [GraceTimeout (GExit w)]
        | TDaemon d => [GraceTimeout (GBackoff d); GraceTimeout (GAbandon d)]
        | _ => [] end) -> In l (internal_candidates s).
Proof.
  intros s t l Hin Hl. unfold internal_candidates. apply in_or_app. right. apply in_or_app. right. apply in_or_app. left.
  apply in_flat_map. exists t. split; [exact Hin | exact Hl].
Qed.

Lemma cand_return : forall s l,
  In l ([Return ROk; Return RCancelled] ++
        flat_map (fun t => match failed_with (ph s t) with Some e => [Return (RErr e)] | None => [] end) (root_tasks ++ hung s)) ->
  In l (internal_candidates s).
Proof.
  intros s l Hl. unfold internal_candidates. apply in_or_app. right. apply in_or_app. right. apply in_or_app. right. exact Hl.
Qed.

Lemma pool_in_all : forall s t, In t (TAuth :: TWaiter :: spawned s) -> In t (all_tasks_of s).
Proof. intros s t H. unfold all_tasks_of. apply in_or_app. right. exact H. Qed.

Lemma root_in_all : forall s t, In t root_tasks -> In t (all_tasks_of s).
Proof. intros s t H. unfold all_tasks_of. apply in_or_app. left. exact H. Qed.

Lemma fin_pending : forall s t o, ph s t = PEnding o -> finish_ready s t o = true -> exists s', step s (Finish t o) = Some s'.
Proof.
  intros s t o Hp Hr. unfold step. rewrite Hp, Hr, outcome_eqb_refl. cbn [orb andb negb].
  destruct t; try (eexists; reflexivity). destruct o; try (eexists; reflexivity).
  destruct (ph s (TWatcher w)); eexists; reflexivity.
Qed.

Lemma fin_cancelw : forall s t, ph s t = PCancelW -> exists s', step s (Finish t OCancelled) = Some s'.
Proof. intros s t Hp. unfold step. rewrite Hp. cbn. destruct t; eexists; reflexivity. Qed.

Lemma fin_worker_run : forall s w n, ph s (TWorker w n) = PRun -> exists s', step s (Finish (TWorker w n) OOk) = Some s'.
Proof. intros s w n Hp. unfold step. rewrite Hp. cbn. eexists; reflexivity. Qed.

Lemma not_all_done : forall f ts, all_done f ts = false -> exists t, In t ts /\ is_done (f t) = false.
Proof.
  intros f ts H. unfold all_done in H. induction ts as [|a ts IH]; cbn in H; [discriminate|].
  destruct (is_done (f a)) eqn:E.
  - destruct (IH H) as (t&Hin&Ht). exists t. split; [right; exact Hin | exact Ht].
  - exists a. split; [left; reflexivity | exact E].
Qed.

Lemma seen_not_done : forall p, cancel_seen p = true -> is_done p = false -> p = PCancelW \/ exists o, p = PEnding o.
Proof. intros [] H1 H2; try discriminate; eauto. Qed.

(* a cancelled, not yet finished task created at run time can be brought forward *)
Lemma unblock_dyn : forall s t o, Live s -> In t (spawned s) -> ph s t = PEnding o -> can_step s.
Proof.
  intros s t o HL Hin Hp. destruct HL as (_&Hd&_). destruct (Hd t Hin) as [Hdyn _]. unfold can_step.
  assert (Hall : In t (all_tasks_of s)) by (apply pool_in_all; cbn; auto).
  assert (Hfin : finish_ready s t o = true -> exists l s', In l (internal_candidates s) /\ step s l = Some s').
  { intros Hr. destruct (fin_pending _ _ _ Hp Hr) as (s'&Hs). exists (Finish t o), s'. split; [|exact Hs].
    eapply cand_finish; eauto. rewrite Hp. left. reflexivity. }
  destruct t; try discriminate Hdyn.
  - (* watcher: its workers first *)
    destruct (all_done (ph s) (filter (is_worker_of w) (spawned s))) eqn:Ea; [apply Hfin; exact Ea|].
    destruct (not_all_done _ _ Ea) as (x&Hx&Hnd). apply filter_In in Hx as [Hxs Hxw].
    destruct x; try discriminate Hxw. destruct (Hd _ Hxs) as [_ Hok].
    assert (Hxa : In (TWorker w0 n) (all_tasks_of s)) by (apply pool_in_all; cbn; auto).
    destruct (ph s (TWorker w0 n)) eqn:Ex; try discriminate Hok; try discriminate Hnd.
    + destruct (fin_worker_run _ _ _ Ex) as (s'&Hs). exists (Finish (TWorker w0 n) OOk), s'. split; [|exact Hs].
      eapply cand_finish; eauto. rewrite Ex. left. reflexivity.
    + destruct (fin_pending _ _ _ Ex eq_refl) as (s'&Hs). exists (Finish (TWorker w0 n) o0), s'. split; [|exact Hs].
      eapply cand_finish; eauto. rewrite Ex. left. reflexivity.
  - (* keep-alive: the final touch first *)
    destruct (mem_nat k (withdrawn s)) eqn:Ew; [apply Hfin; exact Ew|].
    exists (Withdraw k). eexists. split; [eapply cand_spawned; eauto; left; reflexivity|].
    unfold step. rewrite Hp, Ew. reflexivity.
  - apply Hfin. reflexivity.
  - apply Hfin. reflexivity.
Qed.

Lemma unblock_pool : forall s t, Live s -> In t (TAuth :: TWaiter :: spawned s) ->
  cancel_seen (ph s t) = true -> is_done (ph s t) = false -> can_step s.
Proof.
  intros s t HL Hin Hc Hnd. pose proof HL as (_&Hd&_).
  destruct (seen_not_done _ Hc Hnd) as [Hp|[o Hp]].
  - destruct (fin_cancelw _ _ Hp) as (s'&Hs). exists (Finish t OCancelled), s'. split; [|exact Hs].
    eapply (cand_finish s t); [apply pool_in_all; exact Hin|]. rewrite Hp. left. reflexivity.
  - destruct Hin as [<-|[<-|Hin]].
    + destruct (fin_pending _ _ _ Hp eq_refl) as (s'&Hs). exists (Finish TAuth o), s'. split; [|exact Hs].
      eapply (cand_finish s TAuth); [apply pool_in_all; cbn; auto|]. rewrite Hp. left. reflexivity.
    + destruct (fin_pending _ _ _ Hp eq_refl) as (s'&Hs). exists (Finish TWaiter o), s'. split; [|exact Hs].
      eapply (cand_finish s TWaiter); [apply pool_in_all; cbn; auto|]. rewrite Hp. left. reflexivity.
    + eapply unblock_dyn; eauto.
Qed.

Lemma forallb_false_ex : forall A (f : A -> bool) l, forallb f l = false -> exists x, In x l /\ f x = false.
Proof.
  intros A f l H. induction l as [|a l IH]; cbn in H; [discriminate|].
  destruct (f a) eqn:E.
  - destruct (IH H) as (x&Hin&Hx). exists x. split; [right; exact Hin | exact Hx].
  - exists a. split; [left; reflexivity | exact E].
Qed.

Lemma In_mem_nat : forall d l, In d l -> mem_nat d l = true.
Proof. intros d l H. unfold mem_nat. apply existsb_exists. exists d. split; [exact H | apply Nat.eqb_refl]. Qed.

Lemma other_in_roots : forall t, In t other_roots -> In t root_tasks.
Proof. intros t H. unfold other_roots in H. apply filter_In in H as [H _]. exact H. Qed.

Lemma unblock_root : forall s t, Live s -> In t other_roots ->
  cancel_seen (ph s t) = true -> is_done (ph s t) = false -> can_step s.
Proof.
  intros s t HL Hin Hc Hnd. pose proof HL as (_&Hd&Hask&_&Hab&_&Horch&_).
  assert (Hall : In t (all_tasks_of s)) by (apply root_in_all, other_in_roots, Hin).
  destruct (seen_not_done _ Hc Hnd) as [Hp|[o Hp]].
  { destruct (fin_cancelw _ _ Hp) as (s'&Hs). exists (Finish t OCancelled), s'. split; [|exact Hs].
    eapply (cand_finish s t); [exact Hall|]. rewrite Hp. left. reflexivity. }
  assert (Hfin : finish_ready s t o = true -> can_step s).
  { intros Hr. destruct (fin_pending _ _ _ Hp Hr) as (s'&Hs). exists (Finish t o), s'. split; [|exact Hs].
    eapply (cand_finish s t); [exact Hall|]. rewrite Hp. left. reflexivity. }
  cbn in Hin.
  destruct Hin as [<-|[<-|[<-|[<-|[<-|[<-|[<-|[<-|[<-|[<-|[<-|[]]]]]]]]]]]]; try (apply Hfin; reflexivity).
  - (* daemon killer *)
    destruct (swept s) eqn:Esw.
    + destruct (forallb (fun d => is_done (ph s (TDaemon d)) || mem_nat d (abandoned s)) (asked s)) eqn:Ef.
      * apply Hfin. cbn. rewrite Esw, Ef. reflexivity.
      * destruct (forallb_false_ex _ _ _ Ef) as (d&Hda&Hdf). apply orb_false_iff in Hdf as [Hdn Hna].
        destruct (mem_grace (GAbandon d) (graces s)) eqn:Eg.
        { rewrite (Hab d Eg) in Hna. discriminate. }
        exists (GraceTimeout (GAbandon d)). eexists. split.
        -- eapply (cand_spawned s (TDaemon d)); [apply Hask; exact Hda | right; left; reflexivity].
        -- unfold step. rewrite Eg, (In_mem_nat _ _ Hda), Hdn. reflexivity.
    + exists Sweep. eexists. split; [apply cand_fixed; cbn; tauto|]. unfold step. rewrite Hp, Esw. reflexivity.
  - (* orchestrator *)
    destruct o; try (apply Hfin; reflexivity).
    destruct (ostopped s) eqn:Eo.
    + destruct (all_done (ph s) (filter is_ensemble (spawned s))) eqn:Ea.
      * apply Hfin. cbn. rewrite Eo, Ea. reflexivity.
      * destruct (not_all_done _ _ Ea) as (c&Hcin&Hcd). apply filter_In in Hcin as [Hcs Hce].
        eapply (unblock_pool s c); eauto. cbn. auto.
    + exists OrchStop. eexists. split; [apply cand_fixed; cbn; tauto|]. unfold step. rewrite Hp, Eo. reflexivity.
Qed.

Lemma unblock_act : forall s, Live s -> act_late s -> is_done (ph s (TRoot RAct)) = false ->
  all_done (ph s) other_roots = true -> can_step s.
Proof.
  intros s HL [Hdn|[Hr Hl]] Hnd Ha; [congruence|]. pose proof HL as (_&_&_&_&_&_&_&_&Hcore&_).
  unfold late in Hl. destruct Hl as [Ea|[[p Ea]|[Ea|Ea]]].
  - exists ActRootsGone. eexists. split; [apply cand_fixed; cbn; tauto|]. unfold step. rewrite Ea, Hr, Ha. reflexivity.
  - specialize (Hcore Hr p Ea).
    destruct (is_done (ph s TAuth)) eqn:Ed.
    + exists CoreStopped. destruct (ph s TAuth) eqn:Et; try discriminate Ed.
      assert (exists s', step s CoreStopped = Some s') as (s'&Hs).
      { unfold step. rewrite Ea, Hr, Et. destruct o; destruct p; eexists; reflexivity. }
      exists s'. split; [apply cand_fixed; cbn; tauto | exact Hs].
    + eapply (unblock_pool s TAuth); eauto. cbn. auto.
  - exists CleanupBegin. eexists. split; [apply cand_fixed; cbn; tauto|]. unfold step. rewrite Ea, Hr. reflexivity.
  - exists CleanupOk. eexists. split; [apply cand_fixed; cbn; tauto|]. unfold step. rewrite Ea, Hr. reflexivity.
Qed.

Lemma all_done_roots_split : forall f, all_done f root_tasks = is_done (f (TRoot RAct)) && all_done f other_roots.
Proof.
  intros f. unfold all_done. cbn.
  destruct (is_done (f (TRoot RStopper))); cbn; [|now rewrite andb_false_r].
  destruct (is_done (f (TRoot RUltimate))); cbn; [|now rewrite andb_false_r].
  destruct (is_done (f (TRoot RAct))); cbn; reflexivity.
Qed.

Lemma roots_phase : forall s, Live s -> mn s = MStopRoots \/ mn s = MCStopRoots -> can_step s.
Proof.
  intros s HL Hm. pose proof HL as (_&_&_&_&_&_&_&_&_&Hstop&_). destruct (Hstop Hm) as [Hseen Hlate].
  destruct (all_done (ph s) root_tasks) eqn:Ea.
  - destruct Hm as [Hm|Hm]; exists RootsStopped; eexists; (split; [apply cand_fixed; cbn; tauto|]);
      unfold step; rewrite Ea, Hm; reflexivity.
  - rewrite all_done_roots_split in Ea.
    destruct (all_done (ph s) other_roots) eqn:Eo.
    + rewrite andb_true_r in Ea. eapply unblock_act; eauto.
    + destruct (not_all_done _ _ Eo) as (t&Hin&Hnd). eapply unblock_root; eauto.
Qed.

Lemma hung_phase : forall s, Live s -> mn s = MStopHung \/ mn s = MCStopHung -> can_step s.
Proof.
  intros s HL Hm. pose proof HL as (_&_&_&_&_&Hincl&_&_&_&_&Hhc).
  destruct (all_done (ph s) (hung s)) eqn:Ea.
  - destruct Hm as [Hm|Hm].
    + destruct (no_error (ph s) (root_tasks ++ hung s)) eqn:En.
      * exists (Return ROk). eexists. split; [apply cand_return; cbn; tauto|]. unfold step. rewrite Hm, Ea, En. reflexivity.
      * unfold no_error in En. destruct (forallb_false_ex _ _ _ En) as (t&Hin&Ht).
        destruct (failed_with (ph s t)) as [e|] eqn:Ef; [|discriminate].
        exists (Return (RErr e)). eexists. split.
        -- apply cand_return. apply in_or_app. right. apply in_flat_map. exists t. split; [exact Hin|]. rewrite Ef. left. reflexivity.
        -- unfold step. rewrite Hm, Ea.
           assert (Hfe : first_error (ph s) (root_tasks ++ hung s) e = true).
           { unfold first_error. apply existsb_exists. exists t. split; [exact Hin|]. rewrite Ef.
             destruct e; cbn; auto using task_eqb_refl. }
           rewrite Hfe. reflexivity.
    + exists (Return RCancelled). eexists. split; [apply cand_return; cbn; tauto|]. unfold step. rewrite Hm, Ea. reflexivity.
  - destruct (not_all_done _ _ Ea) as (h&Hin&Hnd). eapply (unblock_pool s h); eauto.
Qed.

(* In every reachable state in which the shutdown has begun and run_tasks has not returned, the operator can make a step
   by itself: it never lingers half-alive once a ROOT task is done or a stop trigger has been taken up. *)
Theorem progress : forall tr s, run init tr = Some s -> shutdown_begun s = true -> returned s = false -> can_step s.
Proof.
  intros tr s H Hb Hr. pose proof (Live_reach _ _ H) as HL. unfold shutdown_begun in Hb. unfold returned in Hr.
  destruct (mn s) eqn:Em; try discriminate Hr.
  - (* MWait, some root done *)
    pose proof HL as (_&_&_&_&_&_&_&Hact&_).
    apply existsb_exists in Hb as (t&Hin&Hd). unfold root_tasks in Hin. apply in_map_iff in Hin as (x&<-&_).
    destruct (aphase_eq_AFlag (act s)) as [Ea|Ea].
    + exists Flag. eexists. split; [apply cand_fixed; cbn; tauto|]. unfold step. rewrite Ea. reflexivity.
    + destruct (mainstop_enabled s x Em Hd Ea) as (s'&Hs&_). exists MainStop, s'. split; [apply cand_fixed; cbn; tauto | exact Hs].
  - apply roots_phase; auto.
  - (* MWaitHung *)
    pose proof HL as (_&_&_&Hg&_).
    destruct (mem_grace GHung (graces s)) eqn:Eg.
    + destruct (Hg Eg) as [Hx|[r Hx]]; congruence.
    + exists (GraceTimeout GHung). eexists. split; [apply cand_fixed; cbn; tauto|]. unfold step. rewrite Eg, Em. reflexivity.
  - apply hung_phase; auto.
  - apply roots_phase; auto.
  - apply hung_phase; auto.
Qed.

(* ------------------------------------------------------------------ consequences *)

Lemma can_step_not_quiescent : forall s, can_step s -> quiescent s = false.
Proof.
  intros s (l&s'&Hin&Hs). unfold quiescent.
  assert (Hf : In l (internal_enabled s)).
  { unfold internal_enabled. apply filter_In. split; [exact Hin|]. unfold enabled. now rewrite Hs. }
  destruct (internal_enabled s); [destruct Hf | reflexivity].
Qed.

(* never half-alive: a reachable state in which the shutdown has begun and nothing internal is enabled has returned *)
Theorem no_lingering : forall tr s, run init tr = Some s -> shutdown_begun s = true -> quiescent s = true -> returned s = true.
Proof.
  intros tr s H Hb Hq. destruct (returned s) eqn:Hr; [reflexivity|].
  rewrite (can_step_not_quiescent _ (progress _ _ H Hb Hr)) in Hq. discriminate.
Qed.

Lemma returned_step : forall s l s', step s l = Some s' -> returned s = true -> returned s' = true.
Proof.
  intros s l s' H Hr. unfold returned in *. destruct (mn s) eqn:Em; try discriminate Hr.
  destruct l; unfold step in H; inv_step H; use_cancel_spec; cbn in *;
    repeat match goal with Hq : mn ?x = _ |- _ => rewrite Hq in * end; try congruence; try reflexivity.
Qed.

Lemma begun_step : forall s l s', step s l = Some s' -> shutdown_begun s = true -> shutdown_begun s' = true.
Proof.
  intros s l s' H Hb. unfold shutdown_begun in *.
  destruct (mn s') eqn:Em'; try reflexivity.
  assert (Em : mn s = MWait).
  { pose proof (w_main_noninc _ _ _ H) as Hw. rewrite Em' in Hw. destruct (mn s); cbn in Hw; try lia. reflexivity. }
  rewrite Em in Hb. apply existsb_exists in Hb as (t&Hin&Hd). apply existsb_exists. exists t. split; [exact Hin|].
  rewrite (done_absorbing_step _ _ _ _ H Hd). exact Hd.
Qed.

Lemma mu_zero_returned : forall s, w_main (mn s) = 0 -> returned s = true.
Proof. intros s H. unfold returned. destruct (mn s); cbn in H; try lia; reflexivity. Qed.

Lemma mu_ge_main : forall s, w_main (mn s) <= mu s.
Proof. intros s. rewrite mu_unfold. lia. Qed.

Lemma drive_returned : forall n s, returned s = true -> returned (drive n s) = true.
Proof.
  induction n as [|n IH]; intros s Hr; cbn [drive]; [exact Hr|].
  destruct (internal_enabled s) as [|l ls]; [exact Hr|].
  destruct (step s l) as [s'|] eqn:E; [|exact Hr]. apply IH. eapply returned_step; eauto.
Qed.

(* the shutdown completes: the operator, left to itself (cancelled user code terminating), reaches the return of
   run_tasks within mu s internal steps — from EVERY reachable state in which the shutdown has begun *)
Theorem shutdown_completes : forall n tr s, run init tr = Some s -> shutdown_begun s = true -> mu s <= n ->
  returned (drive n s) = true.
Proof.
  induction n as [|n IH]; intros tr s H Hb Hm.
  - cbn [drive]. apply mu_zero_returned. pose proof (mu_ge_main s). lia.
  - destruct (returned s) eqn:Hr; [apply drive_returned; exact Hr|].
    destruct (progress _ _ H Hb Hr) as (l&s'&Hin&Hs).
    assert (Hf : In l (internal_enabled s)).
    { unfold internal_enabled. apply filter_In. split; [exact Hin|]. unfold enabled. now rewrite Hs. }
    cbn [drive]. destruct (internal_enabled s) as [|l0 ls] eqn:Ei; [destruct Hf|].
    assert (Hl0 : In l0 (internal_enabled s)) by (rewrite Ei; left; reflexivity).
    unfold internal_enabled in Hl0. apply filter_In in Hl0 as [Hc0 He0]. unfold enabled in He0.
    destruct (step s l0) as [s1|] eqn:E1; [|discriminate].
    eapply (IH (tr ++ [l0])).
    + rewrite run_app, H. cbn [run]. rewrite E1. reflexivity.
    + eapply begun_step; eauto.
    + pose proof (mu_decreases _ _ _ Hc0 E1). lia.
Qed.

(* runs made of internal steps only *)
Inductive iruns : state -> list label -> state -> Prop :=
| iruns_nil : forall s, iruns s [] s
| iruns_cons : forall s l s1 tr s2, In l (internal_candidates s) -> step s l = Some s1 -> iruns s1 tr s2 -> iruns s (l :: tr) s2.

Lemma iruns_run : forall s tr s', iruns s tr s' -> run s tr = Some s'.
Proof. induction 1; cbn [run]; [reflexivity|]. now rewrite H0. Qed.

(* bounded exit, in steps: whatever order the internal steps are taken in, there are at most mu s of them *)
Theorem internal_runs_bounded : forall s tr s', iruns s tr s' -> length tr + mu s' <= mu s.
Proof.
  induction 1; cbn [length]; [lia|]. pose proof (mu_decreases _ _ _ H H0). lia.
Qed.

Lemma iruns_begun : forall s tr s', iruns s tr s' -> shutdown_begun s = true -> shutdown_begun s' = true.
Proof. induction 1; intros Hb; [exact Hb|]. apply IHiruns. eapply begun_step; eauto. Qed.

(* ... and every maximal one (nothing internal left to do) ends with run_tasks returned *)
Theorem maximal_internal_run_returns : forall tr0 s tr s', run init tr0 = Some s -> shutdown_begun s = true ->
  iruns s tr s' -> quiescent s' = true -> returned s' = true /\ length tr <= mu s.
Proof.
  intros tr0 s tr s' H Hb Hi Hq. split.
  - apply (no_lingering (tr0 ++ tr)); auto.
    + rewrite run_app, H. now apply iruns_run.
    + eapply iruns_begun; eauto.
  - pose proof (internal_runs_bounded _ _ _ Hi). lia.
Qed.

(* ------------------------------------------------------------------ what has stopped when the cleanup begins *)

Lemma done_cancel_phase : forall t p, is_done (cancel_phase t p) = is_done p.
Proof. intros t []; reflexivity. Qed.

Lemma done_cancel_in : forall f ts t, is_done (cancel_in f ts t) = is_done (f t).
Proof. intros. destruct (cancel_in_cases f ts t) as [->| ->]; auto using done_cancel_phase. Qed.

Lemma finish_inv : forall s t o s', step s (Finish t o) = Some s' ->
  (ph s t = PCancelW /\ o = OCancelled) \/
  (exists o', ph s t = PEnding o' /\ finish_ready s t o = true) \/
  (ph s t = PRun /\ o = OOk /\ match t with TWaiter | TRoot RStopper | TWorker _ _ | TDaemon _ => True | _ => False end).
Proof.
  intros s t o s' H. unfold step in H.
  destruct (negb _) eqn:Eok in H; [discriminate|]. apply negb_false_iff in Eok. clear H.
  destruct (ph s t) eqn:Ep; try discriminate Eok.
  - right; right. apply andb_true_iff in Eok as [Eo Ek]. destruct o; try discriminate Eo.
    repeat split. destruct t as [[]| | | | | |]; try discriminate Ek; exact I.
  - left. destruct o; try discriminate Eok. auto.
  - right; left. apply andb_true_iff in Eok as [_ Er]. eauto.
Qed.

(* a task other than startup/cleanup becomes done only by the completion of its own asyncio task *)
Lemma done_origin : forall s l s' t, step s l = Some s' -> is_done (ph s t) = false -> is_done (ph s' t) = true ->
  t = TRoot RAct \/ exists o, l = Finish t o.
Proof.
  intros s l s' t H Hnd Hd.
  destruct l.
  10: { (* Finish *)
    destruct (task_eqb t t0) eqn:Et; [apply task_eqb_eq in Et; subst; right; eauto|].
    exfalso. assert (Hne : t <> t0) by (intros ->; rewrite task_eqb_refl in Et; discriminate).
    unfold step in H. destruct (negb _) eqn:Eok in H; [discriminate|].
    assert (H1 : upd (ph s) t0 (PDone o) t = ph s t) by (now apply upd_other).
    assert (Hsame : forall s1, ph s1 = upd (ph s) t0 (PDone o) -> is_done (ph s1 t) = false) by (intros s1 E; rewrite E, H1; exact Hnd).
    destruct t0 as [r0| | |w1|k1|w1 n1|d1]; try (injection H as <-; cbn [ph set_ph] in Hd; rewrite H1 in Hd; congruence).
    destruct o as [|e1|]; try (injection H as <-; cbn [ph set_ph] in Hd; rewrite H1 in Hd; congruence).
    destruct (ph s (TWatcher w1)) eqn:Ew; try (injection H as <-; cbn [ph set_ph] in Hd; rewrite H1 in Hd; congruence).
    injection H as <-. cbn [ph set_ph] in Hd.
    destruct (upd_cases (upd (ph s) (TWorker w1 n1) (PDone (OErr e1))) (TWatcher w1) (PEnding (OErr (EOf (TWatcher w1)))) t)
      as [[-> E]|[_ E]]; rewrite E in Hd; [discriminate | rewrite H1 in Hd; congruence]. }
  all: unfold step in H; inv_step H; unfold set_mn, set_hung, set_ph, set_act, add_grace in Hd; cbn [ph] in Hd;
    rewrite ?done_cancel_in in Hd; try congruence;
    try (match goal with E : cancel_roots _ = Some _ |- _ =>
           apply cancel_roots_spec in E; destruct E as (_&_&_&_&_&_&_&_&_&_&_&_&_&_&Hp);
           destruct (Hp t) as [Hx|[Hx|(Ht&_)]]; [rewrite Hx in Hd; congruence | rewrite Hx, done_cancel_phase in Hd; congruence | left; exact Ht] end);
    try (match type of Hd with is_done (upd ?f ?x ?p ?y) = true =>
           destruct (upd_cases f x p y) as [[Ht Ex]|[_ Ex]]; rewrite Ex in Hd; [try discriminate Hd; left; exact Ht | congruence] end);
    try (destruct (ph s t); discriminate).
Qed.

Lemma absent_step : forall s l s' t, (forall a b, l <> Spawn a b) -> step s l = Some s' -> ph s t = PAbsent -> ph s' t = PAbsent.
Proof.
  intros s l s' t Hn H Ha. pose proof (w_noninc _ _ _ Hn H t) as Hw. pose proof (ph_moves _ _ _ H t) as Hm.
  rewrite Ha in *. destruct (ph s' t); cbn in *; try lia; try discriminate; reflexivity.
Qed.

Definition is_worker (t : task) : bool := match t with TWorker _ _ => true | _ => false end.

Definition Stopped (s : state) : Prop :=
  (forall t, is_dyn t = true -> ~ In t (spawned s) -> ph s t = PAbsent) /\
  (forall w n, In (TWorker w n) (spawned s) -> In (TWatcher w) (spawned s)) /\
  (ph s (TRoot ROrch) = PWaitFlag \/ ph s (TRoot ROrch) = PCancelW -> forall t, In t (spawned s) -> is_ensemble t = false) /\
  (ph s (TRoot ROrch) = PDone OCancelled -> all_done (ph s) (filter is_ensemble (spawned s)) = true) /\
  (forall w, is_done (ph s (TWatcher w)) = true -> all_done (ph s) (filter (is_worker_of w) (spawned s)) = true) /\
  (forall k, is_done (ph s (TKeepalive k)) = true -> mem_nat k (withdrawn s) = true) /\
  (swept s = true -> cancel_seen (ph s (TRoot RKiller)) = true /\ ph s (TRoot RKiller) <> PCancelW) /\
  (is_done (ph s (TRoot RKiller)) = true -> swept s = true ->
     forallb (fun d => is_done (ph s (TDaemon d)) || mem_nat d (abandoned s)) (asked s) = true).

Lemma finish_frame : forall s t o s', step s (Finish t o) = Some s' ->
  ph s' t = PDone o /\ spawned s' = spawned s /\ withdrawn s' = withdrawn s /\ asked s' = asked s /\
  abandoned s' = abandoned s /\ swept s' = swept s.
Proof.
  intros s t o s' H. unfold step in H. destruct (negb _) in H; [discriminate|].
  assert (H1 : upd (ph s) t (PDone o) t = PDone o) by apply upd_same.
  destruct t as [r0| | |w1|k1|w1 n1|d1];
    try (injection H as <-; unfold set_ph; cbn [ph spawned withdrawn asked abandoned swept]; rewrite upd_same; repeat split; fail).
  destruct o;
    try (injection H as <-; unfold set_ph; cbn [ph spawned withdrawn asked abandoned swept]; rewrite upd_same; repeat split; fail).
  destruct (ph s (TWatcher w1)); injection H as <-; unfold set_ph; cbn [ph spawned withdrawn asked abandoned swept];
    rewrite ?(upd_other _ (TWatcher w1)) by discriminate; rewrite upd_same; repeat split.
Qed.

Lemma asked_frame : forall s l s', l <> Sweep -> step s l = Some s' -> asked s' = asked s.
Proof.
  intros s l s' Hn H. destruct l; try contradiction; unfold step in H; inv_step H; use_cancel_spec; cbn in *; congruence.
Qed.

Lemma swept_only_Sweep : forall s l s', step s l = Some s' -> swept s = false -> swept s' = true ->
  l = Sweep /\ exists o, ph s (TRoot RKiller) = PEnding o.
Proof.
  intros s l s' H H0 H1. destruct l; unfold step in H; inv_step H; use_cancel_spec; cbn in *; try congruence. eauto.
Qed.

Lemma abandoned_mono : forall s l s' d, step s l = Some s' -> mem_nat d (abandoned s) = true -> mem_nat d (abandoned s') = true.
Proof.
  intros s l s' d H Hm. destruct l; unfold step in H; inv_step H; use_cancel_spec; cbn in *;
    repeat match goal with Hq : abandoned ?x = _ |- _ => rewrite Hq in * end; auto.
  unfold mem_nat in *. cbn. rewrite Hm. apply orb_true_r.
Qed.

Lemma withdrawn_mono : forall s l s' k, step s l = Some s' -> mem_nat k (withdrawn s) = true -> mem_nat k (withdrawn s') = true.
Proof.
  intros s l s' k H Hm. destruct (withdrawn_grows _ _ _ H) as [->|(k'&_&->&_)]; [exact Hm|].
  unfold mem_nat in *. cbn. rewrite Hm. apply orb_true_r.
Qed.

Lemma task_in_dec : forall (t : task) l, In t l \/ ~ In t l.
Proof.
  intros t l. destruct (mem_task t l) eqn:E; [left; now apply mem_task_In|].
  right. intros Hin. unfold mem_task in E. assert (Hx : existsb (task_eqb t) l = true).
  { apply existsb_exists. exists t. split; [exact Hin | apply task_eqb_refl]. } congruence.
Qed.

Lemma moves_to_waiting : forall p p', moves p p' = true -> p' = PWaitFlag \/ p' = PCancelW -> p = PWaitFlag \/ p = PCancelW.
Proof. intros [] [] H [E|E]; try discriminate E; cbn in H; try discriminate H; auto. Qed.

Lemma moves_not_cancelw : forall p p', moves p p' = true -> cancel_seen p = true -> p <> PCancelW -> p' <> PCancelW.
Proof. intros [] [] H Hc Hn E; try discriminate E; cbn in *; try discriminate; contradiction. Qed.

Lemma Stopped_init : Stopped init.
Proof.
  unfold Stopped.
  refine (conj _ (conj _ (conj _ (conj _ (conj _ (conj _ (conj _ _))))))).
  - intros t Ht _. destruct t; try discriminate Ht; reflexivity.
  - intros w n [].
  - intros _ t [].
  - intros Hx; discriminate Hx.
  - intros w Hx; discriminate Hx.
  - intros k Hx; discriminate Hx.
  - intros Hx; discriminate Hx.
  - intros Hx; discriminate Hx.
Qed.

Lemma Stopped_step : forall s l s', Live s -> Stopped s -> step s l = Some s' -> Stopped s'.
Proof.
  intros s l s' HL (S1&S2&S3&S4&S5&S6&S7&S8) H. pose proof HL as (_&Hdyn&_).
  assert (Hmv := ph_moves _ _ _ H).
  unfold Stopped.
  refine (conj _ (conj _ (conj _ (conj _ (conj _ (conj _ (conj _ _))))))).
  - (* absent *)
    intros t Ht Hnin. destruct (label_spawn_dec l) as [Hn|(t0&b&->)].
    + rewrite (spawned_frame _ _ _ Hn H) in Hnin. eapply absent_step; eauto.
    + destruct (spawn_inv _ _ _ _ H) as (_&Es&Ep&_). rewrite Es in Hnin. rewrite Ep.
      rewrite upd_other; [apply S1; auto; intros Hx; apply Hnin; right; exact Hx | intros ->; apply Hnin; left; reflexivity].
  - (* parents *)
    intros w n Hin. destruct (label_spawn_dec l) as [Hn|(t0&b&->)].
    + rewrite (spawned_frame _ _ _ Hn H) in *. eauto.
    + destruct (spawn_inv _ _ _ _ H) as (Hm&Es&_). rewrite Es in *. destruct Hin as [->|Hin]; [|right; eauto].
      right. unfold may_spawn in Hm. apply andb_true_iff in Hm as [Hm Hk]. apply andb_true_iff in Hm as [Hm _].
      apply andb_true_iff in Hm as [_ Hr]. destruct b; try discriminate Hk. apply Nat.eqb_eq in Hk. subst w0.
      destruct (task_in_dec (TWatcher w) (spawned s)) as [Hi|Hi]; [exact Hi|].
      rewrite (S1 (TWatcher w) eq_refl Hi) in Hr. discriminate Hr.
  - (* orchestrator never ran: no ensemble *)
    intros Ho t Hin. pose proof (moves_to_waiting _ _ (Hmv (TRoot ROrch)) Ho) as Ho0.
    destruct (label_spawn_dec l) as [Hn|(t0&b&->)].
    + rewrite (spawned_frame _ _ _ Hn H) in Hin. eauto.
    + destruct (spawn_inv _ _ _ _ H) as (Hm&Es&_). rewrite Es in Hin. destruct Hin as [<-|Hin]; [|eauto].
      unfold may_spawn in Hm. apply andb_true_iff in Hm as [Hm Hk]. apply andb_true_iff in Hm as [Hm _].
      apply andb_true_iff in Hm as [_ Hr].
      destruct t0; try reflexivity; destruct b as [[]| | | | | |]; try discriminate Hk;
        destruct Ho0 as [E|E]; rewrite E in Hr; discriminate Hr.
  - (* cancelled orchestrator: its ensemble is done *)
    intros Ho.
    assert (Hsp : forall t0 b, l = Spawn t0 b -> is_done (ph s (TRoot ROrch)) = true -> is_ensemble t0 = false).
    { intros t0 b -> Hd0. destruct (spawn_inv _ _ _ _ H) as (Hm&_). unfold may_spawn in Hm.
      apply andb_true_iff in Hm as [Hm Hk]. apply andb_true_iff in Hm as [Hm _]. apply andb_true_iff in Hm as [_ Hr].
      destruct t0; try reflexivity; destruct b as [[]| | | | | |]; try discriminate Hk;
        destruct (ph s (TRoot ROrch)); try discriminate Hd0; discriminate Hr. }
    destruct (is_done (ph s (TRoot ROrch))) eqn:Ed.
    + assert (E0 : ph s (TRoot ROrch) = PDone OCancelled) by (rewrite <- (done_absorbing_step _ _ _ _ H Ed); exact Ho).
      destruct (label_spawn_dec l) as [Hn|(t0&b&->)].
      * rewrite (spawned_frame _ _ _ Hn H). eapply all_done_pres; eauto.
      * destruct (spawn_inv _ _ _ _ H) as (_&Es&_). rewrite Es. cbn. rewrite (Hsp _ _ eq_refl eq_refl).
        eapply all_done_pres; eauto.
    + destruct (done_origin _ _ _ _ H Ed) as [Hx|(o&->)]; [rewrite Ho; reflexivity | discriminate Hx |].
      destruct (finish_frame _ _ _ _ H) as (Ep&Es&_). rewrite Ep in Ho. injection Ho as ->. rewrite Es.
      destruct (finish_inv _ _ _ _ H) as [[Hp _]|[(o'&Hp&Hr)|(_&_&[])]].
      * unfold all_done. apply forallb_forall. intros t Hin. apply filter_In in Hin as [Hin He].
        rewrite (S3 (or_intror Hp) t Hin) in He. discriminate.
      * cbn in Hr. apply andb_true_iff in Hr as [_ Hr]. eapply all_done_pres; eauto.
  - (* a finished watcher: its workers are done *)
    intros w Hd.
    assert (Hsp : forall t0 b, l = Spawn t0 b -> is_done (ph s (TWatcher w)) = true -> is_worker_of w t0 = false).
    { intros t0 b -> Hd0. destruct (spawn_inv _ _ _ _ H) as (Hm&_). unfold may_spawn in Hm.
      apply andb_true_iff in Hm as [Hm Hk]. apply andb_true_iff in Hm as [Hm _]. apply andb_true_iff in Hm as [_ Hr].
      destruct t0; try reflexivity. destruct b; try discriminate Hk. apply Nat.eqb_eq in Hk. subst w1.
      cbn. destruct (Nat.eqb w w0) eqn:Ew; [|reflexivity]. apply Nat.eqb_eq in Ew. subst w0.
      destruct (ph s (TWatcher w)); try discriminate Hd0; discriminate Hr. }
    destruct (is_done (ph s (TWatcher w))) eqn:Ed.
    + destruct (label_spawn_dec l) as [Hn|(t0&b&->)].
      * rewrite (spawned_frame _ _ _ Hn H). eapply all_done_pres; eauto.
      * destruct (spawn_inv _ _ _ _ H) as (_&Es&_). rewrite Es. cbn. rewrite (Hsp _ _ eq_refl eq_refl).
        eapply all_done_pres; eauto.
    + destruct (done_origin _ _ _ _ H Ed Hd) as [Hx|(o&->)]; [discriminate Hx|].
      destruct (finish_frame _ _ _ _ H) as (_&Es&_). rewrite Es.
      destruct (finish_inv _ _ _ _ H) as [[Hp _]|[(o'&Hp&Hr)|(_&_&[])]].
      * exfalso. destruct (task_in_dec (TWatcher w) (spawned s)) as [Hi|Hi].
        -- destruct (Hdyn _ Hi) as [_ Hok]. rewrite Hp in Hok. discriminate.
        -- rewrite (S1 (TWatcher w) eq_refl Hi) in Hp. discriminate.
      * cbn in Hr. eapply all_done_pres; eauto.
  - (* a finished keep-alive made its final touch *)
    intros k Hd. destruct (is_done (ph s (TKeepalive k))) eqn:Ed.
    + eapply withdrawn_mono; eauto.
    + destruct (done_origin _ _ _ _ H Ed Hd) as [Hx|(o&->)]; [discriminate Hx|].
      destruct (finish_frame _ _ _ _ H) as (_&_&Ew&_). rewrite Ew.
      destruct (finish_inv _ _ _ _ H) as [[Hp _]|[(o'&Hp&Hr)|(_&_&[])]].
      * exfalso. destruct (task_in_dec (TKeepalive k) (spawned s)) as [Hi|Hi].
        -- destruct (Hdyn _ Hi) as [_ Hok]. rewrite Hp in Hok. discriminate.
        -- rewrite (S1 (TKeepalive k) eq_refl Hi) in Hp. discriminate.
      * exact Hr.
  - (* swept: the killer was in its finally *)
    intros Hsw. destruct (swept s) eqn:Es.
    + destruct (S7 eq_refl) as [Hc Hn]. split; [eapply moves_cancel_seen; eauto | eapply moves_not_cancelw; eauto].
    + destruct (swept_only_Sweep _ _ _ H Es Hsw) as (->&o&Hp). unfold step in H. rewrite Hp, Es in H. injection H as <-. cbn.
      rewrite Hp. split; [reflexivity | discriminate].
  - (* the finished killer waited for every daemon it asked *)
    intros Hd Hsw.
    assert (Hpres : forallb (fun d => is_done (ph s (TDaemon d)) || mem_nat d (abandoned s)) (asked s) = true -> l <> Sweep ->
                    forallb (fun d => is_done (ph s' (TDaemon d)) || mem_nat d (abandoned s')) (asked s') = true).
    { intros Hf Hns. rewrite (asked_frame _ _ _ Hns H). rewrite forallb_forall in *. intros d Hin. specialize (Hf d Hin).
      apply orb_true_iff in Hf as [Hf|Hf]; apply orb_true_iff.
      - left. rewrite (done_absorbing_step _ _ _ _ H Hf). exact Hf.
      - right. eapply abandoned_mono; eauto. }
    destruct (is_done (ph s (TRoot RKiller))) eqn:Ed.
    + destruct (swept s) eqn:Es.
      * apply Hpres; auto. intros ->. unfold step in H. rewrite Es in H. destruct (ph s (TRoot RKiller)); discriminate H.
      * destruct (swept_only_Sweep _ _ _ H Es Hsw) as (_&o&Hp). rewrite Hp in Ed. discriminate.
    + destruct (done_origin _ _ _ _ H Ed Hd) as [Hx|(o&->)]; [discriminate Hx|].
      destruct (finish_frame _ _ _ _ H) as (_&_&_&_&_&Esw). rewrite Esw in Hsw.
      destruct (finish_inv _ _ _ _ H) as [[Hp _]|[(o'&Hp&Hr)|(_&_&[])]].
      * destruct (S7 Hsw) as [_ Hn]. contradiction.
      * cbn in Hr. apply andb_true_iff in Hr as [_ Hr]. apply Hpres; [exact Hr | discriminate].
Qed.

Lemma Stopped_reach : forall tr s, run init tr = Some s -> Stopped s.
Proof.
  intros tr s H.
  assert (HLS : Live s /\ Stopped s).
  { eapply (run_inv (fun s => Live s /\ Stopped s)); eauto.
    - intros s0 l s1 [A B] Hs. split; [eapply Live_step | eapply Stopped_step]; eauto.
    - split; [apply Live_init | apply Stopped_init]. }
  apply HLS.
Qed.

Lemma all_done_in : forall f ts t, all_done f ts = true -> In t ts -> is_done (f t) = true.
Proof. intros f ts t H Hin. unfold all_done in H. rewrite forallb_forall in H. auto. Qed.

(* a finished task stays finished, makes no API request and creates nothing *)
Lemma done_quiet : forall post s1 s t, run s1 post = Some s -> is_done (ph s1 t) = true ->
  ph s t = ph s1 t /\ ~ In (Api t) post /\ forall c, ~ In (Spawn c t) post.
Proof.
  intros post s1 s t Hpost Hd1. split; [eapply done_absorbing; eauto|]. split.
  - intros Hapi. apply in_split in Hapi as (p1&p2&->). apply run_split in Hpost as (a&b&Hp1&Hs&_).
    pose proof (done_absorbing _ _ _ _ Hp1 Hd1) as E2. unfold step in Hs.
    destruct (api_capable t); [|discriminate]. cbn in Hs. rewrite E2 in Hs.
    destruct (ph s1 t); try discriminate Hd1. discriminate Hs.
  - intros c Hsp. apply in_split in Hsp as (p1&p2&->). apply run_split in Hpost as (a&b&Hp1&Hs&_).
    pose proof (done_absorbing _ _ _ _ Hp1 Hd1) as E2. unfold step in Hs.
    destruct (may_spawn a c t) eqn:Em; [|discriminate]. unfold may_spawn in Em.
    apply andb_true_iff in Em as [Em _]. apply andb_true_iff in Em as [Em _]. apply andb_true_iff in Em as [_ Em].
    rewrite E2 in Em. destruct (ph s1 t); try discriminate Hd1. discriminate Em.
Qed.

(* What has stopped when the cleanup activity begins — for every run, every schedule, any number of tasks:
   every other root task and the core task; if the orchestrator ended by cancellation (the only way it ends unless it
   crashes itself), every watcher, every keep-alive (after its final touch: the peering record is withdrawn) and every
   worker; every daemon the daemon killer's sweep asked is done or abandoned after its timeouts. *)
Theorem everything_stopped_before_cleanup : forall pre post s, run init (pre ++ CleanupBegin :: post) = Some s ->
  exists s0, run init pre = Some s0 /\
    all_done (ph s0) other_roots = true /\ is_done (ph s0 TAuth) = true /\
    (ph s0 (TRoot ROrch) = PDone OCancelled ->
       (forall t, In t (spawned s0) -> is_ensemble t = true \/ is_worker t = true -> is_done (ph s0 t) = true) /\
       (forall k, In (TKeepalive k) (spawned s0) -> mem_nat k (withdrawn s0) = true)) /\
    (swept s0 = true -> forall d, In d (asked s0) -> is_done (ph s0 (TDaemon d)) = true \/ mem_nat d (abandoned s0) = true) /\
    (forall t, is_done (ph s0 t) = true -> ph s t = ph s0 t /\ ~ In (Api t) post /\ forall c, ~ In (Spawn c t) post).
Proof.
  intros pre post s H. destruct (cleanup_last _ _ _ H) as (s0&Hpre&Hr&Hc&_).
  exists s0. split; [exact Hpre|]. split; [exact Hr|]. split; [exact Hc|].
  destruct (Stopped_reach _ _ Hpre) as (S1&S2&S3&S4&S5&S6&S7&S8).
  split; [|split].
  - intros Ho. specialize (S4 Ho).
    assert (Hens : forall t, In t (spawned s0) -> is_ensemble t = true -> is_done (ph s0 t) = true).
    { intros t Hin He. eapply all_done_in; eauto. apply filter_In. auto. }
    split.
    + intros t Hin [He|Hw]; [auto|]. destruct t; try discriminate Hw.
      pose proof (Hens _ (S2 _ _ Hin) eq_refl) as Hwd. eapply all_done_in; [apply (S5 w Hwd)|].
      apply filter_In. split; [exact Hin | cbn; apply Nat.eqb_refl].
    + intros k Hin. apply S6. apply Hens; auto.
  - intros Hsw d Hin.
    assert (Hk : is_done (ph s0 (TRoot RKiller)) = true) by (eapply all_done_in; eauto; cbn; tauto).
    specialize (S8 Hk Hsw). rewrite forallb_forall in S8. apply orb_true_iff. auto.
  - intros t Hd. apply run_split in H as (a&b&Ha&Hs&Hpost). rewrite Hpre in Ha. injection Ha as <-.
    assert (E1 : ph b t = ph s0 t) by (eapply done_absorbing_step; eauto).
    assert (Hd1 : is_done (ph b t) = true) by now rewrite E1.
    destruct (done_quiet _ _ _ _ Hpost Hd1) as (A&B&C). rewrite <- E1. auto.
Qed.

(* ------------------------------------------------------------------ a failed startup is followed through as well *)

(* "on its way out": the shutdown has begun, or the startup/cleanup task is unwinding with something in flight
   (failed or cancelled startup) *)
Definition stopping (s : state) : Prop :=
  shutdown_begun s = true \/ (ph s (TRoot RAct) = PRun /\ exists o, act s = AStopCore (Some o)).

Lemma act_done_begun : forall s, is_done (ph s (TRoot RAct)) = true -> shutdown_begun s = true.
Proof.
  intros s Hd. unfold shutdown_begun. destruct (mn s); try reflexivity.
  apply existsb_exists. exists (TRoot RAct). split; [cbn; tauto | exact Hd].
Qed.

Lemma stopping_step : forall s l s', Live s -> stopping s -> step s l = Some s' -> stopping s'.
Proof.
  intros s l s' HL [Hb|(Hr&o&Ha)] H; [left; eapply begun_step; eauto|].
  pose proof HL as (_&Hd&_&_&_&Hh&_&Hia&_).
  assert (Hia' : I_act s') by (eapply I_act_step; eauto).
  assert (Hnc : nocleanup s') by (eapply nocleanup_step; eauto; left; eauto).
  destruct (act_rel_step _ _ _ Hd Hh Hia H) as [[Ea Ep]|[Hc|[(_&Hp'&_&_&_)|(_&_&Hdn)]]].
  - right. rewrite Ea, Ep. eauto.
  - left. apply act_done_begun. unfold act_cancelled in Hc. rewrite Hr, Ha in Hc. destruct Hc as (_&Ep&_). now rewrite Ep.
  - right. split; [exact Hp'|]. destruct Hnc as [[o' Ho']|He]; [eauto|].
    destruct Hia' as [_ [Hi2 _]]. specialize (Hi2 He). rewrite Hp' in Hi2. discriminate.
  - left. apply act_done_begun. exact Hdn.
Qed.

Lemma progress_stopping : forall tr s, run init tr = Some s -> stopping s -> returned s = false -> can_step s.
Proof.
  intros tr s H [Hb|(Hr&o&Ha)] Hnr; [eapply progress; eauto|].
  pose proof (Live_reach _ _ H) as HL. pose proof HL as (_&_&_&_&_&_&_&_&Hcore&_).
  specialize (Hcore Hr _ Ha).
  destruct (is_done (ph s TAuth)) eqn:Ed.
  - destruct (ph s TAuth) eqn:Et; try discriminate Ed.
    assert (exists s', step s CoreStopped = Some s') as (s'&Hs).
    { unfold step. rewrite Ha, Hr, Et. destruct o0; eexists; reflexivity. }
    exists CoreStopped, s'. split; [apply cand_fixed; cbn; tauto | exact Hs].
  - eapply (unblock_pool s TAuth); eauto. cbn. auto.
Qed.

Theorem stopping_completes : forall n tr s, run init tr = Some s -> stopping s -> mu s <= n -> returned (drive n s) = true.
Proof.
  induction n as [|n IH]; intros tr s H Hb Hm.
  - cbn [drive]. apply mu_zero_returned. pose proof (mu_ge_main s). lia.
  - destruct (returned s) eqn:Hr; [apply drive_returned; exact Hr|].
    destruct (progress_stopping _ _ H Hb Hr) as (l&s'&Hin&Hs).
    assert (Hf : In l (internal_enabled s)).
    { unfold internal_enabled. apply filter_In. split; [exact Hin|]. unfold enabled. now rewrite Hs. }
    cbn [drive]. destruct (internal_enabled s) as [|l0 ls] eqn:Ei; [destruct Hf|].
    assert (Hl0 : In l0 (internal_enabled s)) by (rewrite Ei; left; reflexivity).
    unfold internal_enabled in Hl0. apply filter_In in Hl0 as [Hc0 He0]. unfold enabled in He0.
    destruct (step s l0) as [s1|] eqn:E1; [|discriminate].
    eapply (IH (tr ++ [l0])).
    + rewrite run_app, H. cbn [run]. rewrite E1. reflexivity.
    + eapply stopping_step; eauto using Live_reach.
    + pose proof (mu_decreases _ _ _ Hc0 E1). lia.
Qed.

Lemma stopping_run : forall tr s0 tr0 s, run init tr0 = Some s0 -> stopping s0 -> run s0 tr = Some s -> stopping s.
Proof.
  induction tr as [|l tr IH]; intros s0 tr0 s H0 Hs H; cbn in H.
  - now injection H as <-.
  - destruct (step s0 l) as [s1|] eqn:E; [|discriminate].
    eapply (IH s1 (tr0 ++ [l])); eauto.
    + rewrite run_app, H0. cbn [run]. now rewrite E.
    + eapply stopping_step; eauto using Live_reach.
Qed.

(* a failed startup (the activity, hence any final failure of any handler in any round) aborts the operator:
   from then on it is on its way out in every continuation, and left to itself it returns *)
Theorem failed_startup_aborts : forall tr s, run init tr = Some s -> In StartupFail tr ->
  stopping s /\ returned (drive (mu s) s) = true /\ forall t, ~ In (Api t) tr.
Proof.
  intros tr s H Hin.
  assert (Hst : stopping s).
  { apply in_split in Hin as (pre&post&->). pose proof H as H'. apply run_split in H' as (s0&s1&Hpre&Hs&Hpost).
    eapply (stopping_run post s1 (pre ++ [StartupFail])); eauto.
    - rewrite run_app, Hpre. cbn [run]. now rewrite Hs.
    - right. unfold step in Hs. inv_step Hs; cbn; (split; [assumption | eauto]). }
  split; [exact Hst|]. split; [eapply stopping_completes; eauto | apply (failed_startup_no_api _ _ H Hin)].
Qed.

(* ------------------------------------------------------------------ non-vacuity *)

Definition tr_root_failed : list label := firstn 5 tr_root_failure.   (* ... Fail ResObs; Finish ResObs (OErr _) *)
Lemma ex_shutdown_begun :
  match run init tr_root_failed with
  | Some s => shutdown_begun s && negb (returned s) && negb (quiescent s) && (0 <? mu s) && returned (drive (mu s) s)
  | None => false
  end = true.
Proof. vm_compute. reflexivity. Qed.

(* the state of the complete graceful run (watcher, worker, daemon) at the moment the cleanup begins *)
Definition tr_happy_pre : list label := firstn 32 tr_happy.
Lemma ex_cleanup_point :
  nth_error tr_happy 32 = Some CleanupBegin /\
  match run init tr_happy_pre with
  | Some s0 =>
      match ph s0 (TRoot ROrch) with PDone OCancelled => true | _ => false end && swept s0 &&
      mem_task (TWatcher 0) (spawned s0) && mem_task (TWorker 0 0) (spawned s0) && mem_task (TDaemon 0) (spawned s0) &&
      mem_nat 0 (asked s0) && is_done (ph s0 (TDaemon 0))
  | None => false
  end = true.
Proof. split; vm_compute; reflexivity. Qed.

(* after a failed startup with retry rounds: on its way out, and driven to the return *)
Lemma ex_failed_startup_stopping :
  match run init [StartupHandler 0 HPerm; StartupHandler 1 HTemp; StartupHandler 1 HOk; StartupFail] with
  | Some s => negb (shutdown_begun s) && negb (returned s) && returned (drive (mu s) s)
  | None => false
  end = true.
Proof. vm_compute. reflexivity. Qed.
