(* Lemmas about Model/Timer.v (kopf/_core/engines/daemons.py:_timer). *)
From Coq Require Import ZArith List Bool Lia.
From KV Require Import Model.Timer.
Import ListNotations.
Open Scope Z_scope.

(* ------------------------------------------------------------------ idle_reset_time as a function of time *)
Lemma irt_fold_mono rs : forall a a' t t', a <= a' -> t <= t' ->
  fold_left (fun acc r => if r <=? t then Z.max acc r else acc) rs a <=
  fold_left (fun acc r => if r <=? t' then Z.max acc r else acc) rs a'.
Proof.
  induction rs as [|r rs IH]; intros a a' t t' Ha Ht; cbn [fold_left]; [lia|].
  apply IH; [|lia].
  destruct (Z.leb_spec r t), (Z.leb_spec r t'); lia.
Qed.

Lemma irt_mono e t t' : t <= t' -> irt e t <= irt e t'.
Proof. intro H. unfold irt. apply irt_fold_mono; lia. Qed.

Lemma irt_fold_ge_acc rs : forall a t,
  a <= fold_left (fun acc r => if r <=? t then Z.max acc r else acc) rs a.
Proof.
  induction rs as [|r rs IH]; intros a t; cbn [fold_left]; [lia|].
  etransitivity; [|apply IH]. destruct (Z.leb_spec r t); lia.
Qed.

Lemma irt_fold_ge_in rs : forall a t r, In r rs -> r <= t ->
  r <= fold_left (fun acc r => if r <=? t then Z.max acc r else acc) rs a.
Proof.
  induction rs as [|r0 rs IH]; intros a t r Hin Hr; [destruct Hin|].
  cbn [fold_left]. destruct Hin as [->|Hin].
  - destruct (Z.leb_spec r t); [|lia]. etransitivity; [|apply irt_fold_ge_acc]. lia.
  - apply IH; assumption.
Qed.

Lemma irt_ge_irt0 e t : v_irt0 e <= irt e t.
Proof. apply irt_fold_ge_acc. Qed.

Lemma irt_ge_reset e t r : In r (v_resets e) -> r <= t -> r <= irt e t.
Proof. apply irt_fold_ge_in. Qed.

Lemma stopped_mono e t t' : t <= t' -> stopped e t = true -> stopped e t' = true.
Proof.
  unfold stopped. destruct (v_stop e) as [s|]; [|discriminate].
  intros H H1. apply Z.leb_le in H1. apply Z.leb_le. lia.
Qed.

Lemma not_stopped_earlier e t t' : t <= t' -> stopped e t' = false -> stopped e t = false.
Proof.
  intros H H1. destruct (stopped e t) eqn:E; [|reflexivity].
  rewrite (stopped_mono e t t' H E) in H1. discriminate.
Qed.

(* ------------------------------------------------------------------ aiotime.sleep *)
Lemma sleep_woke e now d t : sleep e now d = Woke t ->
  now <= t /\ (stopped e t = false -> t = now + Z.max 0 d).
Proof.
  unfold sleep. destruct (Z.leb_spec d 0) as [Hd|Hd].
  - intro E; injection E as <-. split; lia.
  - destruct (stopped e now) eqn:Es.
    + intro E; injection E as <-. split; [lia|]. congruence.
    + unfold stopped in *. destruct (v_stop e) as [s|].
      * apply Z.leb_gt in Es.
        destruct (Z.ltb_spec (v_horizon e) (Z.min (now + d) s)); [discriminate|].
        intro E; injection E as <-. split; [lia|].
        intro Hs. apply Z.leb_gt in Hs. lia.
      * destruct (Z.ltb_spec (v_horizon e) (now + d)); [discriminate|].
        intro E; injection E as <-. split; lia.
Qed.

(* ------------------------------------------------------------------ events without cycles *)
Lemma cycles_app a b : cycles (a ++ b) = cycles a ++ cycles b.
Proof.
  induction a as [|[y|t d w] a IH]; cbn [app cycles]; [reflexivity| |]; rewrite IH; reflexivity.
Qed.

Lemma idle_wait_cycles fuel e i : forall now evs r, idle_wait fuel e i now = (evs, r) -> cycles evs = [].
Proof.
  induction fuel as [|f IH]; intros now evs r; cbn [idle_wait].
  - intro E; injection E as <- _; reflexivity.
  - destruct (negb (stopped e now) && (now - irt e now <? i)).
    + destruct (sleep e now (irt e now + i - now)) as [t|].
      * destruct (idle_wait f e i t) as [evs' r'] eqn:Er. intro E; injection E as <- _.
        cbn [cycles sleep_ev]. eapply IH; eassumption.
      * intro E; injection E as <- _; reflexivity.
    + intro E; injection E as <- _; reflexivity.
Qed.

Lemma idle_only_wait_cycles fuel e i started : forall now evs r,
  idle_only_wait fuel e i started now = (evs, r) -> cycles evs = [].
Proof.
  induction fuel as [|f IH]; intros now evs r; cbn [idle_only_wait].
  - intro E; injection E as <- _; reflexivity.
  - destruct ((irt e now <=? started) && negb (stopped e now)).
    + destruct (i <=? 0).
      * intro E; injection E as <- _; reflexivity.
      * destruct (sleep e now i) as [t|].
        -- destruct (idle_only_wait f e i started t) as [evs' r'] eqn:Er. intro E; injection E as <- _.
           cbn [cycles sleep_ev]. eapply IH; eassumption.
        -- intro E; injection E as <- _; reflexivity.
    + intro E; injection E as <- _; reflexivity.
Qed.

Lemma post_cycles fuel c e y h evs r : post fuel c e y h = (evs, r) -> cycles evs = [].
Proof.
  unfold post, one_sleep.
  destruct (negb (finished h)); [intro E; injection E as <- _; reflexivity|].
  destruct (c_interval c) as [i|].
  - destruct (c_sharp c).
    + destruct (i =? 0); intro E; injection E as <- _; reflexivity.
    + intro E; injection E as <- _; reflexivity.
  - destruct (c_idle c) as [i|].
    + apply idle_only_wait_cycles.
    + intro E; injection E as <- _; reflexivity.
Qed.

Lemma pre_wait_cycles fuel c e now evs r : pre_wait fuel c e now = (evs, r) -> cycles evs = [].
Proof.
  unfold pre_wait. destruct (c_idle c) as [i|].
  - apply idle_wait_cycles.
  - intro E; injection E as <- _; reflexivity.
Qed.

(* ------------------------------------------------------------------ the idle wait reaches the first clear instant *)
Lemma idle_wait_spec fuel e i : forall now evs t,
  idle_wait fuel e i now = (evs, WGo t) -> stopped e t = false -> idle_ok e (Some i) now t.
Proof.
  induction fuel as [|f IH]; intros now evs t; cbn [idle_wait]; [discriminate|].
  destruct (negb (stopped e now) && (now - irt e now <? i)) eqn:Ec.
  - apply andb_true_iff in Ec. destruct Ec as [Es Elt].
    apply negb_true_iff in Es. apply Z.ltb_lt in Elt.
    destruct (sleep e now (irt e now + i - now)) as [t1|] eqn:Esl; [|discriminate].
    destruct (idle_wait f e i t1) as [evs' r'] eqn:Er.
    intro E; injection E as _ ->. intro Hst.
    pose proof (IH _ _ _ Er Hst) as (Hle & Hcl & Hmin).
    pose proof (sleep_woke _ _ _ _ Esl) as (Hn & Hex).
    pose proof (Hex (not_stopped_earlier _ _ _ Hle Hst)) as Ht1.
    assert (t1 = irt e now + i) by lia. subst t1. clear Hex.
    split; [lia|]. split; [exact Hcl|].
    intros t' Ht'. destruct (Z.lt_ge_cases t' (irt e now + i)) as [Hlt|Hge].
    + cbn [clear]. pose proof (irt_mono e now t') as Hm. lia.
    + apply Hmin. lia.
  - intro E; injection E as _ <-. intro Hst.
    rewrite Hst in Ec. cbn [negb andb] in Ec. apply Z.ltb_ge in Ec.
    split; [lia|]. split; [cbn [clear]; lia|]. intros t' Ht'. lia.
Qed.

Lemma pre_wait_spec fuel c e now evs t :
  pre_wait fuel c e now = (evs, WGo t) -> stopped e t = false -> idle_ok e (c_idle c) now t.
Proof.
  unfold pre_wait. destruct (c_idle c) as [i|].
  - apply idle_wait_spec.
  - intro E; injection E as _ <-. intros _. split; [lia|]. split; [exact I|]. intros t' Ht'. lia.
Qed.

Lemma idle_only_wait_spec fuel e i started : forall now evs t,
  idle_only_wait fuel e i started now = (evs, WGo t) ->
  now <= t /\ (started < irt e t \/ stopped e t = true).
Proof.
  induction fuel as [|f IH]; intros now evs t; cbn [idle_only_wait]; [discriminate|].
  destruct ((irt e now <=? started) && negb (stopped e now)) eqn:Ec.
  - destruct (i <=? 0); [discriminate|].
    destruct (sleep e now i) as [t1|] eqn:Esl; [|discriminate].
    destruct (idle_only_wait f e i started t1) as [evs' r'] eqn:Er.
    intro E; injection E as _ ->.
    pose proof (IH _ _ _ Er) as (H1 & H2). pose proof (sleep_woke _ _ _ _ Esl) as (Hn & _).
    split; [lia|exact H2].
  - intro E; injection E as _ <-. split; [lia|].
    apply andb_false_iff in Ec. destruct Ec as [Ec|Ec].
    + left. apply Z.leb_gt in Ec. exact Ec.
    + right. apply negb_false_iff in Ec. exact Ec.
Qed.

(* ------------------------------------------------------------------ one cycle *)
Lemma exec_wf c h t en inv hend h2 :
  exec c h t en = (inv, hend, h2) ->
  wf_cyc c (mkcyc t inv hend (hend + Z.max 0 (e_plat en)) en (finished h2) (h_failure h2) (h_delayed h2)).
Proof.
  unfold exec, wf_cyc, expected_delayed. cbn [y_start y_hend y_pend y_en y_inv y_done y_failed y_delayed].
  assert (Hfd : forall x, h_failure x = true -> finished x = true)
    by (intros x Hx; unfold finished; rewrite Hx; apply orb_true_r).
  destruct (negb (awakened h t)).
  { intro E; injection E as <- <- <-. repeat split; try lia; try discriminate; auto. }
  destruct (hits (c_timeout c) (t - h_started h)).
  { intro E; injection E as <- <- <-. repeat split; try lia; try discriminate; auto. }
  destruct (hits (c_retries c) (h_retries h)).
  { intro E; injection E as <- <- <-. repeat split; try lia; try discriminate; auto. }
  intro E; injection E as <- <- <-.
  split; [lia|]. split; [lia|]. split; [reflexivity|]. split; [reflexivity|].
  split; [|split; [|apply Hfd]].
  - intros _. unfold finished, with_outcome, classify; cbn [h_success h_failure h_delayed].
    destruct (e_out en) as [|[d|]| |]; try destruct (c_errors c);
    repeat match goal with |- context [if ?b then _ else _] => destruct b end;
    cbn [orb]; intros; try discriminate; repeat split; try discriminate; try reflexivity.
  - intros _. unfold finished, with_outcome, classify; cbn [h_success h_failure h_delayed].
    destruct (e_out en) as [|[d|]| |]; try destruct (c_errors c);
    repeat match goal with |- context [if ?b then _ else _] => destruct b end;
    cbn [orb]; intros; try discriminate; auto.
Qed.

Lemma post_spec fuel c e y h evs t' :
  post fuel c e y h = (evs, WGo t') -> y_done y = finished h -> y_delayed y = h_delayed h ->
  stopped e t' = false -> next_base c e y t'.
Proof.
  unfold post, next_base, one_sleep. intros E Hd Hdl Hst. rewrite Hd.
  destruct (finished h); cbn [negb] in E.
  - destruct (c_interval c) as [i|].
    + destruct (c_sharp c).
      * destruct (Z.eqb_spec i 0) as [Hz|Hi]; [discriminate|].
        destruct (sleep e (y_pend y) (i - (y_pend y - y_start y) mod i)) as [t|] eqn:Esl; [|discriminate].
        injection E as _ <-. split; [exact Hi|].
        apply sleep_woke in Esl. destruct Esl as [_ Hx]. apply Hx. exact Hst.
      * destruct (sleep e (y_pend y) i) as [t|] eqn:Esl; [|discriminate].
        injection E as _ <-. apply sleep_woke in Esl. destruct Esl as [_ Hx]. apply Hx. exact Hst.
    + destruct (c_idle c) as [i|]; [|discriminate].
      apply idle_only_wait_spec in E. destruct E as [E1 [E2|E2]]; [split; assumption|congruence].
  - destruct (sleep e (y_pend y) (state_delay h (y_pend y))) as [t|] eqn:Esl; [|discriminate].
    injection E as _ <-. apply sleep_woke in Esl. destruct Esl as [_ Hx]. specialize (Hx Hst).
    rewrite Hdl. unfold state_delay in Hx. destruct (h_delayed h) as [d|]; lia.
Qed.

Lemma next_base_ge c e y b : next_base c e y b -> y_pend y <= b.
Proof.
  unfold next_base. destruct (y_done y).
  - destruct (c_interval c) as [i|].
    + destruct (c_sharp c); lia.
    + destruct (c_idle c); [lia|tauto].
  - destruct (y_delayed y); lia.
Qed.

(* ------------------------------------------------------------------ the main loop produces a chain *)
Lemma loop_unfold fuel c e script now h :
  loop fuel c e script now h =
  if stopped e now then ([], FStopped now)
  else
    let h1 := reset_if_succeeded h now in
    match pre_wait fuel c e now with
    | (evs0, WEnd f) => (evs0, f)
    | (evs0, WGo t) =>
        if stopped e t then (evs0, FStopped t)
        else match script with
             | [] => (evs0, FOut t)
             | en :: rest =>
                 let '(inv, hend, h2) := exec c h1 t en in
                 let y := mkcyc t inv hend (hend + Z.max 0 (e_plat en)) en (finished h2) (h_failure h2) (h_delayed h2) in
                 match post fuel c e y h2 with
                 | (evs1, WEnd f) => (evs0 ++ ECyc y :: evs1, f)
                 | (evs1, WGo t') =>
                     let '(evs2, f) := loop fuel c e rest t' h2 in
                     (evs0 ++ ECyc y :: evs1 ++ evs2, f)
                 end
             end
    end.
Proof. destruct script; reflexivity. Qed.

Lemma loop_stopped_nil fuel c e script now h :
  stopped e now = true -> cycles (fst (loop fuel c e script now h)) = [].
Proof. intro H. rewrite loop_unfold, H. reflexivity. Qed.

Lemma loop_chain fuel c e : forall script now h,
  chain c e now (cycles (fst (loop fuel c e script now h))).
Proof.
  induction script as [|en rest IH]; intros now h; rewrite loop_unfold.
  - destruct (stopped e now); [constructor|]. cbv zeta.
    destruct (pre_wait fuel c e now) as [evs0 [t|f]] eqn:Epw;
      [destruct (stopped e t)|]; cbn [fst]; rewrite (pre_wait_cycles _ _ _ _ _ _ Epw); constructor.
  - destruct (stopped e now); [constructor|]. cbv zeta.
    destruct (pre_wait fuel c e now) as [evs0 [t|f]] eqn:Epw;
      [|cbn [fst]; rewrite (pre_wait_cycles _ _ _ _ _ _ Epw); constructor].
    destruct (stopped e t) eqn:Est; [cbn [fst]; rewrite (pre_wait_cycles _ _ _ _ _ _ Epw); constructor|].
    destruct (exec c (reset_if_succeeded h now) t en) as [[inv hend] h2] eqn:Eex.
    pose proof (exec_wf _ _ _ _ _ _ _ Eex) as Hwf.
    pose proof (pre_wait_spec _ _ _ _ _ _ Epw Est) as Hidle.
    set (y := mkcyc t inv hend (hend + Z.max 0 (e_plat en)) en (finished h2) (h_failure h2) (h_delayed h2)) in *.
    destruct (post fuel c e y h2) as [evs1 [t'|f]] eqn:Epost.
    + specialize (IH t' h2).
      destruct (loop fuel c e rest t' h2) as [evs2 f2] eqn:El. cbn [fst] in *.
      rewrite cycles_app, (pre_wait_cycles _ _ _ _ _ _ Epw). cbn [app cycles].
      rewrite cycles_app, (post_cycles _ _ _ _ _ _ _ Epost). cbn [app].
      destruct (cycles evs2) as [|y2 ys] eqn:Ecy.
      * apply chain_one; assumption.
      * assert (Hst' : stopped e t' = false).
        { destruct (stopped e t') eqn:Es'; [|reflexivity].
          pose proof (loop_stopped_nil fuel c e rest t' h2 Es') as Hn. rewrite El in Hn. cbn [fst] in Hn.
          rewrite Hn in Ecy. discriminate. }
        eapply chain_cons; try eassumption.
        eapply post_spec; try eassumption; reflexivity.
    + cbn [fst]. rewrite cycles_app, (pre_wait_cycles _ _ _ _ _ _ Epw). cbn [app cycles].
      rewrite (post_cycles _ _ _ _ _ _ _ Epost). apply chain_one; assumption.
Qed.

Definition initial_base (c : cfg) (spawn : Z) : Z :=
  spawn + Z.max 0 (match c_initial c with Some d => d | None => 0 end).

Lemma chain_weaken_nil c e now now' : chain c e now [] -> chain c e now' [].
Proof. intros _. constructor. Qed.

Lemma timer_chain fuel c e spawn script :
  chain c e (initial_base c spawn) (timer_cycles fuel c e spawn script).
Proof.
  unfold timer_cycles, timer_run, initial_base. destruct (c_initial c) as [d|].
  - destruct (sleep e spawn d) as [t|] eqn:Esl; [|constructor].
    pose proof (loop_chain fuel c e script t (fresh t)) as Hc.
    destruct (loop fuel c e script t (fresh t)) as [evs f] eqn:El. cbn [fst cycles sleep_ev] in *.
    destruct (stopped e t) eqn:Est.
    + pose proof (loop_stopped_nil fuel c e script t (fresh t) Est) as Hn. rewrite El in Hn. cbn [fst] in Hn.
      rewrite Hn. constructor.
    + apply sleep_woke in Esl. destruct Esl as [_ Hx]. rewrite <- (Hx Est). exact Hc.
  - replace (spawn + Z.max 0 0) with spawn by lia. apply loop_chain.
Qed.

(* ------------------------------------------------------------------ consequences of a chain *)
Lemma chain_starts_ge c e now ys : chain c e now ys -> forall y, In y ys -> now <= y_start y.
Proof.
  induction 1 as [now|now y Hi Hw Hs|now y b y2 ys Hi Hw Hs Hn Hc IH]; intros y' Hin.
  - destruct Hin.
  - destruct Hin as [<-|[]]. destruct Hi; lia.
  - destruct Hin as [<-|Hin]; [destruct Hi; lia|].
    specialize (IH _ Hin). apply next_base_ge in Hn. destruct Hw as (H1 & H2 & _). destruct Hi as [H0 _]. lia.
Qed.

Lemma chain_each c e now ys : chain c e now ys -> forall y, In y ys ->
  wf_cyc c y /\ clear e (c_idle c) (y_start y) /\ stopped e (y_start y) = false.
Proof.
  induction 1 as [now|now y Hi Hw Hs|now y b y2 ys Hi Hw Hs Hn Hc IH]; intros y' Hin.
  - destruct Hin.
  - destruct Hin as [<-|[]]. destruct Hi as (_ & Hcl & _). auto.
  - destruct Hin as [<-|Hin]; [destruct Hi as (_ & Hcl & _); auto|]. apply IH; exact Hin.
Qed.

Lemma chain_consecutive c e now ys : chain c e now ys -> forall k y1 y2,
  nth_error ys k = Some y1 -> nth_error ys (S k) = Some y2 ->
  exists b, next_base c e y1 b /\ idle_ok e (c_idle c) b (y_start y2).
Proof.
  induction 1 as [now|now y Hi Hw Hs|now y b y2 ys Hi Hw Hs Hn Hc IH]; intros k y1 y2' H1 H2.
  - destruct k; discriminate.
  - destruct k as [|[|k]]; discriminate.
  - destruct k as [|k].
    + cbn in H1, H2. injection H1 as <-. injection H2 as <-. exists b. split; [exact Hn|].
      inversion Hc; subst; assumption.
    + cbn [nth_error] in H1. apply (IH k y1 y2'); [exact H1|exact H2].
Qed.

Lemma chain_no_overlap c e now ys : chain c e now ys -> forall i j yi yj, (i < j)%nat ->
  nth_error ys i = Some yi -> nth_error ys j = Some yj -> y_pend yi <= y_start yj.
Proof.
  induction 1 as [now|now y Hi Hw Hs|now y b y2 ys Hi Hw Hs Hn Hc IH]; intros i j yi yj Hij H1 H2.
  - destruct i; discriminate.
  - destruct i as [|i]; [|destruct i; discriminate]. destruct j as [|[|j]]; [lia|discriminate|discriminate].
  - destruct i as [|i].
    + cbn in H1. injection H1 as <-. destruct j as [|j]; [lia|]. cbn [nth_error] in H2.
      apply nth_error_In in H2. pose proof (chain_starts_ge _ _ _ _ Hc _ H2). apply next_base_ge in Hn. lia.
    + destruct j as [|j]; [lia|]. cbn [nth_error] in H1, H2. apply (IH i j); [lia|assumption|assumption].
Qed.

Lemma idle_ok_none e now s : idle_ok e None now s -> s = now.
Proof.
  intros (H1 & _ & H3). destruct (Z.eq_dec s now) as [|Hne]; [assumption|].
  exfalso. apply (H3 now); [lia|exact I].
Qed.

(* ------------------------------------------------------------------ the laws *)
Section Laws.
  Variables (fuel : nat) (c : cfg) (e : env) (spawn : Z) (script : list entry).
  Let ys := timer_cycles fuel c e spawn script.

  Lemma law_no_overlap i j yi yj : (i < j)%nat -> nth_error ys i = Some yi -> nth_error ys j = Some yj ->
    y_start yi <= y_hend yi /\ y_hend yi <= y_pend yi /\ y_pend yi <= y_start yj.
  Proof.
    intros Hij H1 H2. pose proof (timer_chain fuel c e spawn script) as Hc. fold ys in Hc.
    destruct (chain_each _ _ _ _ Hc _ (nth_error_In _ _ H1)) as ((Ha & Hb & _) & _).
    repeat split; try assumption. eapply chain_no_overlap; eassumption.
  Qed.

  Lemma law_after_success_interval k y1 y2 i :
    nth_error ys k = Some y1 -> nth_error ys (S k) = Some y2 ->
    y_done y1 = true -> c_interval c = Some i -> c_sharp c = false ->
    idle_ok e (c_idle c) (y_pend y1 + Z.max 0 i) (y_start y2).
  Proof.
    intros H1 H2 Hd Hi Hs. pose proof (timer_chain fuel c e spawn script) as Hc. fold ys in Hc.
    destruct (chain_consecutive _ _ _ _ Hc _ _ _ H1 H2) as (b & Hn & Hok).
    unfold next_base in Hn. rewrite Hd, Hi, Hs in Hn. subst b. exact Hok.
  Qed.

  Lemma law_after_success_interval_noidle k y1 y2 i :
    nth_error ys k = Some y1 -> nth_error ys (S k) = Some y2 ->
    y_done y1 = true -> c_interval c = Some i -> c_sharp c = false -> c_idle c = None ->
    y_start y2 = y_pend y1 + Z.max 0 i.
  Proof.
    intros H1 H2 Hd Hi Hs Hidle. pose proof (law_after_success_interval _ _ _ _ H1 H2 Hd Hi Hs) as H.
    rewrite Hidle in H. apply idle_ok_none in H. exact H.
  Qed.

  Lemma law_after_success_sharp k y1 y2 i :
    nth_error ys k = Some y1 -> nth_error ys (S k) = Some y2 ->
    y_done y1 = true -> c_interval c = Some i -> c_sharp c = true -> 0 < i ->
    exists m, 1 <= m /\ y_pend y1 < y_start y1 + m * i <= y_pend y1 + i /\
              idle_ok e (c_idle c) (y_start y1 + m * i) (y_start y2).
  Proof.
    intros H1 H2 Hd Hi Hs Hpos. pose proof (timer_chain fuel c e spawn script) as Hc. fold ys in Hc.
    destruct (chain_each _ _ _ _ Hc _ (nth_error_In _ _ H1)) as ((Ha & Hb & _) & _).
    destruct (chain_consecutive _ _ _ _ Hc _ _ _ H1 H2) as (b & Hn & Hok).
    unfold next_base in Hn. rewrite Hd, Hi, Hs in Hn. destruct Hn as [_ ->].
    set (p := y_pend y1 - y_start y1) in *.
    pose proof (Z.div_mod p i ltac:(lia)) as Hdm.
    pose proof (Z.mod_pos_bound p i Hpos) as Hmb.
    assert (Hq : 0 <= p / i) by (apply Z.div_pos; lia).
    exists (p / i + 1).
    assert (Heq : y_pend y1 + Z.max 0 (i - p mod i) = y_start y1 + (p / i + 1) * i) by (unfold p in *; nia).
    rewrite <- Heq. split; [lia|]. split; [lia|exact Hok].
  Qed.

  Lemma law_after_failure k y1 y2 :
    nth_error ys k = Some y1 -> nth_error ys (S k) = Some y2 ->
    y_inv y1 = true -> y_done y1 = false ->
    (forall d, e_out (y_en y1) = OTemp (Some d) ->
        y_hend y1 + d <= y_start y2 /\ idle_ok e (c_idle c) (Z.max (y_pend y1) (y_hend y1 + d)) (y_start y2)) /\
    (e_out (y_en y1) = OTemp None -> idle_ok e (c_idle c) (y_pend y1) (y_start y2)) /\
    (e_out (y_en y1) = OArb ->
        y_hend y1 + c_backoff c <= y_start y2 /\
        idle_ok e (c_idle c) (Z.max (y_pend y1) (y_hend y1 + c_backoff c)) (y_start y2)).
  Proof.
    intros H1 H2 Hinv Hd. pose proof (timer_chain fuel c e spawn script) as Hc. fold ys in Hc.
    destruct (chain_each _ _ _ _ Hc _ (nth_error_In _ _ H1)) as ((Ha & Hb & _ & _ & Hdl & _) & _).
    destruct (Hdl Hinv Hd) as (Hdl' & _).
    destruct (chain_consecutive _ _ _ _ Hc _ _ _ H1 H2) as (b & Hn & Hok).
    unfold next_base in Hn. rewrite Hd, Hdl' in Hn. unfold expected_delayed in Hn.
    split; [|split].
    - intros d H. rewrite H in Hn. subst b. split; [destruct Hok; lia|exact Hok].
    - intro H. rewrite H in Hn. subst b.
      replace (Z.max (y_pend y1) (y_pend y1)) with (y_pend y1) in Hok by lia. exact Hok.
    - intro H. rewrite H in Hn. subst b. split; [destruct Hok; lia|exact Hok].
  Qed.

  Lemma law_initial_delay d y : c_initial c = Some d -> In y ys -> spawn + d <= y_start y.
  Proof.
    intros Hi Hin. pose proof (timer_chain fuel c e spawn script) as Hc. fold ys in Hc.
    pose proof (chain_starts_ge _ _ _ _ Hc _ Hin) as H. unfold initial_base in H. rewrite Hi in H. lia.
  Qed.

  Lemma law_first_run y : nth_error ys 0 = Some y -> idle_ok e (c_idle c) (initial_base c spawn) (y_start y).
  Proof.
    intros H0. pose proof (timer_chain fuel c e spawn script) as Hc. fold ys in Hc.
    destruct ys as [|y0 l]; [discriminate|]. cbn in H0. injection H0 as ->. inversion Hc; subst; assumption.
  Qed.

  Lemma law_idle i y r : c_idle c = Some i -> In y ys ->
    (r = v_irt0 e \/ In r (v_resets e)) -> r <= y_start y -> r + i <= y_start y.
  Proof.
    intros Hi Hin Hr Hle. pose proof (timer_chain fuel c e spawn script) as Hc. fold ys in Hc.
    destruct (chain_each _ _ _ _ Hc _ Hin) as (_ & Hcl & _). rewrite Hi in Hcl. cbn [clear] in Hcl.
    assert (r <= irt e (y_start y)).
    { destruct Hr as [->|Hr]; [apply irt_ge_irt0|apply irt_ge_reset; assumption]. }
    lia.
  Qed.

  Lemma law_one_shot k y : c_interval c = None -> c_idle c = None ->
    nth_error ys k = Some y -> y_done y = true -> List.length ys = S k.
  Proof.
    intros Hi Hidle H1 Hd. pose proof (timer_chain fuel c e spawn script) as Hc. fold ys in Hc.
    destruct (nth_error ys (S k)) as [y2|] eqn:H2.
    - destruct (chain_consecutive _ _ _ _ Hc _ _ _ H1 H2) as (b & Hn & _).
      unfold next_base in Hn. rewrite Hd, Hi, Hidle in Hn. destruct Hn.
    - apply nth_error_None in H2. assert (k < List.length ys)%nat by (apply nth_error_Some; congruence). lia.
  Qed.

  Lemma law_idle_only k y1 y2 i : c_interval c = None -> c_idle c = Some i ->
    nth_error ys k = Some y1 -> nth_error ys (S k) = Some y2 -> y_done y1 = true ->
    y_pend y1 <= y_start y2 /\ y_start y1 < irt e (y_start y2).
  Proof.
    intros Hi Hidle H1 H2 Hd. pose proof (timer_chain fuel c e spawn script) as Hc. fold ys in Hc.
    destruct (chain_consecutive _ _ _ _ Hc _ _ _ H1 H2) as (b & Hn & Hok).
    unfold next_base in Hn. rewrite Hd, Hi, Hidle in Hn. destruct Hn as [Hp Hr]. destruct Hok as [Hb _].
    pose proof (irt_mono e _ _ Hb). lia.
  Qed.

  Lemma law_not_after_stop y s : In y ys -> v_stop e = Some s -> y_start y < s.
  Proof.
    intros Hin Hs. pose proof (timer_chain fuel c e spawn script) as Hc. fold ys in Hc.
    destruct (chain_each _ _ _ _ Hc _ Hin) as (_ & _ & Hst). unfold stopped in Hst. rewrite Hs in Hst.
    apply Z.leb_gt in Hst. exact Hst.
  Qed.
End Laws.

(* ------------------------------------------------------------------ cycles consume the script in order *)
Lemma loop_script_prefix fuel c e : forall script now h,
  exists n, map y_en (cycles (fst (loop fuel c e script now h))) = firstn n script.
Proof.
  induction script as [|en rest IH]; intros now h; rewrite loop_unfold.
  - exists 0%nat. destruct (stopped e now); [reflexivity|]. cbv zeta.
    destruct (pre_wait fuel c e now) as [evs0 [t|f]] eqn:Epw;
      [destruct (stopped e t)|]; cbn [fst]; rewrite (pre_wait_cycles _ _ _ _ _ _ Epw); reflexivity.
  - destruct (stopped e now); [exists 0%nat; reflexivity|]. cbv zeta.
    destruct (pre_wait fuel c e now) as [evs0 [t|f]] eqn:Epw;
      [|exists 0%nat; cbn [fst]; rewrite (pre_wait_cycles _ _ _ _ _ _ Epw); reflexivity].
    destruct (stopped e t); [exists 0%nat; cbn [fst]; rewrite (pre_wait_cycles _ _ _ _ _ _ Epw); reflexivity|].
    destruct (exec c (reset_if_succeeded h now) t en) as [[inv hend] h2].
    set (y := mkcyc t inv hend (hend + Z.max 0 (e_plat en)) en (finished h2) (h_failure h2) (h_delayed h2)) in *.
    destruct (post fuel c e y h2) as [evs1 [t'|f]] eqn:Epost.
    + destruct (IH t' h2) as [n Hn].
      destruct (loop fuel c e rest t' h2) as [evs2 f2]. cbn [fst] in *.
      exists (S n). rewrite cycles_app, (pre_wait_cycles _ _ _ _ _ _ Epw). cbn [app cycles].
      rewrite cycles_app, (post_cycles _ _ _ _ _ _ _ Epost). cbn [app map firstn]. rewrite Hn. reflexivity.
    + exists 1%nat. cbn [fst]. rewrite cycles_app, (pre_wait_cycles _ _ _ _ _ _ Epw). cbn [app cycles].
      rewrite (post_cycles _ _ _ _ _ _ _ Epost). reflexivity.
Qed.

Lemma timer_script_prefix fuel c e spawn script :
  exists n, map y_en (timer_cycles fuel c e spawn script) = firstn n script.
Proof.
  unfold timer_cycles, timer_run. destruct (c_initial c) as [d|].
  - destruct (sleep e spawn d) as [t|]; [|exists 0%nat; reflexivity].
    destruct (loop_script_prefix fuel c e script t (fresh t)) as [n Hn].
    destruct (loop fuel c e script t (fresh t)) as [evs f]. exists n. exact Hn.
  - apply loop_script_prefix.
Qed.

(* ------------------------------------------------------------------ the sharp grid over the whole life of a timer *)
Lemma sharp_grid fuel c e spawn script i :
  c_interval c = Some i -> c_sharp c = true -> 0 < i -> c_idle c = None ->
  (forall y, In y (timer_cycles fuel c e spawn script) -> y_done y = true) ->
  forall k y0 y, nth_error (timer_cycles fuel c e spawn script) 0 = Some y0 ->
                 nth_error (timer_cycles fuel c e spawn script) k = Some y ->
                 exists m, 0 <= m /\ y_start y = y_start y0 + m * i.
Proof.
  intros Hi Hs Hpos Hidle Hall. induction k as [|k IH]; intros y0 y H0 Hk.
  - rewrite H0 in Hk. injection Hk as <-. exists 0. lia.
  - destruct (nth_error (timer_cycles fuel c e spawn script) k) as [yk|] eqn:Ek.
    + destruct (IH y0 yk H0 eq_refl) as (m & Hm & Hst).
      destruct (law_after_success_sharp fuel c e spawn script k yk y i Ek Hk
                  (Hall _ (nth_error_In _ _ Ek)) Hi Hs Hpos) as (m' & Hm' & _ & Hok).
      rewrite Hidle in Hok. apply idle_ok_none in Hok. exists (m + m'). split; [lia|]. rewrite Hok, Hst. ring.
    + apply nth_error_None in Ek. assert (S k < List.length (timer_cycles fuel c e spawn script))%nat
        by (apply nth_error_Some; congruence). lia.
Qed.

(* ------------------------------------------------------------------ witnesses *)
Definition wit_env_plain : env := mkenv 0 [] None 100000.

(* sharp + idle: an essential change during the sleep moves the run off the grid of the first start *)
Definition wit_cfg_sharp_idle : cfg := mkcfg (Some 1000) true (Some 2000) None None None 60000 ETemporary.
Definition wit_env_reset : env := mkenv 0 [2500] None 100000.
Definition wit_script_ok2 : list entry := [mkentry 0 0 OOk; mkentry 0 0 OOk].

Lemma sharp_global_grid_refuted :
  exists fuel c e spawn script i y0 y1,
    c_interval c = Some i /\ c_sharp c = true /\ 0 < i /\
    (forall y, In y (timer_cycles fuel c e spawn script) -> y_done y = true) /\
    nth_error (timer_cycles fuel c e spawn script) 0 = Some y0 /\
    nth_error (timer_cycles fuel c e spawn script) 1 = Some y1 /\
    (y_start y1 - y_start y0) mod i <> 0.
Proof.
  exists 10%nat, wit_cfg_sharp_idle, wit_env_reset, 0, wit_script_ok2, 1000.
  eexists. eexists. repeat apply conj; try (vm_compute; reflexivity).
  - vm_compute. intros y [<-|[<-|[]]]; reflexivity.
  - vm_compute. discriminate.
Qed.

(* ------------------------------------------------------------------ non-vacuity: the hypotheses of the laws are met by runs *)
Definition ex_cfg_interval : cfg := mkcfg (Some 1000) false (Some 2000) (Some 3000) None None 250 ETemporary.
Definition ex_env : env := mkenv 0 [500; 4000] (Some 30000) 100000.
Definition ex_script : list entry :=
  [mkentry 250 125 OOk; mkentry 1500 0 (OTemp (Some 500)); mkentry 0 0 OArb; mkentry 1000 0 OOk; mkentry 0 0 OOk].

Example ex_interval_run :
  map (fun y => (y_start y, y_hend y, y_pend y, y_done y)) (timer_cycles 50 ex_cfg_interval ex_env 0 ex_script) =
  [(3000, 3250, 3375, true); (6000, 7500, 7500, false); (8000, 8000, 8000, false);
   (8250, 9250, 9250, true); (10250, 10250, 10250, true)].
Proof. vm_compute. reflexivity. Qed.

Example ex_after_success_hyps :
  exists y1 y2, nth_error (timer_cycles 50 ex_cfg_interval ex_env 0 ex_script) 0 = Some y1 /\
                nth_error (timer_cycles 50 ex_cfg_interval ex_env 0 ex_script) 1 = Some y2 /\
                y_done y1 = true /\ y_pend y1 + 1000 < y_start y2.   (* postponed by idling *)
Proof. eexists. eexists. repeat apply conj; vm_compute; reflexivity. Qed.

Example ex_after_failure_hyps :
  exists y1 y2 y3, nth_error (timer_cycles 50 ex_cfg_interval ex_env 0 ex_script) 1 = Some y1 /\
                   nth_error (timer_cycles 50 ex_cfg_interval ex_env 0 ex_script) 2 = Some y2 /\
                   nth_error (timer_cycles 50 ex_cfg_interval ex_env 0 ex_script) 3 = Some y3 /\
                   y_inv y1 = true /\ y_done y1 = false /\ e_out (y_en y1) = OTemp (Some 500) /\
                   y_start y2 = y_hend y1 + 500 /\
                   y_inv y2 = true /\ y_done y2 = false /\ e_out (y_en y2) = OArb /\
                   y_start y3 = y_hend y2 + 250.
Proof. eexists. eexists. eexists. repeat apply conj; vm_compute; reflexivity. Qed.

Definition ex_cfg_sharp : cfg := mkcfg (Some 1000) true None None None None 60000 ETemporary.
Definition ex_script_sharp : list entry :=
  [mkentry 250 125 OOk; mkentry 1500 0 OOk; mkentry 1000 0 OOk; mkentry 0 0 OOk].

Example ex_sharp_run :
  map (fun y => (y_start y, y_pend y)) (timer_cycles 50 ex_cfg_sharp wit_env_plain 0 ex_script_sharp) =
  [(0, 375); (1000, 2500); (3000, 4000); (5000, 5000)].
Proof. vm_compute. reflexivity. Qed.

Definition ex_cfg_idle_only : cfg := mkcfg None false (Some 2000) None None None 60000 ETemporary.
Definition ex_env_idle_only : env := mkenv 0 [500; 6125; 9000] None 100000.

Example ex_idle_only_run :
  map (fun y => (y_start y, y_pend y)) (timer_cycles 50 ex_cfg_idle_only ex_env_idle_only 0 ex_script_sharp) =
  [(2500, 2875); (8125, 9625); (11000, 12000)].
Proof. vm_compute. reflexivity. Qed.

Definition ex_cfg_one_shot : cfg := mkcfg None false None None None None 250 ETemporary.

Example ex_one_shot_run :
  map (fun y => (y_start y, y_done y)) (timer_cycles 50 ex_cfg_one_shot wit_env_plain 0
      [mkentry 250 0 (OTemp (Some 500)); mkentry 0 0 OOk; mkentry 0 0 OOk]) = [(0, false); (750, true)].
Proof. vm_compute. reflexivity. Qed.

(* ------------------------------------------------------------------ fuel: the idle wait needs at most |changes|+2 iterations *)
Lemma irt_fold_in rs : forall a t,
  fold_left (fun acc r => if r <=? t then Z.max acc r else acc) rs a = a \/
  In (fold_left (fun acc r => if r <=? t then Z.max acc r else acc) rs a) rs.
Proof.
  induction rs as [|r rs IH]; intros a t; cbn [fold_left]; [left; reflexivity|].
  destruct (IH (if r <=? t then Z.max a r else a) t) as [E|Hin].
  - rewrite E. destruct (r <=? t); [|left; reflexivity].
    destruct (Z.max_spec a r) as [[_ ->]|[_ ->]]; [right; left; reflexivity|left; reflexivity].
  - right; right; exact Hin.
Qed.

Definition later (e : env) (x : Z) : nat := List.length (filter (fun r => x <? r) (v_resets e)).

Lemma filter_len_le l x y : x <= y ->
  (List.length (filter (fun r => (y <? r)%Z) l) <= List.length (filter (fun r => (x <? r)%Z) l))%nat.
Proof.
  intro H. induction l as [|r l IH]; cbn [filter]; [lia|].
  destruct (Z.ltb_spec y r), (Z.ltb_spec x r); cbn [List.length]; lia.
Qed.

Lemma filter_len_lt l x y : x < y -> In y l ->
  (List.length (filter (fun r => (y <? r)%Z) l) < List.length (filter (fun r => (x <? r)%Z) l))%nat.
Proof.
  intros H. induction l as [|r l IH]; intros Hin; [destruct Hin|]. cbn [filter].
  destruct Hin as [->|Hin].
  - rewrite Z.ltb_irrefl. destruct (Z.ltb_spec x y); [|lia]. cbn [List.length].
    pose proof (filter_len_le l x y ltac:(lia)). lia.
  - specialize (IH Hin). destruct (Z.ltb_spec y r), (Z.ltb_spec x r); cbn [List.length]; lia.
Qed.

Lemma later_le_length e x : (later e x <= List.length (v_resets e))%nat.
Proof.
  unfold later. induction (v_resets e) as [|r l IH]; cbn [filter List.length]; [lia|].
  destruct (x <? r); cbn [List.length]; lia.
Qed.

Lemma idle_wait_fuel_aux e i : forall fuel now, (1 <= fuel)%nat ->
  (negb (stopped e now) && (now - irt e now <? i) = true -> (later e (irt e now) + 2 <= fuel)%nat) ->
  forall evs t, idle_wait fuel e i now <> (evs, WEnd (FFuel t)).
Proof.
  induction fuel as [|f IH]; intros now Hf Hb evs t; [lia|]. cbn [idle_wait].
  destruct (negb (stopped e now) && (now - irt e now <? i)) eqn:Ec; [|discriminate].
  specialize (Hb eq_refl). apply andb_true_iff in Ec. destruct Ec as [Es Elt].
  apply negb_true_iff in Es. apply Z.ltb_lt in Elt.
  destruct (sleep e now (irt e now + i - now)) as [t1|] eqn:Esl; [|discriminate].
  destruct (idle_wait f e i t1) as [evs' r'] eqn:Er. intro E. injection E as _ ->.
  apply (IH t1 ltac:(lia)) with (evs := evs') (t := t); [|exact Er].
  intro Ec1. apply andb_true_iff in Ec1. destruct Ec1 as [Es1 Elt1].
  apply negb_true_iff in Es1. apply Z.ltb_lt in Elt1.
  pose proof (sleep_woke _ _ _ _ Esl) as (_ & Hx). specialize (Hx Es1).
  assert (Hgt : irt e now < irt e t1) by lia.
  assert (Hin : In (irt e t1) (v_resets e)).
  { destruct (irt_fold_in (v_resets e) (v_irt0 e) t1) as [E0|Hin]; [|exact Hin].
    fold (irt e t1) in E0. pose proof (irt_ge_irt0 e now). lia. }
  pose proof (filter_len_lt (v_resets e) _ _ Hgt Hin) as Hlt. unfold later in *. lia.
Qed.

Lemma idle_wait_fuel_enough e i fuel now evs t : (List.length (v_resets e) + 2 <= fuel)%nat ->
  idle_wait fuel e i now <> (evs, WEnd (FFuel t)).
Proof.
  intro H. apply idle_wait_fuel_aux; [lia|]. intros _. pose proof (later_le_length e (irt e now)). lia.
Qed.

(* ------------------------------------------------------------------ a handler that failed for good is never entered again *)
Lemma exec_failed c h t en : h_failure h = true -> exec c h t en = (false, t, h).
Proof.
  intro Hf. unfold exec, awakened, finished. rewrite Hf, orb_true_r. reflexivity.
Qed.

Lemma reset_failed h now : h_failure h = true -> reset_if_succeeded h now = h.
Proof. intro Hf. unfold reset_if_succeeded. rewrite Hf, andb_false_r. reflexivity. Qed.

(* shape of one iteration of the main loop *)
Lemma loop_decomp fuel c e en rest now h :
  cycles (fst (loop fuel c e (en :: rest) now h)) = [] \/
  exists t inv hend h2 tail,
    exec c (reset_if_succeeded h now) t en = (inv, hend, h2) /\
    cycles (fst (loop fuel c e (en :: rest) now h)) =
      mkcyc t inv hend (hend + Z.max 0 (e_plat en)) en (finished h2) (h_failure h2) (h_delayed h2) :: tail /\
    (tail = [] \/ exists t', tail = cycles (fst (loop fuel c e rest t' h2))).
Proof.
  rewrite loop_unfold.
  destruct (stopped e now); [left; reflexivity|]. cbv zeta.
  destruct (pre_wait fuel c e now) as [evs0 [t|f]] eqn:Epw;
    [|left; cbn [fst]; apply (pre_wait_cycles _ _ _ _ _ _ Epw)].
  destruct (stopped e t); [left; cbn [fst]; apply (pre_wait_cycles _ _ _ _ _ _ Epw)|].
  destruct (exec c (reset_if_succeeded h now) t en) as [[inv hend] h2] eqn:Eex.
  right. exists t, inv, hend, h2.
  set (y := mkcyc t inv hend (hend + Z.max 0 (e_plat en)) en (finished h2) (h_failure h2) (h_delayed h2)) in *.
  destruct (post fuel c e y h2) as [evs1 [t'|f]] eqn:Epost.
  - destruct (loop fuel c e rest t' h2) as [evs2 f2] eqn:El.
    exists (cycles evs2). split; [exact Eex|]. split.
    + cbn [fst]. rewrite cycles_app, (pre_wait_cycles _ _ _ _ _ _ Epw). cbn [app cycles].
      rewrite cycles_app, (post_cycles _ _ _ _ _ _ _ Epost). reflexivity.
    + right. exists t'. rewrite El. reflexivity.
  - exists []. split; [exact Eex|]. split; [|left; reflexivity].
    cbn [fst]. rewrite cycles_app, (pre_wait_cycles _ _ _ _ _ _ Epw). cbn [app cycles].
    rewrite (post_cycles _ _ _ _ _ _ _ Epost). reflexivity.
Qed.

Lemma loop_nil_script fuel c e now h : cycles (fst (loop fuel c e [] now h)) = [].
Proof.
  rewrite loop_unfold. destruct (stopped e now); [reflexivity|]. cbv zeta.
  destruct (pre_wait fuel c e now) as [evs0 [t|f]] eqn:Epw;
    [destruct (stopped e t)|]; cbn [fst]; apply (pre_wait_cycles _ _ _ _ _ _ Epw).
Qed.

Lemma loop_failed_sticky fuel c e : forall script now h, h_failure h = true ->
  forall y, In y (cycles (fst (loop fuel c e script now h))) -> y_inv y = false /\ y_failed y = true.
Proof.
  induction script as [|en rest IH]; intros now h Hf y Hin.
  - rewrite loop_nil_script in Hin. destruct Hin.
  - destruct (loop_decomp fuel c e en rest now h) as [E|(t & inv & hend & h2 & tail & Eex & E & Ht)];
      rewrite E in Hin; [destruct Hin|].
    rewrite (reset_failed _ _ Hf), (exec_failed _ _ _ _ Hf) in Eex. injection Eex as <- <- <-.
    destruct Hin as [<-|Hin]; [cbn; auto|].
    destruct Ht as [->|(t' & ->)]; [destruct Hin|]. eapply IH; eassumption.
Qed.

Lemma loop_no_run_after_failure fuel c e : forall script now h i j yi yj, (i < j)%nat ->
  nth_error (cycles (fst (loop fuel c e script now h))) i = Some yi -> y_failed yi = true ->
  nth_error (cycles (fst (loop fuel c e script now h))) j = Some yj ->
  y_inv yj = false /\ y_failed yj = true.
Proof.
  induction script as [|en rest IH]; intros now h i j yi yj Hij Hi Hf Hj.
  - rewrite loop_nil_script in Hi. destruct i; discriminate.
  - destruct (loop_decomp fuel c e en rest now h) as [E|(t & inv & hend & h2 & tail & Eex & E & Ht)];
      rewrite E in Hi, Hj; [destruct i; discriminate|].
    destruct j as [|j]; [lia|]. cbn [nth_error] in Hj.
    destruct Ht as [->|(t' & ->)]; [destruct j; discriminate|].
    destruct i as [|i].
    + cbn in Hi. injection Hi as <-. cbn [y_failed] in Hf.
      eapply loop_failed_sticky; [exact Hf|]. eapply nth_error_In; exact Hj.
    + cbn [nth_error] in Hi. eapply (IH t' h2 i j); try eassumption. lia.
Qed.

Lemma law_no_run_after_final_failure fuel c e spawn script i j yi yj : (i < j)%nat ->
  nth_error (timer_cycles fuel c e spawn script) i = Some yi -> y_failed yi = true ->
  nth_error (timer_cycles fuel c e spawn script) j = Some yj ->
  y_inv yj = false /\ y_failed yj = true.
Proof.
  unfold timer_cycles, timer_run. destruct (c_initial c) as [d|].
  - destruct (sleep e spawn d) as [t|]; [|intros _ H; destruct i; discriminate].
    pose proof (loop_no_run_after_failure fuel c e script t (fresh t) i j yi yj) as L.
    destruct (loop fuel c e script t (fresh t)) as [evs f]. cbn [fst cycles sleep_ev] in *. exact L.
  - apply loop_no_run_after_failure.
Qed.

(* the full statement of the law: between two consecutive RUNS, a failed first one imposes its delay / the backoff *)
Lemma law_after_failure_full fuel c e spawn script k y1 y2 :
  nth_error (timer_cycles fuel c e spawn script) k = Some y1 ->
  nth_error (timer_cycles fuel c e spawn script) (S k) = Some y2 ->
  y_inv y1 = true -> y_inv y2 = true ->
  (forall d, e_out (y_en y1) = OTemp (Some d) -> y_hend y1 + d <= y_start y2) /\
  (e_out (y_en y1) = OArb -> c_errors c <> EIgnored -> y_hend y1 + c_backoff c <= y_start y2).
Proof.
  intros H1 H2 Hi1 Hi2.
  assert (Hnf : y_failed y1 = false).
  { destruct (y_failed y1) eqn:Ef; [|reflexivity].
    destruct (law_no_run_after_final_failure fuel c e spawn script k (S k) y1 y2 ltac:(lia) H1 Ef H2) as [Hx _].
    congruence. }
  pose proof (timer_chain fuel c e spawn script) as Hc.
  destruct (chain_each _ _ _ _ Hc _ (nth_error_In _ _ H1)) as ((_ & _ & _ & _ & _ & Hcls & _) & _).
  assert (Hnd : e_out (y_en y1) <> OOk -> (e_out (y_en y1) = OArb -> c_errors c <> EIgnored) -> y_done y1 = false).
  { intros Hno Hna. destruct (y_done y1) eqn:Ed; [|reflexivity].
    destruct (Hcls Hi1 eq_refl Hnf) as [Ho|[Ho Hm]]; [contradiction|]. exfalso. exact (Hna Ho Hm). }
  split.
  - intros d Hd. assert (Hdn : y_done y1 = false) by (apply Hnd; rewrite Hd; [discriminate|discriminate]).
    destruct (law_after_failure fuel c e spawn script k y1 y2 H1 H2 Hi1 Hdn) as (L & _ & _). apply (L d Hd).
  - intros Ha Hm. assert (Hdn : y_done y1 = false) by (apply Hnd; [rewrite Ha; discriminate|intros _; exact Hm]).
    destruct (law_after_failure fuel c e spawn script k y1 y2 H1 H2 Hi1 Hdn) as (_ & _ & L). apply (L Ha).
Qed.

(* witness that the hypotheses of law_no_run_after_final_failure are met: retries=1, the first arbitrary error is
   final; the timer keeps cycling every interval but never enters the function again *)
Definition wit_cfg_final_failure : cfg := mkcfg (Some 1000) false None None (Some 1) None 60000 ETemporary.
Definition wit_script_final_failure : list entry := [mkentry 250 0 OArb; mkentry 0 0 OOk; mkentry 0 0 OOk].

Example ex_final_failure_run :
  map (fun y => (y_start y, y_inv y, y_failed y)) (timer_cycles 10 wit_cfg_final_failure wit_env_plain 0 wit_script_final_failure) =
  [(0, true, true); (1250, false, true); (2250, false, true)].
Proof. vm_compute. reflexivity. Qed.

(* idle-only timer whose stopper is set during the wait for the next change: the wait ends, the loop exits *)
Example ex_idle_only_stop :
  snd (timer_run 50 (mkcfg None false (Some 2000) None None None 60000 ETemporary) (mkenv 0 [500] (Some 4000) 100000) 0
         [mkentry 250 125 OOk; mkentry 0 0 OOk]) = FStopped 4000.
Proof. vm_compute. reflexivity. Qed.
