(* Lemmas about Model/Timer.v (kopf/_core/engines/daemons.py:_timer). *)
From Coq Require Import ZArith List Bool Lia.
From KV Require Import Model.Timer.
Import ListNotations.
Open Scope Z_scope.

(* ------------------------------------------------------------------ idle_reset_time as a function of time *)
Section Foldv.
  Variable vis : Z -> Z -> bool.
  Hypothesis vis_mono : forall r t t', t <= t' -> vis r t = true -> vis r t' = true.

  Lemma foldv_mono rs : forall a a' t t', a <= a' -> t <= t' -> foldv vis rs a t <= foldv vis rs a' t'.
  Proof.
    unfold foldv. induction rs as [|r rs IH]; intros a a' t t' Ha Ht; cbn [fold_left]; [lia|].
    apply IH; [|lia].
    destruct (vis r t) eqn:E1; [rewrite (vis_mono r t t' Ht E1); lia|]. destruct (vis r t'); lia.
  Qed.

  Lemma foldv_ge_acc rs : forall a t, a <= foldv vis rs a t.
  Proof.
    unfold foldv. induction rs as [|r rs IH]; intros a t; cbn [fold_left]; [lia|].
    etransitivity; [|apply IH]. destruct (vis r t); lia.
  Qed.

  Lemma foldv_ge_in rs : forall a t r, In r rs -> vis r t = true -> r <= foldv vis rs a t.
  Proof.
    induction rs as [|r0 rs IH]; intros a t r Hin Hr; [destruct Hin|].
    destruct Hin as [->|Hin].
    - unfold foldv. cbn [fold_left]. rewrite Hr. etransitivity; [|apply foldv_ge_acc]. lia.
    - unfold foldv. cbn [fold_left]. apply IH; assumption.
  Qed.

  Lemma foldv_in rs : forall a t, foldv vis rs a t = a \/ In (foldv vis rs a t) rs.
  Proof.
    induction rs as [|r rs IH]; intros a t; [left; reflexivity|].
    change (foldv vis (r :: rs) a t) with (foldv vis rs (if vis r t then Z.max a r else a) t).
    destruct (IH (if vis r t then Z.max a r else a) t) as [E|Hin].
    - rewrite E. destruct (vis r t); [|left; reflexivity].
      destruct (Z.max_spec a r) as [[_ ->]|[_ ->]]; [right; left; reflexivity|left; reflexivity].
    - right; right; exact Hin.
  Qed.
End Foldv.

Lemma leb_vis_mono : forall r t t', t <= t' -> (r <=? t) = true -> (r <=? t') = true.
Proof. intros r t t' H H1. apply Z.leb_le in H1. apply Z.leb_le. lia. Qed.
Lemma ltb_vis_mono : forall r t t', t <= t' -> (r <? t) = true -> (r <? t') = true.
Proof. intros r t t' H H1. apply Z.ltb_lt in H1. apply Z.ltb_lt. lia. Qed.

Lemma irt_mono e t t' : t <= t' -> irt e t <= irt e t'.
Proof.
  intro H. unfold irt. apply (foldv_mono _ ltb_vis_mono); [|exact H]. apply (foldv_mono _ leb_vis_mono); lia.
Qed.

Lemma irt_ge_irt0 e t : v_irt0 e <= irt e t.
Proof. unfold irt. etransitivity; [|apply foldv_ge_acc]. apply foldv_ge_acc. Qed.

(* an early change at instant r is seen from r on ... *)
Lemma irt_ge_reset e t r : In r (v_resets e) -> r <= t -> r <= irt e t.
Proof.
  intros Hin Hr. unfold irt. etransitivity; [|apply foldv_ge_acc].
  apply foldv_ge_in; [exact Hin|]. apply Z.leb_le. exact Hr.
Qed.

(* ... a late one strictly after r *)
Lemma irt_ge_late e t r : In r (v_late e) -> r < t -> r <= irt e t.
Proof. intros Hin Hr. unfold irt. apply foldv_ge_in; [exact Hin|]. apply Z.ltb_lt. exact Hr. Qed.

Lemma irt_in e t : irt e t = v_irt0 e \/ In (irt e t) (v_resets e ++ v_late e).
Proof.
  unfold irt. destruct (foldv_in Z.ltb (v_late e) (foldv Z.leb (v_resets e) (v_irt0 e) t) t) as [E|Hin].
  - rewrite E. destruct (foldv_in Z.leb (v_resets e) (v_irt0 e) t) as [E'|Hin]; [left; exact E'|].
    right. apply in_or_app. left. exact Hin.
  - right. apply in_or_app. right. exact Hin.
Qed.

Lemma stopped_mono e t t' : t <= t' -> stopped e t = true -> stopped e t' = true.
Proof.
  unfold stopped. destruct (v_stop e) as [s|]; [|discriminate].
  intros H H1. apply Z.leb_le in H1. apply Z.leb_le. lia.
Qed.

Lemma not_stopped_earlier e t t' : t <= t' -> stopped e t' = false -> stopped e t = false.
Proof.
  intros H H1. destruct (stopped e t) eqn:E; [|reflexivity].
  rewrite (stopped_mono e t t' H E) in H1. discriminate.
Qed.

(* ------------------------------------------------------------------ aiotime.sleep *)
Lemma sleep_woke e now d t : sleep e now d = Woke t ->
  now <= t /\ (stopped e t = false -> t = now + Z.max 0 d).
Proof.
  unfold sleep. destruct (Z.leb_spec d 0) as [Hd|Hd].
  - intro E; injection E as <-. split; lia.
  - destruct (stopped e now) eqn:Es.
    + intro E; injection E as <-. split; [lia|]. congruence.
    + unfold stopped in *. destruct (v_stop e) as [s|].
      * apply Z.leb_gt in Es.
        destruct (Z.ltb_spec (v_horizon e) (Z.min (now + d) s)); [discriminate|].
        intro E; injection E as <-. split; [lia|].
        intro Hs. apply Z.leb_gt in Hs. lia.
      * destruct (Z.ltb_spec (v_horizon e) (now + d)); [discriminate|].
        intro E; injection E as <-. split; lia.
Qed.

(* ------------------------------------------------------------------ events without cycles *)
Lemma cycles_app a b : cycles (a ++ b) = cycles a ++ cycles b.
Proof.
  induction a as [|[y|t d w] a IH]; cbn [app cycles]; [reflexivity| |]; rewrite IH; reflexivity.
Qed.

Lemma idle_wait_cycles fuel e i : forall now evs r, idle_wait fuel e i now = (evs, r) -> cycles evs = [].
Proof.
  induction fuel as [|f IH]; intros now evs r; cbn [idle_wait].
  - intro E; injection E as <- _; reflexivity.
  - destruct (negb (stopped e now) && (now - irt e now <? i)).
    + destruct (sleep e now (irt e now + i - now)) as [t|].
      * destruct (idle_wait f e i t) as [evs' r'] eqn:Er. intro E; injection E as <- _.
        cbn [cycles sleep_ev]. eapply IH; eassumption.
      * intro E; injection E as <- _; reflexivity.
    + intro E; injection E as <- _; reflexivity.
Qed.

Lemma idle_only_wait_cycles fuel e i started : forall now evs r,
  idle_only_wait fuel e i started now = (evs, r) -> cycles evs = [].
Proof.
  induction fuel as [|f IH]; intros now evs r; cbn [idle_only_wait].
  - intro E; injection E as <- _; reflexivity.
  - destruct ((irt e now <=? started) && negb (stopped e now)).
    + destruct (i <=? 0).
      * intro E; injection E as <- _; reflexivity.
      * destruct (sleep e now i) as [t|].
        -- destruct (idle_only_wait f e i started t) as [evs' r'] eqn:Er. intro E; injection E as <- _.
           cbn [cycles sleep_ev]. eapply IH; eassumption.
        -- intro E; injection E as <- _; reflexivity.
    + intro E; injection E as <- _; reflexivity.
Qed.

Lemma post_cycles fuel c e y h evs r : post fuel c e y h = (evs, r) -> cycles evs = [].
Proof.
  unfold post, one_sleep.
  destruct (negb (finished h)); [intro E; injection E as <- _; reflexivity|].
  destruct (c_interval c) as [i|].
  - destruct (c_sharp c).
    + destruct (i =? 0); intro E; injection E as <- _; reflexivity.
    + intro E; injection E as <- _; reflexivity.
  - destruct (c_idle c) as [i|].
    + apply idle_only_wait_cycles.
    + intro E; injection E as <- _; reflexivity.
Qed.

Lemma pre_wait_cycles fuel c e now evs r : pre_wait fuel c e now = (evs, r) -> cycles evs = [].
Proof.
  unfold pre_wait. destruct (c_idle c) as [i|].
  - apply idle_wait_cycles.
  - intro E; injection E as <- _; reflexivity.
Qed.

(* ------------------------------------------------------------------ the idle wait reaches the first clear instant *)
Lemma idle_wait_spec fuel e i : forall now evs t,
  idle_wait fuel e i now = (evs, WGo t) -> stopped e t = false -> idle_ok e (Some i) now t.
Proof.
  induction fuel as [|f IH]; intros now evs t; cbn [idle_wait]; [discriminate|].
  destruct (negb (stopped e now) && (now - irt e now <? i)) eqn:Ec.
  - apply andb_true_iff in Ec. destruct Ec as [Es Elt].
    apply negb_true_iff in Es. apply Z.ltb_lt in Elt.
    destruct (sleep e now (irt e now + i - now)) as [t1|] eqn:Esl; [|discriminate].
    destruct (idle_wait f e i t1) as [evs' r'] eqn:Er.
    intro E; injection E as _ ->. intro Hst.
    pose proof (IH _ _ _ Er Hst) as (Hle & Hcl & Hmin).
    pose proof (sleep_woke _ _ _ _ Esl) as (Hn & Hex).
    pose proof (Hex (not_stopped_earlier _ _ _ Hle Hst)) as Ht1.
    assert (t1 = irt e now + i) by lia. subst t1. clear Hex.
    split; [lia|]. split; [exact Hcl|].
    intros t' Ht'. destruct (Z.lt_ge_cases t' (irt e now + i)) as [Hlt|Hge].
    + cbn [clear]. pose proof (irt_mono e now t') as Hm. lia.
    + apply Hmin. lia.
  - intro E; injection E as _ <-. intro Hst.
    rewrite Hst in Ec. cbn [negb andb] in Ec. apply Z.ltb_ge in Ec.
    split; [lia|]. split; [cbn [clear]; lia|]. intros t' Ht'. lia.
Qed.

Lemma pre_wait_spec fuel c e now evs t :
  pre_wait fuel c e now = (evs, WGo t) -> stopped e t = false -> idle_ok e (c_idle c) now t.
Proof.
  unfold pre_wait. destruct (c_idle c) as [i|].
  - apply idle_wait_spec.
  - intro E; injection E as _ <-. intros _. split; [lia|]. split; [exact I|]. intros t' Ht'. lia.
Qed.

Lemma idle_only_wait_spec fuel e i started : forall now evs t,
  idle_only_wait fuel e i started now = (evs, WGo t) ->
  now <= t /\ (started < irt e t \/ stopped e t = true).
Proof.
  induction fuel as [|f IH]; intros now evs t; cbn [idle_only_wait]; [discriminate|].
  destruct ((irt e now <=? started) && negb (stopped e now)) eqn:Ec.
  - destruct (i <=? 0); [discriminate|].
    destruct (sleep e now i) as [t1|] eqn:Esl; [|discriminate].
    destruct (idle_only_wait f e i started t1) as [evs' r'] eqn:Er.
    intro E; injection E as _ ->.
    pose proof (IH _ _ _ Er) as (H1 & H2). pose proof (sleep_woke _ _ _ _ Esl) as (Hn & _).
    split; [lia|exact H2].
  - intro E; injection E as _ <-. split; [lia|].
    apply andb_false_iff in Ec. destruct Ec as [Ec|Ec].
    + left. apply Z.leb_gt in Ec. exact Ec.
    + right. apply negb_false_iff in Ec. exact Ec.
Qed.

(* ------------------------------------------------------------------ one cycle *)
Lemma exec_wf c h t en inv hend h2 :
  exec c h t en = (inv, hend, h2) ->
  wf_cyc c (mkcyc t inv hend (hend + Z.max 0 (e_plat en)) en (finished h2) (h_failure h2) (h_delayed h2)).
Proof.
  unfold exec, wf_cyc, expected_delayed, retry_delay. cbn [y_start y_hend y_pend y_en y_inv y_done y_failed y_delayed].
  assert (Hfd : forall x, h_failure x = true -> finished x = true)
    by (intros x Hx; unfold finished; rewrite Hx; apply orb_true_r).
  destruct (negb (awakened h t)).
  { intro E; injection E as <- <- <-. repeat split; try lia; try discriminate; auto. }
  destruct (hits (c_timeout c) (t - h_started h)).
  { intro E; injection E as <- <- <-. repeat split; try lia; try discriminate; auto. }
  destruct (hits (c_retries c) (h_retries h)).
  { intro E; injection E as <- <- <-. repeat split; try lia; try discriminate; auto. }
  intro E; injection E as <- <- <-.
  split; [lia|]. split; [lia|]. split; [reflexivity|]. split; [reflexivity|].
  split; [|split; [|apply Hfd]].
  - intros _. unfold finished, with_outcome, classify; cbn [h_success h_failure h_delayed].
    destruct (e_out en) as [|[d|]| | |[d|]]; try destruct (c_errors c);
    repeat match goal with |- context [if ?b then _ else _] => destruct b end;
    cbn [orb]; intros; try discriminate; repeat split; try discriminate; try reflexivity.
  - intros _. unfold finished, with_outcome, classify; cbn [h_success h_failure h_delayed].
    destruct (e_out en) as [|[d|]| | |[d|]]; try destruct (c_errors c);
    repeat match goal with |- context [if ?b then _ else _] => destruct b end;
    cbn [orb]; intros; try discriminate; auto.
Qed.

Lemma post_spec fuel c e y h evs t' :
  post fuel c e y h = (evs, WGo t') -> y_done y = finished h -> y_delayed y = h_delayed h ->
  stopped e t' = false -> next_base c e y t'.
Proof.
  unfold post, next_base, one_sleep. intros E Hd Hdl Hst. rewrite Hd.
  destruct (finished h); cbn [negb] in E.
  - destruct (c_interval c) as [i|].
    + destruct (c_sharp c).
      * destruct (Z.eqb_spec i 0) as [Hz|Hi]; [discriminate|].
        destruct (sleep e (y_pend y) (i - (y_pend y - y_start y) mod i)) as [t|] eqn:Esl; [|discriminate].
        injection E as _ <-. split; [exact Hi|].
        apply sleep_woke in Esl. destruct Esl as [_ Hx]. apply Hx. exact Hst.
      * destruct (sleep e (y_pend y) i) as [t|] eqn:Esl; [|discriminate].
        injection E as _ <-. apply sleep_woke in Esl. destruct Esl as [_ Hx]. apply Hx. exact Hst.
    + destruct (c_idle c) as [i|]; [|discriminate].
      apply idle_only_wait_spec in E. destruct E as [E1 [E2|E2]]; [split; assumption|congruence].
  - destruct (sleep e (y_pend y) (state_delay h (y_pend y))) as [t|] eqn:Esl; [|discriminate].
    injection E as _ <-. apply sleep_woke in Esl. destruct Esl as [_ Hx]. specialize (Hx Hst).
    rewrite Hdl. unfold state_delay in Hx. destruct (h_delayed h) as [d|]; lia.
Qed.

Lemma next_base_ge c e y b : next_base c e y b -> y_pend y <= b.
Proof.
  unfold next_base. destruct (y_done y).
  - destruct (c_interval c) as [i|].
    + destruct (c_sharp c); lia.
    + destruct (c_idle c); [lia|tauto].
  - destruct (y_delayed y); lia.
Qed.

(* ------------------------------------------------------------------ the main loop produces a chain *)
Lemma loop_unfold fuel c e script now h :
  loop fuel c e script now h =
  if stopped e now then ([], FStopped now)
  else
    match pre_wait fuel c e now with
    | (evs0, WEnd f) => (evs0, f)
    | (evs0, WGo t) =>
        if stopped e t then (evs0, FStopped t)
        else match script with
             | [] => (evs0, FOut t)
             | en :: rest =>
                 let '(inv, hend, h2) := exec c (reset_state h t) t en in
                 let y := mkcyc t inv hend (hend + Z.max 0 (e_plat en)) en (finished h2) (h_failure h2) (h_delayed h2) in
                 match post fuel c e y h2 with
                 | (evs1, WEnd f) => (evs0 ++ ECyc y :: evs1, f)
                 | (evs1, WGo t') =>
                     let '(evs2, f) := loop fuel c e rest t' (Some h2) in
                     (evs0 ++ ECyc y :: evs1 ++ evs2, f)
                 end
             end
    end.
Proof. destruct script; reflexivity. Qed.

Lemma loop_stopped_nil fuel c e script now h :
  stopped e now = true -> cycles (fst (loop fuel c e script now h)) = [].
Proof. intro H. rewrite loop_unfold, H. reflexivity. Qed.

(* the first cycle of a loop that begins with a fresh handler state *)
Lemma loop_head_fresh fuel c e : forall script now h y ys,
  (forall t, reset_state h t = fresh t) ->
  cycles (fst (loop fuel c e script now h)) = y :: ys -> y_inv y = run_allowed c.
Proof.
  intros script now h y ys Hfresh. rewrite loop_unfold.
  destruct (stopped e now); [discriminate|]. cbv zeta.
  destruct (pre_wait fuel c e now) as [evs0 [t|f]] eqn:Epw;
    [|cbn [fst]; rewrite (pre_wait_cycles _ _ _ _ _ _ Epw); discriminate].
  destruct (stopped e t); [cbn [fst]; rewrite (pre_wait_cycles _ _ _ _ _ _ Epw); discriminate|].
  destruct script as [|en rest]; [cbn [fst]; rewrite (pre_wait_cycles _ _ _ _ _ _ Epw); discriminate|].
  rewrite Hfresh. unfold exec, run_allowed. cbn [awakened sleeping finished fresh h_success h_failure h_delayed h_started h_retries orb negb andb].
  rewrite Z.sub_diag.
  assert (Hhead : forall inv hend h2 evs' (f : final),
    cycles (evs0 ++ ECyc (mkcyc t inv hend (hend + Z.max 0 (e_plat en)) en (finished h2) (h_failure h2) (h_delayed h2)) :: evs') = y :: ys ->
    y_inv y = inv /\ y_start y = t).
  { intros inv hend h2 evs' f E. rewrite cycles_app, (pre_wait_cycles _ _ _ _ _ _ Epw) in E. cbn [app cycles] in E.
    injection E as <- _. auto. }
  destruct (hits (c_timeout c) 0) eqn:Eto;
    [|destruct (hits (c_retries c) 0) eqn:Ere];
    match goal with |- context [post fuel c e ?yy ?hh] => destruct (post fuel c e yy hh) as [evs1 [t'|f]] end;
    try (destruct (loop fuel c e rest t' _) as [evs2 f2]); cbn [fst]; intro E;
    apply (Hhead _ _ _ _ (FOut 0)) in E; destruct E as [-> _]; reflexivity.
Qed.

Lemma loop_chain fuel c e : forall script now h,
  chain c e now (cycles (fst (loop fuel c e script now h))).
Proof.
  induction script as [|en rest IH]; intros now h; rewrite loop_unfold.
  - destruct (stopped e now); [constructor|]. cbv zeta.
    destruct (pre_wait fuel c e now) as [evs0 [t|f]] eqn:Epw;
      [destruct (stopped e t)|]; cbn [fst]; rewrite (pre_wait_cycles _ _ _ _ _ _ Epw); constructor.
  - destruct (stopped e now); [constructor|]. cbv zeta.
    destruct (pre_wait fuel c e now) as [evs0 [t|f]] eqn:Epw;
      [|cbn [fst]; rewrite (pre_wait_cycles _ _ _ _ _ _ Epw); constructor].
    destruct (stopped e t) eqn:Est; [cbn [fst]; rewrite (pre_wait_cycles _ _ _ _ _ _ Epw); constructor|].
    destruct (exec c (reset_state h t) t en) as [[inv hend] h2] eqn:Eex.
    pose proof (exec_wf _ _ _ _ _ _ _ Eex) as Hwf.
    pose proof (pre_wait_spec _ _ _ _ _ _ Epw Est) as Hidle.
    set (y := mkcyc t inv hend (hend + Z.max 0 (e_plat en)) en (finished h2) (h_failure h2) (h_delayed h2)) in *.
    destruct (post fuel c e y h2) as [evs1 [t'|f]] eqn:Epost.
    + specialize (IH t' (Some h2)).
      destruct (loop fuel c e rest t' (Some h2)) as [evs2 f2] eqn:El. cbn [fst] in *.
      rewrite cycles_app, (pre_wait_cycles _ _ _ _ _ _ Epw). cbn [app cycles].
      rewrite cycles_app, (post_cycles _ _ _ _ _ _ _ Epost). cbn [app].
      destruct (cycles evs2) as [|y2 ys] eqn:Ecy.
      * apply chain_one; assumption.
      * assert (Hst' : stopped e t' = false).
        { destruct (stopped e t') eqn:Es'; [|reflexivity].
          pose proof (loop_stopped_nil fuel c e rest t' (Some h2) Es') as Hn. rewrite El in Hn. cbn [fst] in Hn.
          rewrite Hn in Ecy. discriminate. }
        eapply chain_cons; try eassumption.
        -- eapply post_spec; try eassumption; reflexivity.
        -- cbn [y_done y_failed y]. intros Hdn Hfl.
           eapply (loop_head_fresh fuel c e rest t' (Some h2));
             [intro; unfold reset_state; rewrite Hdn, Hfl; reflexivity|rewrite El; exact Ecy].
    + cbn [fst]. rewrite cycles_app, (pre_wait_cycles _ _ _ _ _ _ Epw). cbn [app cycles].
      rewrite (post_cycles _ _ _ _ _ _ _ Epost). apply chain_one; assumption.
Qed.

Definition initial_base (c : cfg) (spawn : Z) : Z :=
  spawn + Z.max 0 (match c_initial c with Some d => d | None => 0 end).

Lemma chain_weaken_nil c e now now' : chain c e now [] -> chain c e now' [].
Proof. intros _. constructor. Qed.

Lemma timer_chain fuel c e spawn script :
  chain c e (initial_base c spawn) (timer_cycles fuel c e spawn script).
Proof.
  unfold timer_cycles, timer_run, initial_base. destruct (c_initial c) as [d|].
  - destruct (sleep e spawn d) as [t|] eqn:Esl; [|constructor].
    pose proof (loop_chain fuel c e script t None) as Hc.
    destruct (loop fuel c e script t None) as [evs f] eqn:El. cbn [fst cycles sleep_ev] in *.
    destruct (stopped e t) eqn:Est.
    + pose proof (loop_stopped_nil fuel c e script t None Est) as Hn. rewrite El in Hn. cbn [fst] in Hn.
      rewrite Hn. constructor.
    + apply sleep_woke in Esl. destruct Esl as [_ Hx]. rewrite <- (Hx Est). exact Hc.
  - replace (spawn + Z.max 0 0) with spawn by lia. apply loop_chain.
Qed.

(* ------------------------------------------------------------------ consequences of a chain *)
Lemma chain_starts_ge c e now ys : chain c e now ys -> forall y, In y ys -> now <= y_start y.
Proof.
  induction 1 as [now|now y Hi Hw Hs|now y b y2 ys Hi Hw Hs Hn Hr Hc IH]; intros y' Hin.
  - destruct Hin.
  - destruct Hin as [<-|[]]. destruct Hi; lia.
  - destruct Hin as [<-|Hin]; [destruct Hi; lia|].
    specialize (IH _ Hin). apply next_base_ge in Hn. destruct Hw as (H1 & H2 & _). destruct Hi as [H0 _]. lia.
Qed.

Lemma chain_each c e now ys : chain c e now ys -> forall y, In y ys ->
  wf_cyc c y /\ clear e (c_idle c) (y_start y) /\ stopped e (y_start y) = false.
Proof.
  induction 1 as [now|now y Hi Hw Hs|now y b y2 ys Hi Hw Hs Hn Hr Hc IH]; intros y' Hin.
  - destruct Hin.
  - destruct Hin as [<-|[]]. destruct Hi as (_ & Hcl & _). auto.
  - destruct Hin as [<-|Hin]; [destruct Hi as (_ & Hcl & _); auto|]. apply IH; exact Hin.
Qed.

Lemma chain_consecutive c e now ys : chain c e now ys -> forall k y1 y2,
  nth_error ys k = Some y1 -> nth_error ys (S k) = Some y2 ->
  exists b, next_base c e y1 b /\ idle_ok e (c_idle c) b (y_start y2) /\
            (y_done y1 = true -> y_failed y1 = false -> y_inv y2 = run_allowed c).
Proof.
  induction 1 as [now|now y Hi Hw Hs|now y b y2 ys Hi Hw Hs Hn Hr Hc IH]; intros k y1 y2' H1 H2.
  - destruct k; discriminate.
  - destruct k as [|[|k]]; discriminate.
  - destruct k as [|k].
    + cbn in H1, H2. injection H1 as <-. injection H2 as <-. exists b. split; [exact Hn|]. split; [|exact Hr].
      inversion Hc; subst; assumption.
    + cbn [nth_error] in H1. apply (IH k y1 y2'); [exact H1|exact H2].
Qed.

Lemma chain_no_overlap c e now ys : chain c e now ys -> forall i j yi yj, (i < j)%nat ->
  nth_error ys i = Some yi -> nth_error ys j = Some yj -> y_pend yi <= y_start yj.
Proof.
  induction 1 as [now|now y Hi Hw Hs|now y b y2 ys Hi Hw Hs Hn Hr Hc IH]; intros i j yi yj Hij H1 H2.
  - destruct i; discriminate.
  - destruct i as [|i]; [|destruct i; discriminate]. destruct j as [|[|j]]; [lia|discriminate|discriminate].
  - destruct i as [|i].
    + cbn in H1. injection H1 as <-. destruct j as [|j]; [lia|]. cbn [nth_error] in H2.
      apply nth_error_In in H2. pose proof (chain_starts_ge _ _ _ _ Hc _ H2). apply next_base_ge in Hn. lia.
    + destruct j as [|j]; [lia|]. cbn [nth_error] in H1, H2. apply (IH i j); [lia|assumption|assumption].
Qed.

Lemma idle_ok_none e now s : idle_ok e None now s -> s = now.
Proof.
  intros (H1 & _ & H3). destruct (Z.eq_dec s now) as [|Hne]; [assumption|].
  exfalso. apply (H3 now); [lia|exact I].
Qed.

(* ------------------------------------------------------------------ the laws *)
Section Laws.
  Variables (fuel : nat) (c : cfg) (e : env) (spawn : Z) (script : list entry).
  Let ys := timer_cycles fuel c e spawn script.

  Lemma law_no_overlap i j yi yj : (i < j)%nat -> nth_error ys i = Some yi -> nth_error ys j = Some yj ->
    y_start yi <= y_hend yi /\ y_hend yi <= y_pend yi /\ y_pend yi <= y_start yj.
  Proof.
    intros Hij H1 H2. pose proof (timer_chain fuel c e spawn script) as Hc. fold ys in Hc.
    destruct (chain_each _ _ _ _ Hc _ (nth_error_In _ _ H1)) as ((Ha & Hb & _) & _).
    repeat split; try assumption. eapply chain_no_overlap; eassumption.
  Qed.

  Lemma law_after_success_interval k y1 y2 i :
    nth_error ys k = Some y1 -> nth_error ys (S k) = Some y2 ->
    y_done y1 = true -> c_interval c = Some i -> c_sharp c = false ->
    idle_ok e (c_idle c) (y_pend y1 + Z.max 0 i) (y_start y2).
  Proof.
    intros H1 H2 Hd Hi Hs. pose proof (timer_chain fuel c e spawn script) as Hc. fold ys in Hc.
    destruct (chain_consecutive _ _ _ _ Hc _ _ _ H1 H2) as (b & Hn & Hok & Hrun).
    unfold next_base in Hn. rewrite Hd, Hi, Hs in Hn. subst b. exact Hok.
  Qed.

  Lemma law_after_success_interval_noidle k y1 y2 i :
    nth_error ys k = Some y1 -> nth_error ys (S k) = Some y2 ->
    y_done y1 = true -> c_interval c = Some i -> c_sharp c = false -> c_idle c = None ->
    y_start y2 = y_pend y1 + Z.max 0 i.
  Proof.
    intros H1 H2 Hd Hi Hs Hidle. pose proof (law_after_success_interval _ _ _ _ H1 H2 Hd Hi Hs) as H.
    rewrite Hidle in H. apply idle_ok_none in H. exact H.
  Qed.

  Lemma law_after_success_sharp k y1 y2 i :
    nth_error ys k = Some y1 -> nth_error ys (S k) = Some y2 ->
    y_done y1 = true -> c_interval c = Some i -> c_sharp c = true -> 0 < i ->
    exists m, 1 <= m /\ y_pend y1 < y_start y1 + m * i <= y_pend y1 + i /\
              idle_ok e (c_idle c) (y_start y1 + m * i) (y_start y2).
  Proof.
    intros H1 H2 Hd Hi Hs Hpos. pose proof (timer_chain fuel c e spawn script) as Hc. fold ys in Hc.
    destruct (chain_each _ _ _ _ Hc _ (nth_error_In _ _ H1)) as ((Ha & Hb & _) & _).
    destruct (chain_consecutive _ _ _ _ Hc _ _ _ H1 H2) as (b & Hn & Hok & Hrun).
    unfold next_base in Hn. rewrite Hd, Hi, Hs in Hn. destruct Hn as [_ ->].
    set (p := y_pend y1 - y_start y1) in *.
    pose proof (Z.div_mod p i ltac:(lia)) as Hdm.
    pose proof (Z.mod_pos_bound p i Hpos) as Hmb.
    assert (Hq : 0 <= p / i) by (apply Z.div_pos; lia).
    exists (p / i + 1).
    assert (Heq : y_pend y1 + Z.max 0 (i - p mod i) = y_start y1 + (p / i + 1) * i) by (unfold p in *; nia).
    rewrite <- Heq. split; [lia|]. split; [lia|exact Hok].
  Qed.

  Lemma law_after_failure k y1 y2 :
    nth_error ys k = Some y1 -> nth_error ys (S k) = Some y2 ->
    y_inv y1 = true -> y_done y1 = false ->
    (forall d, retry_delay c (e_out (y_en y1)) = Some d ->
        y_hend y1 + d <= y_start y2 /\ idle_ok e (c_idle c) (Z.max (y_pend y1) (y_hend y1 + d)) (y_start y2)) /\
    (retry_delay c (e_out (y_en y1)) = None -> idle_ok e (c_idle c) (y_pend y1) (y_start y2)).
  Proof.
    intros H1 H2 Hinv Hd. pose proof (timer_chain fuel c e spawn script) as Hc. fold ys in Hc.
    destruct (chain_each _ _ _ _ Hc _ (nth_error_In _ _ H1)) as ((Ha & Hb & _ & _ & Hdl & _) & _).
    destruct (Hdl Hinv Hd) as (Hdl' & _).
    destruct (chain_consecutive _ _ _ _ Hc _ _ _ H1 H2) as (b & Hn & Hok & Hrun).
    unfold next_base in Hn. rewrite Hd, Hdl' in Hn. unfold expected_delayed in Hn.
    split.
    - intros d H. rewrite H in Hn. subst b. split; [destruct Hok; lia|exact Hok].
    - intro H. rewrite H in Hn. subst b.
      replace (Z.max (y_pend y1) (y_pend y1)) with (y_pend y1) in Hok by lia. exact Hok.
  Qed.

  Lemma law_initial_delay d y : c_initial c = Some d -> In y ys -> spawn + d <= y_start y.
  Proof.
    intros Hi Hin. pose proof (timer_chain fuel c e spawn script) as Hc. fold ys in Hc.
    pose proof (chain_starts_ge _ _ _ _ Hc _ Hin) as H. unfold initial_base in H. rewrite Hi in H. lia.
  Qed.

  Lemma law_first_run y : nth_error ys 0 = Some y -> idle_ok e (c_idle c) (initial_base c spawn) (y_start y).
  Proof.
    intros H0. pose proof (timer_chain fuel c e spawn script) as Hc. fold ys in Hc.
    destruct ys as [|y0 l]; [discriminate|]. cbn in H0. injection H0 as ->. inversion Hc; subst; assumption.
  Qed.

  Lemma law_idle i y : c_idle c = Some i -> In y ys ->
    (forall r, r = v_irt0 e \/ In r (v_resets e) -> r <= y_start y -> r + i <= y_start y) /\
    (forall r, In r (v_late e) -> r < y_start y -> r + i <= y_start y).
  Proof.
    intros Hi Hin. pose proof (timer_chain fuel c e spawn script) as Hc. fold ys in Hc.
    destruct (chain_each _ _ _ _ Hc _ Hin) as (_ & Hcl & _). rewrite Hi in Hcl. cbn [clear] in Hcl.
    split; intros r Hr Hle.
    - assert (r <= irt e (y_start y)) by (destruct Hr as [->|Hr]; [apply irt_ge_irt0|apply irt_ge_reset; assumption]).
      lia.
    - pose proof (irt_ge_late e (y_start y) r Hr Hle). lia.
  Qed.

  Lemma law_one_shot k y : c_interval c = None -> c_idle c = None ->
    nth_error ys k = Some y -> y_done y = true -> List.length ys = S k.
  Proof.
    intros Hi Hidle H1 Hd. pose proof (timer_chain fuel c e spawn script) as Hc. fold ys in Hc.
    destruct (nth_error ys (S k)) as [y2|] eqn:H2.
    - destruct (chain_consecutive _ _ _ _ Hc _ _ _ H1 H2) as (b & Hn & _ & _).
      unfold next_base in Hn. rewrite Hd, Hi, Hidle in Hn. destruct Hn.
    - apply nth_error_None in H2. assert (k < List.length ys)%nat by (apply nth_error_Some; congruence). lia.
  Qed.

  Lemma law_idle_only k y1 y2 i : c_interval c = None -> c_idle c = Some i ->
    nth_error ys k = Some y1 -> nth_error ys (S k) = Some y2 -> y_done y1 = true ->
    y_pend y1 <= y_start y2 /\ y_start y1 < irt e (y_start y2).
  Proof.
    intros Hi Hidle H1 H2 Hd. pose proof (timer_chain fuel c e spawn script) as Hc. fold ys in Hc.
    destruct (chain_consecutive _ _ _ _ Hc _ _ _ H1 H2) as (b & Hn & Hok & Hrun).
    unfold next_base in Hn. rewrite Hd, Hi, Hidle in Hn. destruct Hn as [Hp Hr]. destruct Hok as [Hb _].
    pose proof (irt_mono e _ _ Hb). lia.
  Qed.

  Lemma law_not_after_stop y s : In y ys -> v_stop e = Some s -> y_start y < s.
  Proof.
    intros Hin Hs. pose proof (timer_chain fuel c e spawn script) as Hc. fold ys in Hc.
    destruct (chain_each _ _ _ _ Hc _ Hin) as (_ & _ & Hst). unfold stopped in Hst. rewrite Hs in Hst.
    apply Z.leb_gt in Hst. exact Hst.
  Qed.
End Laws.

(* ------------------------------------------------------------------ cycles consume the script in order *)
Lemma loop_script_prefix fuel c e : forall script now h,
  exists n, map y_en (cycles (fst (loop fuel c e script now h))) = firstn n script.
Proof.
  induction script as [|en rest IH]; intros now h; rewrite loop_unfold.
  - exists 0%nat. destruct (stopped e now); [reflexivity|]. cbv zeta.
    destruct (pre_wait fuel c e now) as [evs0 [t|f]] eqn:Epw;
      [destruct (stopped e t)|]; cbn [fst]; rewrite (pre_wait_cycles _ _ _ _ _ _ Epw); reflexivity.
  - destruct (stopped e now); [exists 0%nat; reflexivity|]. cbv zeta.
    destruct (pre_wait fuel c e now) as [evs0 [t|f]] eqn:Epw;
      [|exists 0%nat; cbn [fst]; rewrite (pre_wait_cycles _ _ _ _ _ _ Epw); reflexivity].
    destruct (stopped e t); [exists 0%nat; cbn [fst]; rewrite (pre_wait_cycles _ _ _ _ _ _ Epw); reflexivity|].
    destruct (exec c (reset_state h t) t en) as [[inv hend] h2].
    set (y := mkcyc t inv hend (hend + Z.max 0 (e_plat en)) en (finished h2) (h_failure h2) (h_delayed h2)) in *.
    destruct (post fuel c e y h2) as [evs1 [t'|f]] eqn:Epost.
    + destruct (IH t' (Some h2)) as [n Hn].
      destruct (loop fuel c e rest t' (Some h2)) as [evs2 f2]. cbn [fst] in *.
      exists (S n). rewrite cycles_app, (pre_wait_cycles _ _ _ _ _ _ Epw). cbn [app cycles].
      rewrite cycles_app, (post_cycles _ _ _ _ _ _ _ Epost). cbn [app map firstn]. rewrite Hn. reflexivity.
    + exists 1%nat. cbn [fst]. rewrite cycles_app, (pre_wait_cycles _ _ _ _ _ _ Epw). cbn [app cycles].
      rewrite (post_cycles _ _ _ _ _ _ _ Epost). reflexivity.
Qed.

Lemma timer_script_prefix fuel c e spawn script :
  exists n, map y_en (timer_cycles fuel c e spawn script) = firstn n script.
Proof.
  unfold timer_cycles, timer_run. destruct (c_initial c) as [d|].
  - destruct (sleep e spawn d) as [t|]; [|exists 0%nat; reflexivity].
    destruct (loop_script_prefix fuel c e script t None) as [n Hn].
    destruct (loop fuel c e script t None) as [evs f]. exists n. exact Hn.
  - apply loop_script_prefix.
Qed.

(* ------------------------------------------------------------------ the sharp grid over the whole life of a timer *)
Lemma sharp_grid fuel c e spawn script i :
  c_interval c = Some i -> c_sharp c = true -> 0 < i -> c_idle c = None ->
  (forall y, In y (timer_cycles fuel c e spawn script) -> y_done y = true) ->
  forall k y0 y, nth_error (timer_cycles fuel c e spawn script) 0 = Some y0 ->
                 nth_error (timer_cycles fuel c e spawn script) k = Some y ->
                 exists m, 0 <= m /\ y_start y = y_start y0 + m * i.
Proof.
  intros Hi Hs Hpos Hidle Hall. induction k as [|k IH]; intros y0 y H0 Hk.
  - rewrite H0 in Hk. injection Hk as <-. exists 0. lia.
  - destruct (nth_error (timer_cycles fuel c e spawn script) k) as [yk|] eqn:Ek.
    + destruct (IH y0 yk H0 eq_refl) as (m & Hm & Hst).
      destruct (law_after_success_sharp fuel c e spawn script k yk y i Ek Hk
                  (Hall _ (nth_error_In _ _ Ek)) Hi Hs Hpos) as (m' & Hm' & _ & Hok).
      rewrite Hidle in Hok. apply idle_ok_none in Hok. exists (m + m'). split; [lia|]. rewrite Hok, Hst. ring.
    + apply nth_error_None in Ek. assert (S k < List.length (timer_cycles fuel c e spawn script))%nat
        by (apply nth_error_Some; congruence). lia.
Qed.

(* ------------------------------------------------------------------ witnesses *)
Definition wit_env_plain : env := mkenv 0 [] None 100000 [].

(* sharp + idle: an essential change during the sleep moves the run off the grid of the first start *)
Definition wit_cfg_sharp_idle : cfg := mkcfg (Some 1000) true (Some 2000) None None None 60000 ETemporary.
Definition wit_env_reset : env := mkenv 0 [2500] None 100000 [].
Definition wit_script_ok2 : list entry := [mkentry 0 0 OOk; mkentry 0 0 OOk].

Lemma sharp_global_grid_refuted :
  exists fuel c e spawn script i y0 y1,
    c_interval c = Some i /\ c_sharp c = true /\ 0 < i /\
    (forall y, In y (timer_cycles fuel c e spawn script) -> y_done y = true) /\
    nth_error (timer_cycles fuel c e spawn script) 0 = Some y0 /\
    nth_error (timer_cycles fuel c e spawn script) 1 = Some y1 /\
    (y_start y1 - y_start y0) mod i <> 0.
Proof.
  exists 10%nat, wit_cfg_sharp_idle, wit_env_reset, 0, wit_script_ok2, 1000.
  eexists. eexists. repeat apply conj; try (vm_compute; reflexivity).
  - vm_compute. intros y [<-|[<-|[]]]; reflexivity.
  - vm_compute. discriminate.
Qed.

(* ------------------------------------------------------------------ non-vacuity: the hypotheses of the laws are met by runs *)
Definition ex_cfg_interval : cfg := mkcfg (Some 1000) false (Some 2000) (Some 3000) None None 250 ETemporary.
Definition ex_env : env := mkenv 0 [500; 4000] (Some 30000) 100000 [].
Definition ex_script : list entry :=
  [mkentry 250 125 OOk; mkentry 1500 0 (OTemp (Some 500)); mkentry 0 0 OArb; mkentry 1000 0 OOk; mkentry 0 0 OOk].

Example ex_interval_run :
  map (fun y => (y_start y, y_hend y, y_pend y, y_done y)) (timer_cycles 50 ex_cfg_interval ex_env 0 ex_script) =
  [(3000, 3250, 3375, true); (6000, 7500, 7500, false); (8000, 8000, 8000, false);
   (8250, 9250, 9250, true); (10250, 10250, 10250, true)].
Proof. vm_compute. reflexivity. Qed.

Example ex_after_success_hyps :
  exists y1 y2, nth_error (timer_cycles 50 ex_cfg_interval ex_env 0 ex_script) 0 = Some y1 /\
                nth_error (timer_cycles 50 ex_cfg_interval ex_env 0 ex_script) 1 = Some y2 /\
                y_done y1 = true /\ y_pend y1 + 1000 < y_start y2.   (* postponed by idling *)
Proof. eexists. eexists. repeat apply conj; vm_compute; reflexivity. Qed.

Example ex_after_failure_hyps :
  exists y1 y2 y3, nth_error (timer_cycles 50 ex_cfg_interval ex_env 0 ex_script) 1 = Some y1 /\
                   nth_error (timer_cycles 50 ex_cfg_interval ex_env 0 ex_script) 2 = Some y2 /\
                   nth_error (timer_cycles 50 ex_cfg_interval ex_env 0 ex_script) 3 = Some y3 /\
                   y_inv y1 = true /\ y_done y1 = false /\ e_out (y_en y1) = OTemp (Some 500) /\
                   y_start y2 = y_hend y1 + 500 /\
                   y_inv y2 = true /\ y_done y2 = false /\ e_out (y_en y2) = OArb /\
                   y_start y3 = y_hend y2 + 250.
Proof. eexists. eexists. eexists. repeat apply conj; vm_compute; reflexivity. Qed.

Definition ex_cfg_sharp : cfg := mkcfg (Some 1000) true None None None None 60000 ETemporary.
Definition ex_script_sharp : list entry :=
  [mkentry 250 125 OOk; mkentry 1500 0 OOk; mkentry 1000 0 OOk; mkentry 0 0 OOk].

Example ex_sharp_run :
  map (fun y => (y_start y, y_pend y)) (timer_cycles 50 ex_cfg_sharp wit_env_plain 0 ex_script_sharp) =
  [(0, 375); (1000, 2500); (3000, 4000); (5000, 5000)].
Proof. vm_compute. reflexivity. Qed.

Definition ex_cfg_idle_only : cfg := mkcfg None false (Some 2000) None None None 60000 ETemporary.
Definition ex_env_idle_only : env := mkenv 0 [500; 6125; 9000] None 100000 [].

Example ex_idle_only_run :
  map (fun y => (y_start y, y_pend y)) (timer_cycles 50 ex_cfg_idle_only ex_env_idle_only 0 ex_script_sharp) =
  [(2500, 2875); (8125, 9625); (11000, 12000)].
Proof. vm_compute. reflexivity. Qed.

Definition ex_cfg_one_shot : cfg := mkcfg None false None None None None 250 ETemporary.

Example ex_one_shot_run :
  map (fun y => (y_start y, y_done y)) (timer_cycles 50 ex_cfg_one_shot wit_env_plain 0
      [mkentry 250 0 (OTemp (Some 500)); mkentry 0 0 OOk; mkentry 0 0 OOk]) = [(0, false); (750, true)].
Proof. vm_compute. reflexivity. Qed.

(* ------------------------------------------------------------------ fuel: the idle wait needs at most |changes|+2 iterations *)
Definition later (e : env) (x : Z) : nat := List.length (filter (fun r => x <? r) (v_resets e ++ v_late e)).

Lemma filter_len_le l x y : x <= y ->
  (List.length (filter (fun r => (y <? r)%Z) l) <= List.length (filter (fun r => (x <? r)%Z) l))%nat.
Proof.
  intro H. induction l as [|r l IH]; cbn [filter]; [lia|].
  destruct (Z.ltb_spec y r), (Z.ltb_spec x r); cbn [List.length]; lia.
Qed.

Lemma filter_len_lt l x y : x < y -> In y l ->
  (List.length (filter (fun r => (y <? r)%Z) l) < List.length (filter (fun r => (x <? r)%Z) l))%nat.
Proof.
  intros H. induction l as [|r l IH]; intros Hin; [destruct Hin|]. cbn [filter].
  destruct Hin as [->|Hin].
  - rewrite Z.ltb_irrefl. destruct (Z.ltb_spec x y); [|lia]. cbn [List.length].
    pose proof (filter_len_le l x y ltac:(lia)). lia.
  - specialize (IH Hin). destruct (Z.ltb_spec y r), (Z.ltb_spec x r); cbn [List.length]; lia.
Qed.

Lemma later_le_length e x : (later e x <= List.length (v_resets e ++ v_late e))%nat.
Proof.
  unfold later. induction (v_resets e ++ v_late e) as [|r l IH]; cbn [filter List.length]; [lia|].
  destruct (x <? r); cbn [List.length]; lia.
Qed.

Lemma idle_wait_fuel_aux e i : forall fuel now, (1 <= fuel)%nat ->
  (negb (stopped e now) && (now - irt e now <? i) = true -> (later e (irt e now) + 2 <= fuel)%nat) ->
  forall evs t, idle_wait fuel e i now <> (evs, WEnd (FFuel t)).
Proof.
  induction fuel as [|f IH]; intros now Hf Hb evs t; [lia|]. cbn [idle_wait].
  destruct (negb (stopped e now) && (now - irt e now <? i)) eqn:Ec; [|discriminate].
  specialize (Hb eq_refl). apply andb_true_iff in Ec. destruct Ec as [Es Elt].
  apply negb_true_iff in Es. apply Z.ltb_lt in Elt.
  destruct (sleep e now (irt e now + i - now)) as [t1|] eqn:Esl; [|discriminate].
  destruct (idle_wait f e i t1) as [evs' r'] eqn:Er. intro E. injection E as _ ->.
  apply (IH t1 ltac:(lia)) with (evs := evs') (t := t); [|exact Er].
  intro Ec1. apply andb_true_iff in Ec1. destruct Ec1 as [Es1 Elt1].
  apply negb_true_iff in Es1. apply Z.ltb_lt in Elt1.
  pose proof (sleep_woke _ _ _ _ Esl) as (_ & Hx). specialize (Hx Es1).
  assert (Hgt : irt e now < irt e t1) by lia.
  assert (Hin : In (irt e t1) (v_resets e ++ v_late e)).
  { destruct (irt_in e t1) as [E0|Hin]; [|exact Hin]. pose proof (irt_ge_irt0 e now). lia. }
  pose proof (filter_len_lt (v_resets e ++ v_late e) _ _ Hgt Hin) as Hlt. unfold later in *. lia.
Qed.

Lemma idle_wait_fuel_enough e i fuel now evs t : (List.length (v_resets e ++ v_late e) + 2 <= fuel)%nat ->
  idle_wait fuel e i now <> (evs, WEnd (FFuel t)).
Proof.
  intro H. apply idle_wait_fuel_aux; [lia|]. intros _. pose proof (later_le_length e (irt e now)). lia.
Qed.

(* ------------------------------------------------------------------ a handler that failed for good is never entered again *)
Lemma exec_failed c h t en : h_failure h = true -> exec c h t en = (false, t, h).
Proof.
  intro Hf. unfold exec, awakened, finished. rewrite Hf, orb_true_r. reflexivity.
Qed.

Lemma reset_failed h t : h_failure h = true -> reset_state (Some h) t = h.
Proof. intro Hf. unfold reset_state. rewrite Hf, andb_false_r. reflexivity. Qed.

(* shape of one iteration of the main loop *)
Lemma loop_decomp fuel c e en rest now h :
  cycles (fst (loop fuel c e (en :: rest) now h)) = [] \/
  exists t inv hend h2 tail,
    exec c (reset_state h t) t en = (inv, hend, h2) /\
    cycles (fst (loop fuel c e (en :: rest) now h)) =
      mkcyc t inv hend (hend + Z.max 0 (e_plat en)) en (finished h2) (h_failure h2) (h_delayed h2) :: tail /\
    (tail = [] \/ exists t', tail = cycles (fst (loop fuel c e rest t' (Some h2)))).
Proof.
  rewrite loop_unfold.
  destruct (stopped e now); [left; reflexivity|]. cbv zeta.
  destruct (pre_wait fuel c e now) as [evs0 [t|f]] eqn:Epw;
    [|left; cbn [fst]; apply (pre_wait_cycles _ _ _ _ _ _ Epw)].
  destruct (stopped e t); [left; cbn [fst]; apply (pre_wait_cycles _ _ _ _ _ _ Epw)|].
  destruct (exec c (reset_state h t) t en) as [[inv hend] h2] eqn:Eex.
  right. exists t, inv, hend, h2.
  set (y := mkcyc t inv hend (hend + Z.max 0 (e_plat en)) en (finished h2) (h_failure h2) (h_delayed h2)) in *.
  destruct (post fuel c e y h2) as [evs1 [t'|f]] eqn:Epost.
  - destruct (loop fuel c e rest t' (Some h2)) as [evs2 f2] eqn:El.
    exists (cycles evs2). split; [exact Eex|]. split.
    + cbn [fst]. rewrite cycles_app, (pre_wait_cycles _ _ _ _ _ _ Epw). cbn [app cycles].
      rewrite cycles_app, (post_cycles _ _ _ _ _ _ _ Epost). reflexivity.
    + right. exists t'. rewrite El. reflexivity.
  - exists []. split; [exact Eex|]. split; [|left; reflexivity].
    cbn [fst]. rewrite cycles_app, (pre_wait_cycles _ _ _ _ _ _ Epw). cbn [app cycles].
    rewrite (post_cycles _ _ _ _ _ _ _ Epost). reflexivity.
Qed.

Lemma loop_nil_script fuel c e now h : cycles (fst (loop fuel c e [] now h)) = [].
Proof.
  rewrite loop_unfold. destruct (stopped e now); [reflexivity|]. cbv zeta.
  destruct (pre_wait fuel c e now) as [evs0 [t|f]] eqn:Epw;
    [destruct (stopped e t)|]; cbn [fst]; apply (pre_wait_cycles _ _ _ _ _ _ Epw).
Qed.

Lemma loop_failed_sticky fuel c e : forall script now h, h_failure h = true ->
  forall y, In y (cycles (fst (loop fuel c e script now (Some h)))) -> y_inv y = false /\ y_failed y = true.
Proof.
  induction script as [|en rest IH]; intros now h Hf y Hin.
  - rewrite loop_nil_script in Hin. destruct Hin.
  - destruct (loop_decomp fuel c e en rest now (Some h)) as [E|(t & inv & hend & h2 & tail & Eex & E & Ht)];
      rewrite E in Hin; [destruct Hin|].
    rewrite (reset_failed _ t Hf), (exec_failed _ _ _ _ Hf) in Eex. injection Eex as <- <- <-.
    destruct Hin as [<-|Hin]; [cbn; auto|].
    destruct Ht as [->|(t' & ->)]; [destruct Hin|]. eapply IH; eassumption.
Qed.

Lemma loop_no_run_after_failure fuel c e : forall script now h i j yi yj, (i < j)%nat ->
  nth_error (cycles (fst (loop fuel c e script now h))) i = Some yi -> y_failed yi = true ->
  nth_error (cycles (fst (loop fuel c e script now h))) j = Some yj ->
  y_inv yj = false /\ y_failed yj = true.
Proof.
  induction script as [|en rest IH]; intros now h i j yi yj Hij Hi Hf Hj.
  - rewrite loop_nil_script in Hi. destruct i; discriminate.
  - destruct (loop_decomp fuel c e en rest now h) as [E|(t & inv & hend & h2 & tail & Eex & E & Ht)];
      rewrite E in Hi, Hj; [destruct i; discriminate|].
    destruct j as [|j]; [lia|]. cbn [nth_error] in Hj.
    destruct Ht as [->|(t' & ->)]; [destruct j; discriminate|].
    destruct i as [|i].
    + cbn in Hi. injection Hi as <-. cbn [y_failed] in Hf.
      eapply loop_failed_sticky; [exact Hf|]. eapply nth_error_In; exact Hj.
    + cbn [nth_error] in Hi. eapply (IH t' (Some h2) i j); try eassumption. lia.
Qed.

Lemma law_no_run_after_final_failure fuel c e spawn script i j yi yj : (i < j)%nat ->
  nth_error (timer_cycles fuel c e spawn script) i = Some yi -> y_failed yi = true ->
  nth_error (timer_cycles fuel c e spawn script) j = Some yj ->
  y_inv yj = false /\ y_failed yj = true.
Proof.
  unfold timer_cycles, timer_run. destruct (c_initial c) as [d|].
  - destruct (sleep e spawn d) as [t|]; [|intros _ H; destruct i; discriminate].
    pose proof (loop_no_run_after_failure fuel c e script t None i j yi yj) as L.
    destruct (loop fuel c e script t None) as [evs f]. cbn [fst cycles sleep_ev] in *. exact L.
  - apply loop_no_run_after_failure.
Qed.

(* the full statement of the law: between two consecutive RUNS, a failed first one imposes its delay / the backoff *)
Lemma law_after_failure_full fuel c e spawn script k y1 y2 :
  nth_error (timer_cycles fuel c e spawn script) k = Some y1 ->
  nth_error (timer_cycles fuel c e spawn script) (S k) = Some y2 ->
  y_inv y1 = true -> y_inv y2 = true ->
  e_out (y_en y1) <> OOk -> (e_out (y_en y1) = OArb -> c_errors c <> EIgnored) ->
  y_done y1 = false /\
  (forall d, retry_delay c (e_out (y_en y1)) = Some d ->
     y_hend y1 + d <= y_start y2 /\ idle_ok e (c_idle c) (Z.max (y_pend y1) (y_hend y1 + d)) (y_start y2)) /\
  (retry_delay c (e_out (y_en y1)) = None -> idle_ok e (c_idle c) (y_pend y1) (y_start y2)).
Proof.
  intros H1 H2 Hi1 Hi2 Hno Hna.
  assert (Hnf : y_failed y1 = false).
  { destruct (y_failed y1) eqn:Ef; [|reflexivity].
    destruct (law_no_run_after_final_failure fuel c e spawn script k (S k) y1 y2 ltac:(lia) H1 Ef H2) as [Hx _].
    congruence. }
  pose proof (timer_chain fuel c e spawn script) as Hc.
  destruct (chain_each _ _ _ _ Hc _ (nth_error_In _ _ H1)) as ((_ & _ & _ & _ & _ & Hcls & _) & _).
  assert (Hdn : y_done y1 = false).
  { destruct (y_done y1) eqn:Ed; [|reflexivity].
    destruct (Hcls Hi1 eq_refl Hnf) as [Ho|[Ho Hm]]; [contradiction|]. exfalso. exact (Hna Ho Hm). }
  split; [exact Hdn|]. exact (law_after_failure fuel c e spawn script k y1 y2 H1 H2 Hi1 Hdn).
Qed.

(* witness that the hypotheses of law_no_run_after_final_failure are met: retries=1, the first arbitrary error is
   final; the timer keeps cycling every interval but never enters the function again *)
Definition wit_cfg_final_failure : cfg := mkcfg (Some 1000) false None None (Some 1) None 60000 ETemporary.
Definition wit_script_final_failure : list entry := [mkentry 250 0 OArb; mkentry 0 0 OOk; mkentry 0 0 OOk].

Example ex_final_failure_run :
  map (fun y => (y_start y, y_inv y, y_failed y)) (timer_cycles 10 wit_cfg_final_failure wit_env_plain 0 wit_script_final_failure) =
  [(0, true, true); (1250, false, true); (2250, false, true)].
Proof. vm_compute. reflexivity. Qed.

(* idle-only timer whose stopper is set during the wait for the next change: the wait ends, the loop exits *)
Example ex_idle_only_stop :
  snd (timer_run 50 (mkcfg None false (Some 2000) None None None 60000 ETemporary) (mkenv 0 [500] (Some 4000) 100000 []) 0
         [mkentry 250 125 OOk; mkentry 0 0 OOk]) = FStopped 4000.
Proof. vm_compute. reflexivity. Qed.

(* ------------------------------------------------------------------ why a timer ends: only for the modelled causes *)
Definition final_ok (c : cfg) (e : env) (f : final) : Prop :=
  match f with
  | FExited _ => c_interval c = None /\ c_idle c = None
  | FStopped t => stopped e t = true
  | FStall t => stopped e t = false /\ c_interval c = None /\ exists i, c_idle c = Some i /\ i <= 0
  | FCrash _ => c_interval c = Some 0 /\ c_sharp c = true
  | FOut t => stopped e t = false
  | FHorizon _ | FFuel _ => True
  end.

Lemma idle_wait_end fuel e i : forall now evs f,
  idle_wait fuel e i now = (evs, WEnd f) -> (exists t, f = FFuel t) \/ (exists t, f = FHorizon t).
Proof.
  induction fuel as [|n IH]; intros now evs f; cbn [idle_wait].
  - intro E; injection E as _ <-. left; eexists; reflexivity.
  - destruct (negb (stopped e now) && (now - irt e now <? i)); [|discriminate].
    destruct (sleep e now (irt e now + i - now)) as [t|].
    + destruct (idle_wait n e i t) as [evs' r'] eqn:Er. intro E; injection E as _ ->. eapply IH; eassumption.
    + intro E; injection E as _ <-. right; eexists; reflexivity.
Qed.

Lemma idle_only_wait_end fuel e i started : forall now evs f,
  idle_only_wait fuel e i started now = (evs, WEnd f) ->
  (exists t, f = FFuel t) \/ (exists t, f = FHorizon t) \/ (exists t, f = FStall t /\ stopped e t = false /\ i <= 0).
Proof.
  induction fuel as [|n IH]; intros now evs f; cbn [idle_only_wait].
  - intro E; injection E as _ <-. left; eexists; reflexivity.
  - destruct ((irt e now <=? started) && negb (stopped e now)) eqn:Ec; [|discriminate].
    apply andb_true_iff in Ec. destruct Ec as [_ Es]. apply negb_true_iff in Es.
    destruct (Z.leb_spec i 0).
    + intro E; injection E as _ <-. right; right. exists now. auto.
    + destruct (sleep e now i) as [t|].
      * destruct (idle_only_wait n e i started t) as [evs' r'] eqn:Er. intro E; injection E as _ ->.
        eapply IH; eassumption.
      * intro E; injection E as _ <-. right; left; eexists; reflexivity.
Qed.

Lemma post_end fuel c e y h evs f : post fuel c e y h = (evs, WEnd f) -> final_ok c e f /\ (forall t, f <> FOut t) /\ (forall t, f <> FStopped t).
Proof.
  unfold post, one_sleep.
  destruct (negb (finished h)).
  { destruct (sleep e (y_pend y) (state_delay h (y_pend y))); [discriminate|].
    intro E; injection E as _ <-. cbn. repeat split; discriminate. }
  destruct (c_interval c) as [i|] eqn:Ei.
  - destruct (c_sharp c) eqn:Es.
    + destruct (Z.eqb_spec i 0) as [->|Hi].
      * intro E; injection E as _ <-. cbn. repeat split; auto; discriminate.
      * destruct (sleep e (y_pend y) (i - (y_pend y - y_start y) mod i)); [discriminate|].
        intro E; injection E as _ <-. cbn. repeat split; discriminate.
    + destruct (sleep e (y_pend y) i); [discriminate|]. intro E; injection E as _ <-. cbn. repeat split; discriminate.
  - destruct (c_idle c) as [i|] eqn:Eid.
    + intro E. apply idle_only_wait_end in E.
      destruct E as [[t ->]|[[t ->]|(t & -> & Hs & Hi)]]; cbn; repeat split; try discriminate; auto.
      exists i; auto.
    + intro E; injection E as _ <-. cbn. repeat split; auto; discriminate.
Qed.

Lemma pre_wait_end fuel c e now evs f : pre_wait fuel c e now = (evs, WEnd f) ->
  (exists t, f = FFuel t) \/ (exists t, f = FHorizon t).
Proof. unfold pre_wait. destruct (c_idle c); [apply idle_wait_end|discriminate]. Qed.

Lemma loop_final_ok fuel c e : forall script now h, final_ok c e (snd (loop fuel c e script now h)).
Proof.
  induction script as [|en rest IH]; intros now h; rewrite loop_unfold.
  - destruct (stopped e now) eqn:Es; [exact Es|]. cbv zeta.
    destruct (pre_wait fuel c e now) as [evs0 [t|f]] eqn:Epw.
    + destruct (stopped e t) eqn:Est; cbn; assumption.
    + cbn [snd]. destruct (pre_wait_end _ _ _ _ _ _ Epw) as [[t ->]|[t ->]]; exact I.
  - destruct (stopped e now) eqn:Es; [exact Es|]. cbv zeta.
    destruct (pre_wait fuel c e now) as [evs0 [t|f]] eqn:Epw;
      [|cbn [snd]; destruct (pre_wait_end _ _ _ _ _ _ Epw) as [[t ->]|[t ->]]; exact I].
    destruct (stopped e t) eqn:Est; [exact Est|].
    destruct (exec c (reset_state h t) t en) as [[inv hend] h2].
    set (y := mkcyc t inv hend (hend + Z.max 0 (e_plat en)) en (finished h2) (h_failure h2) (h_delayed h2)).
    destruct (post fuel c e y h2) as [evs1 [t'|f]] eqn:Epost.
    + specialize (IH t' (Some h2)). destruct (loop fuel c e rest t' (Some h2)) as [evs2 f2]. exact IH.
    + cbn [snd]. apply (post_end _ _ _ _ _ _ _ Epost).
Qed.

Lemma timer_final_ok fuel c e spawn script : final_ok c e (snd (timer_run fuel c e spawn script)).
Proof.
  unfold timer_run. destruct (c_initial c) as [d|]; [|apply loop_final_ok].
  destruct (sleep e spawn d) as [t|]; [|exact I].
  pose proof (loop_final_ok fuel c e script t None) as H.
  destruct (loop fuel c e script t None) as [evs f]. exact H.
Qed.

(* ------------------------------------------------------------------ every recorded sleep is a genuine aiotime.sleep; none suspends after the stop *)
Definition sleep_genuine (e : env) (x : ev) : Prop :=
  match x with
  | ECyc _ => True
  | ESleep t d w => w = match sleep e t d with Woke u => Some u | PastHorizon => None end
  end.

Lemma idle_wait_genuine fuel e i : forall now evs r, idle_wait fuel e i now = (evs, r) -> Forall (sleep_genuine e) evs.
Proof.
  induction fuel as [|n IH]; intros now evs r; cbn [idle_wait].
  - intro E; injection E as <- _; constructor.
  - destruct (negb (stopped e now) && (now - irt e now <? i)); [|intro E; injection E as <- _; constructor].
    destruct (sleep e now (irt e now + i - now)) as [t|] eqn:Esl.
    + destruct (idle_wait n e i t) as [evs' r'] eqn:Er. intro E; injection E as <- _.
      constructor; [cbn; rewrite Esl; reflexivity|eapply IH; eassumption].
    + intro E; injection E as <- _. constructor; [cbn; rewrite Esl; reflexivity|constructor].
Qed.

Lemma idle_only_wait_genuine fuel e i started : forall now evs r,
  idle_only_wait fuel e i started now = (evs, r) -> Forall (sleep_genuine e) evs.
Proof.
  induction fuel as [|n IH]; intros now evs r; cbn [idle_only_wait].
  - intro E; injection E as <- _; constructor.
  - destruct ((irt e now <=? started) && negb (stopped e now)); [|intro E; injection E as <- _; constructor].
    destruct (i <=? 0); [intro E; injection E as <- _; constructor|].
    destruct (sleep e now i) as [t|] eqn:Esl.
    + destruct (idle_only_wait n e i started t) as [evs' r'] eqn:Er. intro E; injection E as <- _.
      constructor; [cbn; rewrite Esl; reflexivity|eapply IH; eassumption].
    + intro E; injection E as <- _. constructor; [cbn; rewrite Esl; reflexivity|constructor].
Qed.

Lemma sleep_ev_genuine e now d : sleep_genuine e (sleep_ev e now d).
Proof. reflexivity. Qed.

Lemma post_genuine fuel c e y h evs r : post fuel c e y h = (evs, r) -> Forall (sleep_genuine e) evs.
Proof.
  unfold post, one_sleep.
  destruct (negb (finished h)); [intro E; injection E as <- _; repeat constructor|].
  destruct (c_interval c) as [i|].
  - destruct (c_sharp c).
    + destruct (i =? 0); intro E; injection E as <- _; repeat constructor.
    + intro E; injection E as <- _; repeat constructor.
  - destruct (c_idle c) as [i|]; [apply idle_only_wait_genuine|intro E; injection E as <- _; constructor].
Qed.

Lemma pre_wait_genuine fuel c e now evs r : pre_wait fuel c e now = (evs, r) -> Forall (sleep_genuine e) evs.
Proof.
  unfold pre_wait. destruct (c_idle c); [apply idle_wait_genuine|intro E; injection E as <- _; constructor].
Qed.

Lemma loop_genuine fuel c e : forall script now h, Forall (sleep_genuine e) (fst (loop fuel c e script now h)).
Proof.
  induction script as [|en rest IH]; intros now h; rewrite loop_unfold.
  - destruct (stopped e now); [constructor|]. cbv zeta.
    destruct (pre_wait fuel c e now) as [evs0 [t|f]] eqn:Epw; [destruct (stopped e t)|]; cbn [fst];
      apply (pre_wait_genuine _ _ _ _ _ _ Epw).
  - destruct (stopped e now); [constructor|]. cbv zeta.
    destruct (pre_wait fuel c e now) as [evs0 [t|f]] eqn:Epw; [|apply (pre_wait_genuine _ _ _ _ _ _ Epw)].
    pose proof (pre_wait_genuine _ _ _ _ _ _ Epw) as H0.
    destruct (stopped e t); [exact H0|].
    destruct (exec c (reset_state h t) t en) as [[inv hend] h2].
    set (y := mkcyc t inv hend (hend + Z.max 0 (e_plat en)) en (finished h2) (h_failure h2) (h_delayed h2)).
    destruct (post fuel c e y h2) as [evs1 [t'|f]] eqn:Epost; pose proof (post_genuine _ _ _ _ _ _ _ Epost) as H1.
    + specialize (IH t' (Some h2)). destruct (loop fuel c e rest t' (Some h2)) as [evs2 f2]. cbn [fst] in *.
      apply Forall_app. split; [exact H0|]. constructor; [exact I|]. apply Forall_app. split; assumption.
    + cbn [fst]. apply Forall_app. split; [exact H0|]. constructor; [exact I|exact H1].
Qed.

Lemma timer_genuine fuel c e spawn script : Forall (sleep_genuine e) (fst (timer_run fuel c e spawn script)).
Proof.
  unfold timer_run. destruct (c_initial c) as [d|]; [|apply loop_genuine].
  destruct (sleep e spawn d) as [t|] eqn:Esl.
  - pose proof (loop_genuine fuel c e script t None) as H.
    destruct (loop fuel c e script t None) as [evs f]. cbn [fst] in *.
    constructor; [cbn; rewrite Esl; reflexivity|exact H].
  - cbn [fst]. constructor; [cbn; rewrite Esl; reflexivity|constructor].
Qed.

Lemma law_no_suspension_after_stop fuel c e spawn script t d w :
  In (ESleep t d w) (fst (timer_run fuel c e spawn script)) -> stopped e t = true -> w = Some t.
Proof.
  intros Hin Hs. pose proof (timer_genuine fuel c e spawn script) as H. rewrite Forall_forall in H.
  specialize (H _ Hin). cbn in H. rewrite H. unfold sleep. rewrite Hs. destruct (d <=? 0); reflexivity.
Qed.

(* a sleep that was not cut short by the stopper lasted exactly max(0, delay) *)
Lemma law_sleep_exact fuel c e spawn script t d u :
  In (ESleep t d (Some u)) (fst (timer_run fuel c e spawn script)) -> stopped e u = false -> u = t + Z.max 0 d.
Proof.
  intros Hin Hs. pose proof (timer_genuine fuel c e spawn script) as H. rewrite Forall_forall in H.
  specialize (H _ Hin). cbn in H. destruct (sleep e t d) as [x|] eqn:E; [|discriminate].
  injection H as ->. apply sleep_woke in E. destruct E as [_ Hx]. exact (Hx Hs).
Qed.

(* ------------------------------------------------------------------ the behaviour on a script is a prefix of the behaviour on any longer script *)
Lemma loop_ext_done fuel c e more : forall script now h,
  (forall t, snd (loop fuel c e script now h) <> FOut t) ->
  loop fuel c e (script ++ more) now h = loop fuel c e script now h.
Proof.
  induction script as [|en rest IH]; intros now h Hno.
  - cbn [app]. destruct more as [|en more]; [reflexivity|].
    rewrite (loop_unfold _ _ _ (en :: more)). rewrite loop_unfold in Hno. rewrite (loop_unfold _ _ _ []).
    destruct (stopped e now); [reflexivity|]. cbv zeta in *.
    destruct (pre_wait fuel c e now) as [evs0 [t|f]]; [|reflexivity].
    destruct (stopped e t); [reflexivity|]. exfalso. apply (Hno t). reflexivity.
  - cbn [app]. rewrite (loop_unfold _ _ _ (en :: rest ++ more)), (loop_unfold _ _ _ (en :: rest)).
    rewrite loop_unfold in Hno.
    destruct (stopped e now); [reflexivity|]. cbv zeta in *.
    destruct (pre_wait fuel c e now) as [evs0 [t|f]]; [|reflexivity].
    destruct (stopped e t); [reflexivity|].
    destruct (exec c (reset_state h t) t en) as [[inv hend] h2].
    destruct (post fuel c e _ h2) as [evs1 [t'|f]]; [|reflexivity].
    rewrite IH; [reflexivity|].
    intros u Hu. apply (Hno u). destruct (loop fuel c e rest t' (Some h2)) as [evs2 f2]. exact Hu.
Qed.

Lemma loop_ext_out fuel c e en more : forall script now h evs t,
  loop fuel c e script now h = (evs, FOut t) ->
  exists y evs' f', loop fuel c e (script ++ en :: more) now h = (evs ++ ECyc y :: evs', f') /\
                    y_start y = t /\ y_en y = en.
Proof.
  induction script as [|en0 rest IH]; intros now h evs t.
  - cbn [app]. rewrite (loop_unfold _ _ _ []), (loop_unfold _ _ _ (en :: more)).
    destruct (stopped e now); [discriminate|]. cbv zeta.
    destruct (pre_wait fuel c e now) as [evs0 [u|f]] eqn:Epw.
    + destruct (stopped e u); [discriminate|]. intro E; injection E as <- <-.
      destruct (exec c (reset_state h u) u en) as [[inv hend] h2].
      set (y := mkcyc u inv hend (hend + Z.max 0 (e_plat en)) en (finished h2) (h_failure h2) (h_delayed h2)).
      destruct (post fuel c e y h2) as [evs1 [t'|f]].
      * destruct (loop fuel c e more t' (Some h2)) as [evs2 f2]. exists y, (evs1 ++ evs2), f2. auto.
      * exists y, evs1, f. auto.
    + intro E; injection E as _ ->. destruct (pre_wait_end _ _ _ _ _ _ Epw) as [[x Hx]|[x Hx]]; discriminate.
  - cbn [app]. rewrite (loop_unfold _ _ _ (en0 :: rest)), (loop_unfold _ _ _ (en0 :: rest ++ en :: more)).
    destruct (stopped e now); [discriminate|]. cbv zeta.
    destruct (pre_wait fuel c e now) as [evs0 [u|f]] eqn:Epw.
    + destruct (stopped e u); [discriminate|].
      destruct (exec c (reset_state h u) u en0) as [[inv hend] h2].
      set (y0 := mkcyc u inv hend (hend + Z.max 0 (e_plat en0)) en0 (finished h2) (h_failure h2) (h_delayed h2)).
      destruct (post fuel c e y0 h2) as [evs1 [t'|f]] eqn:Epost.
      * destruct (loop fuel c e rest t' (Some h2)) as [evs2 f2] eqn:El. intro E; injection E as <- ->.
        destruct (IH t' (Some h2) evs2 t El) as (y & evs' & f' & E' & Hs & He). rewrite E'.
        exists y, evs', f'. split; [|auto]. f_equal.
        rewrite <- !app_assoc. cbn [app]. rewrite <- app_assoc. reflexivity.
      * intro E; injection E as _ ->. destruct (post_end _ _ _ _ _ _ _ Epost) as (_ & Hno & _). exfalso. apply (Hno t). reflexivity.
    + intro E; injection E as _ ->. destruct (pre_wait_end _ _ _ _ _ _ Epw) as [[x Hx]|[x Hx]]; discriminate.
Qed.

Lemma law_final_not_out_stable fuel c e spawn script more :
  (forall t, snd (timer_run fuel c e spawn script) <> FOut t) ->
  timer_run fuel c e spawn (script ++ more) = timer_run fuel c e spawn script.
Proof.
  unfold timer_run. destruct (c_initial c) as [d|]; [|apply loop_ext_done].
  destruct (sleep e spawn d) as [t|]; [|reflexivity]. intro Hno.
  rewrite loop_ext_done; [reflexivity|].
  intros u Hu. apply (Hno u). destruct (loop fuel c e script t None) as [evs f]. exact Hu.
Qed.

Lemma law_progress fuel c e spawn script t en more :
  snd (timer_run fuel c e spawn script) = FOut t ->
  exists y tail, timer_cycles fuel c e spawn (script ++ en :: more) = timer_cycles fuel c e spawn script ++ y :: tail /\
                 y_start y = t /\ y_en y = en.
Proof.
  unfold timer_cycles, timer_run. destruct (c_initial c) as [d|].
  - destruct (sleep e spawn d) as [u|]; [|discriminate].
    destruct (loop fuel c e script u None) as [evs f] eqn:El. cbn [snd]. intros ->.
    destruct (loop_ext_out fuel c e en more script u None evs t El) as (y & evs' & f' & E' & Hs & He).
    rewrite E'. cbn [fst cycles sleep_ev]. exists y, (cycles evs'). rewrite cycles_app. auto.
  - destruct (loop fuel c e script spawn None) as [evs f] eqn:El. cbn [snd]. intros ->.
    destruct (loop_ext_out fuel c e en more script spawn None evs t El) as (y & evs' & f' & E' & Hs & He).
    rewrite E'. cbn [fst]. exists y, (cycles evs'). rewrite cycles_app. auto.
Qed.

Lemma law_prefix_stable fuel c e spawn script more :
  exists tail, timer_cycles fuel c e spawn (script ++ more) = timer_cycles fuel c e spawn script ++ tail.
Proof.
  destruct (snd (timer_run fuel c e spawn script)) as [t|t|t|t|t|t|t] eqn:Ef.
  3: { destruct more as [|en more]; [exists []; rewrite !app_nil_r; reflexivity|].
       destruct (law_progress fuel c e spawn script t en more Ef) as (y & tail & E & _). exists (y :: tail). exact E. }
  all: exists []; rewrite app_nil_r; unfold timer_cycles; rewrite law_final_not_out_stable; [reflexivity|];
       intros u; rewrite Ef; discriminate.
Qed.

(* ------------------------------------------------------------------ a due cycle with a fresh state IS a run (unless timeout/retries <= 0) *)
Lemma law_run_after_success fuel c e spawn script k y1 y2 :
  nth_error (timer_cycles fuel c e spawn script) k = Some y1 ->
  nth_error (timer_cycles fuel c e spawn script) (S k) = Some y2 ->
  y_done y1 = true -> y_failed y1 = false ->
  y_inv y2 = run_allowed c.
Proof.
  intros H1 H2 Hd Hf. pose proof (timer_chain fuel c e spawn script) as Hc.
  destruct (chain_consecutive _ _ _ _ Hc _ _ _ H1 H2) as (b & Hn & Hok & Hrun). auto.
Qed.

Lemma law_first_cycle_run fuel c e spawn script y :
  nth_error (timer_cycles fuel c e spawn script) 0 = Some y -> y_inv y = run_allowed c.
Proof.
  unfold timer_cycles, timer_run. destruct (c_initial c) as [d|].
  - destruct (sleep e spawn d) as [t|] eqn:Esl; [|discriminate].
    destruct (loop fuel c e script t None) as [evs f] eqn:El. cbn [fst cycles sleep_ev].
    destruct (cycles evs) as [|y0 ys] eqn:Ecy; [discriminate|]. cbn. intro E; injection E as ->.
    eapply (loop_head_fresh fuel c e script t None); [reflexivity|rewrite El; exact Ecy].
  - destruct (cycles (fst (loop fuel c e script spawn None))) as [|y0 ys] eqn:Ecy; [discriminate|].
    cbn. intro E; injection E as ->.
    eapply (loop_head_fresh fuel c e script spawn None); [reflexivity|exact Ecy].
Qed.

Lemma run_allowed_true c :
  (c_timeout c = None \/ exists T, c_timeout c = Some T /\ 0 < T) ->
  (c_retries c = None \/ exists N, c_retries c = Some N /\ 0 < N) -> run_allowed c = true.
Proof.
  intros Ht Hr. unfold run_allowed, hits.
  destruct Ht as [->|(T & -> & HT)], Hr as [->|(N & -> & HN)]; cbn;
    repeat match goal with |- context [?x <=? 0] => destruct (Z.leb_spec x 0); [lia|] end; reflexivity.
Qed.

(* every due run after a success, and the first one, is MADE whenever timeout > 0 and retries > 0 (or absent):
   however long idling postponed it *)
Lemma law_run_made fuel c e spawn script :
  (c_timeout c = None \/ exists T, c_timeout c = Some T /\ 0 < T) ->
  (c_retries c = None \/ exists N, c_retries c = Some N /\ 0 < N) ->
  (forall y, nth_error (timer_cycles fuel c e spawn script) 0 = Some y -> y_inv y = true) /\
  (forall k y1 y2, nth_error (timer_cycles fuel c e spawn script) k = Some y1 ->
                   nth_error (timer_cycles fuel c e spawn script) (S k) = Some y2 ->
                   y_done y1 = true -> y_failed y1 = false -> y_inv y2 = true).
Proof.
  intros Ht Hr. pose proof (run_allowed_true c Ht Hr) as Hra. split.
  - intros y H0. rewrite (law_first_cycle_run _ _ _ _ _ _ H0). exact Hra.
  - intros k y1 y2 H1 H2 Hd Hf. rewrite (law_run_after_success _ _ _ _ _ _ _ _ H1 H2 Hd Hf). exact Hra.
Qed.

(* regression (finding F1001, fixed in /repo 071710e): idle AND timeout set, an essential change shortly before a due
   run -- the idle wait (1875 ms) outlasts the timeout (1000 ms); the run is made all the same, at 3000 *)
Definition wit_cfg_idle_timeout : cfg := mkcfg (Some 1000) false (Some 2000) None None (Some 1000) 60000 ETemporary.
Definition wit_env_idle_timeout : env := mkenv (-10000) [1000] None 100000 [].
Definition wit_script_quick_ok : list entry := [mkentry 125 0 OOk; mkentry 125 0 OOk; mkentry 125 0 OOk].

Example ex_idle_wait_not_counted :
  map (fun y => (y_start y, y_inv y, y_failed y)) (timer_cycles 10 wit_cfg_idle_timeout wit_env_idle_timeout 0 wit_script_quick_ok) =
  [(0, true, false); (3000, true, false); (4125, true, false)].
Proof. vm_compute. reflexivity. Qed.

(* @kopf.timer(interval=1, idle=4, timeout=1): the witness of F1001 (before the fix: never invoked) *)
Example ex_f1001_witness :
  map (fun y => (y_start y, y_inv y, y_failed y))
      (timer_cycles 10 (mkcfg (Some 1000) false (Some 4000) None None (Some 1000) 60000 ETemporary) (mkenv 0 [] None 100000 []) 0 wit_script_quick_ok) =
  [(4000, true, false); (5125, true, false); (6250, true, false)].
Proof. vm_compute. reflexivity. Qed.

(* ------------------------------------------------------------------ which events reset the idle time *)
Lemma reset_flag_rule hb ch : reset_flag hb ch = true <-> (hb = false \/ ch = true).
Proof. unfold reset_flag. destruct hb, ch; cbn; intuition congruence. Qed.
