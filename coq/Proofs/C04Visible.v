(* C04 (visible part): labels and ordinary annotations DO count as an essential change.
   Positive counterparts of C04System.marked_annotation_absent, for every (arbitrarily nested)
   storage configuration: the labels mapping and every ordinary annotation are copied verbatim
   into the essence. *)
From Coq Require Import ZArith NArith List String Bool Ascii Lia.
From KV Require Import Base.Json Base.Dicts Model.Keys Model.Storage Model.Essence Proofs.C04System Proofs.C04Own.
Import ListNotations.
Open Scope string_scope.
Open Scope list_scope.

(* ---------- the annotations / a metadata entry depend on the top-level "metadata" only ---------- *)
Lemma vs_top_md : forall e e' p,
  sy_top "metadata" e' = sy_top "metadata" e ->
  resolve e' ("metadata" :: p) = resolve e ("metadata" :: p).
Proof.
  intros e e' p Ht. destruct e, e'; try discriminate Ht; try reflexivity.
  simpl in *. inversion Ht as [Hl]. rewrite Hl. reflexivity.
Qed.

(* lookup returns the first occurrence and filter keeps the order: no NoDup needed *)
Lemma vs_lookup_filter_keep : forall (V : Type) (p : string -> bool) j (l : list (string * V)),
  p j = true -> lookup j (filter (fun kv => p (fst kv)) l) = lookup j l.
Proof. intros V p j l H. rewrite sy_lookup_filter, H. reflexivity. Qed.

(* ---------- the marked prefixes of a filtered list are among those of the list ---------- *)
Lemma vs_marked_incl : forall (p : string -> bool) (l : obj) q,
  In q (marked_prefixes (keys (filter (fun kv => p (fst kv)) l))) -> In q (marked_prefixes (keys l)).
Proof.
  intros p l q. induction l as [|[k v] l IH]; intro H; [exact H|].
  cbn [filter fst] in H. unfold keys in *. cbn [map fst marked_prefixes].
  destruct (p k).
  - cbn [map fst marked_prefixes] in H. destruct (key_marks_prefix k).
    + destruct H as [H|H]; [left; exact H | right; apply IH, H].
    + apply IH, H.
  - destruct (key_marks_prefix k); [right|]; apply IH, H.
Qed.

Lemma vs_drop_filter : forall (p : string -> bool) (anns : obj) j,
  sy_drop anns j = false -> sy_drop (filter (fun kv => p (fst kv)) anns) j = false.
Proof.
  intros p anns j H. unfold sy_drop in *. apply orb_false_elim in H. destruct H as [H1 H2].
  rewrite H2, orb_false_r.
  destruct (existsb (fun q => under_prefix q j) (marked_prefixes (keys (filter (fun kv => p (fst kv)) anns)))) eqn:E;
    [|reflexivity].
  apply existsb_exists in E. destruct E as [q [Hq Hu]].
  rewrite <- H1. symmetry. apply existsb_exists. exists q. split; [eapply vs_marked_incl, Hq | exact Hu].
Qed.

(* ---------- the invariant: annotation j has value v and is not hidden by a marked prefix ---------- *)
Definition vs_I (j : string) (v : json) (e : json) : Prop :=
  exists anns, resolve e sy_md_anns = Some (JObj anns) /\ lookup j anns = Some v /\ sy_drop anns j = false.

Lemma vs_I_cong : forall j v e e',
  resolve e' sy_md_anns = resolve e sy_md_anns -> vs_I j v e -> vs_I j v e'.
Proof. intros j v e e' H [anns [Hr Hx]]. exists anns. rewrite H. split; assumption. Qed.

Lemma vs_I_top : forall j v e e',
  sy_top "metadata" e' = sy_top "metadata" e -> vs_I j v e -> vs_I j v e'.
Proof. intros j v e e' H. apply vs_I_cong. unfold sy_md_anns. apply vs_top_md, H. Qed.

Lemma vs_I_filter : forall j v (p : string -> bool) anns e',
  resolve e' sy_md_anns = Some (JObj (filter (fun kv => p (fst kv)) anns)) ->
  lookup j anns = Some v -> sy_drop anns j = false -> p j = true -> vs_I j v e'.
Proof.
  intros j v p anns e' Hr Hl Hd Hp. exists (filter (fun kv => p (fst kv)) anns).
  split; [exact Hr|]. split; [rewrite vs_lookup_filter_keep; assumption | apply vs_drop_filter, Hd].
Qed.

Lemma vs_I_shape : forall j v e, vs_I j v e ->
  exists kvs mkvs anns, e = JObj kvs /\ lookup "metadata" kvs = Some (JObj mkvs) /\
    lookup "annotations" mkvs = Some (JObj anns) /\ lookup j anns = Some v /\ sy_drop anns j = false.
Proof.
  intros j v e [anns [Hr [Hl Hd]]]. unfold sy_md_anns in Hr.
  destruct e; try discriminate Hr. simpl in Hr.
  destruct (lookup "metadata" kvs) as [md|] eqn:Em; [|discriminate Hr].
  destruct md; try discriminate Hr.
  destruct (lookup "annotations" kvs0) as [a|] eqn:Ea; [|discriminate Hr].
  inversion Hr. subst a. exists kvs, kvs0, anns. repeat split; assumption.
Qed.

Lemma vs_I_value : forall j v e, vs_I j v e -> resolve e ["metadata"; "annotations"; j] = Some v.
Proof.
  intros j v e [anns [Hr [Hl _]]]. rewrite sy_A_via, Hr. simpl. rewrite Hl. reflexivity.
Qed.

(* ---------- remove_empty_stanzas keeps every truthy entry of metadata ---------- *)
Lemma vs_dfi_keep : forall inner kvs kvs2 m k x,
  drop_if_falsy_in "metadata" inner kvs = Ok kvs2 ->
  lookup "metadata" kvs = Some (JObj m) -> lookup k m = Some x -> is_falsy x = false ->
  exists m2, lookup "metadata" kvs2 = Some (JObj m2) /\ lookup k m2 = Some x.
Proof.
  intros inner kvs kvs2 m k x H Hm Hk Hf. unfold drop_if_falsy_in in H. rewrite Hm in H.
  destruct (lookup inner m) as [y|] eqn:Ei; [|inversion H; subst; exists m; split; assumption].
  destruct (is_falsy y) eqn:Ey; [|inversion H; subst; exists m; split; assumption].
  inversion H. exists (del inner m). rewrite sy_lookup_set_same. split; [reflexivity|].
  rewrite sy_lookup_del_other; [exact Hk|]. intro E. subst k. congruence.
Qed.

Lemma vs_res_keep : forall e e' k x,
  remove_empty_stanzas e = Ok e' -> resolve e ["metadata"; k] = Some x -> is_falsy x = false ->
  resolve e' ["metadata"; k] = Some x.
Proof.
  intros e e' k x H Hr Hf. destruct e; try discriminate Hr. simpl in Hr.
  destruct (lookup "metadata" kvs) as [md|] eqn:Em; [|discriminate Hr].
  destruct md as [| | | | |m|]; try discriminate Hr.
  destruct (lookup k m) as [x'|] eqn:Ek; [|discriminate Hr]. inversion Hr. subst x'.
  unfold remove_empty_stanzas in H.
  apply sy_bind_ok in H. destruct H as [k1 [H1 H]].
  apply sy_bind_ok in H. destruct H as [k2 [H2 H]].
  destruct (vs_dfi_keep _ _ _ _ _ _ H1 Em Ek Hf) as [m1 [Em1 Ek1]].
  destruct (vs_dfi_keep _ _ _ _ _ _ H2 Em1 Ek1 Hf) as [m2 [Em2 Ek2]].
  inversion H. simpl.
  rewrite sy_drop_if_falsy_lookup by discriminate.
  unfold drop_if_falsy. rewrite Em2.
  assert (Hnf : is_falsy (JObj m2) = false) by (destruct m2; [discriminate Ek2 | reflexivity]).
  rewrite Hnf, Em2, Ek2. reflexivity.
Qed.

Lemma vs_res_I : forall j v e e', remove_empty_stanzas e = Ok e' -> vs_I j v e -> vs_I j v e'.
Proof.
  intros j v e e' H [anns [Hr Hx]]. exists anns. split; [|exact Hx].
  unfold sy_md_anns in *. apply (vs_res_keep _ _ _ _ H Hr).
  destruct anns; [destruct Hx as [Hx _]; discriminate Hx | reflexivity].
Qed.

(* ---------- remove_annotations with a filter that keeps j ---------- *)
Lemma vs_ra_I : forall j v e rm e',
  remove_annotations e rm = Ok e' -> rm j = false -> vs_I j v e -> vs_I j v e'.
Proof.
  intros j v e rm e' H Hrm HI.
  destruct (vs_I_shape _ _ _ HI) as [kvs [mkvs [anns [-> [Hm [Ha [Hl Hd]]]]]]].
  unfold remove_annotations in H. rewrite Hm in H. unfold get_obj in H. rewrite Ha in H. cbn [bind] in H.
  destruct (existsb _ anns); [|inversion H; subst; exact HI].
  inversion H.
  apply (vs_I_filter j v (fun k => negb (rm k)) anns); try assumption.
  - unfold sy_md_anns. simpl. rewrite !sy_lookup_set_same. reflexivity.
  - rewrite Hrm. reflexivity.
Qed.

(* ---------- the base build ---------- *)
Lemma vs_filter_stage_I : forall j v e1 anns e2,
  sy_filter_stage e1 anns = Ok e2 -> sy_anns_of e1 = Ok anns -> vs_I j v e1 -> vs_I j v e2.
Proof.
  intros j v e1 anns e2 H Ha HI. destruct HI as [anns' [Hr [Hl Hd]]].
  destruct (sy_anns_of_spec _ _ Ha) as [Hs|[Hs _]]; rewrite Hs in Hr; [|discriminate Hr].
  inversion Hr. subst anns'.
  unfold sy_filter_stage in H. destruct (existsb _ anns).
  - apply (vs_I_filter j v (fun k => negb (sy_drop anns k)) anns); try assumption.
    + apply (sy_ensure_resolve _ _ _ _ H).
    + rewrite Hd. reflexivity.
  - inversion H. subst e2. exists anns. repeat split; assumption.
Qed.

Lemma vs_base_build_I : forall j v ign b extra e,
  sy_avoid "metadata" extra -> sy_avoid "metadata" ign ->
  base_build ign b extra = Ok e -> vs_I j v b -> vs_I j v e.
Proof.
  intros j v ign b extra e He Hi H HI.
  apply sy_base_build_inv in H.
  destruct H as [kvs [e1 [anns [e2 [e3 [e4 [Eb [H1 [H2 [H3 [H4 [H5 H6]]]]]]]]]]]]. subst b.
  pose proof (sy_cherrypick_md _ _ _ (sy_strip_no_metadata kvs) H1) as Hmd.
  assert (I1 : vs_I j v e1) by (eapply vs_I_cong; [exact Hmd | exact HI]).
  assert (I2 : vs_I j v e2) by (eapply vs_filter_stage_I; eassumption).
  assert (I3 : vs_I j v e3).
  { eapply vs_I_top; [|exact I2]. eapply sy_cherrypick_top; [exact He | exact H4]. }
  assert (I4 : vs_I j v e4) by (eapply vs_res_I; eassumption).
  eapply vs_I_top; [|exact I4].
  revert H6. apply (sy_ign_fold_rel (fun x y => sy_top "metadata" y = sy_top "metadata" x)); [reflexivity | congruence|].
  intros f x x' Hf Hx. eapply sy_remove_avoid_top; [apply Hi, Hf | exact Hx].
Qed.

(* ---------- collectors over the nested storage configurations ---------- *)
(* the annotation diff-base storages (prefix, key, v1) inside ds *)
Fixpoint vs_ds_anns (ds : dstorage) : list (string * string * bool) :=
  match ds with
  | DAnn p k v1 _ => [(p, k, v1)]
  | DStatus _ _ => []
  | DMulti l => flat_map vs_ds_anns l
  end.

Fixpoint vs_ds_prefixes (ds : dstorage) : list string :=
  match ds with
  | DAnn p _ _ _ => [p]
  | DStatus _ _ => []
  | DMulti l => flat_map vs_ds_prefixes l
  end.

Fixpoint vs_ps_prefixes (ps : pstorage) : list string :=
  match ps with
  | PAnn p _ _ _ => [p]
  | PStatus _ _ _ => []
  | PMulti l => flat_map vs_ps_prefixes l
  end.

Lemma vs_ds_anns_prefixes : forall ds p k v1, In (p, k, v1) (vs_ds_anns ds) -> In p (vs_ds_prefixes ds).
Proof.
  induction ds using sy_ds_ind; intros p0 k0 w Hin.
  - simpl in Hin. destruct Hin as [E|[]]. inversion E. left. reflexivity.
  - destruct Hin.
  - cbn [vs_ds_anns vs_ds_prefixes] in *. apply in_flat_map in Hin. destruct Hin as [s [Hs Hin]].
    apply in_flat_map. exists s. split; [exact Hs|].
    rewrite Forall_forall in H. eapply H; eassumption.
Qed.

(* j is none of the own keys of an annotation diff-base storage inside ds, whatever the body *)
Definition vs_ds_own (dg : chars -> list N) (j : string) (ds : dstorage) : Prop :=
  forall p k v1, In (p, k, v1) (vs_ds_anns ds) -> forall body, mem_str j (full_keys dg p v1 body k) = false.

(* j is not under the (non-empty) prefix of an annotation progress storage inside ps *)
Definition vs_ps_own (j : string) (ps : pstorage) : Prop :=
  forall p, In p (vs_ps_prefixes ps) -> p <> "" -> under_prefix p j = false.

(* ---------- the diff-base build, every nesting ---------- *)
Lemma vs_dbuild_I : forall dg j v extra,
  sy_avoid "metadata" extra ->
  forall ds b e, sy_avoid "metadata" (sy_ds_fields ds) -> vs_ds_own dg j ds ->
  dbuild dg ds b extra = Ok e -> vs_I j v b -> vs_I j v e.
Proof.
  intros dg j v extra He. induction ds using sy_ds_ind; intros b e Hf Ho Hd HI.
  - cbn [dbuild] in Hd. apply sy_bind_ok in Hd. destruct Hd as [e1 [H1 H2]].
    apply sy_bind_ok in H2. destruct H2 as [e2 [H2 H3]].
    eapply vs_res_I; [exact H3|]. eapply vs_ra_I; [exact H2 | |].
    + apply (Ho prefix key v1). left. reflexivity.
    + eapply vs_base_build_I; [exact He | exact Hf | exact H1 | exact HI].
  - cbn [dbuild] in Hd. apply sy_bind_ok in Hd. destruct Hd as [e1 [H1 H2]].
    eapply vs_I_top; [eapply sy_remove_avoid_top; [apply Hf; left; reflexivity | exact H2]|].
    eapply vs_base_build_I; [exact He | | exact H1 | exact HI].
    intros f Hin. apply Hf. right. exact Hin.
  - rewrite sy_dbuild_multi in Hd. apply sy_bind_ok in Hd. destruct Hd as [e1 [H1 H2]].
    assert (I1 : vs_I j v e1).
    { eapply vs_base_build_I; [exact He | | exact H1 | exact HI]. intros f []. }
    clear H1. revert e1 e H2 I1.
    apply (sy_dgo_rel (fun x y => vs_I j v x -> vs_I j v y)); [auto | auto|].
    apply Forall_forall. intros s Hs x y Hxy Ix.
    rewrite Forall_forall in H. apply (H s Hs x y); [| |exact Hxy | exact Ix].
    + intros f Hin. apply Hf. cbn [sy_ds_fields]. apply in_flat_map. exists s. split; assumption.
    + intros p k v1 Hin. apply Ho. cbn [vs_ds_anns]. apply in_flat_map. exists s. split; assumption.
Qed.

(* ---------- the progress clear, every nesting ---------- *)
Lemma vs_pclear_I : forall j v ps e e',
  sy_avoid "metadata" (sy_ps_fields ps) -> vs_ps_own j ps ->
  pclear ps e = Ok e' -> vs_I j v e -> vs_I j v e'.
Proof.
  intros j v. induction ps using sy_ps_ind; intros e e' Hf Ho Hc HI.
  - cbn [pclear] in Hc. apply sy_bind_ok in Hc. destruct Hc as [e1 [H1 H2]].
    eapply vs_res_I; [exact H2|]. eapply vs_ra_I; [exact H1 | | exact HI].
    destruct (String.eqb_spec prefix "") as [E|E]; [reflexivity|].
    cbn [negb andb]. apply Ho; [left; reflexivity | exact E].
  - cbn [pclear] in Hc. apply sy_bind_ok in Hc. destruct Hc as [e1 [H1 H2]].
    eapply vs_res_I; [exact H2|].
    eapply vs_I_top; [eapply sy_remove_avoid_top; [apply Hf; left; reflexivity | exact H1] | exact HI].
  - rewrite sy_pclear_multi in Hc. revert e e' Hc HI.
    apply (sy_pgo_rel (fun x y => vs_I j v x -> vs_I j v y)); [auto | auto|].
    apply Forall_forall. intros s Hs x y Hxy Ix.
    rewrite Forall_forall in H. apply (H s Hs x y); [| |exact Hxy | exact Ix].
    + intros f Hin. apply Hf. cbn [sy_ps_fields]. apply in_flat_map. exists s. split; assumption.
    + intros p Hin. apply Ho. cbn [vs_ps_prefixes]. apply in_flat_map. exists s. split; assumption.
Qed.

(* ---------- ordinary annotations ---------- *)
(* the general form: the own keys of the annotation diff-base storages are given by the digest *)
Definition ann_ordinary_gen (dg : chars -> list N) (j : string) (anns : obj) (ds : dstorage) (ps : pstorage) : Prop :=
  existsb (fun p => under_prefix p j) (marked_prefixes (keys anns)) = false /\
  j <> last_applied /\
  vs_ds_own dg j ds /\
  vs_ps_own j ps.

(* the digest-free form: the annotation diff-base storages have a non-empty prefix (then all their
   keys are under it) and j is under none of the storages' prefixes *)
Definition ann_ordinary (j : string) (anns : obj) (ds : dstorage) (ps : pstorage) : Prop :=
  existsb (fun p => under_prefix p j) (marked_prefixes (keys anns)) = false /\
  j <> last_applied /\
  (forall p, In p (vs_ds_prefixes ds) -> p <> "" /\ under_prefix p j = false) /\
  (forall p, In p (vs_ps_prefixes ps) -> p <> "" -> under_prefix p j = false).

Lemma vs_ordinary_gen : forall dg j anns ds ps, ann_ordinary j anns ds ps -> ann_ordinary_gen dg j anns ds ps.
Proof.
  intros dg j anns ds ps [H1 [H2 [H3 H4]]]. repeat split; try assumption.
  intros p k v1 Hin body. destruct (H3 p (vs_ds_anns_prefixes _ _ _ _ Hin)) as [Hp Hu].
  destruct (mem_str j (full_keys dg p v1 body k)) eqn:E; [|reflexivity].
  apply ow_mem_str_in in E. rewrite (ow_full_keys_under _ _ _ _ _ _ Hp E) in Hu. discriminate Hu.
Qed.

Theorem annotation_visible_gen : forall dg ds ps kvs md anns j v extra e,
  lookup "metadata" kvs = Some (JObj md) -> lookup "annotations" md = Some (JObj anns) ->
  lookup j anns = Some v ->
  ann_ordinary_gen dg j anns ds ps -> fields_avoid "metadata" ds ps extra ->
  essence dg ds ps (JObj kvs) extra = Ok e ->
  resolve e ["metadata"; "annotations"; j] = Some v.
Proof.
  intros dg ds ps kvs md anns j v extra e Hm Ha Hl [O1 [O2 [O3 O4]]] Hf H.
  unfold essence in H. apply sy_bind_ok in H. destruct H as [e1 [H1 H2]].
  apply vs_I_value.
  eapply vs_pclear_I; [| exact O4 | exact H2 |].
  { intros f Hin. apply Hf. apply in_or_app. right. apply in_or_app. right. exact Hin. }
  eapply vs_dbuild_I; [| | exact O3 | exact H1 |].
  { intros f Hin. apply Hf. apply in_or_app. left. exact Hin. }
  { intros f Hin. apply Hf. apply in_or_app. right. apply in_or_app. left. exact Hin. }
  exists anns. split; [|split].
  - unfold sy_md_anns. simpl. rewrite Hm, Ha. reflexivity.
  - exact Hl.
  - unfold sy_drop. rewrite O1. apply String.eqb_neq in O2. rewrite O2. reflexivity.
Qed.

Theorem annotation_visible : forall dg ds ps kvs md anns j v extra e,
  lookup "metadata" kvs = Some (JObj md) -> lookup "annotations" md = Some (JObj anns) ->
  lookup j anns = Some v ->
  ann_ordinary j anns ds ps -> fields_avoid "metadata" ds ps extra ->
  essence dg ds ps (JObj kvs) extra = Ok e ->
  resolve e ["metadata"; "annotations"; j] = Some v.
Proof.
  intros dg ds ps kvs md anns j v extra e Hm Ha Hl Ho. apply (annotation_visible_gen dg ds ps kvs md anns); try assumption.
  apply vs_ordinary_gen, Ho.
Qed.

(* ---------- labels ---------- *)
Lemma vs_cherrypick_labels : forall kvs e0 e1,
  lookup "metadata" e0 = None ->
  cherrypick (JObj kvs) (JObj e0) [sy_md_labels; sy_md_anns] = Ok e1 ->
  resolve e1 sy_md_labels = resolve (JObj kvs) sy_md_labels.
Proof.
  intros kvs e0 e1 H0 H. unfold sy_md_labels, sy_md_anns in *.
  cbn [cherrypick resolve_strict] in H. cbn [resolve].
  destruct (lookup "metadata" kvs) as [md|].
  2:{ inversion H. subst e1. rewrite H0. reflexivity. }
  destruct md as [| | | | |mkvs|]; try discriminate H.
  destruct (lookup "labels" mkvs) as [lv|].
  - cbn [ensure bind] in H. rewrite H0 in H. cbn [bind] in H.
    rewrite sy_lookup_set_same in H.
    destruct (lookup "annotations" mkvs) as [av|].
    + cbn [bind] in H. inversion H. subst e1.
      rewrite !sy_lookup_set_same. reflexivity.
    + inversion H. subst e1. rewrite !sy_lookup_set_same. reflexivity.
  - destruct (lookup "annotations" mkvs) as [av|].
    + cbn [ensure bind] in H. rewrite H0 in H. cbn [bind] in H. inversion H. subst e1.
      rewrite !sy_lookup_set_same. reflexivity.
    + inversion H. subst e1. rewrite H0. reflexivity.
Qed.

Lemma vs_ensure_anns_labels : forall e X e',
  ensure e sy_md_anns X = Ok e' -> resolve e' sy_md_labels = resolve e sy_md_labels.
Proof.
  intros e X e' H. unfold sy_md_anns, sy_md_labels in *. cbn [ensure] in H.
  destruct e; try discriminate H. cbn [resolve].
  destruct (lookup "metadata" kvs) as [md|].
  - destruct md; try discriminate H. cbn [bind] in H. inversion H.
    rewrite !sy_lookup_set_same. rewrite sy_lookup_set_other by discriminate. reflexivity.
  - cbn [bind] in H. inversion H. rewrite !sy_lookup_set_same. reflexivity.
Qed.

Lemma vs_ra_labels : forall e rm e',
  remove_annotations e rm = Ok e' -> resolve e' sy_md_labels = resolve e sy_md_labels.
Proof.
  intros e rm e' H. unfold remove_annotations in H. destruct e; try discriminate H.
  destruct (lookup "metadata" kvs) as [md|] eqn:Em; [|inversion H; reflexivity].
  apply sy_bind_ok in H. destruct H as [anns [_ H]].
  destruct (existsb _ anns); [|inversion H; reflexivity].
  destruct md; try discriminate H. inversion H. unfold sy_md_labels. cbn [resolve].
  rewrite Em, !sy_lookup_set_same. rewrite sy_lookup_set_other by discriminate. reflexivity.
Qed.

Definition vs_L (L : json) (e : json) : Prop := resolve e sy_md_labels = Some L.

Lemma vs_L_top : forall L e e', sy_top "metadata" e' = sy_top "metadata" e -> vs_L L e -> vs_L L e'.
Proof. unfold vs_L, sy_md_labels. intros L e e' H HL. rewrite (vs_top_md e e' _ H). exact HL. Qed.

Lemma vs_base_build_L : forall L ign b extra e,
  is_falsy L = false ->
  sy_avoid "metadata" extra -> sy_avoid "metadata" ign ->
  base_build ign b extra = Ok e -> vs_L L b -> vs_L L e.
Proof.
  intros L ign b extra e HL He Hi H HI.
  apply sy_base_build_inv in H.
  destruct H as [kvs [e1 [anns [e2 [e3 [e4 [Eb [H1 [H2 [H3 [H4 [H5 H6]]]]]]]]]]]]. subst b.
  assert (I1 : vs_L L e1).
  { unfold vs_L. rewrite (vs_cherrypick_labels _ _ _ (sy_strip_no_metadata kvs) H1). exact HI. }
  assert (I2 : vs_L L e2).
  { unfold sy_filter_stage in H3. destruct (existsb _ anns); [|inversion H3; subst; exact I1].
    unfold vs_L. rewrite (vs_ensure_anns_labels _ _ _ H3). exact I1. }
  assert (I3 : vs_L L e3).
  { eapply vs_L_top; [|exact I2]. eapply sy_cherrypick_top; [exact He | exact H4]. }
  assert (I4 : vs_L L e4) by (apply (vs_res_keep _ _ _ _ H5 I3 HL)).
  eapply vs_L_top; [|exact I4].
  revert H6. apply (sy_ign_fold_rel (fun x y => sy_top "metadata" y = sy_top "metadata" x)); [reflexivity | congruence|].
  intros f x x' Hf Hx. eapply sy_remove_avoid_top; [apply Hi, Hf | exact Hx].
Qed.

Lemma vs_dbuild_L : forall dg L extra,
  is_falsy L = false -> sy_avoid "metadata" extra ->
  forall ds b e, sy_avoid "metadata" (sy_ds_fields ds) ->
  dbuild dg ds b extra = Ok e -> vs_L L b -> vs_L L e.
Proof.
  intros dg L extra HL He. induction ds using sy_ds_ind; intros b e Hf Hd HI.
  - cbn [dbuild] in Hd. apply sy_bind_ok in Hd. destruct Hd as [e1 [H1 H2]].
    apply sy_bind_ok in H2. destruct H2 as [e2 [H2 H3]].
    apply (vs_res_keep _ _ _ _ H3); [|exact HL].
    fold sy_md_labels. rewrite (vs_ra_labels _ _ _ H2).
    eapply vs_base_build_L; [exact HL | exact He | exact Hf | exact H1 | exact HI].
  - cbn [dbuild] in Hd. apply sy_bind_ok in Hd. destruct Hd as [e1 [H1 H2]].
    eapply vs_L_top; [eapply sy_remove_avoid_top; [apply Hf; left; reflexivity | exact H2]|].
    eapply vs_base_build_L; [exact HL | exact He | | exact H1 | exact HI].
    intros f Hin. apply Hf. right. exact Hin.
  - rewrite sy_dbuild_multi in Hd. apply sy_bind_ok in Hd. destruct Hd as [e1 [H1 H2]].
    assert (I1 : vs_L L e1).
    { eapply vs_base_build_L; [exact HL | exact He | | exact H1 | exact HI]. intros f []. }
    clear H1. revert e1 e H2 I1.
    apply (sy_dgo_rel (fun x y => vs_L L x -> vs_L L y)); [auto | auto|].
    apply Forall_forall. intros s Hs x y Hxy Ix.
    rewrite Forall_forall in H. apply (H s Hs x y); [|exact Hxy | exact Ix].
    intros f Hin. apply Hf. cbn [sy_ds_fields]. apply in_flat_map. exists s. split; assumption.
Qed.

Lemma vs_pclear_L : forall L, is_falsy L = false ->
  forall ps e e', sy_avoid "metadata" (sy_ps_fields ps) ->
  pclear ps e = Ok e' -> vs_L L e -> vs_L L e'.
Proof.
  intros L HL. induction ps using sy_ps_ind; intros e e' Hf Hc HI.
  - cbn [pclear] in Hc. apply sy_bind_ok in Hc. destruct Hc as [e1 [H1 H2]].
    apply (vs_res_keep _ _ _ _ H2); [|exact HL].
    fold sy_md_labels. rewrite (vs_ra_labels _ _ _ H1). exact HI.
  - cbn [pclear] in Hc. apply sy_bind_ok in Hc. destruct Hc as [e1 [H1 H2]].
    apply (vs_res_keep _ _ _ _ H2); [|exact HL].
    eapply vs_L_top; [eapply sy_remove_avoid_top; [apply Hf; left; reflexivity | exact H1] | exact HI].
  - rewrite sy_pclear_multi in Hc. revert e e' Hc HI.
    apply (sy_pgo_rel (fun x y => vs_L L x -> vs_L L y)); [auto | auto|].
    apply Forall_forall. intros s Hs x y Hxy Ix.
    rewrite Forall_forall in H. apply (H s Hs x y); [|exact Hxy | exact Ix].
    intros f Hin. apply Hf. cbn [sy_ps_fields]. apply in_flat_map. exists s. split; assumption.
Qed.

(* the labels mapping (any truthy value of metadata.labels) is copied verbatim.  No condition on
   metadata.annotations is needed: if it is neither absent nor a mapping the essence is not Ok. *)
Theorem labels_visible : forall dg ds ps kvs md L extra e,
  lookup "metadata" kvs = Some (JObj md) -> lookup "labels" md = Some L -> is_falsy L = false ->
  fields_avoid "metadata" ds ps extra ->
  essence dg ds ps (JObj kvs) extra = Ok e ->
  resolve e ["metadata"; "labels"] = Some L.
Proof.
  intros dg ds ps kvs md L extra e Hm Hl HL Hf H.
  unfold essence in H. apply sy_bind_ok in H. destruct H as [e1 [H1 H2]].
  change (vs_L L e).
  eapply (vs_pclear_L L HL); [| exact H2 |].
  { intros f Hin. apply Hf. apply in_or_app. right. apply in_or_app. right. exact Hin. }
  eapply (vs_dbuild_L dg L extra HL); [| | exact H1 |].
  { intros f Hin. apply Hf. apply in_or_app. left. exact Hin. }
  { intros f Hin. apply Hf. apply in_or_app. right. apply in_or_app. left. exact Hin. }
  unfold vs_L, sy_md_labels. simpl. rewrite Hm, Hl. reflexivity.
Qed.

(* a single label *)
Corollary label_visible : forall dg ds ps kvs md labs k extra e,
  lookup "metadata" kvs = Some (JObj md) -> lookup "labels" md = Some (JObj labs) -> labs <> [] ->
  fields_avoid "metadata" ds ps extra ->
  essence dg ds ps (JObj kvs) extra = Ok e ->
  resolve e ["metadata"; "labels"; k] = lookup k labs.
Proof.
  intros dg ds ps kvs md labs k extra e Hm Hl Hne Hf H.
  assert (HL : is_falsy (JObj labs) = false) by (destruct labs; [congruence | reflexivity]).
  pose proof (labels_visible _ _ _ _ _ _ _ _ Hm Hl HL Hf H) as R.
  destruct e; try discriminate R. simpl in *.
  destruct (lookup "metadata" kvs0) as [m|]; [|discriminate R].
  destruct m; try discriminate R.
  destruct (lookup "labels" kvs1) as [x|]; [|discriminate R].
  inversion R. subst x. destruct (lookup k labs); reflexivity.
Qed.

(* ---------- an absent annotation stays absent (from C04System) ---------- *)
Lemma vs_annotation_absent : forall dg ds ps b j extra e,
  resolve b ["metadata"; "annotations"; j] = None ->
  (forall f, In f extra -> hd_error f <> Some "metadata") ->
  essence dg ds ps b extra = Ok e ->
  resolve e ["metadata"; "annotations"; j] = None.
Proof.
  intros dg ds ps b j extra e Hb He H.
  unfold essence in H. apply sy_bind_ok in H. destruct H as [e1 [H1 H2]].
  change (sy_A j e). eapply sy_A_le; [eapply sy_pclear_le, H2|].
  eapply sy_dbuild_A; [exact He | exact H1 | left; exact Hb].
Qed.

(* ---------- a change counts ---------- *)
Corollary annotation_change_visible : forall dg ds ps kvs kvs' md md' anns anns' j v v' extra e e',
  lookup "metadata" kvs = Some (JObj md) -> lookup "annotations" md = Some (JObj anns) -> lookup j anns = Some v ->
  lookup "metadata" kvs' = Some (JObj md') -> lookup "annotations" md' = Some (JObj anns') -> lookup j anns' = Some v' ->
  v <> v' ->
  ann_ordinary j anns ds ps -> ann_ordinary j anns' ds ps ->
  fields_avoid "metadata" ds ps extra ->
  essence dg ds ps (JObj kvs) extra = Ok e ->
  essence dg ds ps (JObj kvs') extra = Ok e' ->
  e <> e'.
Proof.
  intros dg ds ps kvs kvs' md md' anns anns' j v v' extra e e' Hm Ha Hl Hm' Ha' Hl' Hv Ho Ho' Hf H H' E.
  pose proof (annotation_visible _ _ _ _ _ _ _ _ _ _ Hm Ha Hl Ho Hf H) as R.
  pose proof (annotation_visible _ _ _ _ _ _ _ _ _ _ Hm' Ha' Hl' Ho' Hf H') as R'.
  subst e'. rewrite R in R'. inversion R'. contradiction.
Qed.

(* adding / removing an ordinary annotation counts as well *)
Corollary annotation_add_visible : forall dg ds ps kvs b' md anns j v extra e e',
  lookup "metadata" kvs = Some (JObj md) -> lookup "annotations" md = Some (JObj anns) -> lookup j anns = Some v ->
  resolve b' ["metadata"; "annotations"; j] = None ->
  ann_ordinary j anns ds ps ->
  fields_avoid "metadata" ds ps extra ->
  essence dg ds ps (JObj kvs) extra = Ok e ->
  essence dg ds ps b' extra = Ok e' ->
  e <> e'.
Proof.
  intros dg ds ps kvs b' md anns j v extra e e' Hm Ha Hl Hb' Ho Hf H H' E.
  pose proof (annotation_visible _ _ _ _ _ _ _ _ _ _ Hm Ha Hl Ho Hf H) as R.
  assert (R' : resolve e' ["metadata"; "annotations"; j] = None).
  { eapply vs_annotation_absent; [exact Hb' | | exact H'].
    intros f Hin. apply Hf. apply in_or_app. left. exact Hin. }
  subst e'. rewrite R in R'. discriminate R'.
Qed.

Corollary label_change_visible : forall dg ds ps kvs kvs' md md' L L' extra e e',
  lookup "metadata" kvs = Some (JObj md) -> lookup "labels" md = Some L -> is_falsy L = false ->
  lookup "metadata" kvs' = Some (JObj md') -> lookup "labels" md' = Some L' -> is_falsy L' = false ->
  L <> L' ->
  fields_avoid "metadata" ds ps extra ->
  essence dg ds ps (JObj kvs) extra = Ok e ->
  essence dg ds ps (JObj kvs') extra = Ok e' ->
  e <> e'.
Proof.
  intros dg ds ps kvs kvs' md md' L L' extra e e' Hm Hl HL Hm' Hl' HL' Hd Hf H H' E.
  pose proof (labels_visible _ _ _ _ _ _ _ _ Hm Hl HL Hf H) as R.
  pose proof (labels_visible _ _ _ _ _ _ _ _ Hm' Hl' HL' Hf H') as R'.
  subst e'. rewrite R in R'. inversion R'. contradiction.
Qed.

(* ---------- absent or falsy labels are absent from the essence ---------- *)
Definition vs_NL (e : json) : Prop := forall x, resolve e sy_md_labels = Some x -> is_falsy x = true.

Lemma vs_dfi_anns_labels : forall kvs k1,
  drop_if_falsy_in "metadata" "annotations" kvs = Ok k1 ->
  resolve (JObj k1) sy_md_labels = resolve (JObj kvs) sy_md_labels.
Proof.
  intros kvs k1 H. unfold drop_if_falsy_in in H. unfold sy_md_labels. cbn [resolve].
  destruct (lookup "metadata" kvs) as [o|] eqn:Em; [|inversion H; subst; rewrite Em; reflexivity].
  destruct o; try discriminate H.
  destruct (lookup "annotations" kvs0) as [v|]; [|inversion H; subst; rewrite Em; reflexivity].
  destruct (is_falsy v); inversion H; try subst k1.
  - rewrite sy_lookup_set_same. rewrite sy_lookup_del_other by discriminate. reflexivity.
  - rewrite Em. reflexivity.
Qed.

Lemma vs_res_drop : forall e e',
  remove_empty_stanzas e = Ok e' -> vs_NL e -> resolve e' sy_md_labels = None.
Proof.
  intros e e' H HN. unfold remove_empty_stanzas in H. destruct e; try discriminate H.
  apply sy_bind_ok in H. destruct H as [k1 [H1 H]].
  apply sy_bind_ok in H. destruct H as [k2 [H2 H]].
  inversion H.
  apply (sy_drop_if_falsy_le "status"), (sy_drop_if_falsy_le "metadata").
  pose proof (vs_dfi_anns_labels _ _ H1) as E1. unfold vs_NL in HN. rewrite <- E1 in HN.
  unfold drop_if_falsy_in in H2. unfold sy_md_labels in *. cbn [resolve] in *.
  destruct (lookup "metadata" k1) as [o|] eqn:Em; [|inversion H2; subst; rewrite Em; reflexivity].
  destruct o; try discriminate H2.
  destruct (lookup "labels" kvs0) as [v|] eqn:El; [|inversion H2; subst; rewrite Em, El; reflexivity].
  rewrite (HN v eq_refl) in H2. inversion H2.
  rewrite sy_lookup_set_same, sy_lookup_del_same. reflexivity.
Qed.

Lemma vs_base_build_NL : forall ign b extra e,
  sy_avoid "metadata" extra ->
  base_build ign b extra = Ok e -> vs_NL b -> resolve e sy_md_labels = None.
Proof.
  intros ign b extra e He H HN.
  apply sy_base_build_inv in H.
  destruct H as [kvs [e1 [anns [e2 [e3 [e4 [Eb [H1 [H2 [H3 [H4 [H5 H6]]]]]]]]]]]]. subst b.
  assert (E1 : resolve e1 sy_md_labels = resolve (JObj kvs) sy_md_labels)
    by (apply (vs_cherrypick_labels _ _ _ (sy_strip_no_metadata kvs) H1)).
  assert (E2 : resolve e2 sy_md_labels = resolve e1 sy_md_labels).
  { unfold sy_filter_stage in H3. destruct (existsb _ anns); [|inversion H3; reflexivity].
    apply (vs_ensure_anns_labels _ _ _ H3). }
  assert (E3 : resolve e3 sy_md_labels = resolve e2 sy_md_labels).
  { unfold sy_md_labels. apply vs_top_md. eapply sy_cherrypick_top; [exact He | exact H4]. }
  assert (N4 : resolve e4 sy_md_labels = None).
  { apply (vs_res_drop _ _ H5). unfold vs_NL. rewrite E3, E2, E1. exact HN. }
  revert N4. generalize sy_md_labels. intros p N4. revert p N4. change (sy_le e4 e).
  revert H6. apply sy_ign_fold_rel; [apply sy_le_refl | apply sy_le_trans|].
  intros f x x' _ Hx. eapply sy_remove_le, Hx.
Qed.

Lemma vs_dbuild_NL : forall dg extra,
  sy_avoid "metadata" extra ->
  forall ds b e, dbuild dg ds b extra = Ok e -> vs_NL b -> resolve e sy_md_labels = None.
Proof.
  intros dg extra He. induction ds using sy_ds_ind; intros b e Hd HN.
  - cbn [dbuild] in Hd. apply sy_bind_ok in Hd. destruct Hd as [e1 [H1 H2]].
    apply sy_bind_ok in H2. destruct H2 as [e2 [H2 H3]].
    apply (sy_res_le _ _ H3). rewrite (vs_ra_labels _ _ _ H2).
    eapply vs_base_build_NL; eassumption.
  - cbn [dbuild] in Hd. apply sy_bind_ok in Hd. destruct Hd as [e1 [H1 H2]].
    apply (sy_remove_le _ _ _ H2). eapply vs_base_build_NL; eassumption.
  - rewrite sy_dbuild_multi in Hd. apply sy_bind_ok in Hd. destruct Hd as [e1 [H1 H2]].
    pose proof (vs_base_build_NL _ _ _ _ He H1 HN) as N1.
    clear H1. revert e1 e H2 N1.
    apply (sy_dgo_rel (fun x y => resolve x sy_md_labels = None -> resolve y sy_md_labels = None)); [auto | auto|].
    eapply Forall_impl; [|exact H]. intros s IHs x y Hxy Nx. apply (IHs x y Hxy).
    intros z Hz. rewrite Nx in Hz. discriminate Hz.
Qed.

Theorem labels_absent : forall dg ds ps b extra e,
  (forall x, resolve b ["metadata"; "labels"] = Some x -> is_falsy x = true) ->
  (forall f, In f extra -> hd_error f <> Some "metadata") ->
  essence dg ds ps b extra = Ok e ->
  resolve e ["metadata"; "labels"] = None.
Proof.
  intros dg ds ps b extra e HN He H.
  unfold essence in H. apply sy_bind_ok in H. destruct H as [e1 [H1 H2]].
  apply (sy_pclear_le _ _ _ H2). apply (vs_dbuild_NL dg extra He ds b e1 H1). exact HN.
Qed.

(* removing the labels (or the last label) counts as a change, too *)
Corollary label_remove_visible : forall dg ds ps kvs b' md L extra e e',
  lookup "metadata" kvs = Some (JObj md) -> lookup "labels" md = Some L -> is_falsy L = false ->
  (forall x, resolve b' ["metadata"; "labels"] = Some x -> is_falsy x = true) ->
  fields_avoid "metadata" ds ps extra ->
  essence dg ds ps (JObj kvs) extra = Ok e ->
  essence dg ds ps b' extra = Ok e' ->
  e <> e'.
Proof.
  intros dg ds ps kvs b' md L extra e e' Hm Hl HL HN Hf H H' E.
  pose proof (labels_visible _ _ _ _ _ _ _ _ Hm Hl HL Hf H) as R.
  assert (R' : resolve e' ["metadata"; "labels"] = None).
  { eapply labels_absent; [exact HN | | exact H'].
    intros f Hin. apply Hf. apply in_or_app. left. exact Hin. }
  subst e'. rewrite R in R'. discriminate R'.
Qed.

(* ---------- examples: kopf's defaults, and a nested configuration ---------- *)
Definition vs_ex_anns : obj :=
  [("note", JStr "x"); ("other.example.com/kopf-managed", JStr "yes"); ("other.example.com/rec", JStr "r");
   ("kopf.zalando.org/create_fn", JStr "p"); (last_applied, JStr "{...}")].
Definition vs_ex_md : obj :=
  [("name", JStr "x"); ("labels", JObj [("app", JStr "v")]); ("annotations", JObj vs_ex_anns)].
Definition vs_ex_kvs : obj :=
  [("apiVersion", JStr "v1"); ("kind", JStr "KopfExample"); ("metadata", JObj vs_ex_md);
   ("spec", JObj [("field", JNum 1)]); ("status", JObj [("kopf", JObj [])])].
Definition vs_ex_ds : dstorage := DAnn "kopf.zalando.org" "last-handled-configuration" true [].
Definition vs_ex_ps : pstorage :=
  smart "kopf.zalando.org" true false "touch-dummy" ["status"; "kopf"; "progress"] ["status"; "kopf"; "dummy"].
Definition vs_ex_essence : json :=
  JObj [("spec", JObj [("field", JNum 1)]);
        ("metadata", JObj [("labels", JObj [("app", JStr "v")]); ("annotations", JObj [("note", JStr "x")])])].

Example vs_ex_ordinary : ann_ordinary "note" vs_ex_anns vs_ex_ds vs_ex_ps.
Proof.
  split; [vm_compute; reflexivity|]. split; [discriminate|]. split.
  - intros p [<-|[]]. split; [discriminate | vm_compute; reflexivity].
  - intros p [<-|[]] _. vm_compute. reflexivity.
Qed.

(* the other annotations of the example are NOT ordinary *)
Example vs_ex_not_ordinary :
  ~ ann_ordinary "other.example.com/rec" vs_ex_anns vs_ex_ds vs_ex_ps /\
  ~ ann_ordinary "kopf.zalando.org/create_fn" vs_ex_anns vs_ex_ds vs_ex_ps /\
  ~ ann_ordinary last_applied vs_ex_anns vs_ex_ds vs_ex_ps.
Proof.
  split; [|split]; intros [H1 [H2 _]]; try (vm_compute in H1; discriminate H1). apply H2. reflexivity.
Qed.

Example vs_ex_avoid : fields_avoid "metadata" vs_ex_ds vs_ex_ps [].
Proof. apply sy_fields_avoid_default. discriminate. Qed.

Example vs_ex_essence_ok : essence (table_dg []) vs_ex_ds vs_ex_ps (JObj vs_ex_kvs) [] = Ok vs_ex_essence.
Proof. vm_compute. reflexivity. Qed.

(* the theorems instantiated: premises satisfiable, conclusions non-trivial *)
Example vs_ex_annotation_visible : forall e,
  essence (table_dg []) vs_ex_ds vs_ex_ps (JObj vs_ex_kvs) [] = Ok e ->
  resolve e ["metadata"; "annotations"; "note"] = Some (JStr "x").
Proof.
  intros e H.
  apply (annotation_visible (table_dg []) vs_ex_ds vs_ex_ps vs_ex_kvs vs_ex_md vs_ex_anns "note" (JStr "x") [] e);
    try reflexivity; [exact vs_ex_ordinary | exact vs_ex_avoid | exact H].
Qed.

Example vs_ex_labels_visible : forall e,
  essence (table_dg []) vs_ex_ds vs_ex_ps (JObj vs_ex_kvs) [] = Ok e ->
  resolve e ["metadata"; "labels"] = Some (JObj [("app", JStr "v")]).
Proof.
  intros e H.
  apply (labels_visible (table_dg []) vs_ex_ds vs_ex_ps vs_ex_kvs vs_ex_md _ [] e);
    try reflexivity; [exact vs_ex_avoid | exact H].
Qed.

(* changing the ordinary annotation / a label value gives a different essence *)
Definition vs_ex_kvs_note (x : string) : obj :=
  set "metadata" (JObj (set "annotations" (JObj (set "note" (JStr x) vs_ex_anns)) vs_ex_md)) vs_ex_kvs.
Definition vs_ex_kvs_label (x : string) : obj :=
  set "metadata" (JObj (set "labels" (JObj [("app", JStr x)]) vs_ex_md)) vs_ex_kvs.

Example vs_ex_annotation_change :
  exists e e', essence (table_dg []) vs_ex_ds vs_ex_ps (JObj (vs_ex_kvs_note "x")) [] = Ok e /\
               essence (table_dg []) vs_ex_ds vs_ex_ps (JObj (vs_ex_kvs_note "y")) [] = Ok e' /\ e <> e'.
Proof.
  eexists. eexists. split; [vm_compute; reflexivity|]. split; [vm_compute; reflexivity|].
  eapply (annotation_change_visible (table_dg []) vs_ex_ds vs_ex_ps (vs_ex_kvs_note "x") (vs_ex_kvs_note "y")
            _ _ _ _ "note" (JStr "x") (JStr "y") []);
    try (vm_compute; reflexivity); try exact vs_ex_avoid; try discriminate.
  - exact vs_ex_ordinary.
  - exact vs_ex_ordinary.
Qed.

Example vs_ex_label_change :
  exists e e', essence (table_dg []) vs_ex_ds vs_ex_ps (JObj (vs_ex_kvs_label "v")) [] = Ok e /\
               essence (table_dg []) vs_ex_ds vs_ex_ps (JObj (vs_ex_kvs_label "w")) [] = Ok e' /\ e <> e'.
Proof.
  eexists. eexists. split; [vm_compute; reflexivity|]. split; [vm_compute; reflexivity|].
  eapply (label_change_visible (table_dg []) vs_ex_ds vs_ex_ps (vs_ex_kvs_label "v") (vs_ex_kvs_label "w")
            _ _ (JObj [("app", JStr "v")]) (JObj [("app", JStr "w")]) []);
    try (vm_compute; reflexivity); try exact vs_ex_avoid; try discriminate.
Qed.

(* removing the ordinary annotation / the labels gives a different essence *)
Definition vs_ex_nonote : json :=
  JObj (set "metadata" (JObj (set "annotations" (JObj (del "note" vs_ex_anns)) vs_ex_md)) vs_ex_kvs).
Definition vs_ex_nolabels : json :=
  JObj (set "metadata" (JObj (set "labels" (JObj []) vs_ex_md)) vs_ex_kvs).

Example vs_ex_annotation_add :
  exists e e', essence (table_dg []) vs_ex_ds vs_ex_ps (JObj vs_ex_kvs) [] = Ok e /\
               essence (table_dg []) vs_ex_ds vs_ex_ps vs_ex_nonote [] = Ok e' /\
               e <> e'.
Proof.
  eexists. eexists. split; [vm_compute; reflexivity|]. split; [vm_compute; reflexivity|].
  eapply (annotation_add_visible (table_dg []) vs_ex_ds vs_ex_ps vs_ex_kvs vs_ex_nonote vs_ex_md vs_ex_anns "note" (JStr "x") []);
    try (vm_compute; reflexivity); try exact vs_ex_avoid; try exact vs_ex_ordinary.
Qed.

Example vs_ex_label_remove :
  exists e e', essence (table_dg []) vs_ex_ds vs_ex_ps (JObj vs_ex_kvs) [] = Ok e /\
               essence (table_dg []) vs_ex_ds vs_ex_ps vs_ex_nolabels [] = Ok e' /\
               e <> e'.
Proof.
  eexists. eexists. split; [vm_compute; reflexivity|]. split; [vm_compute; reflexivity|].
  eapply (label_remove_visible (table_dg []) vs_ex_ds vs_ex_ps vs_ex_kvs vs_ex_nolabels vs_ex_md (JObj [("app", JStr "v")]) []);
    try (vm_compute; reflexivity); try exact vs_ex_avoid.
  intros x Hx. vm_compute in Hx. inversion Hx. reflexivity.
Qed.

(* why ann_ordinary asks for non-empty prefixes of the annotation diff-base storages: with an empty
   prefix the storage's own key is a bare name, and an annotation of that name is (by design) hidden *)
Example vs_ex_empty_prefix_own_key :
  essence (table_dg []) (DAnn "" "note" false []) vs_ex_ps (JObj vs_ex_kvs) [] =
  Ok (JObj [("spec", JObj [("field", JNum 1)]); ("metadata", JObj [("labels", JObj [("app", JStr "v")])])]).
Proof. vm_compute. reflexivity. Qed.

(* a nested configuration: ignored fields, status storages, a second annotation prefix, an extra field *)
Definition vs_ex_ds2 : dstorage :=
  DMulti [DAnn "kopf.zalando.org" "last-handled-configuration" true [["spec"; "ignored"]];
          DMulti [DStatus ["status"; "kopf"; "last"] []; DAnn "kopf.dev" "last" false []]].
Definition vs_ex_ps2 : pstorage :=
  PMulti [PAnn "kopf.zalando.org" true false "touch-dummy";
          PMulti [PStatus ["status"; "kopf"; "progress"] ["status"; "kopf"; "dummy"] false; PAnn "kopf.dev" false true "t"]].

Example vs_ex2_ordinary : ann_ordinary "note" vs_ex_anns vs_ex_ds2 vs_ex_ps2.
Proof.
  split; [vm_compute; reflexivity|]. split; [discriminate|]. split.
  - intros p [<-|[<-|[]]]; (split; [discriminate | vm_compute; reflexivity]).
  - intros p [<-|[<-|[]]] _; vm_compute; reflexivity.
Qed.

Example vs_ex2_avoid : fields_avoid "metadata" vs_ex_ds2 vs_ex_ps2 [["status"; "x"]].
Proof. intros f Hin. simpl in Hin. repeat (destruct Hin as [<-|Hin]; [simpl; congruence|]). destruct Hin. Qed.

Example vs_ex2_essence_ok :
  essence (table_dg []) vs_ex_ds2 vs_ex_ps2 (JObj vs_ex_kvs) [["status"; "x"]] = Ok vs_ex_essence.
Proof. vm_compute. reflexivity. Qed.

Print Assumptions annotation_visible_gen.
Print Assumptions annotation_visible.
Print Assumptions labels_visible.
Print Assumptions label_visible.
Print Assumptions annotation_change_visible.
Print Assumptions annotation_add_visible.
Print Assumptions label_change_visible.
Print Assumptions labels_absent.
Print Assumptions label_remove_visible.
Print Assumptions vs_marked_incl.
Print Assumptions vs_ex_annotation_change.
Print Assumptions vs_ex_label_change.
