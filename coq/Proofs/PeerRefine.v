(* The network model decides with the SAME function as the JSON-level model: parsing the JSON form of an
   abstract status yields exactly the Peers the LTS feeds to decide_peers. *)
From Coq Require Import ZArith List String Bool Lia.
From KV Require Import Base.Json Model.Peering Model.PeerNet Proofs.Peering.
Import ListNotations.
Open Scope string_scope.
Open Scope Z_scope.
Open Scope list_scope.

Section Refine.
  Variables (oint odate : string -> option Z) (fmt : Z -> string).

  (* iso8601.parse_date reads back the lastseen strings of THESE records *)
  Definition parses_back (st : astatus) : Prop :=
    forall kv t, In kv st -> r_seen (snd kv) = Some t -> odate (fmt t) = Some t.

  Lemma mk_peer_enc : forall now id r, rec_in_range now r = true ->
    (forall t, r_seen r = Some t -> odate (fmt t) = Some t) ->
    mk_peer oint odate now id (enc_rec fmt r) = POk (apeer now (id, r)).
  Proof.
    intros now id r H parse_fmt. unfold rec_in_range in H. apply andb_prop in H as [H1 H2].
    unfold enc_rec, apeer, dl_at in *. destruct r as [p l [t|]]; simpl in *.
    - rewrite H1. simpl. rewrite (parse_fmt t eq_refl). simpl. rewrite H2. reflexivity.
    - rewrite H1. simpl. rewrite H2. reflexivity.
  Qed.

  Lemma mk_peers_enc : forall now st, forallb (fun kv => rec_in_range now (snd kv)) st = true -> parses_back st ->
    mk_peers oint odate now (map (fun kv => (fst kv, enc_rec fmt (snd kv))) st) = POk (map (apeer now) st).
  Proof.
    induction st as [|[id r] st IH]; cbn [mk_peers map fst snd forallb]; intros H PB; [reflexivity|].
    apply andb_prop in H as [H1 H2].
    rewrite (mk_peer_enc now id r H1 (fun t E => PB (id, r) t (or_introl eq_refl) E)). cbn [pbind].
    rewrite (IH H2 (fun kv t Hin E => PB kv t (or_intror Hin) E)). reflexivity.
  Qed.

  (* process_peering_event's decision on the JSON object = the LTS's decision on the abstract status *)
  Theorem process_enc : forall c tg now st, forallb (fun kv => rec_in_range now (snd kv)) st = true -> parses_back st ->
    process oint odate c tg (Some (c_name c)) (Some (enc_status fmt st)) now =
    match decide_peers c tg (map (apeer now) st) with POk o => POk (Some o) | PErr e => PErr e end.
  Proof.
    intros c tg now st H PB. unfold process, enc_status. rewrite String.eqb_refl. cbn [negb status_items pbind].
    rewrite (mk_peers_enc now st H PB). cbn [pbind]. destruct (decide_peers c tg (map (apeer now) st)); reflexivity.
  Qed.
End Refine.

(* non-vacuity: a two-record status (one without lastseen), its JSON form, and oracles that read it back *)
Definition ex_fmt (t : Z) : string := if t =? 5000 then "2030-01-01T00:00:05+00:00" else "?".
Definition ex_odate (s : string) : option Z := if String.eqb s "2030-01-01T00:00:05+00:00" then Some 5000 else None.
Definition ex_st : astatus := [("a", mkRec 0 60 (Some 5000)); ("frozen", mkRec 100 30 None)].

Lemma process_enc_example :
  forallb (fun kv => rec_in_range 10000 (snd kv)) ex_st = true /\ parses_back ex_odate ex_fmt ex_st /\
  exists o, process (fun _ => None) ex_odate (mkCfg "a" 0 60 "default" true) (Some false) (Some "default")
                    (Some (enc_status ex_fmt ex_st)) 10000 = POk (Some o) /\ o_toggle o = Some true.
Proof.
  split; [vm_compute; reflexivity|]. split.
  - intros kv t [<- | [<- | []]] E; simpl in E; [injection E as <-; reflexivity | discriminate].
  - eexists. split; vm_compute; reflexivity.
Qed.

(* What touch() writes is read back by any peer with the SAME lifetime and deadline (the round trip Peer of as_dict of p):
   the record written at [now] by an operator with lifetime > 0, in its JSON form, parses — at any later instant
   [now'] — to a Peer of that priority and lifetime whose deadline is now + lifetime (whole seconds, days included) *)
Theorem written_record_reads_back : forall oint odate fmt c now now' id,
  0 < c_life c -> odate (fmt now) = Some now ->
  rec_in_range now' (mkRec (c_prio c) (c_life c) (Some now)) = true ->
  exists r, touch_record c None now = Some (c_prio c, c_life c, now) /\ r = mkRec (c_prio c) (c_life c) (Some now) /\
    exists p, mk_peer oint odate now' id (enc_rec fmt r) = POk p /\
      p_prio p = JNum (c_prio c) /\ p_life p = c_life c /\ p_seen p = now /\
      p_deadline p = now + c_life c * 1000 /\ p_dead p = (now + c_life c * 1000 <=? now').
Proof.
  intros oint odate fmt c now now' id L PB R. eexists. split; [now apply touch_live|]. split; [reflexivity|].
  eexists. split.
  - apply mk_peer_enc; [exact R|]. intros t E. simpl in E. injection E as <-. exact PB.
  - unfold apeer. simpl. repeat split.
Qed.

Example written_record_day_long :
  rec_in_range 100000 (mkRec 7 90000 (Some 5000)) = true /\ ex_odate (ex_fmt 5000) = Some 5000 /\
  exists p, mk_peer (fun _ => None) ex_odate 100000 "x" (enc_rec ex_fmt (mkRec 7 90000 (Some 5000))) = POk p /\
            p_deadline p = 5000 + 90000 * 1000 /\ p_dead p = false.
Proof. split; [vm_compute; reflexivity|]. split; [reflexivity|]. eexists. split; [vm_compute; reflexivity|]. split; reflexivity. Qed.
