(* C04: kopf's diff is exact modulo deq (Python ==, null-valued key = absent key). *)
From Coq Require Import ZArith List String Bool Ascii Lia.
From KV Require Import Base.Json Base.Dicts Model.Diff.
Import ListNotations.
Open Scope string_scope.
Open Scope list_scope.

(* ---------- association-list facts ---------- *)
Lemma c04_lookup_in : forall (k : string) (v : json) l, lookup k l = Some v -> In (k, v) l.
Proof.
  induction l as [|[k' v'] l IH]; simpl; intros H; [discriminate|].
  destruct (String.eqb_spec k k').
  - inversion H; subst. left; reflexivity.
  - right; auto.
Qed.

Lemma c04_mem_lookup_none : forall (k : string) (l : list (string * json)),
  mem_str k (map fst l) = false -> lookup k l = None.
Proof.
  induction l as [|[k' v'] l IH]; simpl; intros H; [reflexivity|].
  apply orb_false_iff in H. destruct H as [H1 H2]. rewrite H1. auto.
Qed.

Lemma c04_in_lookup : forall (k : string) (v : json) l,
  nodup_keys (map fst l) = true -> In (k, v) l -> lookup k l = Some v.
Proof.
  induction l as [|[k' v'] l IH]; simpl; intros ND HI; [contradiction|].
  apply andb_true_iff in ND. destruct ND as [N1 N2].
  destruct HI as [HI|HI].
  - inversion HI; subst. rewrite String.eqb_refl. reflexivity.
  - destruct (String.eqb_spec k k').
    + subst. apply negb_true_iff in N1. apply c04_mem_lookup_none in N1.
      rewrite (IH N2 HI) in N1. discriminate.
    + auto.
Qed.

Lemma c04_has_true : forall (k : string) (l : list (string * json)),
  has k l = true <-> lookup k l <> None.
Proof.
  intros. unfold has. destruct (lookup k l); split; intros; congruence.
Qed.

Lemma c04_wf_obj : forall xs, wf (JObj xs) = true ->
  nodup_keys (map fst xs) = true /\ forall k v, In (k, v) xs -> wf v = true.
Proof.
  intros xs H. simpl in H. apply andb_true_iff in H. destruct H as [H1 H2].
  split; [exact H1|]. intros k v HI. rewrite forallb_forall in H2. apply (H2 (k, v) HI).
Qed.

Lemma c04_flat_map_nil : forall (A B : Type) (f : A -> list B) l,
  flat_map f l = [] <-> forall x, In x l -> f x = [].
Proof.
  induction l; simpl; split; intros; try contradiction; auto.
  - apply app_eq_nil in H. destruct H as [H1 H2]. destruct H0; subst; auto. apply IHl; auto.
  - rewrite (H a (or_introl eq_refl)). simpl. apply IHl. intros; apply H; auto.
Qed.

Lemma c04_app_nil : forall (A : Type) (l1 l2 : list A), l1 = [] -> l2 = [] -> l1 ++ l2 = [].
Proof. intros; subst; reflexivity. Qed.

(* ---------- unfolding of diff_iter on two mappings ---------- *)
Definition c04_part_add (xs ys : list (string * json)) (p : path) : list ditem :=
  flat_map (fun kv => if has (fst kv) xs then [] else diff_add (p ++ [fst kv]) (snd kv)) ys.
Definition c04_part_rem (xs ys : list (string * json)) (p : path) : list ditem :=
  flat_map (fun kv => if has (fst kv) ys then [] else diff_rem (p ++ [fst kv]) (snd kv)) xs.
Definition c04_part_sub (sc : dscope) (xs ys : list (string * json)) (p : path) : list ditem :=
  flat_map (fun kv => match lookup (fst kv) ys with
                      | Some w => diff_iter sc (snd kv) w (p ++ [fst kv])
                      | None => []
                      end) xs.

Lemma c04_diff_iter_obj : forall sc xs ys p,
  diff_iter sc (JObj xs) (JObj ys) p =
  if py_eqb (JObj xs) (JObj ys) then []
  else (if sc_right sc then c04_part_add xs ys p else [])
       ++ (if sc_left sc then c04_part_rem xs ys p else [])
       ++ c04_part_sub sc xs ys p.
Proof.
  intros. cbn [diff_iter]. destruct (py_eqb (JObj xs) (JObj ys)); [reflexivity|].
  f_equal. f_equal. unfold c04_part_sub.
  induction xs as [|[k v] xs IH]; [reflexivity|].
  cbn [flat_map fst snd]. rewrite <- IH. reflexivity.
Qed.

Definition c04_op (a b : json) : dop :=
  match a, b with JNull, _ => DAdd | _, JNull => DRemove | _, _ => DChange end.

Lemma c04_diff_iter_nonobj : forall sc a b p,
  is_obj a && is_obj b = false ->
  diff_iter sc a b p = if py_eqb a b then [] else [mk_ditem (c04_op a b) p a b].
Proof.
  intros sc a b p H.
  destruct a; cbn [diff_iter];
    match goal with |- context [py_eqb ?x ?y] => destruct (py_eqb x y) end;
    try reflexivity; destruct b; try reflexivity; discriminate.
Qed.

Lemma c04_diff_iter_py : forall sc a b p, py_eqb a b = true -> diff_iter sc a b p = [].
Proof.
  intros sc a b p H. destruct a; cbn [diff_iter]; rewrite H; reflexivity.
Qed.

Lemma c04_diff_add_nil : forall p v, diff_add p v = [] -> v = JNull.
Proof. intros p v; destruct v; simpl; intros; congruence. Qed.
Lemma c04_diff_rem_nil : forall p v, diff_rem p v = [] -> v = JNull.
Proof. intros p v; destruct v; simpl; intros; congruence. Qed.

Lemma c04_complete_gen : forall a b p, wf a = true -> wf b = true ->
  (diff_iter scope_full a b p = [] <-> deq a b).
Proof.
  induction a using json_ind'; intros b' p Wa Wb;
  try (rewrite c04_diff_iter_nonobj by reflexivity; split; intros HH;
       [ match type of HH with context [py_eqb ?x ?y] => destruct (py_eqb x y) eqn:E end;
         [apply deq_py; exact E | discriminate]
       | inversion HH; subst; match goal with E : py_eqb _ _ = true |- _ => rewrite E end; reflexivity ]).
  destruct b' as [| | | | |ys|];
  try (rewrite c04_diff_iter_nonobj by reflexivity; split; intros HH;
       [ match type of HH with context [py_eqb ?x ?y] => destruct (py_eqb x y) eqn:E end;
         [apply deq_py; exact E | discriminate]
       | inversion HH; subst; match goal with E : py_eqb _ _ = true |- _ => rewrite E end; reflexivity ]).
  rename kvs into xs.
  destruct (c04_wf_obj _ Wa) as [NDx Wx]. destruct (c04_wf_obj _ Wb) as [NDy Wy].
  rewrite c04_diff_iter_obj. cbn [scope_full sc_left sc_right].
  destruct (py_eqb (JObj xs) (JObj ys)) eqn:E.
  { split; intros; [apply deq_py; exact E | reflexivity]. }
  rewrite Forall_forall in H.
  split.
  - intros HH. apply app_eq_nil in HH. destruct HH as [H1 HH].
    apply app_eq_nil in HH. destruct HH as [H2 H3].
    unfold c04_part_add in H1. unfold c04_part_rem in H2. unfold c04_part_sub in H3.
    rewrite c04_flat_map_nil in H1, H2, H3.
    apply deq_obj. intros k.
    destruct (lookup k xs) as [v|] eqn:Lx; destruct (lookup k ys) as [w|] eqn:Ly.
    + apply deq_ss. pose proof (c04_lookup_in _ _ _ Lx) as Ix. pose proof (c04_lookup_in _ _ _ Ly) as Iy.
      specialize (H3 _ Ix). cbn [fst snd] in H3. rewrite Ly in H3.
      apply (H _ Ix w (p ++ [k])); eauto.
    + pose proof (c04_lookup_in _ _ _ Lx) as Ix. specialize (H2 _ Ix). cbn [fst snd] in H2.
      unfold has in H2. rewrite Ly in H2. apply c04_diff_rem_nil in H2. subst. apply deq_sn.
    + pose proof (c04_lookup_in _ _ _ Ly) as Iy. specialize (H1 _ Iy). cbn [fst snd] in H1.
      unfold has in H1. rewrite Lx in H1. apply c04_diff_add_nil in H1. subst. apply deq_ns.
    + apply deq_nn.
  - intros HH. inversion HH as [? ? E'|? ? HK]; subst; [congruence|].
    unfold c04_part_add, c04_part_rem, c04_part_sub.
    apply c04_app_nil; [|apply c04_app_nil]; apply c04_flat_map_nil; intros [k u] HI; cbn [fst snd].
    + pose proof (c04_in_lookup _ _ _ NDy HI) as Ly. specialize (HK k). rewrite Ly in HK.
      unfold has. destruct (lookup k xs); [reflexivity|]. inversion HK; subst. reflexivity.
    + pose proof (c04_in_lookup _ _ _ NDx HI) as Lx. specialize (HK k). rewrite Lx in HK.
      unfold has. destruct (lookup k ys); [reflexivity|]. inversion HK; subst. reflexivity.
    + pose proof (c04_in_lookup _ _ _ NDx HI) as Lx. specialize (HK k). rewrite Lx in HK.
      destruct (lookup k ys) as [w|] eqn:Ly; [|reflexivity]. inversion HK; subst.
      apply (H _ HI w (p ++ [k])); eauto using c04_lookup_in.
Qed.

Theorem diff_complete : forall a b, wf a = true -> wf b = true -> (diff a b = [] <-> deq a b).
Proof. intros. unfold diff. apply c04_complete_gen; assumption. Qed.
Print Assumptions diff_complete.

(* ---------- small facts ---------- *)
Lemma diff_strict_refuted : exists a b, diff a b = [] /\ jeqb a b = false.
Proof. exists (JObj [("x", JNull)]), (JObj []). vm_compute. split; reflexivity. Qed.

Lemma diff_bool_int_refuted :
  diff (JObj [("x", JNum 1)]) (JObj [("x", JBool true)]) = [] /\
  jeqb (JObj [("x", JNum 1)]) (JObj [("x", JBool true)]) = false.
Proof. vm_compute. split; reflexivity. Qed.

Lemma deq_null_absent : deq (JObj [("x", JNull)]) (JObj []).
Proof.
  apply deq_obj. intros k. simpl. destruct (String.eqb k "x"); constructor.
Qed.

Lemma deq_not_trivial : ~ deq (JObj [("x", JNum 1)]) (JObj [("x", JNum 2)]).
Proof.
  intros H. inversion H as [? ? E|? ? HK]; subst.
  - vm_compute in E. discriminate.
  - specialize (HK "x"). vm_compute in HK. inversion HK as [| | |? ? D]; subst.
    inversion D as [? ? E|]; subst. vm_compute in E. discriminate.
Qed.

(* ---------- reflexivity of jeqb / py_eqb / deq on well-formed values ---------- *)
Lemma c04_jeqb_obj : forall xs ys,
  jeqb (JObj xs) (JObj ys) =
  Nat.eqb (List.length xs) (List.length ys) &&
  forallb (fun kv => match lookup (fst kv) ys with Some w => jeqb (snd kv) w | None => false end) xs.
Proof.
  intros. cbn [jeqb]. f_equal.
  induction xs as [|[k v] xs IH]; [reflexivity|]. cbn [forallb fst snd]. rewrite <- IH. reflexivity.
Qed.

Lemma c04_py_eqb_obj : forall xs ys,
  py_eqb (JObj xs) (JObj ys) =
  Nat.eqb (List.length xs) (List.length ys) &&
  forallb (fun kv => match lookup (fst kv) ys with Some w => py_eqb (snd kv) w | None => false end) xs.
Proof.
  intros. cbn [py_eqb]. f_equal.
  induction xs as [|[k v] xs IH]; [reflexivity|]. cbn [forallb fst snd]. rewrite <- IH. reflexivity.
Qed.

Lemma c04_jeqb_refl : forall a, wf a = true -> jeqb a a = true.
Proof.
  induction a using json_ind'; intros W.
  - reflexivity.
  - simpl. apply Bool.eqb_reflx.
  - simpl. apply Z.eqb_refl.
  - simpl. apply String.eqb_refl.
  - cbn [jeqb]. cbn [wf] in W. induction l as [|x l IH]; [reflexivity|].
    inversion H; subst. cbn [forallb] in W. apply andb_true_iff in W. destruct W as [W1 W2].
    rewrite H2 by exact W1. rewrite IH by assumption. reflexivity.
  - rewrite c04_jeqb_obj. rewrite Nat.eqb_refl. cbn [andb].
    destruct (c04_wf_obj _ W) as [ND Wk]. rewrite Forall_forall in H.
    apply forallb_forall. intros [k v] HI. cbn [fst snd].
    rewrite (c04_in_lookup _ _ _ ND HI). apply (H _ HI). eauto.
  - cbn [jeqb]. apply IHa. exact W.
Qed.

Lemma c04_py_eqb_refl : forall a, wf a = true -> py_eqb a a = true.
Proof.
  induction a using json_ind'; intros W.
  - reflexivity.
  - simpl. apply Bool.eqb_reflx.
  - simpl. apply Z.eqb_refl.
  - simpl. apply String.eqb_refl.
  - cbn [py_eqb]. cbn [wf] in W. induction l as [|x l IH]; [reflexivity|].
    inversion H; subst. cbn [forallb] in W. apply andb_true_iff in W. destruct W as [W1 W2].
    rewrite H2 by exact W1. rewrite IH by assumption. reflexivity.
  - rewrite c04_py_eqb_obj. rewrite Nat.eqb_refl. cbn [andb].
    destruct (c04_wf_obj _ W) as [ND Wk]. rewrite Forall_forall in H.
    apply forallb_forall. intros [k v] HI. cbn [fst snd].
    rewrite (c04_in_lookup _ _ _ ND HI). apply (H _ HI). eauto.
  - cbn [py_eqb]. apply c04_jeqb_refl. exact W.
Qed.

Lemma c04_deq_refl : forall a, wf a = true -> deq a a.
Proof. intros. apply deq_py. apply c04_py_eqb_refl. assumption. Qed.

(* ---------- the path argument is only a prefix of every field ---------- *)
Definition c04_shift (p : path) (it : ditem) : ditem :=
  mk_ditem (d_op it) (p ++ d_field it) (d_old it) (d_new it).

Lemma c04_map_flat_map : forall (A B C : Type) (f : B -> C) (g : A -> list B) l,
  map f (flat_map g l) = flat_map (fun x => map f (g x)) l.
Proof. induction l; simpl; [reflexivity|]. rewrite map_app, IHl. reflexivity. Qed.

Lemma c04_flat_map_ext_in : forall (A B : Type) (f g : A -> list B) l,
  (forall x, In x l -> f x = g x) -> flat_map f l = flat_map g l.
Proof.
  induction l; simpl; intros; [reflexivity|]. rewrite H by auto. rewrite IHl by auto. reflexivity.
Qed.

Lemma c04_shift_add : forall p q v, diff_add (p ++ q) v = map (c04_shift p) (diff_add q v).
Proof. intros. destruct v; reflexivity. Qed.
Lemma c04_shift_rem : forall p q v, diff_rem (p ++ q) v = map (c04_shift p) (diff_rem q v).
Proof. intros. destruct v; reflexivity. Qed.

Lemma c04_shift_shift : forall p q it, c04_shift p (c04_shift q it) = c04_shift (p ++ q) it.
Proof. intros. unfold c04_shift. simpl. rewrite app_assoc. reflexivity. Qed.

Lemma c04_diff_iter_shift : forall sc a b p,
  diff_iter sc a b p = map (c04_shift p) (diff_iter sc a b []).
Proof.
  intros sc. induction a using json_ind'; intros b' p;
  try (rewrite !(c04_diff_iter_nonobj sc _ b') by reflexivity;
       match goal with |- context [py_eqb ?x ?y] => destruct (py_eqb x y) end;
       [reflexivity | unfold c04_shift; simpl; rewrite app_nil_r; reflexivity]).
  destruct b' as [| | | | |ys|];
  try (rewrite !(c04_diff_iter_nonobj sc (JObj kvs)) by reflexivity;
       match goal with |- context [py_eqb ?x ?y] => destruct (py_eqb x y) end;
       [reflexivity | unfold c04_shift; simpl; rewrite app_nil_r; reflexivity]).
  rename kvs into xs. rewrite !c04_diff_iter_obj.
  destruct (py_eqb (JObj xs) (JObj ys)); [reflexivity|].
  rewrite !map_app. rewrite Forall_forall in H.
  f_equal; [|f_equal].
  - destruct (sc_right sc); [|reflexivity]. unfold c04_part_add.
    rewrite c04_map_flat_map. apply flat_map_ext. intros [k v]. cbn [fst snd].
    destruct (has k xs); [reflexivity|]. apply c04_shift_add.
  - destruct (sc_left sc); [|reflexivity]. unfold c04_part_rem.
    rewrite c04_map_flat_map. apply flat_map_ext. intros [k v]. cbn [fst snd].
    destruct (has k ys); [reflexivity|]. apply c04_shift_rem.
  - unfold c04_part_sub. rewrite c04_map_flat_map. apply c04_flat_map_ext_in.
    intros [k v] HI. cbn [fst snd]. destruct (lookup k ys) as [w|]; [|reflexivity].
    pose proof (H _ HI) as Hv. cbn [snd] in Hv.
    rewrite (Hv w (p ++ [k])). rewrite (Hv w ([] ++ [k])).
    rewrite map_map. apply map_ext. intros it. rewrite c04_shift_shift. reflexivity.
Qed.

(* ---------- applying items with non-empty fields to a mapping, key by key ---------- *)
Lemma c04_lookup_set_same : forall (k : string) (v : json) l, lookup k (set k v l) = Some v.
Proof.
  induction l as [|[k' v'] l IH]; simpl.
  - rewrite String.eqb_refl. reflexivity.
  - destruct (String.eqb_spec k k'); simpl.
    + rewrite String.eqb_refl. reflexivity.
    + destruct (String.eqb_spec k k'); [contradiction|]. exact IH.
Qed.

Lemma c04_lookup_set_other : forall (k h : string) (v : json) l,
  k <> h -> lookup k (set h v l) = lookup k l.
Proof.
  intros k h v l N. induction l as [|[k' v'] l IH]; simpl.
  - destruct (String.eqb_spec k h); [contradiction|reflexivity].
  - destruct (String.eqb_spec h k'); simpl.
    + subst. destruct (String.eqb_spec k k'); [contradiction|reflexivity].
    + destruct (String.eqb_spec k k'); [reflexivity|exact IH].
Qed.

Definition c04_ornull (o : option json) : json := match o with Some s => s | None => JNull end.

(* the items whose field starts with k, with that head removed *)
Definition c04_sub1 (k : string) (it : ditem) : list ditem :=
  match d_field it with
  | h :: t => if String.eqb h k then [mk_ditem (d_op it) t (d_old it) (d_new it)] else []
  | [] => []
  end.
Definition c04_sub (k : string) (items : list ditem) : list ditem := flat_map (c04_sub1 k) items.

Lemma c04_sub_cons : forall k op h t old new rest,
  c04_sub k (mk_ditem op (h :: t) old new :: rest) =
  (if String.eqb h k then [mk_ditem op t old new] else []) ++ c04_sub k rest.
Proof. reflexivity. Qed.

Lemma c04_apply_obj : forall items xs,
  (forall it, In it items -> d_field it <> []) ->
  exists xs', apply_diff items (JObj xs) = JObj xs' /\
    forall k, lookup k xs' =
      match c04_sub k items with
      | [] => lookup k xs
      | i :: its => Some (apply_diff (i :: its) (c04_ornull (lookup k xs)))
      end.
Proof.
  induction items as [|it rest IH]; intros xs NE.
  - exists xs. split; [reflexivity|]. intros; reflexivity.
  - destruct it as [op f old new]. destruct f as [|h t].
    { exfalso. apply (NE _ (or_introl eq_refl)). reflexivity. }
    destruct (IH (set h (put t new (c04_ornull (lookup h xs))) xs)) as [xs' [Ex Hk]].
    { intros; apply NE; right; assumption. }
    exists xs'. split.
    + rewrite <- Ex. reflexivity.
    + intros k. rewrite Hk. rewrite c04_sub_cons.
      destruct (String.eqb_spec h k).
      * subst. rewrite c04_lookup_set_same.
        destruct (c04_sub k rest); reflexivity.
      * rewrite c04_lookup_set_other by congruence. reflexivity.
Qed.

Lemma c04_sub_app : forall k l1 l2, c04_sub k (l1 ++ l2) = c04_sub k l1 ++ c04_sub k l2.
Proof. intros. unfold c04_sub. induction l1; simpl; [reflexivity|]. rewrite IHl1, app_assoc. reflexivity. Qed.

Lemma c04_sub_flat_map : forall (A : Type) k (g : A -> list ditem) l,
  c04_sub k (flat_map g l) = flat_map (fun x => c04_sub k (g x)) l.
Proof. induction l; simpl; [reflexivity|]. rewrite c04_sub_app, IHl. reflexivity. Qed.

Lemma c04_sub_shift_same : forall k l, c04_sub k (map (c04_shift [k]) l) = l.
Proof.
  induction l as [|it l IH]; [reflexivity|]. unfold c04_sub in *. cbn [map flat_map]. rewrite IH.
  unfold c04_sub1, c04_shift. cbn. rewrite String.eqb_refl. destruct it; reflexivity.
Qed.

Lemma c04_sub_shift_other : forall k h l, h <> k -> c04_sub k (map (c04_shift [h]) l) = [].
Proof.
  intros k h l N. induction l as [|it l IH]; [reflexivity|]. unfold c04_sub in *. cbn [map flat_map]. rewrite IH.
  unfold c04_sub1, c04_shift. cbn. destruct (String.eqb_spec h k); [contradiction|reflexivity].
Qed.

Lemma c04_flat_map_key : forall (B : Type) (g : string * json -> list B) k l,
  nodup_keys (map fst l) = true ->
  (forall kv, fst kv <> k -> g kv = []) ->
  flat_map g l = match lookup k l with Some v => g (k, v) | None => [] end.
Proof.
  intros B g k l ND G. induction l as [|[k' v'] l IH]; [reflexivity|].
  cbn [map fst nodup_keys] in ND. apply andb_true_iff in ND. destruct ND as [N1 N2].
  cbn [flat_map lookup]. rewrite (IH N2).
  destruct (String.eqb_spec k k').
  - subst. apply negb_true_iff in N1. rewrite (c04_mem_lookup_none _ _ N1). apply app_nil_r.
  - rewrite (G (k', v')) by (cbn; congruence). reflexivity.
Qed.

Lemma c04_sub_add : forall k h w, c04_sub k (diff_add [h] w) = if String.eqb h k then diff_add [] w else [].
Proof. intros. destruct w; cbn; destruct (String.eqb h k); reflexivity. Qed.
Lemma c04_sub_rem : forall k h w, c04_sub k (diff_rem [h] w) = if String.eqb h k then diff_rem [] w else [].
Proof. intros. destruct w; cbn; destruct (String.eqb h k); reflexivity. Qed.

Lemma c04_sub_part_add : forall k xs ys, nodup_keys (map fst ys) = true ->
  c04_sub k (c04_part_add xs ys []) =
  match lookup k ys with Some w => if has k xs then [] else diff_add [] w | None => [] end.
Proof.
  intros k xs ys ND. unfold c04_part_add. rewrite c04_sub_flat_map.
  rewrite (c04_flat_map_key _ _ k ys ND).
  - destruct (lookup k ys); [|reflexivity]. cbn [fst snd]. destruct (has k xs); [reflexivity|].
    cbn [app]. rewrite c04_sub_add, String.eqb_refl. reflexivity.
  - intros [h v] N. cbn [fst snd] in *. destruct (has h xs); [reflexivity|].
    cbn [app]. rewrite c04_sub_add. destruct (String.eqb_spec h k); [contradiction|reflexivity].
Qed.

Lemma c04_sub_part_rem : forall k xs ys, nodup_keys (map fst xs) = true ->
  c04_sub k (c04_part_rem xs ys []) =
  match lookup k xs with Some v => if has k ys then [] else diff_rem [] v | None => [] end.
Proof.
  intros k xs ys ND. unfold c04_part_rem. rewrite c04_sub_flat_map.
  rewrite (c04_flat_map_key _ _ k xs ND).
  - destruct (lookup k xs); [|reflexivity]. cbn [fst snd]. destruct (has k ys); [reflexivity|].
    cbn [app]. rewrite c04_sub_rem, String.eqb_refl. reflexivity.
  - intros [h v] N. cbn [fst snd] in *. destruct (has h ys); [reflexivity|].
    cbn [app]. rewrite c04_sub_rem. destruct (String.eqb_spec h k); [contradiction|reflexivity].
Qed.

Lemma c04_sub_part_sub : forall sc k xs ys, nodup_keys (map fst xs) = true ->
  c04_sub k (c04_part_sub sc xs ys []) =
  match lookup k xs with
  | Some v => match lookup k ys with Some w => diff_iter sc v w [] | None => [] end
  | None => []
  end.
Proof.
  intros sc k xs ys ND. unfold c04_part_sub. rewrite c04_sub_flat_map.
  rewrite (c04_flat_map_key _ _ k xs ND).
  - destruct (lookup k xs); [|reflexivity]. cbn [fst snd]. destruct (lookup k ys); [|reflexivity].
    cbn [app]. rewrite c04_diff_iter_shift. apply c04_sub_shift_same.
  - intros [h v] N. cbn [fst snd] in *. destruct (lookup h ys); [|reflexivity].
    cbn [app]. rewrite c04_diff_iter_shift. apply c04_sub_shift_other. exact N.
Qed.

Lemma c04_fields_nonempty : forall sc xs ys it,
  In it (c04_part_add xs ys [] ++ c04_part_rem xs ys [] ++ c04_part_sub sc xs ys []) ->
  d_field it <> [].
Proof.
  intros sc xs ys it H.
  apply in_app_or in H. destruct H as [H|H]; [|apply in_app_or in H; destruct H as [H|H]];
    apply in_flat_map in H; destruct H as [[k v] [HI H]]; cbn [fst snd app] in H.
  - destruct (has k xs); [contradiction|].
    destruct v; simpl in H; try contradiction; destruct H as [H|[]]; subst; simpl; discriminate.
  - destruct (has k ys); [contradiction|].
    destruct v; simpl in H; try contradiction; destruct H as [H|[]]; subst; simpl; discriminate.
  - destruct (lookup k ys); [|contradiction]. rewrite c04_diff_iter_shift in H.
    apply in_map_iff in H. destruct H as [it0 [E _]]. subst. unfold c04_shift; simpl. discriminate.
Qed.

(* ---------- soundness: applying the diff to a gives b, modulo deq ---------- *)
Lemma c04_sound_gen : forall a b, wf a = true -> wf b = true ->
  deq (apply_diff (diff_iter scope_full a b []) a) b.
Proof.
  induction a using json_ind'; intros b' Wa Wb;
  try (rewrite c04_diff_iter_nonobj by reflexivity;
       match goal with |- context [py_eqb ?x ?y] => destruct (py_eqb x y) eqn:E end;
       [apply deq_py; exact E | apply c04_deq_refl; exact Wb]).
  destruct b' as [| | | | |ys|];
  try (rewrite c04_diff_iter_nonobj by reflexivity;
       match goal with |- context [py_eqb ?x ?y] => destruct (py_eqb x y) eqn:E end;
       [apply deq_py; exact E | apply c04_deq_refl; exact Wb]).
  rename kvs into xs.
  destruct (c04_wf_obj _ Wa) as [NDx Wx]. destruct (c04_wf_obj _ Wb) as [NDy Wy].
  rewrite c04_diff_iter_obj. cbn [scope_full sc_left sc_right].
  destruct (py_eqb (JObj xs) (JObj ys)) eqn:E; [apply deq_py; exact E|].
  rewrite Forall_forall in H.
  destruct (c04_apply_obj _ xs (c04_fields_nonempty scope_full xs ys)) as [xs' [Ex Hk]].
  change (mk_scope true true) with scope_full. rewrite Ex.
  apply deq_obj. intros k. rewrite Hk. rewrite !c04_sub_app.
  rewrite c04_sub_part_add by exact NDy. rewrite c04_sub_part_rem by exact NDx.
  rewrite c04_sub_part_sub by exact NDx.
  unfold has.
  destruct (lookup k xs) as [v|] eqn:Lx; destruct (lookup k ys) as [w|] eqn:Ly; cbn [app c04_ornull].
  - pose proof (c04_lookup_in _ _ _ Lx) as Ix. pose proof (c04_lookup_in _ _ _ Ly) as Iy.
    pose proof (H _ Ix w (Wx _ _ Ix) (Wy _ _ Iy)) as IHv. cbn [snd] in IHv.
    destruct (diff_iter scope_full v w []); apply deq_ss; exact IHv.
  - destruct v; cbn; constructor.
  - pose proof (c04_lookup_in _ _ _ Ly) as Iy. pose proof (c04_deq_refl _ (Wy _ _ Iy)) as R.
    destruct w; cbn; try apply deq_ns; apply deq_ss; exact R.
  - apply deq_nn.
Qed.

Theorem diff_sound : forall a b, wf a = true -> wf b = true -> deq (apply_diff (diff a b) a) b.
Proof. intros. unfold diff. apply c04_sound_gen; assumption. Qed.
Print Assumptions diff_sound.

(* wf (unique keys) is really needed for the <- direction of diff_complete *)
Lemma diff_complete_needs_wf :
  deq (JObj [("x", JNum 1); ("x", JNum 2)]) (JObj [("x", JNum 1)]) /\
  diff (JObj [("x", JNum 1); ("x", JNum 2)]) (JObj [("x", JNum 1)]) <> [].
Proof.
  split.
  - apply deq_obj. intros k. simpl. destruct (String.eqb k "x"); constructor.
    apply deq_py. reflexivity.
  - vm_compute. discriminate.
Qed.
