(* C11 — lemmas about Model/Outcome.v (classification, HandlerState algebra) and Model/Attempts.v
   (generic driver invariant, the four instantiations, the timer refutation, the persisted driver). *)
From Coq Require Import ZArith List Bool Lia.
From KV Require Import Model.Outcome Model.Attempts.
Import ListNotations.
Open Scope Z_scope.

(* ------------------------------------------------------------------ small facts *)

Lemma reaches_true : forall x l, reaches x l = true <-> exists L, l = Some L /\ L <= x.
Proof.
  intros x [L|]; simpl; split.
  - intro H; exists L; split; [reflexivity | apply Z.leb_le; exact H].
  - intros [L' [E H]]; injection E as <-; apply Z.leb_le; exact H.
  - discriminate.
  - intros [L' [E _]]; discriminate.
Qed.

Lemma reaches_false : forall x l, reaches x l = false <-> forall L, l = Some L -> x < L.
Proof.
  intros x [L|]; simpl; split.
  - intros H L' E; injection E as <-; apply Z.leb_gt; exact H.
  - intro H; apply Z.leb_gt; apply H; reflexivity.
  - intros _ L' E; discriminate.
  - reflexivity.
Qed.

Lemma strict_none : forall c n rt,
  strict c n rt = None <-> (forall T, c_timeout c = Some T -> rt < T) /\ (forall N, c_retries c = Some N -> n < N).
Proof.
  intros c n rt; unfold strict.
  destruct (reaches rt (c_timeout c)) eqn:E1; [| destruct (reaches n (c_retries c)) eqn:E2].
  - split; [discriminate |].
    intros [H _]. apply reaches_true in E1. destruct E1 as [L [E HL]]. specialize (H L E). lia.
  - split; [discriminate |].
    intros [_ H]. apply reaches_true in E2. destruct E2 as [L [E HL]]. specialize (H L E). lia.
  - split; [intros _ | reflexivity].
    split; [apply reaches_false; exact E1 | apply reaches_false; exact E2].
Qed.

Lemma strict_some_fails : forall c n rt x, strict c n rt = Some x -> x = XTimeout \/ x = XRetries.
Proof.
  intros c n rt x; unfold strict.
  destruct (reaches rt (c_timeout c)); [intro H; injection H as <-; left; reflexivity |].
  destruct (reaches n (c_retries c)); [intro H; injection H as <-; right; reflexivity | discriminate].
Qed.

Lemma exec_entered : forall e c n rc rx r, snd (exec e c n rc rx r) = true <-> strict c n rc = None.
Proof.
  intros; unfold exec; destruct (strict c n rc); simpl; split; congruence.
Qed.

Lemma exec_when_entered : forall e c n rc rx r, strict c n rc = None -> exec e c n rc rx r = (classify e c n rx r, true).
Proof. intros; unfold exec; rewrite H; reflexivity. Qed.

Lemma exec_not_entered_final_failure : forall e c n rc rx r,
  snd (exec e c n rc rx r) = false ->
  o_final (fst (exec e c n rc rx r)) = true /\ is_none (o_exn (fst (exec e c n rc rx r))) = false.
Proof.
  intros e c n rc rx r; unfold exec.
  destruct (strict c n rc) as [x|] eqn:E; simpl; [| discriminate].
  intros _. destruct (strict_some_fails _ _ _ _ E) as [-> | ->]; split; reflexivity.
Qed.

(* ------------------------------------------------------------------ the decision table *)

(* a permanent error ends it without retry, as failed *)
Lemma perm_final : forall e c n rc rx r,
  (r = RPerm \/ r = RTimeoutE \/ r = RRetriesE) -> strict c n rc = None ->
  snd (exec e c n rc rx r) = true /\
  o_final (fst (exec e c n rc rx r)) = true /\ o_delay (fst (exec e c n rc rx r)) = None /\
  is_none (o_exn (fst (exec e c n rc rx r))) = false.
Proof.
  intros e c n rc rx r Hr Hs. rewrite (exec_when_entered _ _ _ _ _ _ Hs).
  destruct Hr as [-> | [-> | ->]]; simpl; repeat split; reflexivity.
Qed.

Lemma arbitrary_by_mode : forall e c n rc rx, strict c n rc = None ->
  let o := fst (exec e c n rc rx RArb) in
  snd (exec e c n rc rx RArb) = true /\
  (eff_mode e c = MIgnored -> o = final_with XNone) /\
  (eff_mode e c = MPermanent -> o = final_with XArb) /\
  (eff_mode e c = MTemporary ->
     (reaches (rx + eff_backoff e c) (c_timeout c) = true -> o = final_with XTimeout) /\
     (reaches (rx + eff_backoff e c) (c_timeout c) = false -> reaches (n + 1) (c_retries c) = true -> o = final_with XRetries) /\
     (reaches (rx + eff_backoff e c) (c_timeout c) = false -> reaches (n + 1) (c_retries c) = false ->
        o = mkOut false (Some (eff_backoff e c)) XArb)).
Proof.
  intros e c n rc rx Hs. rewrite (exec_when_entered _ _ _ _ _ _ Hs). cbv zeta. simpl fst; simpl snd.
  unfold classify. split; [reflexivity |].
  split; [intros ->; reflexivity |]. split; [intros ->; reflexivity |].
  intros ->. repeat split.
  - intros ->; reflexivity.
  - intros -> ->; reflexivity.
  - intros -> ->; reflexivity.
Qed.

Lemma temp_retried : forall e c n rc rx d, strict c n rc = None ->
  reaches (rx + or0 d) (c_timeout c) = false -> reaches (n + 1) (c_retries c) = false ->
  exec e c n rc rx (RTemp d) = (mkOut false d XTemp, true).
Proof.
  intros e c n rc rx d Hs H1 H2. rewrite (exec_when_entered _ _ _ _ _ _ Hs).
  unfold classify. rewrite H1, H2. reflexivity.
Qed.

Lemma temp_limits : forall e c n rc rx d, strict c n rc = None ->
  (reaches (rx + or0 d) (c_timeout c) = true -> fst (exec e c n rc rx (RTemp d)) = final_with XTimeout) /\
  (reaches (rx + or0 d) (c_timeout c) = false -> reaches (n + 1) (c_retries c) = true ->
     fst (exec e c n rc rx (RTemp d)) = final_with XRetries).
Proof.
  intros e c n rc rx d Hs. rewrite (exec_when_entered _ _ _ _ _ _ Hs). unfold classify. simpl fst.
  split; [intros ->; reflexivity | intros -> ->; reflexivity].
Qed.

(* a non-final classification carries exactly the requested delay *)
Lemma classify_requested : forall e c n rx r,
  o_final (classify e c n rx r) = false -> or0 (o_delay (classify e c n rx r)) = requested e c r.
Proof.
  intros e c n rx r; unfold classify, requested.
  destruct r as [|d|d| | | |]; simpl; try discriminate.
  - reflexivity.
  - destruct (reaches (rx + or0 d) (c_timeout c)); [discriminate |].
    destruct (reaches (n + 1) (c_retries c)); [discriminate | reflexivity].
  - destruct (eff_mode e c); simpl; try discriminate.
    destruct (reaches (rx + eff_backoff e c) (c_timeout c)); [discriminate |].
    destruct (reaches (n + 1) (c_retries c)); [discriminate | reflexivity].
Qed.

(* ------------------------------------------------------------------ HandlerState algebra *)

Lemma finished_with_outcome : forall now s o, finished (with_outcome now s o) = o_final o.
Proof.
  intros; unfold finished, with_outcome; simpl.
  destruct (o_final o); simpl; [destruct (is_none (o_exn o)); reflexivity | reflexivity].
Qed.

Lemma failure_with_outcome : forall now s o,
  s_failure (with_outcome now s o) = o_final o && negb (is_none (o_exn o)).
Proof. reflexivity. Qed.

Lemma success_with_outcome : forall now s o,
  s_success (with_outcome now s o) = o_final o && is_none (o_exn o).
Proof. reflexivity. Qed.

Lemma awakened_unfinished : forall t s, awakened t s = true -> finished s = false.
Proof. intros t s; unfold awakened; destruct (finished s); simpl; congruence. Qed.

Lemma finished_not_awakened : forall t s, finished s = true -> awakened t s = false.
Proof. intros t s H; unfold awakened; rewrite H; reflexivity. Qed.

(* sleeping = not finished and now < delayed: the handler is not awakened before its delayed timestamp *)
Lemma awakened_spec : forall t s,
  awakened t s = true <-> finished s = false /\ (forall d, s_delayed s = Some d -> d <= t).
Proof.
  intros t s; unfold awakened, sleeping.
  destruct (finished s); simpl.
  - split; [discriminate | intros [H _]; discriminate].
  - destruct (s_delayed s) as [d|].
    + destruct (t <? d) eqn:E; simpl.
      * split; [discriminate |]. intros [_ H]. specialize (H d eq_refl). apply Z.ltb_lt in E. lia.
      * split; [| reflexivity]. intros _. split; [reflexivity |].
        intros d' Hd; injection Hd as <-. apply Z.ltb_ge in E. exact E.
    + split; [| reflexivity]. intros _; split; [reflexivity | intros d Hd; discriminate].
Qed.

Lemma awakened_after_outcome : forall e c n rx r te s t,
  o_final (classify e c n rx r) = false -> te <= t ->
  awakened t (with_outcome te s (classify e c n rx r)) = true -> te + requested e c r <= t.
Proof.
  intros e c n rx r te s t Hnf Hle Haw.
  pose proof (classify_requested e c n rx r Hnf) as Hreq.
  apply awakened_spec in Haw. destruct Haw as [_ Hd].
  unfold with_outcome in Hd; simpl in Hd.
  destruct (o_delay (classify e c n rx r)) as [d|]; simpl in Hreq.
  - specialize (Hd (te + d) eq_refl). lia.
  - lia.
Qed.

(* re-purposing changes nothing but the purpose *)
Lemma with_purpose_id : forall s, with_purpose s = s.
Proof. intros [a st sp dl rt su fa]; reflexivity. Qed.

Lemma as_active_id : forall s, s_active s = true -> as_active s = s.
Proof. intros [a st sp dl rt su fa]; simpl; intros ->; reflexivity. Qed.

(* what is read back from a stored record continues the count, the started time and the delay *)
Lemma storage_roundtrip : forall now s,
  from_storage now (for_storage s) =
  mkHS false (s_started s) (s_stopped s) (s_delayed s) (s_retries s) (s_success s) (s_failure s).
Proof. intros now [a st sp dl rt su fa]; reflexivity. Qed.

Lemma state_for_roundtrip : forall now s, s_active s = true -> state_for now (Some (for_storage s)) = s.
Proof. intros now [a st sp dl rt su fa]; simpl; intros ->; reflexivity. Qed.

Lemma st_done_single : forall s, s_active s = true -> st_done [s] = finished s.
Proof. intros s H; unfold st_done; simpl; rewrite H; simpl; apply andb_true_r. Qed.

(* ------------------------------------------------------------------ the generic driver: invariant *)

(* what the property asks of the attempts of ONE state lifetime (log newest first) *)
Definition lifetime_ok (e : env) (c : hcfg) (log : list entry) : Prop :=
  (forall N, c_retries c = Some N -> Z.of_nat (List.length log) <= Z.max 0 N) /\
  (forall T, c_timeout c = Some T -> forall a b, In a log -> In b log -> en_time b - en_time a < T) /\
  spaced e c log /\
  counted log /\
  (forall a, In a log -> en_time a <= en_end a).

Record Inv (e : env) (c : hcfg) (s : dstate) : Prop := mkInv {
  i_active  : s_active (d_hs s) = true;
  i_started : s_started (d_hs s) <= d_clock s;
  i_count   : Z.of_nat (List.length (d_log s)) <= s_retries (d_hs s);
  i_live    : finished (d_hs s) = false -> s_retries (d_hs s) = Z.of_nat (List.length (d_log s));
  i_counted : counted (d_log s);
  i_N       : forall N, c_retries c = Some N -> Z.of_nat (List.length (d_log s)) <= Z.max 0 N;
  i_T       : forall T, c_timeout c = Some T -> forall a, In a (d_log s) -> en_time a - s_started (d_hs s) < T;
  i_ge      : forall a, In a (d_log s) ->
                s_started (d_hs s) <= en_time a /\ en_time a <= en_end a /\ en_end a <= d_clock s;
  i_spaced  : spaced e c (d_log s);
  i_next    : match d_log s with
              | e1 :: _ => forall t, d_clock s <= t -> awakened t (d_hs s) = true ->
                                     en_end e1 + requested e c (en_raised e1) <= t
              | [] => True
              end;
  i_past    : Forall (lifetime_ok e c) (d_past s) }.

Lemma inv_lifetime : forall e c s, Inv e c s -> lifetime_ok e c (d_log s).
Proof.
  intros e c s H. destruct H. unfold lifetime_ok. repeat split; auto.
  - intros T HT a b Ha Hb. specialize (i_T0 T HT b Hb). destruct (i_ge0 a Ha) as [H1 _]. lia.
  - intros a Ha. destruct (i_ge0 a Ha) as [_ [H _]]. exact H.
Qed.

Lemma inv_scratch : forall e c t past, Forall (lifetime_ok e c) past -> Inv e c (mkD (from_scratch t) t [] past).
Proof.
  intros e c t past Hp. constructor; simpl; auto; try lia; try (intros; lia); try (intros; contradiction).
Qed.

Lemma inv_init : forall e c t0, Inv e c (init t0).
Proof. intros; apply inv_scratch; constructor. Qed.

Lemma step_inv : forall e c s l s', Inv e c s -> step e c s l = Some s' -> Inv e c s'.
Proof.
  intros e c s l s' HI Hs. destruct l as [ta tc tx te r | t].
  - (* Tick *)
    unfold step in Hs.
    destruct ((d_clock s <=? ta) && (ta <=? tc) && (tc <=? tx) && (tx <=? te)) eqn:G; [| discriminate].
    apply andb_prop in G; destruct G as [G G4]. apply andb_prop in G; destruct G as [G G3].
    apply andb_prop in G; destruct G as [G1 G2].
    apply Z.leb_le in G1, G2, G3, G4.
    destruct HI.
    destruct (awakened ta (d_hs s)) eqn:Haw.
    + (* the handler is awakened: execute_handler_once runs *)
      pose proof (awakened_unfinished _ _ Haw) as Hunf.
      pose proof (i_live0 Hunf) as Hlen.
      destruct (snd (exec e c (s_retries (d_hs s)) (runtime tc (d_hs s)) (runtime tx (d_hs s)) r)) eqn:Hcalled.
      * (* entered *)
        pose proof Hcalled as Hstrict. apply exec_entered in Hstrict.
        rewrite (exec_when_entered _ _ _ _ _ _ Hstrict) in Hs. simpl in Hs.
        injection Hs as <-.
        apply strict_none in Hstrict. destruct Hstrict as [HT HN].
        constructor; simpl.
        -- exact i_active0.
        -- lia.
        -- rewrite Zpos_P_of_succ_nat. lia.
        -- intros _. rewrite Zpos_P_of_succ_nat. lia.
        -- split; [exact Hlen | exact i_counted0].
        -- intros N HNc. specialize (HN N HNc). rewrite Zpos_P_of_succ_nat. lia.
        -- intros T HTc a [<- | Ha]; simpl.
           ++ specialize (HT T HTc). unfold runtime in HT. exact HT.
           ++ apply (i_T0 T HTc a Ha).
        -- intros a [<- | Ha]; simpl.
           ++ lia.
           ++ destruct (i_ge0 a Ha) as [H1 [H2 H3]]. lia.
        -- destruct (d_log s) as [|e1 rest] eqn:El; [exact I |].
           split; [| exact i_spaced0].
           specialize (i_next0 ta G1 Haw). simpl. lia.
        -- intros t Ht Hawt.
           destruct (o_final (classify e c (s_retries (d_hs s)) (runtime tx (d_hs s)) r)) eqn:Hfin.
           ++ rewrite finished_not_awakened in Hawt; [discriminate |].
              rewrite finished_with_outcome. exact Hfin.
           ++ eapply awakened_after_outcome; eauto.
        -- exact i_past0.
      * (* a strict check failed: not entered, recorded as failed for good *)
        destruct (exec_not_entered_final_failure _ _ _ _ _ _ Hcalled) as [Hf Hx].
        injection Hs as <-.
        assert (Hfin : finished (with_outcome te (d_hs s)
                         (fst (exec e c (s_retries (d_hs s)) (runtime tc (d_hs s)) (runtime tx (d_hs s)) r))) = true)
          by (rewrite finished_with_outcome; exact Hf).
        constructor; simpl.
        -- exact i_active0.
        -- lia.
        -- lia.
        -- intros Hcontra. rewrite Hfin in Hcontra. discriminate.
        -- exact i_counted0.
        -- exact i_N0.
        -- exact i_T0.
        -- intros a Ha. destruct (i_ge0 a Ha) as [H1 [H2 H3]]. lia.
        -- exact i_spaced0.
        -- destruct (d_log s); [exact I |]. intros t _ Hawt.
           rewrite (finished_not_awakened _ _ Hfin) in Hawt. discriminate.
        -- exact i_past0.
    + (* sleeping or finished: nothing happens *)
      injection Hs as <-.
      constructor; simpl; auto; try lia.
      * intros a Ha. destruct (i_ge0 a Ha) as [H1 [H2 H3]]. lia.
      * destruct (d_log s); [exact I |]. intros t Ht Hawt. apply i_next0; [lia | exact Hawt].
  - (* Reset *)
    unfold step in Hs.
    destruct ((d_clock s <=? t) && (st_done [d_hs s] && negb (s_failure (d_hs s)))) eqn:G; [| discriminate].
    injection Hs as <-.
    apply inv_scratch. constructor; [apply inv_lifetime; exact HI | destruct HI; exact i_past0].
Qed.

Lemma run_inv : forall e c tr s s', Inv e c s -> run e c s tr = Some s' -> Inv e c s'.
Proof.
  intros e c tr; induction tr as [|l tr IH]; intros s s' HI Hr; simpl in Hr.
  - injection Hr as <-; exact HI.
  - destruct (step e c s l) as [s1|] eqn:Hs; [| discriminate].
    eapply IH; [eapply step_inv; eauto | exact Hr].
Qed.

Lemma run_app : forall e c tr1 tr2 s,
  run e c s (tr1 ++ tr2) = match run e c s tr1 with Some s1 => run e c s1 tr2 | None => None end.
Proof.
  intros e c tr1; induction tr1 as [|l tr1 IH]; intros tr2 s; simpl; [reflexivity |].
  destruct (step e c s l); [apply IH | reflexivity].
Qed.

(* without Reset labels there is one lifetime: the whole life is the current log *)
Lemma step_tick_past : forall e c s l s', is_tick l = true -> step e c s l = Some s' -> d_past s' = d_past s.
Proof.
  intros e c s [ta tc tx te r | t] s' Ht Hs; [| discriminate].
  unfold step in Hs.
  destruct ((d_clock s <=? ta) && (ta <=? tc) && (tc <=? tx) && (tx <=? te)); [| discriminate].
  destruct (awakened ta (d_hs s)); injection Hs as <-; reflexivity.
Qed.

Lemma run_ticks_past : forall e c tr s s', forallb is_tick tr = true -> run e c s tr = Some s' -> d_past s' = d_past s.
Proof.
  intros e c tr; induction tr as [|l tr IH]; intros s s' Ht Hr; simpl in *.
  - injection Hr as <-; reflexivity.
  - apply andb_prop in Ht; destruct Ht as [Hl Ht].
    destruct (step e c s l) as [s1|] eqn:Hs; [| discriminate].
    rewrite (IH s1 s' Ht Hr). eapply step_tick_past; eauto.
Qed.

Lemma whole_single : forall s, d_past s = [] -> whole s = rev (d_log s).
Proof. intros s H; unfold whole; rewrite H; simpl. apply app_nil_r. Qed.

(* after a final outcome nothing is entered any more while the state lives *)
Lemma finished_stuck_step : forall e c s l s', finished (d_hs s) = true -> is_tick l = true ->
  step e c s l = Some s' -> d_hs s' = d_hs s /\ d_log s' = d_log s /\ d_past s' = d_past s.
Proof.
  intros e c s [ta tc tx te r | t] s' Hf Ht Hs; [| discriminate].
  unfold step in Hs.
  destruct ((d_clock s <=? ta) && (ta <=? tc) && (tc <=? tx) && (tx <=? te)); [| discriminate].
  rewrite (finished_not_awakened _ _ Hf) in Hs. injection Hs as <-. simpl. auto.
Qed.

Lemma finished_stuck : forall e c tr s s', finished (d_hs s) = true -> forallb is_tick tr = true ->
  run e c s tr = Some s' -> d_hs s' = d_hs s /\ d_log s' = d_log s /\ d_past s' = d_past s.
Proof.
  intros e c tr; induction tr as [|l tr IH]; intros s s' Hf Ht Hr; simpl in *.
  - injection Hr as <-; auto.
  - apply andb_prop in Ht; destruct Ht as [Hl Ht].
    destruct (step e c s l) as [s1|] eqn:Hs; [| discriminate].
    destruct (finished_stuck_step _ _ _ _ _ Hf Hl Hs) as [H1 [H2 H3]].
    assert (Hf1 : finished (d_hs s1) = true) by (rewrite H1; exact Hf).
    destruct (IH s1 s' Hf1 Ht Hr) as [K1 [K2 K3]]. rewrite K1, K2, K3. auto.
Qed.

(* ------------------------------------------------------------------ the in-memory instantiations *)

Lemma sleep_to_ge : forall stop now len, now <= sleep_to stop now len.
Proof.
  intros stop now len; unfold sleep_to.
  destruct (len <=? 0) eqn:E; [lia |]. apply Z.leb_gt in E.
  destruct stop as [ts|]; [| lia].
  destruct (ts <? now + len); lia.
Qed.

(* one iteration of an in-memory loop is one accepted Tick of the generic driver *)
Lemma iterate_step : forall e c s now sc, d_clock s <= now ->
  exists s', step e c s (it_lab (iterate e c now (d_hs s) sc)) = Some s' /\
             d_hs s' = it_hs (iterate e c now (d_hs s) sc) /\
             d_clock s' = it_end (iterate e c now (d_hs s) sc) /\
             now <= it_end (iterate e c now (d_hs s) sc) /\
             is_tick (it_lab (iterate e c now (d_hs s) sc)) = true.
Proof.
  intros e c s now sc Hc. unfold iterate.
  destruct (awakened now (d_hs s)) eqn:Haw.
  - set (r := fst (next_act sc)). set (dur := snd (next_act sc)).
    set (tx := now + Z.max 0 dur).
    destruct (snd (exec e c (s_retries (d_hs s)) (runtime now (d_hs s)) (runtime tx (d_hs s)) r)) eqn:Hcalled;
      cbv zeta; simpl it_lab; simpl it_hs; simpl it_end.
    + unfold step.
      assert (G : (d_clock s <=? now) && (now <=? now) && (now <=? tx) && (tx <=? tx) = true).
      { unfold tx. repeat (apply andb_true_intro; split); apply Z.leb_le; lia. }
      rewrite G, Haw. eexists; split; [reflexivity |]. simpl.
      repeat split; try reflexivity; unfold tx; lia.
    + unfold step.
      assert (G : (d_clock s <=? now) && (now <=? now) && (now <=? now) && (now <=? now) = true).
      { repeat (apply andb_true_intro; split); apply Z.leb_le; lia. }
      rewrite G, Haw. eexists; split; [reflexivity |]. simpl.
      (* the outcome of a failed strict check does not depend on when the look-ahead clock is read *)
      assert (Hsame : forall rx rx', snd (exec e c (s_retries (d_hs s)) (runtime now (d_hs s)) rx r) = false ->
                fst (exec e c (s_retries (d_hs s)) (runtime now (d_hs s)) rx' r) =
                fst (exec e c (s_retries (d_hs s)) (runtime now (d_hs s)) rx r)
                /\ snd (exec e c (s_retries (d_hs s)) (runtime now (d_hs s)) rx' r) = false).
      { intros rx rx'. unfold exec. destruct (strict c (s_retries (d_hs s)) (runtime now (d_hs s))); simpl; [auto | discriminate]. }
      destruct (Hsame _ (runtime now (d_hs s)) Hcalled) as [H1 H2].
      rewrite H1. repeat split; try reflexivity; lia.
  - cbv zeta; simpl. unfold step.
    assert (G : (d_clock s <=? now) && (now <=? now) && (now <=? now) && (now <=? now) = true).
    { repeat (apply andb_true_intro; split); apply Z.leb_le; lia. }
    rewrite G, Haw. eexists; split; [reflexivity |]. simpl. repeat split; try reflexivity; lia.
Qed.

Lemma act_accepted : forall fuel e c now sc s, d_clock s <= now ->
  exists s', run e c s (act_trace fuel e c now (d_hs s) sc) = Some s' /\
             forallb is_tick (act_trace fuel e c now (d_hs s) sc) = true.
Proof.
  induction fuel as [|f IH]; intros e c now sc s Hc.
  - eexists; split; reflexivity.
  - cbn [act_trace]. destruct (st_done [d_hs s]); [eexists; split; reflexivity |].
    destruct (iterate_step e c s now sc Hc) as [s1 [Hs [Hh [Hcl [Hle Htk]]]]].
    cbn [run forallb]. rewrite Hs, Htk. rewrite <- Hh. cbn [andb].
    apply IH. rewrite Hcl. apply sleep_to_ge.
Qed.

Lemma dmn_accepted : forall fuel e c stop now sc s, d_clock s <= now ->
  exists s', run e c s (dmn_trace fuel e c stop now (d_hs s) sc) = Some s' /\
             forallb is_tick (dmn_trace fuel e c stop now (d_hs s) sc) = true.
Proof.
  induction fuel as [|f IH]; intros e c stop now sc s Hc.
  - eexists; split; reflexivity.
  - cbn [dmn_trace]. destruct (stop_set stop now || st_done [d_hs s]); [eexists; split; reflexivity |].
    destruct (iterate_step e c s now sc Hc) as [s1 [Hs [Hh [Hcl [Hle Htk]]]]].
    cbn [run forallb]. rewrite Hs, Htk. rewrite <- Hh. cbn [andb].
    apply IH. rewrite Hcl. apply sleep_to_ge.
Qed.

Lemma tmr_accepted : forall fuel e c iv sharp stop now sc s, d_clock s <= now ->
  exists s', run e c s (tmr_trace fuel e c iv sharp stop now (d_hs s) sc) = Some s'.
Proof.
  induction fuel as [|f IH]; intros e c iv sharp stop now sc s Hc.
  - eexists; reflexivity.
  - cbn [tmr_trace]. destruct (stop_set stop now); [eexists; reflexivity |].
    destruct (st_done [d_hs s] && negb (s_failure (d_hs s))) eqn:Hdone.
    + (* reset (only after a success), then the iteration from scratch *)
      set (s0 := mkD (from_scratch now) now [] (d_log s :: d_past s)).
      assert (Hreset : step e c s (Reset now) = Some s0).
      { unfold step. rewrite Hdone. assert (G : d_clock s <=? now = true) by (apply Z.leb_le; lia). rewrite G. reflexivity. }
      assert (Hc0 : d_clock s0 <= now) by (simpl; lia).
      destruct (iterate_step e c s0 now sc Hc0) as [s1 [Hs [Hh [Hcl [Hle Htk]]]]].
      change (from_scratch now) with (d_hs s0).
      destruct (negb (st_done [it_hs (iterate e c now (d_hs s0) sc)])).
      * cbn [app run]. rewrite Hreset. rewrite Hs. rewrite <- Hh. apply IH. rewrite Hcl. apply sleep_to_ge.
      * destruct iv as [iv|].
        -- cbn [app run]. rewrite Hreset. rewrite Hs. rewrite <- Hh. apply IH. rewrite Hcl. apply sleep_to_ge.
        -- cbn [app run]. rewrite Hreset. rewrite Hs. eexists; reflexivity.
    + destruct (iterate_step e c s now sc Hc) as [s1 [Hs [Hh [Hcl [Hle Htk]]]]].
      destruct (negb (st_done [it_hs (iterate e c now (d_hs s) sc)])).
      * cbn [app run]. rewrite Hs. rewrite <- Hh. apply IH. rewrite Hcl. apply sleep_to_ge.
      * destruct iv as [iv|].
        -- cbn [app run]. rewrite Hs. rewrite <- Hh. apply IH. rewrite Hcl. apply sleep_to_ge.
        -- cbn [app run]. rewrite Hs. eexists; reflexivity.
Qed.

(* the three in-memory drivers, from scratch: accepted by the generic driver, hence every lifetime is ok *)
Lemma activity_ok : forall fuel e c t0 sc,
  exists s, run e c (init t0) (act_trace fuel e c t0 (from_scratch t0) sc) = Some s /\
            d_past s = [] /\ lifetime_ok e c (d_log s).
Proof.
  intros. destruct (act_accepted fuel e c t0 sc (init t0)) as [s [Hr Ht]]; [simpl; lia |].
  simpl d_hs in *. exists s. split; [exact Hr |]. split.
  - rewrite (run_ticks_past _ _ _ _ _ Ht Hr). reflexivity.
  - apply inv_lifetime. eapply run_inv; [apply inv_init | exact Hr].
Qed.

Lemma daemon_ok : forall fuel e c stop t0 sc,
  exists s, run e c (init t0) (dmn_trace fuel e c stop t0 (from_scratch t0) sc) = Some s /\
            d_past s = [] /\ lifetime_ok e c (d_log s).
Proof.
  intros. destruct (dmn_accepted fuel e c stop t0 sc (init t0)) as [s [Hr Ht]]; [simpl; lia |].
  simpl d_hs in *. exists s. split; [exact Hr |]. split.
  - rewrite (run_ticks_past _ _ _ _ _ Ht Hr). reflexivity.
  - apply inv_lifetime. eapply run_inv; [apply inv_init | exact Hr].
Qed.

Lemma timer_lifetimes_ok : forall fuel e c iv sharp stop t0 sc,
  exists s, run e c (init t0) (tmr_trace fuel e c iv sharp stop t0 (from_scratch t0) sc) = Some s /\
            Forall (lifetime_ok e c) (d_log s :: d_past s).
Proof.
  intros. destruct (tmr_accepted fuel e c iv sharp stop t0 sc (init t0)) as [s Hr]; [simpl; lia |].
  simpl d_hs in *. exists s. split; [exact Hr |].
  assert (HI : Inv e c s) by (eapply run_inv; [apply inv_init | exact Hr]).
  constructor; [apply inv_lifetime; exact HI | destruct HI; exact i_past0].
Qed.

(* ... and over the timer's WHOLE life (fix e01f313: the state is reset only after a success):
   a failed handler is never entered again, whatever labels follow, resets included *)
Lemma failure_stuck_step : forall e c s l s', s_failure (d_hs s) = true ->
  step e c s l = Some s' -> d_hs s' = d_hs s /\ d_log s' = d_log s /\ d_past s' = d_past s.
Proof.
  intros e c s [ta tc tx te r | t] s' Hf Hs; unfold step in Hs.
  - destruct ((d_clock s <=? ta) && (ta <=? tc) && (tc <=? tx) && (tx <=? te)); [| discriminate].
    assert (Hfin : finished (d_hs s) = true) by (unfold finished; rewrite Hf; apply orb_true_r).
    rewrite (finished_not_awakened _ _ Hfin) in Hs. injection Hs as <-. simpl. auto.
  - rewrite Hf in Hs. simpl in Hs. rewrite !andb_false_r in Hs. discriminate.
Qed.

Lemma failure_stuck : forall e c tr s s', s_failure (d_hs s) = true ->
  run e c s tr = Some s' -> d_hs s' = d_hs s /\ d_log s' = d_log s /\ d_past s' = d_past s.
Proof.
  intros e c tr; induction tr as [|l tr IH]; intros s s' Hf Hr; simpl in Hr.
  - injection Hr as <-; auto.
  - destruct (step e c s l) as [s1|] eqn:Hs; [| discriminate].
    destruct (failure_stuck_step _ _ _ _ _ Hf Hs) as [H1 [H2 H3]].
    assert (Hf1 : s_failure (d_hs s1) = true) by (rewrite H1; exact Hf).
    destruct (IH s1 s' Hf1 Hr) as [K1 [K2 K3]]. rewrite K1, K2, K3. auto.
Qed.

(* a state lifetime is ended (Reset) only at a success *)
Lemma reset_only_after_success : forall e c t0 tr s t s',
  run e c (init t0) tr = Some s -> step e c s (Reset t) = Some s' ->
  s_success (d_hs s) = true /\ s_failure (d_hs s) = false /\ d_past s' = d_log s :: d_past s /\ d_log s' = [].
Proof.
  intros e c t0 tr s t s' Hr Hs.
  assert (HI : Inv e c s) by (eapply run_inv; [apply inv_init | exact Hr]).
  unfold step in Hs.
  destruct ((d_clock s <=? t) && (st_done [d_hs s] && negb (s_failure (d_hs s)))) eqn:G; [| discriminate].
  injection Hs as <-. simpl.
  apply andb_prop in G; destruct G as [_ G]. apply andb_prop in G; destruct G as [Hd Hnf].
  destruct HI. rewrite (st_done_single _ i_active0) in Hd.
  apply negb_true_iff in Hnf. unfold finished in Hd. rewrite Hnf in Hd. rewrite orb_false_r in Hd.
  auto.
Qed.

Lemma thm_failed_forever : forall e c t0 tr1 tr2 s1 s2,
  run e c (init t0) tr1 = Some s1 -> s_failure (d_hs s1) = true ->
  run e c s1 tr2 = Some s2 ->
  d_hs s2 = d_hs s1 /\ d_log s2 = d_log s1 /\ whole s2 = whole s1.
Proof.
  intros e c t0 tr1 tr2 s1 s2 _ Hf Hr.
  destruct (failure_stuck _ _ _ _ _ Hf Hr) as [H1 [H2 H3]].
  split; [exact H1 |]. split; [exact H2 |]. unfold whole. rewrite H2, H3. reflexivity.
Qed.

(* the timer over its whole life: every lifetime (they end only at successes) has at most N entries, the
   entries since the last success are the current log, and once failed nothing is entered ever again *)
Lemma timer_whole_life : forall fuel e c iv sharp stop t0 sc,
  exists s, run e c (init t0) (tmr_trace fuel e c iv sharp stop t0 (from_scratch t0) sc) = Some s /\
    Forall (lifetime_ok e c) (d_log s :: d_past s) /\
    (forall N, c_retries c = Some N ->
       Forall (fun log => Z.of_nat (List.length log) <= Z.max 0 N) (d_log s :: d_past s)) /\
    (s_failure (d_hs s) = true -> forall tr2 s2, run e c s tr2 = Some s2 ->
       d_hs s2 = d_hs s /\ whole s2 = whole s).
Proof.
  intros. destruct (timer_lifetimes_ok fuel e c iv sharp stop t0 sc) as [s [Hr Hl]].
  exists s. split; [exact Hr |]. split; [exact Hl |]. split.
  - intros N HN. eapply Forall_impl; [| exact Hl]. intros log [H _]. apply H. exact HN.
  - intros Hf tr2 s2 Hr2. destruct (thm_failed_forever _ _ _ _ _ _ _ Hr Hf Hr2) as [H1 [_ H3]]. auto.
Qed.

(* regression witnesses of the former finding F9: a permanently failing timer is entered exactly once,
   a timer with retries=1 exactly once, however long it keeps ticking *)
Definition f9_env := mkEnv MTemporary 60000.
Definition f9_cfg_perm := mkCfg None None None None.
Definition f9_cfg_retries := mkCfg None None (Some 1) (Some 0).

Example timer_permanent_error_once :
  option_map (map obs_of)
    (entries_of f9_env f9_cfg_perm 0
       (tmr_trace 6 f9_env f9_cfg_perm (Some 10000) false None 0 (from_scratch 0) [(RPerm, 0); (RPerm, 0); (RPerm, 0)]))
  = Some [(0, 0, 0)].
Proof. vm_compute. reflexivity. Qed.

Example timer_retries_exhausted_once :
  option_map (map obs_of)
    (entries_of f9_env f9_cfg_retries 0
       (tmr_trace 6 f9_env f9_cfg_retries (Some 10000) false None 0 (from_scratch 0) [(RArb, 0); (RArb, 0); (RArb, 0)]))
  = Some [(0, 0, 0)].
Proof. vm_compute. reflexivity. Qed.

(* ... while after a success the timer legitimately starts from scratch every interval *)
Example timer_success_repeats :
  option_map (map obs_of)
    (entries_of f9_env f9_cfg_retries 0
       (tmr_trace 3 f9_env f9_cfg_retries (Some 10000) false None 0 (from_scratch 0) []))
  = Some [(0, 0, 0); (10000, 0, 10000); (20000, 0, 20000)].
Proof. vm_compute. reflexivity. Qed.

(* ------------------------------------------------------------------ the persisted driver *)

(* the cycles of a persisted trace as generic ticks; restarts leave no label *)
Fixpoint erase (tr : list plabel) : list label :=
  match tr with
  | [] => []
  | PCycle ta tc tx te r :: tr' => Tick ta tc tx te r :: erase tr'
  | PRestart :: tr' => erase tr'
  | PRepurpose :: tr' => erase tr'
  end.

Definition PR (ps : pstate) (s : dstate) : Prop :=
  p_clock ps = d_clock s /\ p_log ps = d_log s /\ d_past s = [] /\ s_active (d_hs s) = true /\
  p_closed ps = finished (d_hs s) /\
  (p_closed ps = false -> p_stored ps = Some (for_storage (d_hs s))).

Lemma with_outcome_active : forall t s o, s_active (with_outcome t s o) = s_active s.
Proof. reflexivity. Qed.

Lemma pstep_sim : forall e c ps s ta tc tx te r ps', PR ps s ->
  pstep e c ps (PCycle ta tc tx te r) = Some ps' ->
  exists s', step e c s (Tick ta tc tx te r) = Some s' /\ PR ps' s'.
Proof.
  intros e c ps s ta tc tx te r ps' [Hck [Hlg [Hpast [Hact [Hcl Hst]]]]] Hp.
  unfold pstep in Hp. destruct (p_closed ps) eqn:Hclosed; [discriminate |].
  specialize (Hst eq_refl). rewrite Hst in Hp. rewrite (state_for_roundtrip _ _ Hact) in Hp.
  unfold step. rewrite <- Hck.
  destruct ((p_clock ps <=? ta) && (ta <=? tc) && (tc <=? tx) && (tx <=? te)); [| discriminate].
  destruct (awakened ta (d_hs s)) eqn:Haw.
  - injection Hp as <-. eexists; split; [reflexivity |].
    unfold PR; simpl. rewrite Hlg, Hpast, Hact. simpl. rewrite andb_true_r.
    repeat split; try reflexivity.
    intros Hnf. rewrite Hnf. reflexivity.
  - injection Hp as <-. eexists; split; [reflexivity |].
    unfold PR; simpl. repeat split; auto.
Qed.

Lemma prun_sim : forall e c tr ps s ps', PR ps s -> prun e c ps tr = Some ps' ->
  exists s', run e c s (erase tr) = Some s' /\ PR ps' s'.
Proof.
  intros e c tr; induction tr as [|l tr IH]; intros ps s ps' HR Hp; simpl in Hp.
  - injection Hp as <-. exists s; split; [reflexivity | exact HR].
  - destruct l as [ta tc tx te r | |].
    + destruct (pstep e c ps (PCycle ta tc tx te r)) as [ps1|] eqn:E; [| discriminate].
      destruct (pstep_sim _ _ _ _ _ _ _ _ _ _ HR E) as [s1 [Hs HR1]].
      destruct (IH ps1 s1 ps' HR1 Hp) as [s' [Hr HR']].
      exists s'. split; [| exact HR']. cbn [erase run]. rewrite Hs. exact Hr.
    + simpl in Hp. cbn [erase]. apply (IH ps s ps' HR Hp).
    + cbn [prun pstep] in Hp. cbn [erase]. refine (IH _ s ps' _ Hp).
      destruct HR as [Hck [Hlg [Hpast [Hact [Hcl Hst]]]]]. unfold PR; simpl. repeat split; auto.
      intros Hnc. rewrite (Hst Hnc). cbn [option_map].
      pose proof (state_for_roundtrip (p_clock ps) _ Hact) as E. unfold state_for in E.
      rewrite E, with_purpose_id. reflexivity.
Qed.

(* the first cycle creates the state from scratch at its own start *)
Lemma pstep_first : forall e c t0 ta tc tx te r ps',
  pstep e c (pinit t0) (PCycle ta tc tx te r) = Some ps' ->
  exists s', step e c (init ta) (Tick ta tc tx te r) = Some s' /\ PR ps' s' /\ t0 <= ta.
Proof.
  intros e c t0 ta tc tx te r ps' Hp. unfold pstep, pinit in Hp. simpl in Hp.
  destruct (t0 <=? ta) eqn:G0; [| discriminate]. simpl in Hp.
  unfold step, init; simpl. rewrite Z.leb_refl. simpl.
  destruct ((ta <=? tc) && (tc <=? tx) && (tx <=? te)); [| discriminate].
  injection Hp as <-.
  eexists; split; [reflexivity |]. split; [| apply Z.leb_le; exact G0].
  unfold PR; simpl. rewrite andb_true_r.
  repeat split; try reflexivity.
  intros Hnf. rewrite Hnf. reflexivity.
Qed.

(* every entry list the persisted driver can produce — any event times, restarts anywhere — is that of a
   generic run, so the bounds count the retries/started read back from storage *)
Lemma persisted_ok : forall e c tr t0 ps, prun e c (pinit t0) tr = Some ps -> lifetime_ok e c (p_log ps).
Proof.
  intros e c tr; induction tr as [|l tr IH]; intros t0 ps Hp; simpl in Hp.
  - injection Hp as <-. simpl. apply (inv_lifetime e c (init t0)). apply inv_init.
  - destruct l as [ta tc tx te r | |].
    + destruct (pstep e c (pinit t0) (PCycle ta tc tx te r)) as [ps1|] eqn:E; [| discriminate].
      destruct (pstep_first _ _ _ _ _ _ _ _ _ E) as [s1 [Hs [HR1 _]]].
      destruct (prun_sim _ _ _ _ _ _ HR1 Hp) as [s' [Hr HR']].
      destruct HR' as [_ [Hlg _]]. rewrite Hlg. apply inv_lifetime.
      eapply run_inv; [| exact Hr]. eapply step_inv; [apply inv_init | exact Hs].
    + simpl in Hp. apply (IH t0 ps Hp).
    + simpl in Hp. apply (IH t0 ps Hp).
Qed.

(* restarts are invisible: removing them from any trace changes nothing *)
Fixpoint no_restarts (tr : list plabel) : list plabel :=
  match tr with
  | [] => []
  | PRestart :: tr' => no_restarts tr'
  | l :: tr' => l :: no_restarts tr'
  end.

Lemma restarts_invisible : forall e c tr ps, prun e c ps tr = prun e c ps (no_restarts tr).
Proof.
  intros e c tr; induction tr as [|l tr IH]; intros ps; [reflexivity |].
  destruct l as [ta tc tx te r | |]; cbn [prun no_restarts].
  - destruct (pstep e c ps (PCycle ta tc tx te r)); [apply IH | reflexivity].
  - cbn [pstep]. apply IH.
  - destruct (pstep e c ps PRepurpose); [apply IH | reflexivity].
Qed.

(* ... and so are changes of the cause: a re-purposed record keeps delayed / retries / started / success / failure,
   so dropping the re-purposings from any trace changes nothing either *)
Fixpoint no_repurposings (tr : list plabel) : list plabel :=
  match tr with
  | [] => []
  | PRepurpose :: tr' => no_repurposings tr'
  | l :: tr' => l :: no_repurposings tr'
  end.

Lemma repurpose_keeps : forall s,
  s_delayed (with_purpose s) = s_delayed s /\ s_retries (with_purpose s) = s_retries s /\
  s_started (with_purpose s) = s_started s /\ s_stopped (with_purpose s) = s_stopped s /\
  s_success (with_purpose s) = s_success s /\ s_failure (with_purpose s) = s_failure s /\
  s_active (with_purpose s) = s_active s /\
  (forall t, awakened t (with_purpose s) = awakened t s) /\ (forall t, sleeping t (with_purpose s) = sleeping t s).
Proof. intros s. rewrite with_purpose_id. repeat split; reflexivity. Qed.

Definition WF (ps : pstate) : Prop :=
  p_stored ps = None \/ exists hs, p_stored ps = Some (for_storage hs) /\ s_active hs = true.

Lemma repurpose_noop : forall e c ps, WF ps -> pstep e c ps PRepurpose = Some ps.
Proof.
  intros e c ps [H | [hs [H Ha]]]; cbn [pstep]; rewrite H; cbn [option_map].
  - destruct ps; simpl in *; subst; reflexivity.
  - cbn [option_map]. rewrite (state_for_roundtrip (p_clock ps) _ Ha), with_purpose_id. destruct ps; simpl in *; subst; reflexivity.
Qed.

Lemma pstep_wf : forall e c ps l ps', WF ps -> pstep e c ps l = Some ps' -> WF ps'.
Proof.
  intros e c ps l ps' Hw Hs. destruct l as [ta tc tx te r | |].
  - unfold pstep in Hs. destruct (p_closed ps); [discriminate |].
    destruct ((p_clock ps <=? ta) && (ta <=? tc) && (tc <=? tx) && (tx <=? te)); [| discriminate].
    assert (Ha : s_active (state_for ta (p_stored ps)) = true) by (destruct (p_stored ps); reflexivity).
    destruct (awakened ta (state_for ta (p_stored ps))); injection Hs as <-; unfold WF; simpl.
    + match goal with |- context [if ?b then None else _] => destruct b end;
        [left; reflexivity | right; eexists; split; [reflexivity | exact Ha]].
    + right; eexists; split; [reflexivity | exact Ha].
  - cbn [pstep] in Hs. injection Hs as <-. exact Hw.
  - rewrite (repurpose_noop e c ps Hw) in Hs. injection Hs as <-. exact Hw.
Qed.

Lemma repurposings_invisible_from : forall e c tr ps, WF ps -> prun e c ps tr = prun e c ps (no_repurposings tr).
Proof.
  intros e c tr; induction tr as [|l tr IH]; intros ps Hw; [reflexivity |].
  destruct l as [ta tc tx te r | |]; cbn [prun no_repurposings].
  - destruct (pstep e c ps (PCycle ta tc tx te r)) as [ps1|] eqn:E; [| reflexivity].
    apply IH. eapply pstep_wf; eauto.
  - cbn [pstep]. apply IH. exact Hw.
  - rewrite (repurpose_noop e c ps Hw). apply IH. exact Hw.
Qed.

(* for every history of cycles, restarts and changes of the cause: the changes of the cause are invisible *)
Lemma repurposings_invisible : forall e c tr t0, prun e c (pinit t0) tr = prun e c (pinit t0) (no_repurposings tr).
Proof. intros. apply repurposings_invisible_from. left; reflexivity. Qed.

(* non-vacuity: a run that exercises retry, delay, look-ahead and a restart *)
Example persisted_example :
  exists ps, prun (mkEnv MTemporary 1000) (mkCfg None None (Some 2) None) (pinit 0)
               [PCycle 0 0 250 250 (RTemp (Some 500)); PRestart; PCycle 500 500 500 500 RArb;
                PCycle 750 750 750 750 RArb] = Some ps
             /\ List.length (p_log ps) = 2%nat /\ p_closed ps = true.
Proof. eexists. split; [vm_compute; reflexivity | split; reflexivity]. Qed.

Example activity_example :
  entries_of (mkEnv MTemporary 1000) (mkCfg None None None None) 5000
    (act_trace 5 (mkEnv MTemporary 1000) (mkCfg None None None None) 5000 (from_scratch 5000)
       [(RTemp (Some 500), 250); (RArb, 0); (ROk, 0)])
  = Some [mkEn 5000 0 5250 (RTemp (Some 500)); mkEn 5750 1 5750 RArb; mkEn 6750 2 6750 ROk].
Proof. vm_compute. reflexivity. Qed.

(* ------------------------------------------------------------------ the statements exported by Props/C11.v *)

Lemma thm_temp_retried_after_delay : forall e c n rc rx d te s,
  strict c n rc = None ->
  reaches (rx + or0 d) (c_timeout c) = false -> reaches (n + 1) (c_retries c) = false ->
  let s' := with_outcome te s (fst (exec e c n rc rx (RTemp d))) in
  snd (exec e c n rc rx (RTemp d)) = true /\
  finished s' = false /\ s_retries s' = s_retries s + 1 /\
  (forall t, te <= t -> (awakened t s' = true <-> te + or0 d <= t)).
Proof.
  intros e c n rc rx d te s Hs H1 H2. rewrite (temp_retried _ _ _ _ _ _ Hs H1 H2). cbv zeta. simpl fst; simpl snd.
  split; [reflexivity |]. split; [reflexivity |]. split; [reflexivity |].
  intros t Ht. rewrite awakened_spec. unfold with_outcome; simpl. destruct d as [x|]; simpl.
  - split.
    + intros [_ H]. apply (H (te + x)). reflexivity.
    + intros H. split; [reflexivity |]. intros d' Hd. injection Hd as <-. exact H.
  - split; [intros _; lia |]. intros _. split; [reflexivity | intros d' Hd; discriminate].
Qed.

Lemma thm_arbitrary_by_mode : forall e c n rc rx te s, strict c n rc = None ->
  let s' := with_outcome te s (fst (exec e c n rc rx RArb)) in
  snd (exec e c n rc rx RArb) = true /\
  (eff_mode e c = MIgnored -> s_success s' = true /\ s_failure s' = false) /\
  (eff_mode e c = MPermanent -> s_failure s' = true /\ s_success s' = false /\ s_delayed s' = None) /\
  (eff_mode e c = MTemporary ->
     reaches (rx + eff_backoff e c) (c_timeout c) = false -> reaches (n + 1) (c_retries c) = false ->
     finished s' = false /\ (forall t, awakened t s' = true <-> te + eff_backoff e c <= t)) /\
  (eff_mode e c = MTemporary ->
     reaches (rx + eff_backoff e c) (c_timeout c) = true \/ reaches (n + 1) (c_retries c) = true ->
     s_failure s' = true /\ s_success s' = false).
Proof.
  intros e c n rc rx te s Hs.
  destruct (arbitrary_by_mode e c n rc rx Hs) as [Hc [HI [HP HT]]]. cbv zeta in *.
  split; [exact Hc |]. split; [| split; [| split]].
  - intros Hm. rewrite (HI Hm). split; reflexivity.
  - intros Hm. rewrite (HP Hm). repeat split; reflexivity.
  - intros Hm H1 H2. destruct (HT Hm) as [_ [_ H3]]. rewrite (H3 H1 H2).
    split; [reflexivity |]. intros t. rewrite awakened_spec. unfold with_outcome; simpl. split.
    + intros [_ H]. apply (H (te + eff_backoff e c)). reflexivity.
    + intros H. split; [reflexivity |]. intros d' Hd. injection Hd as <-. exact H.
  - intros Hm Hl. destruct (HT Hm) as [H1 [H2 _]].
    destruct (reaches (rx + eff_backoff e c) (c_timeout c)) eqn:E.
    + rewrite (H1 eq_refl). split; reflexivity.
    + destruct Hl as [Hl | Hl]; [discriminate |]. rewrite (H2 eq_refl Hl). split; reflexivity.
Qed.

Lemma thm_perm_final : forall e c n rc rx r te s,
  (r = RPerm \/ r = RTimeoutE \/ r = RRetriesE) -> strict c n rc = None ->
  let s' := with_outcome te s (fst (exec e c n rc rx r)) in
  snd (exec e c n rc rx r) = true /\ s_failure s' = true /\ s_success s' = false /\
  s_delayed s' = None /\ (forall t, awakened t s' = false).
Proof.
  intros e c n rc rx r te s Hr Hs. destruct (perm_final e c n rc rx r Hr Hs) as [H1 [H2 [H3 H4]]]. cbv zeta.
  split; [exact H1 |].
  assert (Hf : s_failure (with_outcome te s (fst (exec e c n rc rx r))) = true)
    by (rewrite failure_with_outcome, H2, H4; reflexivity).
  split; [exact Hf |].
  split; [rewrite success_with_outcome, H2, H4; reflexivity |].
  split; [unfold with_outcome; simpl; rewrite H3; reflexivity |].
  intros t. apply finished_not_awakened. unfold finished. rewrite Hf. apply orb_true_r.
Qed.

Lemma thm_limits_fail_for_good : forall e c n rc rx r te s,
  snd (exec e c n rc rx r) = false ->
  ((exists T, c_timeout c = Some T /\ T <= rc) \/ (exists N, c_retries c = Some N /\ N <= n)) /\
  s_failure (with_outcome te s (fst (exec e c n rc rx r))) = true /\
  (forall t, awakened t (with_outcome te s (fst (exec e c n rc rx r))) = false).
Proof.
  intros e c n rc rx r te s Hn.
  destruct (exec_not_entered_final_failure _ _ _ _ _ _ Hn) as [H1 H2].
  assert (Hf : s_failure (with_outcome te s (fst (exec e c n rc rx r))) = true)
    by (rewrite failure_with_outcome, H1, H2; reflexivity).
  split; [| split; [exact Hf |]].
  - unfold exec in Hn. destruct (strict c n rc) eqn:E; [| discriminate]. unfold strict in E.
    destruct (reaches rc (c_timeout c)) eqn:E1; [left; apply reaches_true; exact E1 |].
    destruct (reaches n (c_retries c)) eqn:E2; [right; apply reaches_true; exact E2 | discriminate].
  - intros t. apply finished_not_awakened. unfold finished. rewrite Hf. apply orb_true_r.
Qed.

Lemma step_tick_started : forall e c s l s', is_tick l = true -> step e c s l = Some s' ->
  s_started (d_hs s') = s_started (d_hs s).
Proof.
  intros e c s [ta tc tx te r | t] s' Ht Hs; [| discriminate].
  unfold step in Hs.
  destruct ((d_clock s <=? ta) && (ta <=? tc) && (tc <=? tx) && (tx <=? te)); [| discriminate].
  destruct (awakened ta (d_hs s)); injection Hs as <-; reflexivity.
Qed.

Lemma run_ticks_started : forall e c tr s s', forallb is_tick tr = true -> run e c s tr = Some s' ->
  s_started (d_hs s') = s_started (d_hs s).
Proof.
  intros e c tr; induction tr as [|l tr IH]; intros s s' Ht Hr; simpl in *.
  - injection Hr as <-; reflexivity.
  - apply andb_prop in Ht; destruct Ht as [Hl Ht].
    destruct (step e c s l) as [s1|] eqn:Hs; [| discriminate].
    rewrite (IH s1 s' Ht Hr). eapply step_tick_started; eauto.
Qed.

Lemma thm_every_lifetime : forall e c t0 tr s, run e c (init t0) tr = Some s ->
  Forall (lifetime_ok e c) (d_log s :: d_past s).
Proof.
  intros e c t0 tr s Hr.
  assert (HI : Inv e c s) by (eapply run_inv; [apply inv_init | exact Hr]).
  constructor; [apply inv_lifetime; exact HI | destruct HI; exact i_past0].
Qed.

Lemma thm_retries_bound : forall e c t0 tr s N, run e c (init t0) tr = Some s -> forallb is_tick tr = true ->
  c_retries c = Some N -> Z.of_nat (List.length (whole s)) <= Z.max 0 N.
Proof.
  intros e c t0 tr s N Hr Ht HN.
  assert (HI : Inv e c s) by (eapply run_inv; [apply inv_init | exact Hr]).
  rewrite whole_single by (rewrite (run_ticks_past _ _ _ _ _ Ht Hr); reflexivity).
  rewrite rev_length. destruct HI. apply i_N0. exact HN.
Qed.

Lemma thm_timeout_bound : forall e c t0 tr s T, run e c (init t0) tr = Some s -> forallb is_tick tr = true ->
  c_timeout c = Some T ->
  (forall a, In a (whole s) -> t0 <= en_time a /\ en_time a - t0 < T) /\
  (forall a b, In a (whole s) -> In b (whole s) -> en_time b - en_time a < T).
Proof.
  intros e c t0 tr s T Hr Ht HT.
  assert (HI : Inv e c s) by (eapply run_inv; [apply inv_init | exact Hr]).
  rewrite whole_single by (rewrite (run_ticks_past _ _ _ _ _ Ht Hr); reflexivity).
  pose proof (run_ticks_started _ _ _ _ _ Ht Hr) as Hst. simpl in Hst.
  destruct HI.
  assert (H1 : forall a, In a (rev (d_log s)) -> t0 <= en_time a /\ en_time a - t0 < T).
  { intros a Ha. apply in_rev in Ha. destruct (i_ge0 a Ha) as [Hge _]. specialize (i_T0 T HT a Ha). lia. }
  split; [exact H1 |].
  intros a b Ha Hb. destruct (H1 a Ha). destruct (H1 b Hb). lia.
Qed.

Lemma thm_delay_respected : forall e c t0 tr s, run e c (init t0) tr = Some s ->
  spaced e c (d_log s) /\ (forall a, In a (d_log s) -> en_time a <= en_end a) /\
  match d_log s with
  | last :: _ => forall t, d_clock s <= t -> awakened t (d_hs s) = true ->
                           en_end last + requested e c (en_raised last) <= t
  | [] => True
  end.
Proof.
  intros e c t0 tr s Hr.
  assert (HI : Inv e c s) by (eapply run_inv; [apply inv_init | exact Hr]).
  destruct HI. split; [exact i_spaced0 |]. split; [| exact i_next0].
  intros a Ha. destruct (i_ge0 a Ha) as [_ [H _]]. exact H.
Qed.

Lemma thm_retry_counts_attempts : forall e c t0 tr s, run e c (init t0) tr = Some s -> counted (d_log s).
Proof.
  intros e c t0 tr s Hr.
  assert (HI : Inv e c s) by (eapply run_inv; [apply inv_init | exact Hr]).
  destruct HI; exact i_counted0.
Qed.

Lemma thm_failed_for_good : forall e c t0 tr1 tr2 s1 s2,
  run e c (init t0) tr1 = Some s1 -> finished (d_hs s1) = true ->
  forallb is_tick tr2 = true -> run e c s1 tr2 = Some s2 ->
  d_log s2 = d_log s1 /\ d_hs s2 = d_hs s1 /\ whole s2 = whole s1.
Proof.
  intros e c t0 tr1 tr2 s1 s2 _ Hf Ht Hr.
  destruct (finished_stuck _ _ _ _ _ Hf Ht Hr) as [H1 [H2 H3]].
  split; [exact H2 |]. split; [exact H1 |]. unfold whole. rewrite H2, H3. reflexivity.
Qed.

(* non-vacuity of the bounds: they are attained *)
Example retries_bound_attained :
  exists s, run (mkEnv MTemporary 1000) (mkCfg None None (Some 2) (Some 250)) (init 0)
              [Tick 0 0 0 0 RArb; Tick 100 100 100 100 RArb; Tick 250 250 250 250 RArb; Tick 900 900 900 900 RArb] = Some s
            /\ List.length (whole s) = 2%nat /\ s_failure (d_hs s) = true.
Proof. eexists. split; [vm_compute; reflexivity | split; reflexivity]. Qed.

Example timeout_bound_attained :
  exists s, run (mkEnv MTemporary 1000) (mkCfg None (Some 1000) None None) (init 0)
              [Tick 0 0 0 0 (RTemp (Some 250)); Tick 250 250 250 250 (RTemp (Some 250));
               Tick 875 875 875 875 (RTemp None); Tick 1000 1000 1000 1000 ROk; Tick 2000 2000 2000 2000 ROk] = Some s
            /\ map en_time (whole s) = [0; 250; 875] /\ s_failure (d_hs s) = true.
Proof. eexists. split; [vm_compute; reflexivity | split; reflexivity]. Qed.
