(* C06 — the daemon/timer clause: "... a matching daemon/timer that has neither exited nor been abandoned after its
   timeouts".  Definitions only.

   Mirrors kopf/_core/engines/daemons.py stop_daemons (one iteration of its loop: the staged stop of ONE daemon by
   the age of its stopper: flag -> graceful signal while age < backoff -> task.cancel() while age < backoff+timeout ->
   DAEMON_ABANDONED afterwards; polling when there is no timeout), kopf/_cogs/aiokits/aioenums.py FlagSetter (when is
   set once, reasons accumulate) and _wait_for_instant_exit (ORACLE: does the task finish within the wait).
   Then the life-cycle LTS of Model/Finalizers.v with a clock: the stop oracle of its cycle label is no longer free
   but computed by the staged stop. *)
From Coq Require Import ZArith List String Bool Ascii Arith.
From KV Require Import Base.Json Base.Dicts Model.Finalizers.
Import ListNotations.
Open Scope string_scope.
Open Scope list_scope.
Open Scope Z_scope.

(* handler.cancellation_backoff / cancellation_timeout (None for timers), the effective polling period *)
Record fd_hcfg := { d_backoff : option Z; d_timeout : option Z; d_polling : Z }.

(* DaemonStopper: when; which of the reasons are in .reason (the event is set iff when is not None) *)
Record fd_stopper := {
  w_when : option Z;
  w_deleted : bool;       (* RESOURCE_DELETED *)
  w_mismatch : bool;      (* FILTERS_MISMATCH *)
  w_sig : bool;           (* DAEMON_SIGNALLED *)
  w_canc : bool;          (* DAEMON_CANCELLED *)
  w_aband : bool          (* DAEMON_ABANDONED *)
}.
Definition fd_fresh : fd_stopper :=
  {| w_when := None; w_deleted := false; w_mismatch := false; w_sig := false; w_canc := false; w_aband := false |}.

Inductive fd_why := WDeleted | WMismatch.      (* the `reason` argument of stop_daemons *)

Definition fd_or0 (x : option Z) : Z := match x with Some v => v | None => 0 end.    (* Python: `x or 0` *)
Definition fd_has (w : fd_stopper) (y : fd_why) : bool := match y with WDeleted => w_deleted w | WMismatch => w_mismatch w end.
(* stopper.set(reason=...) *)
Definition fd_set_why (w : fd_stopper) (y : fd_why) (now : Z) : fd_stopper :=
  {| w_when := Some (match w_when w with Some x => x | None => now end);
     w_deleted := match y with WDeleted => true | _ => w_deleted w end;
     w_mismatch := match y with WMismatch => true | _ => w_mismatch w end;
     w_sig := w_sig w; w_canc := w_canc w; w_aband := w_aband w |}.
Definition fd_set_sig (w : fd_stopper) : fd_stopper :=
  {| w_when := w_when w; w_deleted := w_deleted w; w_mismatch := w_mismatch w; w_sig := true; w_canc := w_canc w; w_aband := w_aband w |}.
Definition fd_set_canc (w : fd_stopper) : fd_stopper :=
  {| w_when := w_when w; w_deleted := w_deleted w; w_mismatch := w_mismatch w; w_sig := w_sig w; w_canc := true; w_aband := w_aband w |}.
Definition fd_set_aband (w : fd_stopper) : fd_stopper :=
  {| w_when := w_when w; w_deleted := w_deleted w; w_mismatch := w_mismatch w; w_sig := w_sig w; w_canc := w_canc w; w_aband := true |}.

Record fd_res := {
  r_w : fd_stopper;
  r_cancel : bool;         (* daemon.task.cancel() was called in this iteration *)
  r_delays : list Z;       (* what this daemon contributes to the returned delays *)
  r_out : fl_stop
}.

(* One iteration of the loop of stop_daemons. done0 = daemon.task.done() on entry; i1 i2 i3 = the task finishes within
   the _wait_for_instant_exit after the flag / after the graceful signal / after task.cancel(). *)
Definition fd_stop (h : fd_hcfg) (y : fd_why) (now : Z) (w : fd_stopper) (done0 i1 i2 i3 : bool) : fd_res :=
  let age := now - (match w_when w with Some x => x | None => now end) in
  let newly := negb (fd_has w y) in
  let w1 := if newly then fd_set_why w y now else w in
  let done1 := if newly then done0 || i1 else done0 in
  if done1 then {| r_w := w1; r_cancel := false; r_delays := []; r_out := SExited |}
  else if match d_backoff h with Some b => age <? b | None => false end then
    let w2 := if w_sig w1 then w1 else fd_set_sig w1 in
    let done2 := if w_sig w1 then false else i2 in
    if done2 then {| r_w := w2; r_cancel := false; r_delays := []; r_out := SExited |}
    else {| r_w := w2; r_cancel := false; r_delays := [fd_or0 (d_backoff h) - age]; r_out := SStill |}
  else if match d_timeout h with Some t => age <? t + fd_or0 (d_backoff h) | None => false end then
    let w2 := if w_canc w1 then w1 else fd_set_canc w1 in
    let done2 := if w_canc w1 then false else i3 in
    if done2 then {| r_w := w2; r_cancel := negb (w_canc w1); r_delays := []; r_out := SExited |}
    else {| r_w := w2; r_cancel := negb (w_canc w1);
            r_delays := [fd_or0 (d_timeout h) + fd_or0 (d_backoff h) - age]; r_out := SStill |}
  else match d_timeout h with
       | Some _ => {| r_w := fd_set_aband w1; r_cancel := false; r_delays := []; r_out := SAbandoned |}
       | None => {| r_w := w1; r_cancel := false; r_delays := [d_polling h]; r_out := SStill |}
       end.

(* ---------- the life-cycle LTS with a clock ---------- *)
Record fd_state := {
  fb : fl_state;               (* the untimed state *)
  f_now : Z;                   (* loop.time() *)
  f_w : fd_stopper;            (* D's stopper *)
  f_aband_at : option Z;       (* GHOST: when D was declared abandoned *)
  f_cancel_at : option Z       (* GHOST: when D's task was cancelled *)
}.

Inductive fd_label :=
| TTick (dt : Z)                                   (* time passes *)
| TBase (l : fl_label) (i1 i2 i3 : bool).          (* a step of the untimed LTS; instant-exit oracles for its stop *)

Definition fd_in_dict (d : fl_daemon) : bool := match d with DLive | DStopping | DAbandoned => true | _ => false end.

(* is stop_daemons called on D in the cycle on view v, and why *)
Definition fd_stop_called (c : fl_cfg) (s : fl_state) (v : fl_srv) : option fd_why :=
  if negb (v_alive v) then None
  else if negb (fd_in_dict (p_daemon s)) then None
  else if v_deleting v then Some WDeleted
  else if c_dmn c && v_mdmn v && negb (p_forever s) then None
  else Some WMismatch.

Definition fd_with_stop (k : fl_orc) (st : fl_stop) : fl_orc :=
  {| k_spawn_others := k_spawn_others k; k_chg_others := k_chg_others k; k_low_empty := k_low_empty k; k_ctime := k_ctime k;
     k_timed_out := k_timed_out k; k_sdelays_others := k_sdelays_others k; k_cdelays_others := k_cdelays_others k;
     k_h_finishes := k_h_finishes k; k_other_rec := k_other_rec k; k_extra_merge := k_extra_merge k; k_stop := st |}.

Definition fd_first (old : option Z) (now : Z) : option Z := match old with Some x => Some x | None => Some now end.

Definition fd_step (h : fd_hcfg) (c : fl_cfg) (s : fd_state) (l : fd_label) : option fd_state :=
  match l with
  | TTick dt =>
      if 0 <=? dt then Some {| fb := fb s; f_now := f_now s + dt; f_w := f_w s; f_aband_at := f_aband_at s;
                               f_cancel_at := f_cancel_at s |}
      else None
  | TBase (LCycle k) i1 i2 i3 =>
      match p_view (fb s) with
      | None => None
      | Some v =>
          match fd_stop_called c (fb s) v with
          | Some y =>
              let r := fd_stop h y (f_now s) (f_w s) false i1 i2 i3 in
              match fl_step c (fb s) (LCycle (fd_with_stop k (r_out r))) with
              | Some b' =>
                  Some {| fb := b'; f_now := f_now s; f_w := r_w r;
                          f_aband_at := match r_out r with SAbandoned => fd_first (f_aband_at s) (f_now s) | _ => f_aband_at s end;
                          f_cancel_at := if r_cancel r then fd_first (f_cancel_at s) (f_now s) else f_cancel_at s |}
              | None => None
              end
          | None =>
              match fl_step c (fb s) (LCycle k) with
              | Some b' =>
                  (* spawn_daemons: a new task gets a new stopper *)
                  let spawned := negb (fd_in_dict (p_daemon (fb s))) && fd_in_dict (p_daemon b') in
                  Some {| fb := b'; f_now := f_now s; f_w := if spawned then fd_fresh else f_w s;
                          f_aband_at := if spawned then None else f_aband_at s;
                          f_cancel_at := if spawned then None else f_cancel_at s |}
              | None => None
              end
          end
      end
  | TBase l _ _ _ =>
      match fl_step c (fb s) l with
      | Some b' => Some {| fb := b'; f_now := f_now s; f_w := f_w s; f_aband_at := f_aband_at s; f_cancel_at := f_cancel_at s |}
      | None => None
      end
  end.

Fixpoint fd_run (h : fd_hcfg) (c : fl_cfg) (s : fd_state) (tr : list fd_label) : option fd_state :=
  match tr with
  | [] => Some s
  | l :: tr' => match fd_step h c s l with Some s' => fd_run h c s' tr' | None => None end
  end.

Definition fd_init (c : fl_cfg) (fins : list string) (mdel mdmn : bool) (t0 : Z) : fd_state :=
  {| fb := fl_init c fins mdel mdmn; f_now := t0; f_w := fd_fresh; f_aband_at := None; f_cancel_at := None |}.

Definition fd_calm (l : fd_label) : bool := match l with TBase b _ _ _ => fl_calm b | TTick _ => true end.

(* the untimed label a timed step projects to (TTick: none) *)
Definition fd_base_labels (h : fd_hcfg) (c : fl_cfg) (s : fd_state) (l : fd_label) : list fl_label :=
  match l with
  | TTick _ => []
  | TBase (LCycle k) i1 i2 i3 =>
      match p_view (fb s) with
      | Some v =>
          match fd_stop_called c (fb s) v with
          | Some y => [LCycle (fd_with_stop k (r_out (fd_stop h y (f_now s) (f_w s) false i1 i2 i3)))]
          | None => [LCycle k]
          end
      | None => [LCycle k]
      end
  | TBase b _ _ _ => [b]
  end.

(* ---------- equalities for the correspondence checks ---------- *)
Definition fd_oz_eqb (a b : option Z) : bool :=
  match a, b with Some x, Some y => Z.eqb x y | None, None => true | _, _ => false end.
Definition fd_stopper_eqb (a b : fd_stopper) : bool :=
  fd_oz_eqb (w_when a) (w_when b) && Bool.eqb (w_deleted a) (w_deleted b) && Bool.eqb (w_mismatch a) (w_mismatch b) &&
  Bool.eqb (w_sig a) (w_sig b) && Bool.eqb (w_canc a) (w_canc b) && Bool.eqb (w_aband a) (w_aband b).
Definition fd_stop_eqb (a b : fl_stop) : bool :=
  match a, b with SStill, SStill | SExited, SExited | SAbandoned, SAbandoned => true | _, _ => false end.
Definition fd_res_eqb (r : fd_res) (w : fd_stopper) (cancel : bool) (delays : list Z) (out : fl_stop) : bool :=
  fd_stopper_eqb (r_w r) w && Bool.eqb (r_cancel r) cancel && fz_zs_eqb (r_delays r) delays && fd_stop_eqb (r_out r) out.
Definition fd_daemon_eqb (a b : fl_daemon) : bool :=
  match a, b with
  | DIdle, DIdle | DLive, DLive | DStopping, DStopping | DExited, DExited | DAbandoned, DAbandoned => true
  | _, _ => false
  end.

(* acceptor for timed traces recorded from the real operator pieces (T-tie) *)
Record fd_obs := {
  q_alive : bool; q_fins : list string; q_deleting : bool; q_carried : list fz_fn;
  q_daemon : fl_daemon;          (* from memory.running_daemons / the task / the stopper *)
  q_w : fd_stopper;              (* the real stopper's when and reasons (compared while the daemon is in the dict) *)
  q_forever : bool
}.
Definition fd_daemon_class (d : fl_daemon) : fl_daemon := match d with DExited => DIdle | x => x end.   (* both: not in the dict *)
Definition fd_obs_ok (s : fd_state) (o : fd_obs) : bool :=
  let b := fb s in
  Bool.eqb (v_alive (sv b)) (q_alive o) &&
  (negb (q_alive o) || (fl_eqb (v_fins (sv b)) (q_fins o) && Bool.eqb (v_deleting (sv b)) (q_deleting o))) &&
  fz_fns_eqb (p_carried b) (q_carried o) &&
  fd_daemon_eqb (fd_daemon_class (p_daemon b)) (fd_daemon_class (q_daemon o)) &&
  (negb (fd_in_dict (p_daemon b)) || fd_stopper_eqb (f_w s) (q_w o)) &&
  Bool.eqb (p_forever b) (q_forever o).

Fixpoint fd_replay (h : fd_hcfg) (c : fl_cfg) (s : fd_state) (tr : list (fd_label * option fd_obs)) (i : nat) : option nat :=
  match tr with
  | [] => None
  | (l, o) :: tr' =>
      match fd_step h c s l with
      | None => Some i
      | Some s' =>
          match o with
          | Some ob => if fd_obs_ok s' ob then fd_replay h c s' tr' (S i) else Some i
          | None => fd_replay h c s' tr' (S i)
          end
      end
  end.
Definition fd_history_ok (h : fd_hcfg) (c : fl_cfg) (s : fd_state) (tr : list (fd_label * option fd_obs)) : bool :=
  match fd_replay h c s tr 0 with None => true | Some _ => false end.
