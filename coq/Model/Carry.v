(* C08 — the carry-over of transformation functions from one processing cycle of an object to the next.
   Definitions only (no proofs).

   Mirrors kopf/_core/reactor/processing.py process_resource_event, as far as Patch.fns are concerned:

       memory = await memories.recall(raw_body, ...)
       if raw_type == 'DELETED': await memories.forget(raw_body)
       patch = patches.Patch(memory.remaining_patch, body=body)        # a NEW list: carried fns, memory untouched
       async with throttled as should_run:                               # catches every Exception of the block
           if should_run:
               ... handlers run, may do patch.fns.append(fn) ...
               if raw_event['type'] != 'DELETED':
                   applied, resource_version, remaining_patch = await application.apply(..., patch=patch, ...)
                   memory.remaining_patch = remaining_patch              # reached only if nothing was raised before

   and application.apply -> patch_and_check -> patching.patch_obj (Model/PatchObj.v) for what `remaining_patch` is:
   Patch(fns=patch.fns) after a 422 on a JSON-patch batch, None otherwise (everything accepted, nothing to send, 404).

   A transformation function is identified by a number (the identity of the Python function object).
   The state is per object: what memory.remaining_patch carries, and the history of the server side. *)
From Coq Require Import List Arith Bool.
Import ListNotations.

Record cy_state := mkCy {
  cy_mem : list nat;        (* memory.remaining_patch.fns ([] when it is None) *)
  cy_applied : list nat;    (* fns whose JSON-patch batch was accepted by the server, in order, with repetitions *)
  cy_sat : list nat         (* fns which were evaluated on a fresh body and needed no operation at all *)
}.

Definition cy_init : cy_state := mkCy [] [] [].

(* how one cycle ends; [landed]: a JSON-patch batch of this cycle had been accepted by the server before the
   failure (the /status batch or the response itself failed afterwards) *)
Inductive cy_outcome :=
| OApplied                    (* the JSON-patch batch(es) accepted *)
| ONoops                      (* the transformations yield no operation on the fresh body: nothing sent for them *)
| OConflict (landed : bool)   (* 422 on a JSON-patch batch: patch_obj returns Patch(fns=patch.fns) *)
| ORaised (landed : bool)     (* an exception leaves the block before `memory.remaining_patch = ...` *)
| OSkipped                    (* the error throttler is active: should_run is False, nothing runs *)
| OGone                       (* 404: patch_obj returns (None, None) *)
| ODeleted.                   (* a DELETED event: the memory is forgotten, apply is not called *)

(* one cycle: [new] = the fns appended to patch.fns by the handlers of this cycle (after the carried ones) *)
Inductive cy_label := Cyc (new : list nat) (o : cy_outcome).

Definition cy_step (s : cy_state) (l : cy_label) : option cy_state :=
  match l with
  | Cyc new o =>
      let all := cy_mem s ++ new in                       (* patch.fns of this cycle *)
      match o with
      | OApplied => Some (mkCy [] (cy_applied s ++ all) (cy_sat s))
      | ONoops => Some (mkCy [] (cy_applied s) (cy_sat s ++ all))
      | OConflict landed => Some (mkCy all (if landed then cy_applied s ++ all else cy_applied s) (cy_sat s))
      | ORaised landed => Some (mkCy (cy_mem s) (if landed then cy_applied s ++ all else cy_applied s) (cy_sat s))
      | OSkipped => match new with [] => Some s | _ => None end      (* no handler runs *)
      | OGone => Some (mkCy [] (cy_applied s) (cy_sat s))
      | ODeleted => Some (mkCy [] (cy_applied s) (cy_sat s))
      end
  end.

Fixpoint cy_run (s : cy_state) (tr : list cy_label) : option cy_state :=
  match tr with
  | [] => Some s
  | l :: tr' => match cy_step s l with Some s' => cy_run s' tr' | None => None end
  end.

(* the object (and with it the per-object memory) survives the cycle *)
Definition cy_keeps (l : cy_label) : bool :=
  match l with Cyc _ OGone | Cyc _ ODeleted => false | _ => true end.

(* no batch is accepted by the server and then reported as failed *)
Definition cy_clean (l : cy_label) : bool :=
  match l with Cyc _ (OConflict true) | Cyc _ (ORaised true) => false | _ => true end.

Definition cy_new (l : cy_label) : list nat := match l with Cyc new _ => new end.

Definition cy_known (s : cy_state) : list nat := cy_mem s ++ cy_applied s ++ cy_sat s.

(* the handlers append function objects which are not around yet (fresh identities) *)
Fixpoint cy_nodup (l : list nat) : bool :=
  match l with [] => true | x :: l' => negb (existsb (Nat.eqb x) l') && cy_nodup l' end.
Definition cy_disjoint (a b : list nat) : bool := forallb (fun x => negb (existsb (Nat.eqb x) b)) a.
Definition cy_fresh (s : cy_state) (l : cy_label) : bool :=
  cy_nodup (cy_new l) && cy_disjoint (cy_new l) (cy_known s).

Fixpoint cy_run_fresh (s : cy_state) (tr : list cy_label) : option cy_state :=
  match tr with
  | [] => Some s
  | l :: tr' =>
      if cy_fresh s l then match cy_step s l with Some s' => cy_run_fresh s' tr' | None => None end else None
  end.

(* ---------- the acceptor of the trace tie ---------- *)
(* observed after each cycle on the implementation: the identities in memory.remaining_patch.fns (in order) and,
   while the object exists, the effects present on the server object (in order of first appearance) *)
Record cy_obs := mkObs { ob_mem : list nat; ob_effects : option (list nat) }.

Fixpoint cy_dedup (l : list nat) (seen : list nat) : list nat :=
  match l with
  | [] => []
  | x :: l' => if existsb (Nat.eqb x) seen then cy_dedup l' seen else x :: cy_dedup l' (x :: seen)
  end.

Definition cy_list_eqb (a b : list nat) : bool :=
  Nat.eqb (length a) (length b) && forallb (fun p => Nat.eqb (fst p) (snd p)) (combine a b).

(* identities from [cy_untracked] on belong to 'ensure'-style transformations (no-ops on the body the operator knows): their
   effect cannot be attributed to one identity on the server object, so only the memory is compared for them *)
Definition cy_untracked : nat := 1000.

Definition cy_obs_ok (s : cy_state) (o : cy_obs) : bool :=
  cy_list_eqb (cy_mem s) (ob_mem o) &&
  match ob_effects o with
  | Some e => cy_list_eqb (filter (fun x => Nat.ltb x cy_untracked) (cy_dedup (cy_applied s) [])) e
  | None => true
  end.

(* number of the first cycle which the model does not accept (label not enabled, or a different memory / different
   effects afterwards); None = the whole trace is accepted *)
Fixpoint cy_accept_from (n : nat) (s : cy_state) (tr : list (cy_label * cy_obs)) : option nat :=
  match tr with
  | [] => None
  | (l, o) :: tr' =>
      match cy_step s l with
      | Some s' => if cy_obs_ok s' o then cy_accept_from (S n) s' tr' else Some n
      | None => Some n
      end
  end.
Definition cy_accepts (tr : list (cy_label * cy_obs)) : bool :=
  match cy_accept_from 0 cy_init tr with None => true | Some _ => false end.
