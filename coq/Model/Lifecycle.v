(* C20 — operator lifecycle.  Executable model (definitions only) of
     kopf/_core/reactor/running.py   spawn_tasks / run_tasks / startup_cleanup_activities /
                                     stop_flag_checker / ultimate_termination
     kopf/_cogs/aiokits/aiotasks.py  guard (flag wait, cancel while waiting), stop, wait, reraise, all_tasks
     kopf/_core/reactor/orchestration.py  orchestrator (Ensemble children are stopped only on its cancellation)
     kopf/_core/reactor/queueing.py  watcher (worker error -> self-cancel -> RuntimeError; depletion, close)
     kopf/_core/engines/daemons.py   daemon_killer (finally-sweep), stop_daemon (backoff, cancel, abandon)
     kopf/_core/engines/peering.py   keepalive (final touch in `finally`)
   as a labelled transition system `step : state -> label -> option state` (partial, deterministic
   given the label).  asyncio facts used: `task.cancel()` is delivered at the task's next step
   (modelled atomically with the request), a `for t in tasks: t.cancel()` loop is atomic, and there is
   no suspension point between `run_activity(STARTUP)` returning, `started_flag.set()` and
   `raise_flag(ready_flag)` (labels StartupOk / Flag; a cancellation cannot fall between them).
   User code (startup / cleanup / login handlers, daemons, resource handlers) is not modelled:
   its outcomes are the labels StartupOk / StartupFail / CleanupOk / CleanupFail / Fail t / Finish t. *)
From Coq Require Import List Bool Arith.
Import ListNotations.

(* ------------------------------------------------------------------ tasks *)

(* the root tasks created by spawn_tasks, in creation order (liveness endpoint not configured,
   no _command): *)
Inductive root :=
| RStopper     (* "stop-flag checker"              unguarded *)
| RUltimate    (* "ultimate termination"           unguarded *)
| RAct         (* "startup/cleanup activities"     unguarded *)
| RKiller      (* "daemon killer"                  guarded by started_flag *)
| RPoster      (* "poster of events"               guarded *)
| RAdmChain | RAdmVal | RAdmMut | RAdmSrv   (* admission tasks, guarded *)
| RResObs      (* "resource observer"              guarded *)
| RNsObs       (* "namespace observer"             guarded *)
| ROrch.       (* "multidimensional multitasker"   guarded *)

Inductive task :=
| TRoot (r : root)
| TAuth                    (* "credentials retriever": the core task, NOT a root task *)
| TWaiter                  (* "stop-flag waiter": child of the stop-flag checker, never cancelled by it *)
| TWatcher (w : nat)       (* queueing.watcher of a resource or of the peering resource (Ensemble) *)
| TKeepalive (k : nat)     (* peering.keepalive (Ensemble) *)
| TWorker (w n : nat)      (* queueing.worker spawned by watcher w through its Scheduler *)
| TDaemon (d : nat).       (* daemons._runner *)

Inductive err := EOf (t : task) | EStartup | ECleanup.
Inductive outcome := OOk | OErr (e : err) | OCancelled.

Inductive phase :=
| PAbsent                  (* not created (yet) *)
| PWaitFlag                (* inside aiotasks.guard: `await flag.wait()` *)
| PRun                     (* the body runs *)
| PCancelW                 (* cancelled while waiting for the flag: the body will never run *)
| PEnding (o : outcome)    (* cancelled or failed; running its except/finally code; will end with o *)
| PDone (o : outcome).

(* where startup_cleanup_activities stands *)
Inductive aphase :=
| AStartup                 (* run_activity(STARTUP): rounds of execute_handlers_once until every handler is finished *)
| AStartupBad              (* ... still in its rounds, but some handler has already failed for good (its outcome stays
                              in the merged `outcomes`: the activity can only end with ActivityError) *)
| AFlag                    (* it returned; started_flag.set() / raise_flag(ready_flag) are next, no await between *)
| ASleep                   (* asyncio.Event().wait() *)
| AWaitRoots               (* aiotasks.wait(all other root tasks) *)
| AStopCore (p : option outcome)  (* finally: aiotasks.stop(core_tasks); p = what is in flight (None: nothing) *)
| ACleanup                 (* core stopped, nothing in flight: CLEANUP is next *)
| ACleanupRun              (* run_activity(CLEANUP) *)
| AEnd.

Inductive result := ROk | RErr (e : err) | RCancelled.

(* what one invocation of a startup handler ended with (user code: an oracle) *)
Inductive hres := HOk | HTemp (* retried in a later round *) | HPerm (* PermanentError / retries exhausted: final *).

(* where run_tasks stands *)
Inductive mphase :=
| MWait                    (* aiotasks.wait(root_tasks, FIRST_COMPLETED) *)
| MStopRoots               (* aiotasks.stop(root_pending) *)
| MWaitHung                (* aiotasks.wait(hung_tasks, timeout=5) *)
| MStopHung                (* aiotasks.stop(hung_pending) *)
| MCStopRoots              (* cancelled in MWait: aiotasks.stop(root_tasks, cancelled=True) *)
| MCStopHung               (* ... aiotasks.stop(hung_tasks, cancelled=True), then re-raise *)
| MReturned (r : result).

Inductive grace :=
| GHung                    (* the 5 s of run_tasks *)
| GExit (w : nat)          (* settings.queueing.exit_timeout of watcher w (then Scheduler.close cancels the workers) *)
| GBackoff (d : nat)       (* instant-exit wait + cancellation_backoff of daemon d, then task.cancel() *)
| GAbandon (d : nat).      (* cancellation_timeout of daemon d (or none configured): left orphaned *)

Inductive label :=
| StartupOk | StartupFail | Flag
| StopFlag                 (* environment: the stop flag is set *)
| Cancel                   (* environment: the task awaiting kopf.operator() is cancelled *)
| Spawn (t by_ : task)
| Api (t : task)           (* a request to the Kubernetes API made by task t *)
| Withdraw (k : nat)       (* keepalive's final touch(lifetime=0), successful or not *)
| Fail (t : task)          (* an exception escapes the body of t *)
| Finish (t : task) (o : outcome)   (* the asyncio task of t is done *)
| MainStop                 (* run_tasks: FIRST_COMPLETED returned; cancels the pending roots *)
| RootsStopped             (* run_tasks: all roots done; snapshot of the hung tasks *)
| HungDone                 (* run_tasks: all hung tasks finished within the 5 s *)
| GraceTimeout (g : grace)
| Return (r : result)
| Sweep                    (* daemon_killer's finally: snapshot of the running daemons; each of them is asked to stop *)
| OrchStop                 (* orchestrator's except CancelledError: aiotasks.stop(ensemble tasks) *)
| ActRootsGone             (* startup_cleanup: wait(other roots) returned; stop(core_tasks) *)
| CoreStopped              (* startup_cleanup: stop(core_tasks) returned; reraise(core_done) *)
| CleanupBegin | CleanupOk | CleanupFail
| IsDone (t : task) (o : outcome)   (* observation only: t is done with o *)
| Cancelled (t : task)              (* observation only: a cancellation of t has been requested *)
| StartupHandler (h : nat) (r : hres)    (* startup handler h invoked in some round of run_activity, ending with r *)
| Signal.                  (* environment: SIGINT/SIGTERM -> signal_flag.set_result: the stop-flag checker's asyncio.wait
                              returns; unlike StopFlag the "stop-flag waiter" stays pending (a hung task later) *)

(* ------------------------------------------------------------------ decidable equalities *)

Definition root_idx (r : root) : nat :=
  match r with
  | RStopper => 0 | RUltimate => 1 | RAct => 2 | RKiller => 3 | RPoster => 4 | RAdmChain => 5
  | RAdmVal => 6 | RAdmMut => 7 | RAdmSrv => 8 | RResObs => 9 | RNsObs => 10 | ROrch => 11
  end.
Definition root_eqb (a b : root) : bool := Nat.eqb (root_idx a) (root_idx b).

Definition task_eqb (a b : task) : bool :=
  match a, b with
  | TRoot x, TRoot y => root_eqb x y
  | TAuth, TAuth => true
  | TWaiter, TWaiter => true
  | TWatcher x, TWatcher y => Nat.eqb x y
  | TKeepalive x, TKeepalive y => Nat.eqb x y
  | TWorker x n, TWorker y m => Nat.eqb x y && Nat.eqb n m
  | TDaemon x, TDaemon y => Nat.eqb x y
  | _, _ => false
  end.

Definition err_eqb (a b : err) : bool :=
  match a, b with
  | EOf x, EOf y => task_eqb x y
  | EStartup, EStartup => true
  | ECleanup, ECleanup => true
  | _, _ => false
  end.

Definition outcome_eqb (a b : outcome) : bool :=
  match a, b with
  | OOk, OOk => true
  | OErr x, OErr y => err_eqb x y
  | OCancelled, OCancelled => true
  | _, _ => false
  end.

Definition result_eqb (a b : result) : bool :=
  match a, b with
  | ROk, ROk => true
  | RErr x, RErr y => err_eqb x y
  | RCancelled, RCancelled => true
  | _, _ => false
  end.

Definition grace_eqb (a b : grace) : bool :=
  match a, b with
  | GHung, GHung => true
  | GExit x, GExit y => Nat.eqb x y
  | GBackoff x, GBackoff y => Nat.eqb x y
  | GAbandon x, GAbandon y => Nat.eqb x y
  | _, _ => false
  end.

Definition mem_nat (x : nat) (l : list nat) : bool := existsb (Nat.eqb x) l.
Definition mem_task (x : task) (l : list task) : bool := existsb (task_eqb x) l.
Definition mem_grace (x : grace) (l : list grace) : bool := existsb (grace_eqb x) l.

(* ------------------------------------------------------------------ static structure *)

Definition all_roots : list root :=
  [RStopper; RUltimate; RAct; RKiller; RPoster; RAdmChain; RAdmVal; RAdmMut; RAdmSrv; RResObs; RNsObs; ROrch].

(* created through aiotasks.create_guarded_task(flag=started_flag) *)
Definition guarded (r : root) : bool :=
  match r with RStopper | RUltimate | RAct => false | _ => true end.

(* tasks that contain a call site of the Kubernetes API client *)
Definition api_capable (t : task) : bool :=
  match t with
  | TRoot (RPoster | RAdmVal | RAdmMut | RResObs | RNsObs) => true
  | TWatcher _ | TKeepalive _ | TWorker _ _ | TDaemon _ => true
  | _ => false
  end.

(* what the asyncio task ends with when its body is cancelled *)
Definition cancel_outcome (t : task) : outcome :=
  match t with
  | TRoot RStopper | TRoot RUltimate => OOk      (* `except CancelledError: pass` *)
  | _ => OCancelled
  end.

Definition is_ensemble (t : task) : bool :=
  match t with TWatcher _ | TKeepalive _ => true | _ => false end.
Definition is_worker_of (w : nat) (t : task) : bool :=
  match t with TWorker w' _ => Nat.eqb w w' | _ => false end.
Definition is_daemon (t : task) : bool := match t with TDaemon _ => true | _ => false end.

(* ------------------------------------------------------------------ state *)

Record state := mk {
  ph : task -> phase;
  spawned : list task;       (* dynamic tasks created so far (newest first) *)
  act : aphase;
  mn : mphase;
  started : bool;            (* started_flag *)
  ready : bool;              (* ready_flag *)
  stopflag : bool;
  sfailed : bool;            (* the startup activity failed *)
  swept : bool;              (* daemon_killer ran its finally-sweep *)
  ostopped : bool;           (* orchestrator stopped its ensemble *)
  asked : list nat;          (* daemons whose stopper was set by the sweep *)
  abandoned : list nat;
  graces : list grace;       (* grace periods consumed *)
  withdrawn : list nat;      (* keepalives that made their final touch *)
  hung : list task           (* run_tasks' snapshot of all_tasks() *)
}.

Definition upd (f : task -> phase) (t : task) (p : phase) : task -> phase :=
  fun x => if task_eqb x t then p else f x.

Definition init_ph (t : task) : phase :=
  match t with
  | TRoot r => if guarded r then PWaitFlag else PRun
  | TAuth => PWaitFlag
  | TWaiter => PRun
  | _ => PAbsent
  end.

Definition init : state :=
  mk init_ph [] AStartup MWait false false false false false false [] [] [] [] [].

Definition set_ph (s : state) (f : task -> phase) : state :=
  mk f (spawned s) (act s) (mn s) (started s) (ready s) (stopflag s) (sfailed s) (swept s) (ostopped s)
     (asked s) (abandoned s) (graces s) (withdrawn s) (hung s).
Definition set_act (s : state) (a : aphase) : state :=
  mk (ph s) (spawned s) a (mn s) (started s) (ready s) (stopflag s) (sfailed s) (swept s) (ostopped s)
     (asked s) (abandoned s) (graces s) (withdrawn s) (hung s).
Definition set_mn (s : state) (m : mphase) : state :=
  mk (ph s) (spawned s) (act s) m (started s) (ready s) (stopflag s) (sfailed s) (swept s) (ostopped s)
     (asked s) (abandoned s) (graces s) (withdrawn s) (hung s).
Definition set_hung (s : state) (h : list task) : state :=
  mk (ph s) (spawned s) (act s) (mn s) (started s) (ready s) (stopflag s) (sfailed s) (swept s) (ostopped s)
     (asked s) (abandoned s) (graces s) (withdrawn s) h.
Definition add_grace (s : state) (g : grace) : state :=
  mk (ph s) (spawned s) (act s) (mn s) (started s) (ready s) (stopflag s) (sfailed s) (swept s) (ostopped s)
     (asked s) (abandoned s) (g :: graces s) (withdrawn s) (hung s).

Definition is_done (p : phase) : bool := match p with PDone _ => true | _ => false end.
Definition is_live (p : phase) : bool := match p with PAbsent | PDone _ => false | _ => true end.
Definition runs (p : phase) : bool := match p with PRun | PEnding _ => true | _ => false end.
Definition cancel_seen (p : phase) : bool :=
  match p with PCancelW | PEnding _ | PDone _ => true | _ => false end.
Definition failed_with (p : phase) : option err := match p with PDone (OErr e) => Some e | _ => None end.

Definition all_done (f : task -> phase) (ts : list task) : bool := forallb (fun t => is_done (f t)) ts.
Definition root_tasks : list task := map TRoot all_roots.
Definition other_roots : list task := filter (fun t => negb (task_eqb t (TRoot RAct))) root_tasks.

(* task.cancel() on a task other than RAct: only its own phase changes *)
Definition cancel_phase (t : task) (p : phase) : phase :=
  match p with
  | PWaitFlag => PCancelW
  | PRun => PEnding (cancel_outcome t)
  | _ => p
  end.

Definition cancel_in (f : task -> phase) (ts : list task) : task -> phase :=
  fun x => if mem_task x ts then cancel_phase x (f x) else f x.

(* task.cancel() on "startup/cleanup activities" *)
Definition cancel_act (s : state) : option state :=
  match ph s (TRoot RAct) with
  | PRun =>
    match act s with
    | AStartup | AStartupBad | AWaitRoots =>     (* CancelledError is re-raised; finally: stop(core_tasks) *)
        Some (set_act (set_ph s (cancel_in (ph s) [TAuth])) (AStopCore (Some OCancelled)))
    | AFlag => None                (* no suspension point there *)
    | ASleep => Some (set_act s AWaitRoots)          (* `except CancelledError: pass` *)
    | AStopCore _ | ACleanup | ACleanupRun =>        (* "not executed at all" / "only partially executed" *)
        Some (set_act (set_ph s (upd (ph s) (TRoot RAct) (PDone OCancelled))) AEnd)
    | AEnd => Some s
    end
  | _ => Some s
  end.

(* `for task in tasks: task.cancel()` over the root tasks *)
Definition cancel_roots (s : state) : option state :=
  cancel_act (set_ph s (cancel_in (ph s) other_roots)).

(* asyncio.all_tasks() minus the roots (all done by then), minus the caller *)
Definition live_tasks (s : state) : list task :=
  filter (fun t => is_live (ph s t)) (TAuth :: TWaiter :: spawned s).

Definition first_error (f : task -> phase) (ts : list task) (e : err) : bool :=
  existsb (fun t => match failed_with (f t) with Some e' => err_eqb e e' | None => false end) ts.
Definition no_error (f : task -> phase) (ts : list task) : bool :=
  forallb (fun t => match failed_with (f t) with Some _ => false | None => true end) ts.

(* can t be created by `by_`? *)
Definition may_spawn (s : state) (t by_ : task) : bool :=
  negb (mem_task t (spawned s)) && runs (ph s by_) &&
  match ph s t with PAbsent => true | _ => false end &&
  match t, by_ with
  | TWatcher _, TRoot ROrch => negb (ostopped s)     (* once in `except CancelledError: aiotasks.stop(...)` *)
  | TKeepalive _, TRoot ROrch => negb (ostopped s)   (* the orchestrator adjusts no tasks any more *)
  | TWorker w _, TWatcher w' => Nat.eqb w w'
  | TDaemon _, TWorker _ _ => true
  | _, _ => false
  end.

(* what the completion of the asyncio task of t additionally requires *)
Definition finish_ready (s : state) (t : task) (o : outcome) : bool :=
  match t with
  | TRoot ROrch =>
      match o with
      | OCancelled => ostopped s && all_done (ph s) (filter is_ensemble (spawned s))
      | _ => true
      end
  | TRoot RKiller =>
      (* whatever ends the body (cancellation or an error), the finally block sweeps over SNAPSHOTS of the memories
         and running daemons (since c948bdc) and then awaits its stoppers: scheduler.wait(), scheduler.close() *)
      swept s && forallb (fun d => is_done (ph s (TDaemon d)) || mem_nat d (abandoned s)) (asked s)
  | TRoot RAct => false        (* has its own labels *)
  | TWatcher w => all_done (ph s) (filter (is_worker_of w) (spawned s))
  | TKeepalive k => mem_nat k (withdrawn s)
  | _ => true
  end.

Definition step (s : state) (l : label) : option state :=
  match l with
  | StartupOk =>
      match act s, ph s (TRoot RAct) with
      | AStartup, PRun => Some (set_act s AFlag)
      | _, _ => None
      end
  | Flag =>
      match act s with
      | AFlag =>
          let f := fun x => match ph s x with PWaitFlag => PRun | p => p end in
          Some (mk f (spawned s) ASleep (mn s) true true (stopflag s) (sfailed s) (swept s) (ostopped s)
                   (asked s) (abandoned s) (graces s) (withdrawn s) (hung s))
      | _ => None
      end
  | StartupFail =>
      match act s, ph s (TRoot RAct) with
      | AStartup, PRun | AStartupBad, PRun =>
          Some (mk (cancel_in (ph s) [TAuth]) (spawned s) (AStopCore (Some (OErr EStartup))) (mn s)
                   (started s) (ready s) (stopflag s) true (swept s) (ostopped s)
                   (asked s) (abandoned s) (graces s) (withdrawn s) (hung s))
      | _, _ => None
      end
  | StopFlag =>
      if stopflag s then None else
      Some (mk (ph s) (spawned s) (act s) (mn s) (started s) (ready s) true (sfailed s) (swept s) (ostopped s)
               (asked s) (abandoned s) (graces s) (withdrawn s) (hung s))
  | Cancel =>
      match mn s with
      | MWait => match cancel_roots s with Some s' => Some (set_mn s' MCStopRoots) | None => None end
      | MWaitHung => Some (set_mn (set_ph s (cancel_in (ph s) (hung s))) MCStopHung)
      | MStopRoots | MStopHung | MCStopRoots | MCStopHung => Some (set_mn s (MReturned RCancelled))
      | MReturned _ => None
      end
  | Spawn t by_ =>
      if may_spawn s t by_
      then Some (mk (upd (ph s) t PRun) (t :: spawned s) (act s) (mn s) (started s) (ready s) (stopflag s)
                    (sfailed s) (swept s) (ostopped s) (asked s) (abandoned s) (graces s) (withdrawn s) (hung s))
      else None
  | Api t => if api_capable t && runs (ph s t) then Some s else None
  | Withdraw k =>
      match ph s (TKeepalive k) with
      | PEnding _ =>
          if mem_nat k (withdrawn s) then None else
          Some (mk (ph s) (spawned s) (act s) (mn s) (started s) (ready s) (stopflag s) (sfailed s) (swept s)
                   (ostopped s) (asked s) (abandoned s) (graces s) (k :: withdrawn s) (hung s))
      | _ => None
      end
  | Fail t =>
      match t, ph s t with
      | TRoot RAct, _ => None
      | _, PRun => Some (set_ph s (upd (ph s) t (PEnding (OErr (EOf t)))))
      | _, _ => None
      end
  | Finish t o =>
      let ok :=
        match ph s t with
        | PEnding o' =>
            (* a cancelled daemon may still return normally: kopf's runner, not asyncio, decides its outcome *)
            (outcome_eqb o o' || (is_daemon t && outcome_eqb o OOk)) && finish_ready s t o
        | PCancelW => outcome_eqb o OCancelled
        | PRun =>
            outcome_eqb o OOk &&
            match t with
            | TWaiter => stopflag s
            | TRoot RStopper => stopflag s && is_done (ph s TWaiter)
            | TWorker _ _ | TDaemon _ => true       (* idle exit / EOS; a daemon returning on its own *)
            | _ => false
            end
        | _ => false
        end in
      if negb ok then None else
      let f := upd (ph s) t (PDone o) in
      match t, o with
      | TWorker w _, OErr _ =>
          (* Scheduler._task_done_callback -> exception_handler: worker_error set, watcher cancels itself
             and, if it was still in its stream loop, re-raises as RuntimeError *)
          match ph s (TWatcher w) with
          | PRun => Some (set_ph s (upd f (TWatcher w) (PEnding (OErr (EOf (TWatcher w))))))
          | _ => Some (set_ph s f)
          end
      | _, _ => Some (set_ph s f)
      end
  | MainStop =>
      match mn s with
      | MWait =>
          if existsb (fun t => is_done (ph s t)) root_tasks
          then match cancel_roots s with Some s' => Some (set_mn s' MStopRoots) | None => None end
          else None
      | _ => None
      end
  | RootsStopped =>
      if all_done (ph s) root_tasks then
        match mn s with
        | MStopRoots => Some (set_mn (set_hung s (live_tasks s)) MWaitHung)
        | MCStopRoots =>
            let h := live_tasks s in
            Some (set_mn (set_hung (set_ph s (cancel_in (ph s) h)) h) MCStopHung)
        | _ => None
        end
      else None
  | HungDone =>
      match mn s with
      | MWaitHung => if all_done (ph s) (hung s) then Some (set_mn s MStopHung) else None
      | _ => None
      end
  | GraceTimeout g =>
      if mem_grace g (graces s) then None else
      match g with
      | GHung =>
          match mn s with
          | MWaitHung => Some (add_grace (set_mn (set_ph s (cancel_in (ph s) (hung s))) MStopHung) g)
          | _ => None
          end
      | GExit w =>
          match ph s (TWatcher w) with
          | PEnding _ => Some (add_grace (set_ph s (cancel_in (ph s) (filter (is_worker_of w) (spawned s)))) g)
          | _ => None
          end
      | GBackoff d =>
          match ph s (TDaemon d) with
          | PRun => if mem_nat d (asked s)
                    then Some (add_grace (set_ph s (upd (ph s) (TDaemon d) (PEnding OCancelled))) g)
                    else None
          | _ => None
          end
      | GAbandon d =>
          if mem_nat d (asked s) && negb (is_done (ph s (TDaemon d))) then
            Some (mk (ph s) (spawned s) (act s) (mn s) (started s) (ready s) (stopflag s) (sfailed s) (swept s)
                     (ostopped s) (asked s) (d :: abandoned s) (g :: graces s) (withdrawn s) (hung s))
          else None
      end
  | Return r =>
      match mn s with
      | MStopHung =>
          let ts := root_tasks ++ hung s in
          if all_done (ph s) (hung s) &&
             match r with
             | ROk => no_error (ph s) ts
             | RErr e => first_error (ph s) ts e
             | RCancelled => false
             end
          then Some (set_mn s (MReturned r)) else None
      | MCStopHung =>
          if all_done (ph s) (hung s) && result_eqb r RCancelled then Some (set_mn s (MReturned r)) else None
      | _ => None
      end
  | Sweep =>
      match ph s (TRoot RKiller) with
      | PEnding _ =>
          if swept s then None else
          let ds := flat_map (fun t => match t with
                                       | TDaemon d => if is_live (ph s t) then [d] else []
                                       | _ => [] end) (spawned s) in
          Some (mk (ph s) (spawned s) (act s) (mn s) (started s) (ready s) (stopflag s) (sfailed s) true
                   (ostopped s) (ds ++ asked s) (abandoned s) (graces s) (withdrawn s) (hung s))
      | _ => None
      end
  | OrchStop =>
      match ph s (TRoot ROrch) with
      | PEnding OCancelled =>
          if ostopped s then None else
          Some (mk (cancel_in (ph s) (filter is_ensemble (spawned s))) (spawned s) (act s) (mn s) (started s)
                   (ready s) (stopflag s) (sfailed s) (swept s) true (asked s) (abandoned s) (graces s)
                   (withdrawn s) (hung s))
      | _ => None
      end
  | ActRootsGone =>
      match act s, ph s (TRoot RAct) with
      | AWaitRoots, PRun =>
          if all_done (ph s) other_roots
          then Some (set_act (set_ph s (cancel_in (ph s) [TAuth])) (AStopCore None))
          else None
      | _, _ => None
      end
  | CoreStopped =>
      match act s, ph s (TRoot RAct), ph s TAuth with
      | AStopCore p, PRun, PDone oa =>
          match oa, p with
          | OErr e, _ => Some (set_act (set_ph s (upd (ph s) (TRoot RAct) (PDone (OErr e)))) AEnd)   (* reraise(core_done) *)
          | _, None => Some (set_act s ACleanup)
          | _, Some o => Some (set_act (set_ph s (upd (ph s) (TRoot RAct) (PDone o))) AEnd)
          end
      | _, _, _ => None
      end
  | CleanupBegin =>
      match act s, ph s (TRoot RAct) with
      | ACleanup, PRun => Some (set_act s ACleanupRun)
      | _, _ => None
      end
  | CleanupOk =>
      match act s, ph s (TRoot RAct) with
      | ACleanupRun, PRun => Some (set_act (set_ph s (upd (ph s) (TRoot RAct) (PDone OOk))) AEnd)
      | _, _ => None
      end
  | CleanupFail =>
      match act s, ph s (TRoot RAct) with
      | ACleanupRun, PRun => Some (set_act (set_ph s (upd (ph s) (TRoot RAct) (PDone (OErr ECleanup)))) AEnd)
      | _, _ => None
      end
  | IsDone t o =>
      match ph s t with PDone o' => if outcome_eqb o o' then Some s else None | _ => None end
  | Cancelled t => if cancel_seen (ph s t) then Some s else None
  | StartupHandler _ r =>
      match act s, ph s (TRoot RAct) with
      | AStartup, PRun => Some (match r with HPerm => set_act s AStartupBad | _ => s end)
      | AStartupBad, PRun => Some s
      | _, _ => None
      end
  | Signal =>
      match ph s (TRoot RStopper) with
      | PRun => Some (set_ph s (upd (ph s) (TRoot RStopper) (PEnding OOk)))
      | _ => Some s            (* the checker is past its asyncio.wait (finishing, done, cancelled): nobody listens, no effect *)
      end
  end.

Fixpoint run (s : state) (tr : list label) : option state :=
  match tr with
  | [] => Some s
  | l :: tr' => match step s l with Some s' => run s' tr' | None => None end
  end.

(* index of the first rejected label (diagnostics for the trace tie) *)
Fixpoint rejected_at (s : state) (tr : list label) (i : nat) : option nat :=
  match tr with
  | [] => None
  | l :: tr' => match step s l with Some s' => rejected_at s' tr' (S i) | None => Some i end
  end.

Definition accepts (tr : list label) : bool := match run init tr with Some _ => true | None => false end.

(* final-state abstraction compared with the implementation at the end of a recorded run *)
Definition returned_with (tr : list label) (r : result) : bool :=
  match run init tr with
  | Some s => match mn s with MReturned r' => result_eqb r r' | _ => false end
  | None => false
  end.
Definition still_waiting (tr : list label) : bool :=
  match run init tr with
  | Some s => match mn s with MWait => true | _ => false end
  | None => false
  end.

(* ------------------------------------------------------------------ internal labels (what the operator does
   by itself, given that cancelled user code terminates) — used by the no-lingering theorems *)

Definition internal_candidates (s : state) : list label :=
  [MainStop; RootsStopped; HungDone; GraceTimeout GHung; Sweep; OrchStop; ActRootsGone; CoreStopped;
   CleanupBegin; CleanupOk; Flag]
  ++ flat_map (fun t => match ph s t with
                        | PEnding o => [Finish t o]
                        | PCancelW => [Finish t OCancelled]
                        | PRun => if is_daemon t then [] else [Finish t OOk]   (* a daemon returning is user code *)
                        | _ => [] end) (root_tasks ++ TAuth :: TWaiter :: spawned s)
  ++ flat_map (fun t => match t with
                        | TKeepalive k => [Withdraw k]
                        | TWatcher w => [GraceTimeout (GExit w)]
                        | TDaemon d => [GraceTimeout (GBackoff d); GraceTimeout (GAbandon d)]
                        | _ => [] end) (spawned s)
  ++ [Return ROk; Return RCancelled]
  ++ flat_map (fun t => match failed_with (ph s t) with Some e => [Return (RErr e)] | None => [] end)
              (root_tasks ++ hung s).

Definition enabled (s : state) (l : label) : bool := match step s l with Some _ => true | None => false end.
Definition internal_enabled (s : state) : list label := filter (enabled s) (internal_candidates s).
Definition quiescent (s : state) : bool := match internal_enabled s with [] => true | _ => false end.

Definition returned (s : state) : bool := match mn s with MReturned _ => true | _ => false end.

(* ------------------------------------------------------------------ a variant for the shutdown: every internal step
   strictly decreases it, no step other than Spawn increases it (Proofs/Lifecycle.v); it bounds the number of steps the
   operator still makes by itself, given the tasks that exist *)

Definition all_tasks_of (s : state) : list task := root_tasks ++ TAuth :: TWaiter :: spawned s.

Definition w_phase (p : phase) : nat :=
  match p with PAbsent => 0 | PWaitFlag => 4 | PRun => 3 | PEnding _ => 2 | PCancelW => 1 | PDone _ => 0 end.
Definition w_main (m : mphase) : nat :=
  match m with MWait => 5 | MStopRoots | MCStopRoots => 4 | MWaitHung => 3 | MStopHung | MCStopHung => 2 | MReturned _ => 0 end.
Definition w_act (a : aphase) : nat :=
  match a with
  | AStartup => 10 | AStartupBad => 9 | AFlag => 8 | ASleep => 7 | AWaitRoots => 6 | AStopCore _ => 5
  | ACleanup => 4 | ACleanupRun => 3 | AEnd => 0
  end.
Definition b2n (b : bool) : nat := if b then 0 else 1.      (* 1 while something is still to be done *)

Definition sum_over {A} (f : A -> nat) (l : list A) : nat := fold_right (fun x acc => f x + acc) 0 l.

Definition graces_of (t : task) : list grace :=
  match t with
  | TWatcher w => [GExit w]
  | TDaemon d => [GBackoff d; GAbandon d]
  | _ => []
  end.

Definition mu (s : state) : nat :=
  w_main (mn s) + w_act (act s)
  + sum_over (fun t => w_phase (ph s t)) (all_tasks_of s)
  + b2n (swept s) + b2n (ostopped s)
  + sum_over (fun t => match t with TKeepalive k => b2n (mem_nat k (withdrawn s)) | _ => 0 end) (spawned s)
  + b2n (mem_grace GHung (graces s))
  + sum_over (fun t => sum_over (fun g => b2n (mem_grace g (graces s))) (graces_of t)) (spawned s).

(* shutdown has begun: run_tasks is past its FIRST_COMPLETED wait, or some root task is done (so it will be) *)
Definition shutdown_begun (s : state) : bool :=
  match mn s with MWait => existsb (fun t => is_done (ph s t)) root_tasks | _ => true end.

(* a deterministic "scheduler": always perform the first enabled internal step *)
Fixpoint drive (n : nat) (s : state) : state :=
  match n with
  | 0 => s
  | S n' => match internal_enabled s with
            | l :: _ => match step s l with Some s' => drive n' s' | None => s end
            | [] => s
            end
  end.

(* ------------------------------------------------------------------ decidable equality of labels (harness ties only) *)

Definition hres_eqb (a b : hres) : bool :=
  match a, b with HOk, HOk | HTemp, HTemp | HPerm, HPerm => true | _, _ => false end.

Definition label_eqb (a b : label) : bool :=
  match a, b with
  | StartupOk, StartupOk | StartupFail, StartupFail | Flag, Flag | StopFlag, StopFlag | Cancel, Cancel
  | MainStop, MainStop | RootsStopped, RootsStopped | HungDone, HungDone | Sweep, Sweep | OrchStop, OrchStop
  | ActRootsGone, ActRootsGone | CoreStopped, CoreStopped | CleanupBegin, CleanupBegin | CleanupOk, CleanupOk
  | CleanupFail, CleanupFail | Signal, Signal => true
  | Spawn t b, Spawn t' b' => task_eqb t t' && task_eqb b b'
  | Api t, Api t' => task_eqb t t'
  | Withdraw k, Withdraw k' => Nat.eqb k k'
  | Fail t, Fail t' => task_eqb t t'
  | Finish t o, Finish t' o' => task_eqb t t' && outcome_eqb o o'
  | GraceTimeout g, GraceTimeout g' => grace_eqb g g'
  | Return r, Return r' => result_eqb r r'
  | IsDone t o, IsDone t' o' => task_eqb t t' && outcome_eqb o o'
  | Cancelled t, Cancelled t' => task_eqb t t'
  | StartupHandler h r, StartupHandler h' r' => Nat.eqb h h' && hres_eqb r r'
  | _, _ => false
  end.

(* labels that are the environment's or user code's doing, or pure observations: everything else the operator does by
   itself and must be one of the internal candidates of the state it happens in *)
Definition external (l : label) : bool :=
  match l with
  | StartupOk | StartupFail | StopFlag | Cancel | Signal | Spawn _ _ | Api _ | Fail _ | CleanupFail
  | IsDone _ _ | Cancelled _ | StartupHandler _ _ => true
  | Finish (TDaemon _) OOk => true          (* a daemon returning: user code *)
  | _ => false
  end.

(* trace tie for the notion "internal": replay, and require every non-external label to be an internal candidate *)
Fixpoint internal_ok (s : state) (tr : list label) : bool :=
  match tr with
  | [] => true
  | l :: tr' =>
      (external l || existsb (label_eqb l) (internal_candidates s)) &&
      match step s l with Some s' => internal_ok s' tr' | None => false end
  end.

(* ... and where the real operator was seen to do nothing more by itself, the model must be quiescent *)
Definition quiescent_after (tr : list label) : bool :=
  match run init tr with Some s => quiescent s | None => false end.
Definition driven_to_return (tr : list label) (fuel : nat) : bool :=
  match run init tr with Some s => returned (drive fuel s) | None => false end.
(* ... with the variant itself as the fuel: exercises mu on the states the real operator went through *)
Definition driven_within_mu (tr : list label) : bool :=
  match run init tr with Some s => returned (drive (mu s) s) | None => false end.
(* where the real operator lingered: the shutdown has not begun in the model either *)
Definition not_begun_after (tr : list label) : bool :=
  match run init tr with Some s => negb (shutdown_begun s) && negb (returned s) | None => false end.
