(* kopf/_cogs/structs/diffs.py : diff_iter / diff, reduce_iter / reduce, DiffOperation, DiffScope.
   Python's `==` is py_eqb (True == 1), None is JNull.  Definitions only.

   Order of items: the code iterates over frozensets of keys (hash order), so the order of the
   items inside one mapping level is unspecified; the model fixes one order and every comparison
   with the implementation is order-insensitive ([diff_sameb]).  No two items of one diff have
   the same field path, so a diff is a finite map path -> (op, old, new). *)
From Coq Require Import ZArith List String Bool Ascii.
From KV Require Import Base.Json Base.Dicts.
Import ListNotations.
Open Scope string_scope.
Open Scope list_scope.

Inductive dop : Type := DAdd | DChange | DRemove.

Record ditem : Type := mk_ditem { d_op : dop; d_field : path; d_old : json; d_new : json }.

(* DiffScope is an enum.Flag: RIGHT, LEFT, FULL = LEFT | RIGHT (and the empty flag set) *)
Record dscope : Type := mk_scope { sc_left : bool; sc_right : bool }.
Definition scope_full : dscope := mk_scope true true.
Definition scope_left : dscope := mk_scope true false.
Definition scope_right : dscope := mk_scope false true.

(* diff_iter(None, v, path) and diff_iter(v, None, path), unfolded (v == None yields nothing) *)
Definition diff_add (p : path) (v : json) : list ditem :=
  match v with JNull => [] | _ => [mk_ditem DAdd p JNull v] end.
Definition diff_rem (p : path) (v : json) : list ditem :=
  match v with JNull => [] | _ => [mk_ditem DRemove p v JNull] end.

Fixpoint diff_iter (sc : dscope) (a b : json) (p : path) {struct a} : list ditem :=
  if py_eqb a b then []                                   (* case a, b if a == b *)
  else match a, b with
       | JNull, _ => [mk_ditem DAdd p a b]                (* case None, _ *)
       | _, JNull => [mk_ditem DRemove p a b]             (* case _, None *)
       | JObj xs, JObj ys =>                              (* case Mapping(), Mapping() *)
           (if sc_right sc
            then flat_map (fun kv => if has (fst kv) xs then [] else diff_add (p ++ [fst kv]) (snd kv)) ys
            else [])
           ++ (if sc_left sc
               then flat_map (fun kv => if has (fst kv) ys then [] else diff_rem (p ++ [fst kv]) (snd kv)) xs
               else [])
           ++ (fix go (l : list (string * json)) : list ditem :=
                 match l with
                 | [] => []
                 | (k, v) :: l' =>
                     match lookup k ys with
                     | Some w => diff_iter sc v w (p ++ [k])
                     | None => []
                     end ++ go l'
                 end) xs
       | _, _ => [mk_ditem DChange p a b]                 (* case _ *)
       end.

Definition diff (a b : json) : list ditem := diff_iter scope_full a b [].

(* ---------- reduce ---------- *)
(* l = pre ++ rest  ->  Some rest *)
Fixpoint strip_prefix (pre l : path) : option path :=
  match pre, l with
  | [], _ => Some l
  | x :: pre', y :: l' => if String.eqb x y then strip_prefix pre' l' else None
  | _ :: _, [] => None
  end.

(* dicts.resolve(d, path, default=None) *)
Definition resolve_d (j : json) (p : path) : json :=
  match resolve j p with Some v => v | None => JNull end.

Definition reduce_item (it : ditem) (p : path) : list ditem :=
  match p with
  | [] => [it]                                                         (* if not path *)
  | _ =>
      match strip_prefix p (d_field it) with
      | Some rest => [mk_ditem (d_op it) rest (d_old it) (d_new it)]   (* field[:len(path)] == path *)
      | None =>
          match strip_prefix (d_field it) p with                       (* field == path[:len(field)] *)
          | Some tail => diff_iter scope_full (resolve_d (d_old it) tail) (resolve_d (d_new it) tail) []
          | None => []
          end
      end
  end.

Definition reduce (d : list ditem) (p : path) : list ditem :=
  flat_map (fun it => reduce_item it p) d.

(* ---------- comparison with the implementation (order-insensitive) ---------- *)
Definition dop_eqb (x y : dop) : bool :=
  match x, y with DAdd, DAdd | DChange, DChange | DRemove, DRemove => true | _, _ => false end.

Fixpoint path_eqb (x y : path) : bool :=
  match x, y with
  | [], [] => true
  | a :: x', b :: y' => String.eqb a b && path_eqb x' y'
  | _, _ => false
  end.

Definition ditem_eqb (x y : ditem) : bool :=
  dop_eqb (d_op x) (d_op y) && path_eqb (d_field x) (d_field y)
  && jeqb (d_old x) (d_old y) && jeqb (d_new x) (d_new y).

Definition diff_sameb (x y : list ditem) : bool :=
  Nat.eqb (List.length x) (List.length y)
  && forallb (fun i => existsb (ditem_eqb i) y) x
  && forallb (fun i => existsb (ditem_eqb i) x) y.

(* ---------- specification-only definitions (not in kopf) ---------- *)

(* write value v at path p, creating mappings on the way (a non-mapping on the way is replaced) *)
Fixpoint put (p : path) (v : json) (j : json) : json :=
  match p with
  | [] => v
  | k :: p' =>
      let o := match j with JObj kvs => kvs | _ => [] end in
      JObj (set k (put p' v (match lookup k o with Some s => s | None => JNull end)) o)
  end.

(* applying one item = writing its `new` at its field (a removal writes None: null == absent) *)
Definition apply_item (j : json) (it : ditem) : json := put (d_field it) (d_new it) j.
Definition apply_diff (d : list ditem) (j : json) : json := fold_left apply_item d j.

(* the equivalence modulo which kopf's diff is exact: Python ==, or two mappings agreeing key by
   key where a key with value None counts as absent (mappings only: lists are compared whole) *)
Inductive deq : json -> json -> Prop :=
| deq_py : forall a b, py_eqb a b = true -> deq a b
| deq_obj : forall xs ys, (forall k, deq_opt (lookup k xs) (lookup k ys)) -> deq (JObj xs) (JObj ys)
with deq_opt : option json -> option json -> Prop :=
| deq_nn : deq_opt None None
| deq_sn : deq_opt (Some JNull) None
| deq_ns : deq_opt None (Some JNull)
| deq_ss : forall v w, deq v w -> deq_opt (Some v) (Some w).
