(* The await granularity Model/Queue.v (and Model/Consistency.v) assume: literals of the skeletons
   extracted from the source by harness/kv/awaits.py.  Proofs/Queue.v proves Gen/Awaits.v equal to these. *)
From Coq Require Import List String.
From KV Require Import Gen.Awaits.
Import ListNotations.

Local Open Scope string_scope.

Definition expected_awaits_watcher : list sk :=
  [STry [SAsyncFor "stream" [SIf [SIf [SAwait "operator_indexed.drop_toggle"] nil] nil; SIf [SContinue] nil; SIf [SContinue] nil; STry [SMark "pressure_set_existing"; SAwait "streams[key].backlog.put"] [[SMark "keyerror"; SIf [SAwait "operator_indexed.make_toggle"] nil; SMark "insert_stream"; SMark "pressure_set_existing"; SAwait "streams[key].backlog.put"; SAwait "scheduler.spawn"]] nil nil]] [[SIf [SRaise] [SRaise]]] nil [SLoop [SAwait "asyncio.shield"]; SLoop [SAwait "asyncio.shield"]]].

Definition expected_awaits_worker : list sk :=
  [STry [SLoop [STry [SAwait "asyncio.wait_for"] [[SMark "on_timeout"; SMark "recheck_empty"; SIf [SBreak] [SContinue]]] nil nil; SMark "eos_check"; SIf [SBreak] nil; SMark "version_match"; SIf [SMark "clear_expected"; SMark "clear_ctime"] nil; SMark "recheck_empty"; SIf [SMark "pressure_clear"] nil; SAwait "processor"; SMark "patched_check"; SIf [SMark "set_expected"; SMark "set_ctime"] nil]] [[SRaise]] nil [STry [SMark "del_stream"] [nil] nil nil; SAsyncWith "signaller" nil]].

Definition expected_awaits_wait_for_depletion : list sk :=
  [SMark "each_stream"; SLoop [SAwait "stream.backlog.put"]; SAsyncWith "signaller" [STry [SAwait "asyncio.wait_for"] [nil] nil nil]].

Definition expected_awaits_Scheduler_spawn : list sk :=
  [SMark "closed_check"; SIf [SAwait "cancel_coro"; SRaise] nil; SAsyncWith "self._condition" [SAwait "self._pending_coros.put"; SMark "notify"]; SAwait "asyncio.sleep"].

Definition expected_awaits_Scheduler_task_spawner : list sk :=
  [SLoop [SAsyncWith "self._condition" [SAwait "self._condition.wait_for"; SMark "while_can_spawn"; SLoop [SMark "take_job"; SMark "create_task"; SMark "add_running"]]]].

Definition expected_awaits_Scheduler_task_cleaner : list sk :=
  [SLoop [SAwait "self._cleaning_queue.get"; STry [SAwait "task"] [nil] nil nil; SAsyncWith "self._condition" [SMark "discard_running"]]].

Definition expected_awaits_Scheduler_close : list sk :=
  [SMark "set_closed"; SLoop [SMark "cancel_each"]; SAwait "self.wait"; SAwait "stop"].
