(* C08 — function level.  Definitions only (no proofs).

   Mirrors, statement by statement:
     kopf/_cogs/clients/patching.py      patch_obj
     kopf/_cogs/structs/patches.py       Patch.__bool__, Patch.as_json_patch (for Patch(fns=...))
     kopf/_core/actions/application.py   patch_and_check (resource version incl. the
                                         "~which~never~arrives" suffix), apply (patch / sleep / touch decision)

   The API server is an ORACLE: a state type [S] and [serve : S -> po_req -> po_resp * S].
   Two instances are used: a scripted list of responses (correspondence check against the real
   code) and [po_wserve], a small stateful server (RFC 7386 / RFC 6902 writes, one fresh
   resourceVersion per write, one foreign write slipped before the [slip]-th request) about
   which the C08 theorems are stated.
   jsonpatch.JsonPatch.from_diff is an ORACLE [diff]; its law (apply_ops (diff a b) a = Some b)
   is a hypothesis only where a theorem needs it (Model/JsonPatch.v is the RFC 6902 meaning).
   The transformation functions of a patch (Patch.fns) are ORACLES [json -> res json] with a tag
   standing for the identity of the Python function object.
   progress_storage.touch is an ORACLE here (modelled and tied in C16: Model/Storage.v ptouch).

   Python exceptions are visible as [Raised e].  Outside the model (approximated by EType):
   response bodies that are truthy but not JSON objects. *)
From Coq Require Import ZArith List String Bool Ascii DecimalString.
From KV Require Import Base.Json Base.Dicts Model.JsonPatch.
Import ListNotations.
Open Scope string_scope.
Open Scope list_scope.

(* ---------- requests, responses, outcomes ---------- *)
Inductive po_url := UMain | UStatus.       (* resource.get_url(...) / get_url(..., subresource='status') *)
Inductive po_payload := PMerge (j : json) | PJson (ops : list jop).
Record po_req := mkReq { rq_method : string; rq_url : po_url; rq_ctype : string; rq_payload : po_payload }.

Definition po_ct_merge : string := "application/merge-patch+json".
Definition po_ct_json : string := "application/json-patch+json".
Definition po_merge_req (u : po_url) (j : json) : po_req := mkReq "patch" u po_ct_merge (PMerge j).
Definition po_json_req (u : po_url) (ops : list jop) : po_req := mkReq "patch" u po_ct_json (PJson ops).

(* what api.patch() does from patch_obj's point of view *)
Inductive po_resp :=
| ROk (body : json)          (* 2xx: the parsed response *)
| RNotFound                  (* errors.APINotFoundError *)
| RUnprocessable             (* errors.APIUnprocessableEntityError *)
| RFail (code : Z).          (* any other exception escaping api.patch (409, 5xx after retries, ...) *)

Inductive po_err := EApi (code : Z) | EKey | EType | EValue.
Definition po_err_of {A} (r : res A) : po_err :=
  match r with ErrKey => EKey | ErrType => EType | _ => EValue end.

(* one element of Patch.fns: [fn_tag] is the identity of the function object *)
Record pfn := mkFn { fn_tag : nat; fn_run : json -> res json }.

Inductive po_out :=
| Returned (body : option json) (remaining : option (list pfn))   (* remaining: Patch(fns=...) *)
| Raised (e : po_err).

(* ---------- small Python idioms ---------- *)
Definition po_truthy (j : json) : bool :=
  match j with
  | JNull => false
  | JBool b => b
  | JNum z => negb (Z.eqb z 0)
  | JStr s => negb (String.eqb s "")
  | JList l => match l with [] => false | _ => true end
  | JObj o => match o with [] => false | _ => true end
  | JEnc _ => true
  end.

Definition po_nonempty {A} (l : list A) : bool := match l with [] => false | _ => true end.

(* (x or {}).get('metadata', {}) *)
Definition po_meta_of (x : option json) : res json :=
  let b := match x with Some b => if po_truthy b then b else JObj [] | None => JObj [] end in
  match b with
  | JObj kvs => Ok (match lookup "metadata" kvs with Some m => m | None => JObj [] end)
  | _ => ErrType
  end.

(* m.get(k)  (None -> JNull) *)
Definition po_get (m : json) (k : string) : res json :=
  match m with
  | JObj kvs => Ok (match lookup k kvs with Some v => v | None => JNull end)
  | _ => ErrType
  end.

(* (fresh_body or {}).get('metadata', {}).get('resourceVersion') *)
Definition po_rv_of (fresh : option json) : res json :=
  bind (po_meta_of fresh) (fun m => po_get m "resourceVersion").

Definition jop_path (o : jop) : string :=
  match o with
  | OAdd p _ | ORemove p | OReplace p _ | OTest p _ => p
  | OMove _ p | OCopy _ p => p
  end.

(* op['path'] == '/status' or op['path'].startswith('/status/') *)
Definition po_is_status_path (p : string) : bool :=
  String.eqb p "/status" || String.prefix "/status/" p.
Definition po_is_status_op (o : jop) : bool := po_is_status_path (jop_path o).

Definition po_rv_path : string := "/metadata/resourceVersion".
Definition po_test (rv : json) : jop := OTest po_rv_path rv.

(* ---------- patches.Patch ---------- *)
(* Patch.__bool__ *)
Definition po_patch_truthy (patch : obj) (fns : list pfn) : bool := po_nonempty patch || po_nonempty fns.

Definition po_run_fns (fns : list pfn) (b : json) : res json :=
  fold_left (fun acc f => bind acc (fn_run f)) fns (Ok b).

(* Patch(fns=fns).as_json_patch(fresh) : the dict part of that patch is empty, its _original is None *)
Definition po_as_json_patch (diff : json -> json -> list jop) (fns : list pfn) (fresh : option json)
  : res (list jop) :=
  match fresh with
  | Some (JObj kvs) =>
      match fns with
      | [] => Ok []
      | _ => bind (po_run_fns fns (JObj kvs)) (fun to_be => Ok (diff (JObj kvs) to_be))
      end
  | Some _ => ErrType                     (* dict(base) of a non-mapping: outside the model *)
  | None => match fns with [] => Ok [] | _ => ErrValue end
  end.

(* body_patch / status_patch of patch_obj:
     has_status = as_subresource and 'status' in body_patch        (incl. None, which removes the status)
     status_patch = {'status': body_patch.pop('status')} if has_status else None *)
Definition po_split (has_sub : bool) (patch : obj) : obj * option json :=
  if has_sub then
    (del "status" patch,
     match lookup "status" patch with
     | Some v => Some (JObj [("status", v)])
     | None => None
     end)
  else (patch, None).

(* ---------- patching.patch_obj ---------- *)
Section PatchObj.
  Variable S : Type.
  Variable serve : S -> po_req -> po_resp * S.
  Variable diff : json -> json -> list jop.

  Record po_result := mkRes { r_out : po_out; r_log : list (po_req * po_resp); r_srv : S }.
  Record po_acc := mkAcc { a_srv : S; a_log : list (po_req * po_resp); a_patched : option json }.

  Definition po_finish (a : po_acc) (o : po_out) : po_result := mkRes o (a_log a) (a_srv a).

  (* one `patched_body = await api.patch(...)` inside the try block; [json_batch]: the inner
     try/except APIUnprocessableEntityError exists only around the two JSON-patch requests *)
  Definition po_call (a : po_acc) (q : po_req) (json_batch : bool) (fns : list pfn)
             (k : po_acc -> po_result) : po_result :=
    let (resp, s') := serve (a_srv a) q in
    let log' := a_log a ++ [(q, resp)] in
    match resp with
    | ROk b => k (mkAcc s' log' (Some b))
    | RNotFound => mkRes (Returned None None) log' s'
    | RUnprocessable =>
        if json_batch then mkRes (Returned (a_patched a) (Some fns)) log' s'
        else mkRes (Raised (EApi 422)) log' s'
    | RFail c => mkRes (Raised (EApi c)) log' s'
    end.

  (* fresh_body = patched_body or patch._original *)
  Definition po_fresh (patched original : option json) : option json :=
    match patched with
    | Some b => if po_truthy b then Some b else original
    | None => original
    end.

  Definition po_body_ops (has_sub : bool) (ops : list jop) : list jop :=
    if has_sub then filter (fun o => negb (po_is_status_op o)) ops else ops.
  Definition po_status_ops (has_sub : bool) (ops : list jop) : list jop :=
    if has_sub then filter po_is_status_op ops else [].

  Definition po_json_status (fns : list pfn) (status_ops : list jop) (a : po_acc) (fresh : option json)
    : po_result :=
    match status_ops with
    | [] => po_finish a (Returned (a_patched a) None)
    | _ =>
        match po_rv_of fresh with
        | Ok rv => po_call a (po_json_req UStatus (po_test rv :: status_ops)) true fns
                           (fun a' => po_finish a' (Returned (a_patched a') None))
        | e => po_finish a (Raised (po_err_of e))
        end
    end.

  Definition po_json_phase (has_sub : bool) (fns : list pfn) (original : option json) (a : po_acc)
    : po_result :=
    let fresh := po_fresh (a_patched a) original in
    match po_as_json_patch diff fns fresh with
    | Ok ops =>
        let body_ops := po_body_ops has_sub ops in
        let status_ops := po_status_ops has_sub ops in
        match body_ops with
        | [] => po_json_status fns status_ops a fresh
        | _ =>
            match po_rv_of fresh with
            | Ok rv => po_call a (po_json_req UMain (po_test rv :: body_ops)) true fns
                               (fun a' => po_json_status fns status_ops a' (a_patched a'))   (* fresh_body = patched_body *)
            | e => po_finish a (Raised (po_err_of e))
            end
        end
    | e => po_finish a (Raised (po_err_of e))
    end.

  Definition po_merge_status (has_sub : bool) (status_patch : option json) (fns : list pfn)
             (original : option json) (a : po_acc) : po_result :=
    match status_patch with
    | Some sp => po_call a (po_merge_req UStatus sp) false fns (po_json_phase has_sub fns original)
    | None => po_json_phase has_sub fns original a
    end.

  Definition patch_obj (has_sub : bool) (patch : obj) (fns : list pfn) (original : option json) (s0 : S)
    : po_result :=
    let (body_patch, status_patch) := po_split has_sub patch in
    let a0 := mkAcc s0 [] None in
    match body_patch with
    | [] => po_merge_status has_sub status_patch fns original a0
    | _ => po_call a0 (po_merge_req UMain (JObj body_patch)) false fns
                   (po_merge_status has_sub status_patch fns original)
    end.

  (* ---------- application.patch_and_check ---------- *)
  Definition po_never : string := "~which~never~arrives".

  (* the resource version to wait for; JNull (Python None) is represented by [None] *)
  Definition po_check_rv (resulting : option json) : res (option json) :=
    bind (po_meta_of resulting) (fun m =>
    bind (po_get m "resourceVersion") (fun rv =>
    bind (po_get m "deletionTimestamp") (fun dts =>
    bind (po_get m "finalizers") (fun fins =>
    if po_truthy dts && negb (po_truthy fins) then
      match rv with
      | JNull => Ok (Some (JStr ("None" ++ po_never)))
      | JStr s => Ok (Some (JStr (s ++ po_never)))
      | _ => ErrValue                      (* f-string of a non-str version: outside the model *)
      end
    else Ok (match rv with JNull => None | v => Some v end))))).

  Inductive po_pc :=
  | PcOk (rv : option json) (remaining : option (list pfn)) (log : list (po_req * po_resp)) (s : S)
  | PcRaised (e : po_err) (log : list (po_req * po_resp)) (s : S).

  Definition po_patch_and_check (has_sub : bool) (patch : obj) (fns : list pfn) (original : option json)
             (s0 : S) : po_pc :=
    if po_patch_truthy patch fns then
      let r := patch_obj has_sub patch fns original s0 in
      match r_out r with
      | Returned body remaining =>
          match po_check_rv body with
          | Ok rv => PcOk rv remaining (r_log r) (r_srv r)
          | e => PcRaised (po_err_of e) (r_log r) (r_srv r)
          end
      | Raised e => PcRaised e (r_log r) (r_srv r)
      end
    else PcOk None None [] s0.

  (* ---------- application.apply ---------- *)
  Definition po_keepalive : Z := 600.     (* WAITING_KEEPALIVE_INTERVAL *)

  Fixpoint po_min (l : list Z) : option Z :=
    match l with
    | [] => None
    | x :: l' => match po_min l' with Some m => Some (Z.min x m) | None => Some x end
    end.

  Record po_applied := mkApplied {
    ap_applied : bool;
    ap_rv : option json;
    ap_remaining : option (list pfn);
    ap_slept : option Z;        (* the sleep requested from aiotime.sleep, if any *)
    ap_touched : bool;          (* the second patch_and_check (touch) was performed *)
    ap_log : list (po_req * po_resp);
    ap_srv : S
  }.
  Inductive po_apply_out := ApOk (r : po_applied) | ApRaised (e : po_err) (log : list (po_req * po_resp)) (s : S).

  (* [clear]: progress_storage.touch(body, patch, value=None) on the dict part;
     [touch_patch]: the patch produced by touch(body, Patch(), value=now);
     [woken]: the stream-pressure event fires before a positive sleep is over *)
  Definition po_apply (has_sub : bool) (patch0 : obj) (clear : obj -> obj) (fns : list pfn)
             (original : option json) (delays : list Z) (woken : bool) (touch_patch : obj) (s0 : S)
    : po_apply_out :=
    let delay := po_min delays in
    let p := po_patch_truthy patch0 fns in
    let patch := if p then clear patch0 else patch0 in
    match po_patch_and_check has_sub patch fns original s0 with
    | PcRaised e log s => ApRaised e log s
    | PcOk rv remaining log s =>
        match delay with
        | Some d =>
            if negb (Z.eqb d 0) && p then                       (* `if delay and patch` *)
              ApOk (mkApplied false rv remaining None false log s)
            else
              let slept := if Z.ltb po_keepalive d then Some po_keepalive
                           else if Z.ltb 0 d then Some d else None in
              let interrupted := match slept with Some _ => woken | None => false end in
              if (p && Z.eqb d 0) || interrupted then
                ApOk (mkApplied false rv remaining slept false log s)
              else
                match po_patch_and_check has_sub touch_patch [] None s with      (* touch = patches.Patch(): no reference body *)
                | PcRaised e log2 s2 => ApRaised e (log ++ log2) s2
                | PcOk rv2 _ log2 s2 => ApOk (mkApplied false rv2 remaining slept true (log ++ log2) s2)
                end
        | None => ApOk (mkApplied (negb p) rv remaining None false log s)
        end
    end.
End PatchObj.

Arguments mkAcc {S}. Arguments a_srv {S}. Arguments a_log {S}. Arguments a_patched {S}.
Arguments mkRes {S}. Arguments r_out {S}. Arguments r_log {S}. Arguments r_srv {S}.
Arguments PcOk {S}. Arguments PcRaised {S}.
Arguments ApOk {S}. Arguments ApRaised {S}.
Arguments mkApplied {S}.
Arguments ap_applied {S}. Arguments ap_rv {S}. Arguments ap_remaining {S}. Arguments ap_slept {S}.
Arguments ap_touched {S}. Arguments ap_log {S}. Arguments ap_srv {S}.

(* ---------- server instance 1: a script of responses ---------- *)
Definition po_script := list po_resp.
Definition po_scripted (s : po_script) (q : po_req) : po_resp * po_script :=
  match s with
  | [] => (RFail 0, [])          (* script exhausted: visible as an error, never silently Ok *)
  | r :: s' => (r, s')
  end.

(* feeding a request list to a server *)
Fixpoint po_replay {S} (serve : S -> po_req -> po_resp * S) (s : S) (qs : list po_req) : list po_resp * S :=
  match qs with
  | [] => ([], s)
  | q :: qs' => let (r, s1) := serve s q in let (rs, s2) := po_replay serve s1 qs' in (r :: rs, s2)
  end.

(* ---------- server instance 2: a small stateful API server ---------- *)
(* metadata.<k> := v  (creating metadata if needed) *)
Definition po_set_meta (k : string) (v : json) (body : json) : json :=
  match body with
  | JObj kvs =>
      let m := match lookup "metadata" kvs with Some (JObj m) => m | _ => [] end in
      JObj (set "metadata" (JObj (set k v m)) kvs)
  | _ => JObj [("metadata", JObj [(k, v)])]
  end.
Definition po_stamp (rv : json) (body : json) : json := po_set_meta "resourceVersion" rv body.

Definition po_meta_field (k : string) (body : json) : option json :=
  match body with
  | JObj kvs => match lookup "metadata" kvs with Some (JObj m) => lookup k m | _ => None end
  | _ => None
  end.
Definition po_rv_field (body : json) : option json := po_meta_field "resourceVersion" body.
Definition po_uid_field (body : json) : option json := po_meta_field "uid" body.

Definition po_status_of (j : json) : option json :=
  match j with JObj kvs => lookup "status" kvs | _ => None end.
Definition po_with_status (st : option json) (j : json) : json :=
  match j with
  | JObj kvs => JObj (match st with Some v => set "status" v kvs | None => del "status" kvs end)
  | _ => j
  end.

(* with a status subresource the main endpoint ignores `status` and /status ignores everything else *)
Definition po_pick (has_sub : bool) (u : po_url) (old cand : json) : json :=
  if has_sub then
    match u with
    | UMain => po_with_status (po_status_of old) cand
    | UStatus => po_with_status (po_status_of cand) old
    end
  else cand.

Definition po_candidate (old : json) (p : po_payload) : option json :=
  match p with
  | PMerge j => Some (merge old j)           (* RFC 7386 *)
  | PJson ops => apply_ops ops old           (* RFC 6902 incl. test; None = rejected as a whole *)
  end.

Record po_wentry := mkWe { we_before : option json; we_req : po_req; we_resp : po_resp; we_after : option json }.
Record po_world := mkW { w_obj : option json; w_ctr : nat; w_seen : nat; w_hist : list po_wentry }.

Section World.
  Variable rvs : nat -> json.                         (* the n-th resourceVersion the server hands out *)
  Variable post : json -> json -> json.               (* server-side defaulting/admission: old, picked candidate -> stored (before the version stamp) *)
  Variable has_sub : bool.
  Variable slip : nat.                                (* the foreign write happens right before the request number [slip] (0-based) *)
  Variable foreign : option json -> option json.      (* edit / delete / delete-and-recreate under the same name *)

  Definition po_wforeign (w : po_world) : po_world :=
    match foreign (w_obj w) with
    | Some o => mkW (Some (po_stamp (rvs (S (w_ctr w))) o)) (S (w_ctr w)) (w_seen w) (w_hist w)
    | None => mkW None (w_ctr w) (w_seen w) (w_hist w)
    end.

  Definition po_wserve (w : po_world) (q : po_req) : po_resp * po_world :=
    let w1 := if Nat.eqb (w_seen w) slip then po_wforeign w else w in
    match w_obj w1 with
    | None =>
        (RNotFound, mkW None (w_ctr w1) (S (w_seen w1)) (w_hist w1 ++ [mkWe None q RNotFound None]))
    | Some old =>
        match po_candidate old (rq_payload q) with
        | None =>
            (RUnprocessable,
             mkW (Some old) (w_ctr w1) (S (w_seen w1)) (w_hist w1 ++ [mkWe (Some old) q RUnprocessable (Some old)]))
        | Some cand =>
            let new := po_stamp (rvs (S (w_ctr w1))) (post old (po_pick has_sub (rq_url q) old cand)) in
            (ROk new,
             mkW (Some new) (S (w_ctr w1)) (S (w_seen w1)) (w_hist w1 ++ [mkWe (Some old) q (ROk new) (Some new)]))
        end
    end.
End World.

(* ---------- the instance of the stateful server which is tied to harness/kv/fakeapi.py ---------- *)
(* FakeAPI: resourceVersions are the decimal numerals of a counter; _patch restores the immutable metadata fields,
   _commit drops emptied annotations/labels/finalizers/ownerReferences and bumps the generation when the spec changes.
   (Not mirrored, and excluded from the tie: a write that changes nothing gets no new version; the release of an object
   under deletion; rejection of non-object candidates and of new finalizers during deletion.) *)
Definition po_fake_rvs (n : nat) : json := JStr (NilEmpty.string_of_uint (Nat.to_uint n)).

Definition po_meta_obj (b : json) : obj :=
  match b with
  | JObj kvs => match lookup "metadata" kvs with Some (JObj m) => m | _ => [] end
  | _ => []
  end.

Definition po_fake_immutables : list string :=
  ["uid"; "name"; "namespace"; "resourceVersion"; "creationTimestamp"; "deletionTimestamp"; "generation"].

Definition po_fake_restore (oldm newm : obj) : obj :=
  fold_left (fun m f => match lookup f oldm with Some v => set f v m | None => del f m end) po_fake_immutables newm.

Definition po_fake_normalize (m : obj) : obj :=
  fold_left (fun m k => match lookup k m with Some v => if po_truthy v then m else del k m | None => m end)
            ["annotations"; "labels"; "finalizers"; "ownerReferences"] m.

Definition po_spec_of (b : json) : option json := match b with JObj kvs => lookup "spec" kvs | _ => None end.
Definition po_ojeqb' (x y : option json) : bool :=
  match x, y with Some a, Some b => jeqb a b | None, None => true | _, _ => false end.

Definition po_fake_commit_meta (old : json) (new_spec : option json) (m : obj) : obj :=
  let m := po_fake_normalize m in
  if po_ojeqb' (po_spec_of old) new_spec then m
  else set "generation"
           (JNum (match lookup "generation" (po_meta_obj old) with Some (JNum z) => z + 1 | _ => 2 end)%Z) m.

Definition po_fake_post (old cand : json) : json :=
  match cand with
  | JObj kvs =>
      let m := po_fake_restore (po_meta_obj old) (po_meta_obj cand) in
      JObj (set "metadata" (JObj (po_fake_commit_meta old (po_spec_of cand) m)) kvs)
  | _ => cand
  end.

(* FakeAPI.edit(fn) as the foreign writer: fn on a copy, then _commit (the version stamp is po_wforeign's) *)
Definition po_fake_edit (f : obj -> obj) (o : option json) : option json :=
  match o with
  | Some (JObj kvs) =>
      Some (JObj (set "metadata" (JObj (po_fake_commit_meta (JObj kvs) (lookup "spec" kvs) (f (po_meta_obj (JObj kvs))))) kvs))
  | other => other
  end.

(* b['metadata'].setdefault('annotations', {})[k] = v *)
Definition po_fake_set_ann (k : string) (v : json) (m : obj) : obj :=
  set "annotations" (JObj (set k v (match lookup "annotations" m with Some (JObj a) => a | _ => [] end))) m.
(* b['metadata'].setdefault('finalizers', []).append(f) *)
Definition po_fake_fin_add (f : string) (m : obj) : obj :=
  set "finalizers" (JList ((match lookup "finalizers" m with Some (JList l) => l | _ => [] end) ++ [JStr f])) m.
(* drop the first finalizer which is not [own] *)
Fixpoint po_drop_first_foreign (own : string) (l : list json) : list json :=
  match l with
  | [] => []
  | x :: l' => match x with
               | JStr s => if String.eqb s own then x :: po_drop_first_foreign own l' else l'
               | _ => l'
               end
  end.
Definition po_fake_fin_remove (own : string) (m : obj) : obj :=
  set "finalizers" (JList (po_drop_first_foreign own (match lookup "finalizers" m with Some (JList l) => l | _ => [] end))) m.

(* ---------- harness-defined transformation functions used by the correspondence check ---------- *)
(* def f(body): body.setdefault(k1, {})[k2] = v *)
Definition po_fn_set2 (k1 k2 : string) (v : json) (body : json) : res json :=
  match body with
  | JObj kvs =>
      match (match lookup k1 kvs with Some s => s | None => JObj [] end) with
      | JObj sub => Ok (JObj (set k1 (JObj (set k2 v sub)) kvs))
      | _ => ErrType
      end
  | _ => ErrType
  end.

(* def f(body): body.setdefault(k1, {}).setdefault(k2, []).append(v) *)
Definition po_fn_append2 (k1 k2 : string) (v : json) (body : json) : res json :=
  match body with
  | JObj kvs =>
      match (match lookup k1 kvs with Some s => s | None => JObj [] end) with
      | JObj sub =>
          match (match lookup k2 sub with Some l => l | None => JList [] end) with
          | JList l => Ok (JObj (set k1 (JObj (set k2 (JList (l ++ [v])) sub)) kvs))
          | _ => ErrType
          end
      | _ => ErrType
      end
  | _ => ErrType
  end.

(* def f(body): l = body.setdefault(k1, {}).setdefault(k2, []);  if v not in l: l.append(v) *)
Definition po_fn_add2 (k1 k2 : string) (v : json) (body : json) : res json :=
  match body with
  | JObj kvs =>
      match (match lookup k1 kvs with Some s => s | None => JObj [] end) with
      | JObj sub =>
          match (match lookup k2 sub with Some l => l | None => JList [] end) with
          | JList l => Ok (JObj (set k1 (JObj (set k2 (JList (if existsb (py_eqb v) l then l else l ++ [v])) sub)) kvs))
          | _ => ErrType
          end
      | _ => ErrType
      end
  | _ => ErrType
  end.

(* def f(body):
       s = body.get(src)
       if isinstance(s, dict) and key in s:
           body.setdefault(dst, {})[key] = s.pop(key)          # the right-hand side is evaluated first *)
Definition po_fn_move (src dst key : string) (body : json) : res json :=
  match body with
  | JObj kvs =>
      match lookup src kvs with
      | Some (JObj s) =>
          match lookup key s with
          | Some v =>
              let kvs1 := set src (JObj (del key s)) kvs in
              match (match lookup dst kvs1 with Some d => d | None => JObj [] end) with
              | JObj d => Ok (JObj (set dst (JObj (set key v d)) kvs1))
              | _ => ErrType
              end
          | None => Ok body
          end
      | _ => Ok body
      end
  | _ => ErrType
  end.

(* def f(body): body.setdefault(k1, {}).setdefault(k2, {}).setdefault(k3, v)        ("ensure": a no-op when it is there) *)
Definition po_fn_ensure3 (k1 k2 k3 : string) (v : json) (body : json) : res json :=
  match body with
  | JObj kvs =>
      match (match lookup k1 kvs with Some s => s | None => JObj [] end) with
      | JObj s1 =>
          match (match lookup k2 s1 with Some s => s | None => JObj [] end) with
          | JObj s2 =>
              Ok (JObj (set k1 (JObj (set k2 (JObj (match lookup k3 s2 with Some _ => s2 | None => set k3 v s2 end)) s1)) kvs))
          | _ => ErrType
          end
      | _ => ErrType
      end
  | _ => ErrType
  end.

(* def f(body): raise TypeError *)
Definition po_fn_raise (body : json) : res json := ErrType.

(* ---------- equalities for the correspondence check ---------- *)
Definition jop_eqb (a b : jop) : bool :=
  match a, b with
  | OAdd p v, OAdd q w | OReplace p v, OReplace q w | OTest p v, OTest q w => String.eqb p q && jeqb v w
  | ORemove p, ORemove q => String.eqb p q
  | OMove f p, OMove g q | OCopy f p, OCopy g q => String.eqb f g && String.eqb p q
  | _, _ => false
  end.

Fixpoint po_list_eqb {A} (e : A -> A -> bool) (x y : list A) : bool :=
  match x, y with
  | [], [] => true
  | a :: x', b :: y' => e a b && po_list_eqb e x' y'
  | _, _ => false
  end.

Definition po_url_eqb (a b : po_url) : bool :=
  match a, b with UMain, UMain | UStatus, UStatus => true | _, _ => false end.

Definition po_payload_eqb (a b : po_payload) : bool :=
  match a, b with
  | PMerge x, PMerge y => jeqb x y
  | PJson x, PJson y => po_list_eqb jop_eqb x y
  | _, _ => false
  end.

Definition po_req_eqb (a b : po_req) : bool :=
  String.eqb (rq_method a) (rq_method b) && po_url_eqb (rq_url a) (rq_url b) &&
  String.eqb (rq_ctype a) (rq_ctype b) && po_payload_eqb (rq_payload a) (rq_payload b).

Definition po_err_eqb (a b : po_err) : bool :=
  match a, b with
  | EApi x, EApi y => Z.eqb x y
  | EKey, EKey | EType, EType | EValue, EValue => true
  | _, _ => false
  end.

Definition po_ojeqb (x y : option json) : bool :=
  match x, y with Some a, Some b => jeqb a b | None, None => true | _, _ => false end.

Definition po_tags_eqb (x y : option (list nat)) : bool :=
  match x, y with
  | Some a, Some b => po_list_eqb Nat.eqb a b
  | None, None => true
  | _, _ => false
  end.

(* outcome with the remaining fns reduced to their tags *)
Inductive po_out_t := ReturnedT (body : option json) (tags : option (list nat)) | RaisedT (e : po_err).
Definition po_out_tags (o : po_out) : po_out_t :=
  match o with
  | Returned b rem => ReturnedT b (option_map (map fn_tag) rem)
  | Raised e => RaisedT e
  end.
Definition po_out_eqb (a b : po_out_t) : bool :=
  match a, b with
  | ReturnedT x r, ReturnedT y s => po_ojeqb x y && po_tags_eqb r s
  | RaisedT e, RaisedT f => po_err_eqb e f
  | _, _ => false
  end.

(* the observable result of one patch_obj call: requests sent, outcome *)
Definition po_obs {S} (r : po_result S) : list po_req * po_out_t := (map fst (r_log r), po_out_tags (r_out r)).
Definition po_obs_eqb (a b : list po_req * po_out_t) : bool :=
  po_list_eqb po_req_eqb (fst a) (fst b) && po_out_eqb (snd a) (snd b).

(* a [diff] oracle for one recorded call of jsonpatch.from_diff: answers the recorded ops when asked
   exactly the recorded question, and a poison op otherwise *)
Definition po_recorded_diff (calls : list (json * json * list jop)) (a b : json) : list jop :=
  match find (fun c => jeqb (fst (fst c)) a && jeqb a (fst (fst c)) && jeqb (snd (fst c)) b && jeqb b (snd (fst c))) calls with
  | Some c => snd c
  | None => [OTest "/~unexpected~from_diff~call" JNull]
  end.

(* the observable result of apply *)
Record po_apply_obs := mkApObs {
  ao_raised : option po_err;
  ao_applied : bool;
  ao_rv : option json;
  ao_tags : option (list nat);
  ao_slept : option Z;
  ao_touched : bool;
  ao_reqs : list po_req
}.
Definition po_apply_observe {S} (o : po_apply_out S) : po_apply_obs :=
  match o with
  | ApOk r => mkApObs None (ap_applied r) (ap_rv r) (option_map (map fn_tag) (ap_remaining r))
                      (ap_slept r) (ap_touched r) (map fst (ap_log r))
  | ApRaised e log _ => mkApObs (Some e) false None None None false (map fst log)
  end.
Definition po_oZ_eqb (x y : option Z) : bool :=
  match x, y with Some a, Some b => Z.eqb a b | None, None => true | _, _ => false end.
Definition po_oerr_eqb (x y : option po_err) : bool :=
  match x, y with Some a, Some b => po_err_eqb a b | None, None => true | _, _ => false end.
Definition po_apply_obs_eqb (a b : po_apply_obs) : bool :=
  po_oerr_eqb (ao_raised a) (ao_raised b) && Bool.eqb (ao_applied a) (ao_applied b) &&
  po_ojeqb (ao_rv a) (ao_rv b) && po_tags_eqb (ao_tags a) (ao_tags b) &&
  po_oZ_eqb (ao_slept a) (ao_slept b) && Bool.eqb (ao_touched a) (ao_touched b) &&
  po_list_eqb po_req_eqb (ao_reqs a) (ao_reqs b).
