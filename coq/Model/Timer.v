(* kopf/_core/engines/daemons.py : _timer  (with kopf/_cogs/aiokits/aiotime.py : sleep, the in-memory
   progression.State of ONE handler, and the outcome classification of execution.execute_handler_once).

   Times are Z (integer milliseconds; the harness uses multiples of 125 ms so that kopf's float
   arithmetic, including the `%` of the sharp mode, is exact).  The user function and the patching call
   are oracles: a script of (handler duration, patch latency, outcome), one entry per loop cycle.
   The environment: the instants at which process_spawning_cause assigns memory.idle_reset_time
   (essential changes), the instant the stopper is set, and an observation horizon.

   Simultaneous events (the harness drives the real coroutine the same way): the stop and an EARLY essential
   change at instant t are visible to every check the timer makes at instant t (they happen before the timer's
   task step of that instant); a LATE essential change at instant t happens after the timer's task step of
   that instant and is visible only to checks at instants > t.  The timer makes all its reads of one instant in
   ONE task step (nothing in it suspends without time passing), so early/late is every possible order.

   Definitions only; lemmas are in Proofs/Timer.v. *)
From Coq Require Import ZArith List Bool String.
Import ListNotations.
Open Scope Z_scope.

(* ---------------------------------------------------------------- configuration and oracles *)
Inductive emode := EIgnored | ETemporary | EPermanent.

Record cfg := mkcfg {
  c_interval : option Z;      (* handler.interval *)
  c_sharp    : bool;          (* bool(handler.sharp) *)
  c_idle     : option Z;      (* handler.idle *)
  c_initial  : option Z;      (* handler.initial_delay (numbers only; callables are user code) *)
  c_retries  : option Z;      (* handler.retries *)
  c_timeout  : option Z;      (* handler.timeout *)
  c_backoff  : Z;             (* handler.backoff or settings.execution.default_backoff *)
  c_errors   : emode          (* handler.errors or the default TEMPORARY *)
}.

Inductive outcome :=
| OOk                      (* the function returns *)
| OTemp (d : option Z)     (* raise TemporaryError(delay=d) *)
| OPerm                    (* raise PermanentError *)
| OArb                     (* raise any other Exception *)
| OChild (d : option Z).   (* raise HandlerChildrenRetry(delay=d): unfinished sub-handlers (kopf.execute) *)

Record entry := mkentry { e_dur : Z; e_plat : Z; e_out : outcome }.

Record env := mkenv {
  v_irt0    : Z;           (* memory.idle_reset_time when the timer is spawned *)
  v_resets  : list Z;      (* instants of `memory.idle_reset_time = loop.time()` *)
  v_stop    : option Z;    (* instant of stopper.set(...) *)
  v_horizon : Z;           (* observation horizon: a sleep that would end later is not followed *)
  v_late    : list Z       (* instants of essential changes that happen AFTER the timer's step of that instant *)
}.

(* memory.idle_reset_time as seen at instant t *)
Definition foldv (vis : Z -> Z -> bool) (rs : list Z) (a t : Z) : Z :=
  fold_left (fun acc r => if vis r t then Z.max acc r else acc) rs a.

Definition irt (e : env) (t : Z) : Z :=
  foldv Z.ltb (v_late e) (foldv Z.leb (v_resets e) (v_irt0 e) t) t.

Definition stopped (e : env) (t : Z) : bool :=
  match v_stop e with Some s => s <=? t | None => false end.

(* Which events are essential changes (`v_resets`/`v_late`): processing._detect_causes gives the spawning cause
   `reset = bool(diff(last-handled essence, essence))`, and process_spawning_cause then assigns idle_reset_time.
   The raw event's type (ADDED / MODIFIED / DELETED / None for a (re-)listing) is NOT an argument. *)
Definition reset_flag (has_last_handled essence_changed : bool) : bool := negb has_last_handled || essence_changed.

(* ---------------------------------------------------------------- aiotime.sleep(delay, wakeup=stopper.async_event) *)
Inductive sres := Woke (t : Z) | PastHorizon.

Definition sleep (e : env) (now delay : Z) : sres :=
  if delay <=? 0 then Woke now                         (* `if minimal_delay <= 0: return None` *)
  else if stopped e now then Woke now                  (* the event is already set: no suspension *)
  else
    let w := match v_stop e with Some s => Z.min (now + delay) s | None => now + delay end in
    if v_horizon e <? w then PastHorizon else Woke w.

(* ---------------------------------------------------------------- progression.HandlerState (one handler, in memory) *)
Record hst := mkhst {
  h_started : Z; h_retries : Z; h_delayed : option Z; h_success : bool; h_failure : bool }.

Definition fresh (now : Z) : hst := mkhst now 0 None false false.   (* State.from_scratch().with_handlers([h]) *)
Definition finished (h : hst) : bool := h_success h || h_failure h.
Definition sleeping (h : hst) (now : Z) : bool :=
  negb (finished h) && match h_delayed h with Some d => now <? d | None => false end.
Definition awakened (h : hst) (now : Z) : bool := negb (finished h) && negb (sleeping h now).

Inductive verdict := VOk | VFail | VRetry (d : option Z).   (* Outcome(final, exception, delay) *)

Definition hits (limit : option Z) (x : Z) : bool :=
  match limit with Some l => l <=? x | None => false end.

(* the except-clauses of execute_handler_once, evaluated when the function has ended (instant t) *)
Definition classify (c : cfg) (h : hst) (t : Z) (o : outcome) : verdict :=
  let runtime := t - h_started h in
  match o with
  | OOk => VOk
  | OPerm => VFail
  | OTemp d =>
      if hits (c_timeout c) (runtime + match d with Some x => x | None => 0 end) then VFail
      else if hits (c_retries c) (h_retries h + 1) then VFail
      else VRetry d
  | OArb =>
      match c_errors c with
      | EIgnored => VOk
      | EPermanent => VFail
      | ETemporary =>
          if hits (c_timeout c) (runtime + c_backoff c) then VFail
          else if hits (c_retries c) (h_retries h + 1) then VFail
          else VRetry (Some (c_backoff c))
      end
  | OChild d => VRetry d       (* `except HandlerChildrenRetry`: no look-ahead checks *)
  end.

(* HandlerState.with_outcome at instant t *)
Definition with_outcome (h : hst) (t : Z) (v : verdict) : hst :=
  mkhst (h_started h) (h_retries h + 1)
        (match v with VRetry (Some d) => Some (t + d) | _ => None end)
        (match v with VOk => true | _ => false end)
        (match v with VFail => true | _ => false end).

(* one execute_handlers_once at instant t: (was the user function entered, instant it ended, new state) *)
Definition exec (c : cfg) (h : hst) (t : Z) (en : entry) : bool * Z * hst :=
  if negb (awakened h t) then (false, t, h)                                (* not selected: no outcome *)
  else if hits (c_timeout c) (t - h_started h) then (false, t, with_outcome h t VFail)   (* strict checks: *)
  else if hits (c_retries c) (h_retries h) then (false, t, with_outcome h t VFail)       (* no call      *)
  else let hend := t + Z.max 0 (e_dur en) in
       (true, hend, with_outcome h hend (classify c h hend (e_out en))).

(* State.delays of a not-done state at instant t: [max(0, delayed - now)] or [0] *)
Definition state_delay (h : hst) (t : Z) : Z :=
  match h_delayed h with Some d => Z.max 0 (d - t) | None => 0 end.

(* ---------------------------------------------------------------- what is observed *)
Record cyc := mkcyc {
  y_start : Z;              (* `started = clock()` = instant the function is entered, when it is *)
  y_inv : bool;             (* the user function was entered in this cycle *)
  y_hend : Z;               (* instant the function ended *)
  y_pend : Z;               (* instant patch_and_check returned *)
  y_en : entry;             (* the script entry of this cycle (duration, latency, what the function did) *)
  y_done : bool;            (* state.done after the cycle *)
  y_failed : bool;          (* the handler state's `failure` after the cycle: failed for good *)
  y_delayed : option Z      (* the handler state's `delayed` after the cycle *)
}.

Inductive ev :=
| ECyc (c : cyc)
| ESleep (t delay : Z) (woke : option Z).    (* one call of aiotime.sleep *)

Inductive final :=
| FExited (t : Z)     (* `break`: neither interval nor idle *)
| FStopped (t : Z)    (* the main loop saw the stopper *)
| FOut (t : Z)        (* the script ended: the next cycle would start at t *)
| FHorizon (t : Z)    (* asleep beyond the horizon since t *)
| FStall (t : Z)      (* idle-only wait with idle <= 0 and no stopper set: never suspends *)
| FCrash (t : Z)      (* ZeroDivisionError: sharp with interval 0 *)
| FFuel (t : Z).      (* the model's fuel for the waiting loops ran out *)

Definition sleep_ev (e : env) (now delay : Z) : ev :=
  ESleep now delay (match sleep e now delay with Woke t => Some t | PastHorizon => None end).

(* `while not stopper.is_set() and clock() - memory.idle_reset_time < handler.idle: sleep(...)` *)
Inductive wres := WGo (t : Z) | WEnd (f : final).

Fixpoint idle_wait (fuel : nat) (e : env) (i : Z) (now : Z) : list ev * wres :=
  match fuel with
  | O => ([], WEnd (FFuel now))
  | S f =>
      if negb (stopped e now) && (now - irt e now <? i) then
        let d := irt e now + i - now in
        match sleep e now d with
        | Woke t => let '(evs, r) := idle_wait f e i t in (sleep_ev e now d :: evs, r)
        | PastHorizon => ([sleep_ev e now d], WEnd (FHorizon now))
        end
      else ([], WGo now)
  end.

(* `while memory.idle_reset_time <= started and not stopper.is_set(): await aiotime.sleep(handler.idle, wakeup=...)` *)
Fixpoint idle_only_wait (fuel : nat) (e : env) (i started now : Z) : list ev * wres :=
  match fuel with
  | O => ([], WEnd (FFuel now))
  | S f =>
      if (irt e now <=? started) && negb (stopped e now) then
        if i <=? 0 then ([], WEnd (FStall now))       (* sleep(<=0) returns at once, forever (no stopper set) *)
        else match sleep e now i with
             | Woke t => let '(evs, r) := idle_only_wait f e i started t in (sleep_ev e now i :: evs, r)
             | PastHorizon => ([sleep_ev e now i], WEnd (FHorizon now))
             end
      else ([], WGo now)
  end.

Definition one_sleep (e : env) (now delay : Z) : list ev * wres :=
  ([sleep_ev e now delay],
   match sleep e now delay with Woke t => WGo t | PastHorizon => WEnd (FHorizon now) end).

(* the if/elif chain after patch_and_check *)
Definition post (fuel : nat) (c : cfg) (e : env) (y : cyc) (h : hst) : list ev * wres :=
  let now := y_pend y in
  if negb (finished h) then one_sleep e now (state_delay h now)
  else match c_interval c with
       | Some i =>
           if c_sharp c then
             if i =? 0 then ([], WEnd (FCrash now))
             else one_sleep e now (i - (now - y_start y) mod i)
           else one_sleep e now i
       | None =>
           match c_idle c with
           | Some i => idle_only_wait fuel e i (y_start y) now
           | None => ([], WEnd (FExited now))
           end
       end.

Definition pre_wait (fuel : nat) (c : cfg) (e : env) (now : Z) : list ev * wres :=
  match c_idle c with
  | Some i => idle_wait fuel e i now
  | None => ([], WGo now)
  end.

(* `if state is None or (state.done and not state[handler.id].failure): state = State.from_scratch()...`, executed
   AFTER the idle wait (instant t): the state is created for the first cycle and re-created after a success only;
   a retrying state and a state that failed for good are kept (the latter is never selected again).  Its `started`
   -- the base of the handler's timeout -- is therefore the instant the run is due, not the instant idling began. *)
Definition reset_state (h : option hst) (t : Z) : hst :=
  match h with
  | None => fresh t
  | Some h => if finished h && negb (h_failure h) then fresh t else h
  end.

(* the main loop; one script entry per cycle *)
Fixpoint loop (fuel : nat) (c : cfg) (e : env) (script : list entry) (now : Z) (h : option hst) : list ev * final :=
  if stopped e now then ([], FStopped now)
  else
    match pre_wait fuel c e now with
    | (evs0, WEnd f) => (evs0, f)
    | (evs0, WGo t) =>
        if stopped e t then (evs0, FStopped t)            (* `continue`, then the loop condition *)
        else match script with
             | [] => (evs0, FOut t)
             | en :: rest =>
                 let '(inv, hend, h2) := exec c (reset_state h t) t en in
                 let y := mkcyc t inv hend (hend + Z.max 0 (e_plat en)) en (finished h2) (h_failure h2) (h_delayed h2) in
                 match post fuel c e y h2 with
                 | (evs1, WEnd f) => (evs0 ++ ECyc y :: evs1, f)
                 | (evs1, WGo t') =>
                     let '(evs2, f) := loop fuel c e rest t' (Some h2) in
                     (evs0 ++ ECyc y :: evs1 ++ evs2, f)
                 end
             end
    end.

Definition timer_run (fuel : nat) (c : cfg) (e : env) (spawn : Z) (script : list entry) : list ev * final :=
  match c_initial c with
  | None => loop fuel c e script spawn None
  | Some d =>
      match sleep e spawn d with
      | Woke t => let '(evs, f) := loop fuel c e script t None in (sleep_ev e spawn d :: evs, f)
      | PastHorizon => ([sleep_ev e spawn d], FHorizon spawn)
      end
  end.

Fixpoint cycles (evs : list ev) : list cyc :=
  match evs with
  | [] => []
  | ECyc y :: r => y :: cycles r
  | ESleep _ _ _ :: r => cycles r
  end.

Definition timer_cycles fuel c e spawn script : list cyc := cycles (fst (timer_run fuel c e spawn script)).

(* ---------------------------------------------------------------- specification vocabulary (used by Proofs/ and Props/) *)
(* instant t is not within the idle time after the last essential change *)
Definition clear (e : env) (idle : option Z) (t : Z) : Prop :=
  match idle with None => True | Some i => i <= t - irt e t end.

(* s is the first instant >= now that is clear: "postponed by idling and by nothing else" *)
Definition idle_ok (e : env) (idle : option Z) (now s : Z) : Prop :=
  now <= s /\ clear e idle s /\ forall t, now <= t < s -> ~ clear e idle t.

(* the delay an error asks for: TemporaryError / HandlerChildrenRetry carry their own, an arbitrary exception
   gets the handler's backoff; None = "no delay" (delay=None, or nothing to retry) *)
Definition retry_delay (c : cfg) (o : outcome) : option Z :=
  match o with
  | OTemp d | OChild d => d
  | OArb => Some (c_backoff c)
  | OOk | OPerm => None
  end.

(* what a failed-but-retried run records as its `delayed` instant *)
Definition expected_delayed (c : cfg) (y : cyc) : option Z :=
  match retry_delay c (e_out (y_en y)) with Some d => Some (y_hend y + d) | None => None end.

Definition wf_cyc (c : cfg) (y : cyc) : Prop :=
  y_start y <= y_hend y /\ y_hend y <= y_pend y /\
  y_pend y = y_hend y + Z.max 0 (e_plat (y_en y)) /\
  y_hend y = (if y_inv y then y_start y + Z.max 0 (e_dur (y_en y)) else y_start y) /\
  (y_inv y = true -> y_done y = false -> y_delayed y = expected_delayed c y /\ e_out (y_en y) <> OOk /\ e_out (y_en y) <> OPerm) /\
  (y_inv y = true -> y_done y = true -> y_failed y = false ->
     e_out (y_en y) = OOk \/ (e_out (y_en y) = OArb /\ c_errors c = EIgnored)) /\
  (y_failed y = true -> y_done y = true).

(* the instant b at which the timer begins to look at the idle time for its next run *)
Definition next_base (c : cfg) (e : env) (y : cyc) (b : Z) : Prop :=
  if y_done y then
    match c_interval c with
    | Some i =>
        if c_sharp c then i <> 0 /\ b = y_pend y + Z.max 0 (i - (y_pend y - y_start y) mod i)
        else b = y_pend y + Z.max 0 i
    | None =>
        match c_idle c with
        | Some _ => y_pend y <= b /\ y_start y < irt e b
        | None => False
        end
    end
  else b = Z.max (y_pend y) (match y_delayed y with Some d => d | None => y_pend y end).

(* is the user function entered by a cycle that starts with a fresh handler state (the first cycle, and every cycle
   after a success)?  The strict checks of execute_handler_once on a state created at that very instant (runtime 0,
   0 retries): always, unless the handler is declared with timeout <= 0 or retries <= 0. *)
Definition run_allowed (c : cfg) : bool :=
  negb (hits (c_timeout c) 0) && negb (hits (c_retries c) 0).

Inductive chain (c : cfg) (e : env) : Z -> list cyc -> Prop :=
| chain_nil : forall now, chain c e now []
| chain_one : forall now y,
    idle_ok e (c_idle c) now (y_start y) -> wf_cyc c y -> stopped e (y_start y) = false ->
    chain c e now [y]
| chain_cons : forall now y b y2 ys,
    idle_ok e (c_idle c) now (y_start y) -> wf_cyc c y -> stopped e (y_start y) = false ->
    next_base c e y b ->
    (y_done y = true -> y_failed y = false -> y_inv y2 = run_allowed c) ->
    chain c e b (y2 :: ys) ->
    chain c e now (y :: y2 :: ys).

(* ---------------------------------------------------------------- comparison helpers for the harness *)
Definition oz_eqb (a b : option Z) : bool :=
  match a, b with Some x, Some y => x =? y | None, None => true | _, _ => false end.

(* an observed cycle: (start, hend, pend, invoked) *)
Definition cyc_eqb (y : cyc) (o : Z * Z * Z * bool) : bool :=
  let '(s, he, pe, inv) := o in
  (y_start y =? s) && (y_hend y =? he) && (y_pend y =? pe) && Bool.eqb (y_inv y) inv.

Fixpoint sleeps (evs : list ev) : list (Z * Z * option Z) :=
  match evs with
  | [] => []
  | ECyc _ :: r => sleeps r
  | ESleep t d w :: r => (t, d, w) :: sleeps r
  end.

Definition sl_eqb (a b : Z * Z * option Z) : bool :=
  let '(t, d, w) := a in let '(t', d', w') := b in (t =? t') && (d =? d') && oz_eqb w w'.

Fixpoint list_eqb2 {A B} (f : A -> B -> bool) (x : list A) (y : list B) : bool :=
  match x, y with
  | [], [] => true
  | a :: x', b :: y' => f a b && list_eqb2 f x' y'
  | _, _ => false
  end.

Definition final_eqb (a b : final) : bool :=
  match a, b with
  | FExited x, FExited y | FStopped x, FStopped y | FOut x, FOut y | FHorizon x, FHorizon y
  | FStall x, FStall y | FCrash x, FCrash y | FFuel x, FFuel y => x =? y
  | _, _ => false
  end.

Definition run_matches (r : list ev * final) (ocyc : list (Z * Z * Z * bool)) (osl : list (Z * Z * option Z))
           (ofin : final) : bool :=
  list_eqb2 cyc_eqb (cycles (fst r)) ocyc && list_eqb2 sl_eqb (sleeps (fst r)) osl && final_eqb (snd r) ofin.
