(* The closed loop of ONE object at the abstract level (DESIGN.md App. A, L1/L2):
   server object  x  watch-event queue  x  one worker's memory,  with the per-event processing
   step of kopf (process_resource_event -> process_resource_causes -> process_changing_cause ->
   application.apply -> patching.patch_obj) as a deterministic function of the event's VIEW.

   Abstractions: the essential state of the object is a number (its essence); progress records
   are a map handler -> status; the framework finalizer is a boolean; time is a natural number
   of ticks with absolute `delayed` instants in the records, exactly as kopf persists them.
   All change handlers are unfiltered create/update handlers (selection is C05/C15's subject);
   deletion is out of scope here (C06).  `need_fin` stands for "some spawning handler requires
   the finalizer" (a live daemon); it drops when the daemon exits on its own.

   Labels are the environment's and the scheduler's choices; every interleaving = every label
   list accepted by [run].  Definitions only; proofs in Proofs/CycleWorld.v. *)
From Coq Require Import Arith List Bool.
Import ListNotations.

Definition hid := nat.

Inductive hst : Type :=
| HOpen (retries : nat) (delayed : nat)      (* not finished; may not run before [delayed] *)
| HDone (ok : bool).                         (* success / permanent failure *)

Definition recs := list (hid * hst).

Fixpoint rget (h : hid) (r : recs) : option hst :=
  match r with
  | [] => None
  | (k, v) :: r' => if Nat.eqb h k then Some v else rget h r'
  end.

Fixpoint rdel (h : hid) (r : recs) : recs :=
  match r with
  | [] => []
  | (k, v) :: r' => if Nat.eqb h k then rdel h r' else (k, v) :: rdel h r'
  end.

Definition rset (h : hid) (v : hst) (r : recs) : recs := (h, v) :: rdel h r.

(* the object on the server = what a watch event shows (a view is a snapshot of it) *)
Record obj : Type := mkObj {
  o_rv : nat;               (* resourceVersion *)
  o_ess : nat;              (* essence (spec, labels, ordinary annotations), abstract *)
  o_last : option nat;      (* last-handled essence *)
  o_recs : recs;            (* progress records *)
  o_fin : bool;             (* the framework finalizer is present *)
  o_dummy : bool;           (* the touch annotation is present *)
}.

Inductive fn : Type := Block | Allow.         (* block_deletion / allow_deletion *)

Inductive lifecycle : Type := AllAtOnce | OneByOne | Asap.

Inductive outcome : Type := OK | Perm | Temp (delay : nat).

Record mem : Type := mkMem {
  m_up : bool;              (* the operator process is running *)
  m_queue : list obj;       (* watch events not yet processed (views), oldest first *)
  m_carried : list fn;      (* memory.remaining_patch: transformations carried over after a 422 *)
  m_timer : option nat;     (* the worker sleeps in apply() until this instant, then touches *)
  m_expected : option (nat * nat);   (* (resourceVersion of the worker's own last patch, consistency deadline) *)
  m_initial : bool;         (* noticed_by_listing and not fully_handled_once: the first sight of the object in this process *)
}.

Record world : Type := mkWorld {
  w_srv : obj;
  w_mem : mem;
  w_need_fin : bool;        (* a spawning handler (live daemon) requires the finalizer *)
  w_now : nat;
  w_log : list (hid * nat * nat * outcome);   (* invocations: handler, retry, essence seen, outcome *)
}.

Section Cycle.
  Variable hc : list hid.           (* creation handlers, registration order *)
  Variable hu : list hid.           (* update handlers, registration order *)
  Variable lc : lifecycle.
  Variable ctimeout : nat.          (* settings.persistence.consistency_timeout, in ticks *)

  Definition owned : list hid := hc ++ hu.
  Definition has_handlers : bool := match owned with [] => false | _ => true end.

  Inductive cause : Type := Create | Update | Resume | Noop.

  Definition cause_at (initial : bool) (v : obj) : cause :=
    match o_last v with
    | None => Create
    | Some l => if Nat.eqb l (o_ess v) then (if initial then Resume else Noop) else Update
    end.

  Definition cause_of (v : obj) : cause := cause_at false v.

  (* State.from_storage + with_handlers: the state of a selected handler as read from the view *)
  Definition hstate (now : nat) (v : obj) (h : hid) : hst :=
    match rget h (o_recs v) with
    | Some s => s
    | None => HOpen 0 0
    end.

  Definition awakened (now : nat) (s : hst) : bool :=
    match s with
    | HOpen _ d => d <=? now
    | HDone _ => false
    end.

  Definition retries_of (s : hst) : nat := match s with HOpen r _ => r | HDone _ => 0 end.

  (* asap: the handler with the fewest retries first (stable) *)
  Fixpoint min_by (f : hid -> nat) (l : list hid) (best : hid) : hid :=
    match l with
    | [] => best
    | h :: l' => if f h <? f best then min_by f l' h else min_by f l' best
    end.

  Definition plan (now : nat) (v : obj) (todo : list hid) : list hid :=
    match lc, todo with
    | _, [] => []
    | AllAtOnce, _ => todo
    | OneByOne, h :: _ => [h]
    | Asap, h :: t => [min_by (fun x => retries_of (hstate now v x)) t h]
    end.

  Definition after (now : nat) (s : hst) (o : outcome) : hst :=
    match o with
    | OK => HDone true
    | Perm => HDone false
    | Temp d => HOpen (S (retries_of s)) (now + d)
    end.

  Definition is_done (s : hst) : bool := match s with HDone _ => true | _ => false end.

  (* what one processing cycle decides, given the view *)
  Record decision : Type := mkDec {
    d_invoked : list (hid * nat * outcome);   (* handler, retry number given, outcome *)
    d_store : list (hid * hst);               (* records written into the patch *)
    d_purge : bool;                           (* all records of the handlers purged *)
    d_last : option nat;                      (* last-handled written *)
    d_fns : list fn;                          (* transformations, incl. the carried ones *)
    d_delays : list nat;                      (* delays returned to apply() *)
    d_untouch : bool;                         (* the touch annotation is cleared together with the patch *)
    d_handled : bool;                         (* the cycle completed (done or skip): memory.fully_handled_once *)
  }.

  Definition no_change : decision := mkDec [] [] false None [] [] false false.

  Definition selected (v : obj) : list hid :=
    match cause_of v with Create => hc | Update => hu | _ => [] end.

  (* the handlers that get invoked in this cycle: awake ones, as chosen by the lifecycle *)
  Definition todo (now : nat) (v : obj) : list hid :=
    filter (fun h => awakened now (hstate now v h)) (selected v).

  Definition planned (now : nat) (v : obj) : list hid := plan now v (todo now v).

  (* State.with_outcomes *)
  Definition state_after (now : nat) (v : obj) (oracle : hid -> outcome) (h : hid) : hst :=
    if existsb (Nat.eqb h) (planned now v) then after now (hstate now v h) (oracle h) else hstate now v h.

  Definition all_done (now : nat) (v : obj) (oracle : hid -> outcome) : bool :=
    forallb (fun h => is_done (state_after now v oracle h)) (selected v).

  Definition changing (now : nat) (v : obj) (oracle : hid -> outcome) : decision :=
    let hs := selected v in
    let st := fun h => hstate now v h in
    let pl := planned now v in
    let outs := map (fun h => (h, retries_of (st h), oracle h)) pl in
    let st' := state_after now v oracle in
    (* State.store: every handler state that differs from its origin: the invoked ones and the
       freshly created ones (no record in the view) *)
    let stored := map (fun h => (h, st' h))
                      (filter (fun h => existsb (Nat.eqb h) pl || match rget h (o_recs v) with None => true | _ => false end) hs) in
    match hs with
    | [] => mkDec [] [] false (Some (o_ess v)) [] [] false true        (* no handler for this cause: "skip", the state is recorded as handled *)
    | _ =>
    if all_done now v oracle then mkDec outs [] true (Some (o_ess v)) [] [] false true
    else mkDec outs stored false None []
               (map (fun h => match st' h with HOpen _ d => d - now | HDone _ => 0 end)
                    (filter (fun h => negb (is_done (st' h))) hs)) false false
    end.

  (* [consistent]: the worker has seen the echo of its own last patch, or its deadline has passed, or it
     has just waited for the deadline uninterrupted (DESIGN C07) *)
  (* the first sight of an unchanged, handled-before object in a new process: the "resume" cause; no resume
     handlers are modelled, so nothing is invoked, but records left over from another cause are purged *)
  Definition resuming (v : obj) : decision :=
    mkDec [] [] (existsb (fun h => match rget h (o_recs v) with Some _ => true | None => false end) owned) None [] [] false true.

  Definition process_at (initial : bool) (now : nat) (need_fin : bool) (carried : list fn) (consistent : bool) (v : obj)
             (oracle : hid -> outcome) : decision :=
    let cc0 := match cause_at initial v with Noop => false | _ => has_handlers end in
    let '(fns, cc) :=
        if need_fin && negb (o_fin v) then (carried ++ [Block], false)
        else if negb need_fin && o_fin v then (carried ++ [Allow], false)
        else (carried, cc0) in
    let initially_empty := match carried with [] => true | _ => false end in
    let d :=
      if cc && negb (consistent && initially_empty) then mkDec [] [] false None fns [] false false  (* stale view, or flush the carried patch first *)
      else if cc then
        let d := match cause_at initial v with Resume => resuming v | _ => changing now v oracle end in
        mkDec (d_invoked d) (d_store d) (d_purge d) (d_last d) fns (d_delays d) false (d_handled d)
      else mkDec [] [] false None fns [] false false in
    (* application.apply: whenever there is anything to patch, the touch annotation seen in the view is cleared *)
    let patched := match d_store d, d_purge d, d_last d, d_fns d with [], false, None, [] => false | _, _, _, _ => true end in
    mkDec (d_invoked d) (d_store d) (d_purge d) (d_last d) (d_fns d) (d_delays d) (patched && o_dummy v) (d_handled d).

  Definition process := process_at false.

  (* ---- applying a decision to the server (application.apply + patching.patch_obj) ---- *)
  Definition has_merge (d : decision) : bool :=
    match d_store d, d_purge d, d_last d, d_untouch d with
    | [], false, None, false => false
    | _, _, _, _ => true
    end.

  Definition recs_eqb (a b : recs) : bool :=
    forallb (fun h => match rget h a, rget h b with
                      | Some (HOpen r d), Some (HOpen r' d') => Nat.eqb r r' && Nat.eqb d d'
                      | Some (HDone x), Some (HDone y) => Bool.eqb x y
                      | None, None => true
                      | _, _ => false
                      end) owned.

  (* a write that changes nothing produces no new version and no event *)
  Definition same_content (a b : obj) : bool :=
    Nat.eqb (o_ess a) (o_ess b)
    && match o_last a, o_last b with Some x, Some y => Nat.eqb x y | None, None => true | _, _ => false end
    && recs_eqb (o_recs a) (o_recs b) && Bool.eqb (o_fin a) (o_fin b) && Bool.eqb (o_dummy a) (o_dummy b).

  Definition apply_merge (d : decision) (s : obj) : obj :=
    let r1 := fold_left (fun r kv => rset (fst kv) (snd kv) r) (d_store d) (o_recs s) in
    let r2 := if d_purge d then fold_left (fun r h => rdel h r) owned r1 else r1 in
    mkObj (S (o_rv s)) (o_ess s) (match d_last d with Some l => Some l | None => o_last s end) r2 (o_fin s)
          (if d_untouch d then false else o_dummy s).

  Definition fin_after (fns : list fn) (f : bool) : bool :=
    fold_left (fun f x => match x with Block => true | Allow => false end) fns f.

  Definition min_list (l : list nat) : option nat :=
    match l with
    | [] => None
    | x :: l' => Some (fold_left Nat.min l' x)
    end.

  (* One worker cycle on the view [v]: returns the new server object, the new memory and the
     events the server emitted (snapshots), given the current server object [s]. *)
  (* 1. merge-patch part: addressed by name, lands on whatever the object is now.
        -> (server, events, freshest body known to the worker) *)
  Definition stage_merge (d : decision) (alive : bool) (s v : obj) : obj * list obj * obj :=
    if has_merge d && alive then
      let s' := apply_merge d s in
      if same_content s s' then (s, [], s) else (s', [s'], s')
    else (s, [], v).

  (* 2. transformations as a JSON-patch against the freshest body known, pinned to its version.
        -> (server, events, carried transformations) *)
  Definition stage_fns (d : decision) (alive : bool) (s1 fresh : obj) : obj * list obj * list fn :=
    let want := fin_after (d_fns d) (o_fin fresh) in
    match d_fns d with
    | [] => (s1, [], [])
    | _ =>
        if negb alive then (s1, [], [])
        else if Bool.eqb want (o_fin fresh) then (s1, [], [])                 (* no operations: nothing is sent *)
        else if Nat.eqb (o_rv fresh) (o_rv s1)
             then let s' := mkObj (S (o_rv s1)) (o_ess s1) (o_last s1) (o_recs s1) want (o_dummy s1) in (s', [s'], [])
             else (s1, [], d_fns d)                                      (* 422: carried to the next cycle *)
    end.

  (* 3. sleep / touch.  -> (server, events, timer) *)
  Definition stage_sleep (d : decision) (patched alive : bool) (now : nat) (s2 : obj) : obj * list obj * option nat :=
    match min_list (d_delays d) with
    | None => (s2, [], None)
    | Some dl =>
        if patched || negb alive then (s2, [], None)                    (* the patch's own echo re-triggers *)
        else if Nat.eqb dl 0
             then let s' := mkObj (S (o_rv s2)) (o_ess s2) (o_last s2) (o_recs s2) (o_fin s2) true in (s', [s'], None)  (* touch now *)
             else (s2, [], Some (now + dl))
    end.

  (* worker: the echo of the own patch clears the expectation *)
  Definition expect_after_event (m : mem) (v : obj) : option (nat * nat) :=
    match m_expected m with
    | Some (rv, dl) => if Nat.eqb rv (o_rv v) then None else Some (rv, dl)
    | None => None
    end.

  Definition pending_at (now : nat) (e : option (nat * nat)) : bool :=
    match e with Some (_, dl) => now <? dl | None => false end.

  (* [lost]: the process dies inside this cycle: 1 = before its merge-patch reaches the server, 2 = before the
     JSON-patch, 3 = before the touch, 0 (or > 3) = it survives the cycle.  Handlers invoked stay invoked. *)
  Definition cycle (w : world) (v : obj) (rest : list obj) (oracle : hid -> outcome) (waited : bool) (lost : nat) : world :=
    let alive1 := negb (Nat.eqb lost 1) in
    let alive2 := alive1 && negb (Nat.eqb lost 2) in
    let alive3 := alive2 && negb (Nat.eqb lost 3) in
    let s := w_srv w in
    let m := w_mem w in
    let exp0 := expect_after_event m v in
    let pending := pending_at (w_now w) exp0 in
    (* an inconsistent worker with nothing queued sleeps until the deadline (waited) unless interrupted *)
    let now := match exp0 with Some (_, dl) => if pending && waited then dl else w_now w | None => w_now w end in
    let consistent := negb pending || waited in
    let d := process_at (m_initial m) now (w_need_fin w) (m_carried m) consistent v oracle in
    let log' := w_log w ++ map (fun x => (fst (fst x), snd (fst x), o_ess v, snd x)) (d_invoked d) in
    let '(s1, ev1, fresh) := stage_merge d alive1 s v in
    let '(s2, ev2, carried') := stage_fns d alive2 s1 fresh in
    let patched := has_merge d || match d_fns d with [] => false | _ => true end in
    let '(s3, ev3, timer') := stage_sleep d patched alive3 now s2 in
    let wrote := match ev1 ++ ev2 ++ ev3 with [] => false | _ => true end in
    let exp' := if wrote then Some (o_rv s3, now + ctimeout) else exp0 in
    mkWorld s3 (mkMem true (rest ++ ev1 ++ ev2 ++ ev3) carried' timer' exp' (m_initial m && negb (d_handled d))) (w_need_fin w) now log'.

  (* ---- labels ---- *)
  Inductive label : Type :=
  | Edit (e : nat)                       (* an external essential change *)
  | Tick (d : nat)                       (* time passes *)
  | Proc (oracle : list (hid * outcome)) (waited : bool) (lost : nat)
                                         (* the worker processes the oldest queued event; [waited]: it slept
                                            until the consistency deadline without being interrupted *)
  | Fire                                 (* the worker's sleep ends uninterrupted: touch *)
  | DaemonExit                           (* the daemon exits on its own: finalizer no longer required *)
  | Kill                                 (* the operator process disappears; queue and memory are lost *)
  | Start (need_fin : bool)              (* a new process lists the object (one event with its current state);
                                            its daemons (if any) are spawned afresh: [need_fin] *)
  | Relist.                              (* 410 Gone: the stream is re-listed, the current state is delivered again *)

  Fixpoint list_nat_eqb (a b : list nat) : bool :=
    match a, b with
    | [], [] => true
    | x :: a', y :: b' => Nat.eqb x y && list_nat_eqb a' b'
    | _, _ => false
    end.

  Definition oracle_of (l : list (hid * outcome)) (h : hid) : outcome :=
    match find (fun kv => Nat.eqb h (fst kv)) l with
    | Some kv => snd kv
    | None => OK
    end.

  Definition bump (s : obj) (e : nat) : obj := mkObj (S (o_rv s)) e (o_last s) (o_recs s) (o_fin s) (o_dummy s).
  Definition touch (s : obj) : obj := mkObj (S (o_rv s)) (o_ess s) (o_last s) (o_recs s) (o_fin s) true.

  Definition enqueue (m : mem) (evs : list obj) : mem :=
    if m_up m then mkMem true (m_queue m ++ evs) (m_carried m) (m_timer m) (m_expected m) (m_initial m) else m.

  Definition step (w : world) (l : label) : option world :=
    let m := w_mem w in
    match l with
    | Edit e =>
        let s' := bump (w_srv w) e in
        Some (mkWorld s' (enqueue m [s']) (w_need_fin w) (w_now w) (w_log w))
    | Tick d => Some (mkWorld (w_srv w) m (w_need_fin w) (w_now w + d) (w_log w))
    | Proc o waited lost =>
        if m_up m then
          match m_queue m with
          | [] => None
          | v :: rest =>
              (* waiting for the deadline is only possible while nothing else is queued *)
              if waited && match rest with [] => false | _ => true end then None else
              (* a sleeping worker is woken by the pressure of the new event: the timer is dropped *)
              let w' := cycle (mkWorld (w_srv w) (mkMem true rest (m_carried m) None (m_expected m) (m_initial m)) (w_need_fin w) (w_now w) (w_log w))
                              v rest (oracle_of o) waited lost in
              (* the handlers the model invokes must be exactly those the label reports, in order *)
              let invoked := map (fun x => fst (fst (fst x))) (skipn (List.length (w_log w)) (w_log w')) in
              if list_nat_eqb invoked (map fst o) then Some w' else None
          end
        else None
    | Fire =>
        match m_up m, m_timer m, m_queue m with
        | true, Some t, [] =>
            if t <=? w_now w then
              let s' := touch (w_srv w) in
              Some (mkWorld s' (mkMem true [s'] (m_carried m) None (Some (o_rv s', w_now w + ctimeout)) (m_initial m)) (w_need_fin w) (w_now w) (w_log w))
            else None
        | _, _, _ => None
        end
    | DaemonExit => Some (mkWorld (w_srv w) m false (w_now w) (w_log w))
    | Kill => Some (mkWorld (w_srv w) (mkMem false [] [] None None false) (w_need_fin w) (w_now w) (w_log w))
    | Start nf =>
        if m_up m then None
        else Some (mkWorld (w_srv w) (mkMem true [w_srv w] [] None None true) nf (w_now w) (w_log w))
    | Relist => Some (mkWorld (w_srv w) (enqueue m [w_srv w]) (w_need_fin w) (w_now w) (w_log w))
    end.

  Fixpoint run (w : world) (ls : list label) : option world :=
    match ls with
    | [] => Some w
    | l :: ls' => match step w l with Some w' => run w' ls' | None => None end
    end.

  (* the object as created by the environment, never handled, operator not yet started *)
  Definition init (e : nat) (need_fin : bool) : world :=
    mkWorld (mkObj 1 e None [] false false) (mkMem false [] [] None None false) need_fin 0 [].

  (* ---- predicates of the property ---- *)
  Definition no_own_records (s : obj) : bool := forallb (fun h => match rget h (o_recs s) with None => true | Some _ => false end) owned.

  Definition settled (s : obj) : bool :=
    match o_last s with Some l => Nat.eqb l (o_ess s) | None => false end && no_own_records s.

  (* nothing the operator will ever do by itself: no event queued, no sleep pending *)
  Definition quiescent (w : world) : bool :=
    m_up (w_mem w) && match m_queue (w_mem w) with [] => true | _ => false end
    && match m_timer (w_mem w) with None => true | Some _ => false end.

  (* ---- trace replay with state checks (used by the correspondence harness) ---- *)
  Record snap : Type := mkSnap {
    sn_ess : nat; sn_last : option nat; sn_recs : list (hid * hst); sn_fin : bool;
  }.

  Definition hst_eqb (a b : hst) : bool :=
    match a, b with
    | HOpen r d, HOpen r' d' => Nat.eqb r r' && Nat.eqb d d'
    | HDone x, HDone y => Bool.eqb x y
    | _, _ => false
    end.

  Definition opt_nat_eqb (a b : option nat) : bool :=
    match a, b with Some x, Some y => Nat.eqb x y | None, None => true | _, _ => false end.

  Definition snap_ok (w : world) (sn : snap) : bool :=
    let s := w_srv w in
    Nat.eqb (o_ess s) (sn_ess sn) && opt_nat_eqb (o_last s) (sn_last sn) && Bool.eqb (o_fin s) (sn_fin sn)
    && forallb (fun h => match rget h (o_recs s), rget h (sn_recs sn) with
                         | Some a, Some b => hst_eqb a b
                         | None, None => true
                         | _, _ => false
                         end) owned.

  Inductive item : Type := L (l : label) | Check (sn : snap).

  (* index of the first item that is rejected (label not enabled / state differs), None if all pass *)
  Fixpoint replay (i : nat) (w : world) (its : list item) : option nat * world :=
    match its with
    | [] => (None, w)
    | L l :: r => match step w l with Some w' => replay (S i) w' r | None => (Some i, w) end
    | Check sn :: r => if snap_ok w sn then replay (S i) w r else (Some i, w)
    end.
End Cycle.
