(* N operators sharing one peering object: a labelled transition system around Model/Peering.v.
   Definitions only.  Operators are identified by their peering identity (a string); the shared
   status holds abstract records; every decision is taken by Peering.decide_peers (the function
   tied to process_peering_event by the differential), applied to the records turned into Peers.
   Times: ms.  The API has zero latency in this model (the clean/touch PATCHes are atomic with the
   decision); what is delayed arbitrarily is the DELIVERY of the watch events (per-operator FIFO
   inboxes), and what is arbitrary is the order of starts, exits, kills and foreign writes.
   keepalive() is on a schedule: the first touch is immediate, the next one is due ka_period lifetime jitter
   seconds later (jitter 5..10, chosen per touch), and time does not pass a due touch or a due wake-up
   (tick_ok: asyncio fires the timers; the real coroutines' timing is checked against this by T:peernet). *)
From Coq Require Import ZArith List String Bool.
From KV Require Import Base.Json Model.Peering.
Import ListNotations.
Open Scope string_scope.
Open Scope Z_scope.
Open Scope list_scope.

(* a record of the shared status; r_seen = None: no lastseen field (the reader assumes "now") *)
Record arec := mkRec { r_prio : Z; r_life : Z; r_seen : option Z }.
Definition astatus := list (string * arec).

Definition dl_at (now : Z) (r : arec) : Z :=
  (match r_seen r with Some t => t | None => now end) + r_life r * 1000.

(* the Peer object that Peer(identity=id, **record) builds at wall-clock [now] *)
Definition apeer (now : Z) (kv : string * arec) : peer :=
  let seen := match r_seen (snd kv) with Some t => t | None => now end in
  let dl := seen + r_life (snd kv) * 1000 in
  mkPeer (fst kv) (JNum (r_prio (snd kv))) (r_life (snd kv)) seen dl (dl <=? now).

(* the property's notion, independent of decide_peers: a live record of somebody else with
   priority >= own *)
Definition is_blocker (me : string) (own : Z) (now : Z) (kv : string * arec) : bool :=
  negb (String.eqb (fst kv) me) && (now <? dl_at now (snd kv)) && (own <=? r_prio (snd kv)).
Definition has_blocker (me : string) (own : Z) (now : Z) (st : astatus) : bool :=
  existsb (is_blocker me own now) st.

(* Exiting: graceful exit requested and the own record withdrawn, but the peering watcher is still
   draining its workers (queueing.watcher's finally: up to settings.queueing.exit_timeout) *)
Inductive phase := Down | Up | Exiting.

Record opst := mkOp {
  op_phase : phase;
  op_prio : Z;
  op_life : Z;
  op_listed : bool;                       (* the peering watcher has done its initial listing *)
  op_toggle : bool;                       (* conflicts_found *)
  op_wake : option Z;                     (* armed sleep of process_peering_event *)
  op_inbox : list (nat * astatus);        (* delivered-but-unprocessed snapshots, oldest first *)
}.

Definition op0 : opst := mkOp Down 0 0 false false None [].
Definition is_up (o : opst) : bool := match op_phase o with Up => true | _ => false end.
Definition is_alive (o : opst) : bool := match op_phase o with Down => false | _ => true end.

Record net := mkNet {
  n_now : Z;
  n_ver : nat;                            (* resourceVersion of the shared object *)
  n_status : astatus;
  n_ids : list string;                    (* identities ever started *)
  n_ops : string -> opst;
  n_ka : string -> option Z;              (* keepalive(): when the next touch is due (None: not yet touched) *)
}.

Definition net0 (t0 : Z) : net := mkNet t0 0 [] [] (fun _ => op0) (fun _ => None).

Definition upd (f : string -> opst) (i : string) (o : opst) : string -> opst :=
  fun k => if String.eqb k i then o else f k.

Definition with_inbox (o : opst) (ib : list (nat * astatus)) : opst :=
  mkOp (op_phase o) (op_prio o) (op_life o) (op_listed o) (op_toggle o) (op_wake o) ib.

(* a write to the shared object: new version, MODIFIED event to every listed running operator *)
Definition push (v : nat) (st : astatus) (f : string -> opst) : string -> opst :=
  fun k => let o := f k in
           if is_up o && op_listed o then with_inbox o (op_inbox o ++ [(v, st)]) else o.

Definition commit (s : net) (st' : astatus) (ops : string -> opst) : net :=
  mkNet (n_now s) (S (n_ver s)) st' (n_ids s) (push (S (n_ver s)) st' ops) (n_ka s).

Definition updk (f : string -> option Z) (i : string) (v : option Z) : string -> option Z :=
  fun k => if String.eqb k i then v else f k.

Definition with_ka (s : net) (ka : string -> option Z) : net :=
  mkNet (n_now s) (n_ver s) (n_status s) (n_ids s) (n_ops s) ka.

Definition cfg_of (i : string) (o : opst) : cfg := mkCfg i (op_prio o) (op_life o) "default" true.

(* touch(): write (or, for lifetime <= 0, remove) the own record *)
Definition touched (i : string) (o : opst) (lifetime : option Z) (now : Z) (st : astatus) : astatus :=
  match touch_record (cfg_of i o) lifetime now with
  | Some (p, l, t) => set i (mkRec p l (Some t)) st
  | None => del i st
  end.

Fixpoint dels (ids : list string) (st : astatus) : astatus :=
  match ids with
  | [] => st
  | i :: ids' => dels ids' (del i st)
  end.

Definition rec_eqb' (a b : arec) : bool :=
  (r_prio a =? r_prio b) && (r_life a =? r_life b) && oZ_eqb (r_seen a) (r_seen b).

(* equality of two status maps up to order (keys unique on the harness side) *)
Definition astatus_eqb (a b : astatus) : bool :=
  Nat.eqb (List.length a) (List.length b) &&
  forallb (fun kv => match lookup (fst kv) b with Some r => rec_eqb' (snd kv) r | None => false end) a.

Inductive label :=
| LTick (t : Z)
| LStart (i : string) (prio life : Z) (pre : bool)   (* pre: toggle pre-activated (mandatory peering) *)
| LList (i : string)                                 (* initial listing of the peering watcher *)
| LKeepalive (i : string) (jitter : Z)               (* keepalive(): touch, then sleep ka_period lifetime jitter *)
| LObserve (i : string) (ver : nat) (cleaned : list string) (toggle : bool)
                                                     (* process_peering_event on the next delivered snapshot;
                                                        what the implementation did is part of the label *)
| LWake (i : string)                                 (* the armed sleep ran out: touch(self) *)
| LExit (i : string)                                 (* graceful: keepalive's finally writes lifetime=0 *)
| LGone (i : string)                                 (* the exiting process has finished *)
| LKill (i : string)                                 (* nothing reaches the API any more *)
| LForeign (j : string) (r : option arec)            (* any other writer (kopf freeze/resume, a human) *)
| LCheck (st : astatus).                             (* harness snapshot of the real object *)

(* time may not pass an armed, un-interrupted sleep (asyncio fires the timer) *)
Definition tick_ok (s : net) (t : Z) : bool :=
  forallb (fun i => let o := n_ops s i in
                    (if is_up o && match op_inbox o with [] => true | _ => false end
                     then match op_wake o with Some w => t <=? w | None => true end
                     else true)
                    (* ... nor a due keep-alive; the first touch is immediate *)
                    && (if is_up o then match n_ka s i with Some due => t <=? due | None => false end else true))
          (n_ids s).

Definition step (s : net) (l : label) : option net :=
  match l with
  | LTick t =>
      if (n_now s <? t) && tick_ok s t
      then Some (mkNet t (n_ver s) (n_status s) (n_ids s) (n_ops s) (n_ka s)) else None
  | LStart i prio life pre =>
      if is_alive (n_ops s i) then None else
      Some (mkNet (n_now s) (n_ver s) (n_status s)
                  (if mem_str i (n_ids s) then n_ids s else i :: n_ids s)
                  (upd (n_ops s) i (mkOp Up prio life false pre None []))
                  (updk (n_ka s) i None))
  | LList i =>
      let o := n_ops s i in
      if is_up o && negb (op_listed o)
      then Some (mkNet (n_now s) (n_ver s) (n_status s) (n_ids s)
                       (upd (n_ops s) i (mkOp Up (op_prio o) (op_life o) true (op_toggle o) (op_wake o)
                                              [(n_ver s, n_status s)]))
                       (n_ka s))
      else None
  | LKeepalive i j =>
      let o := n_ops s i in
      if is_up o && (5 <=? j) && (j <=? 10)
         && match n_ka s i with Some due => due <=? n_now s | None => true end
      then Some (with_ka (commit s (touched i o None (n_now s) (n_status s)) (n_ops s))
                         (updk (n_ka s) i (Some (n_now s + ka_period (op_life o) j * 1000))))
      else None
  | LObserve i ver cleaned tg =>
      let o := n_ops s i in
      if negb (is_alive o && op_listed o) then None else
      match op_inbox o with
      | [] => None
      | (v, snap) :: rest =>
          if negb (Nat.eqb v ver) then None else
          match decide_peers (cfg_of i o) (Some (op_toggle o)) (map (apeer (n_now s)) snap) with
          | PErr _ => None
          | POk out =>
              if negb (strs_eqb (o_clean out) cleaned && obool_eqb (o_toggle out) (Some tg)) then None else
              let o' := mkOp (op_phase o) (op_prio o) (op_life o) true tg (o_wake out) rest in
              let ops' := upd (n_ops s) i o' in
              match cleaned with
              | [] => Some (mkNet (n_now s) (n_ver s) (n_status s) (n_ids s) ops' (n_ka s))
              | _ => Some (commit s (dels cleaned (n_status s)) ops')
              end
          end
      end
  | LWake i =>
      let o := n_ops s i in
      if negb (is_alive o) then None else
      match op_wake o with
      | Some w =>
          if w <=? n_now s
          then Some (commit s (touched i o None (n_now s) (n_status s))
                            (upd (n_ops s) i (mkOp (op_phase o) (op_prio o) (op_life o) (op_listed o) (op_toggle o) None (op_inbox o))))
          else None
      | None => None
      end
  | LExit i =>
      let o := n_ops s i in
      if is_up o
      then Some (with_ka (commit s (touched i o (Some 0) (n_now s) (n_status s))
                        (upd (n_ops s) i (mkOp Exiting (op_prio o) (op_life o) (op_listed o) (op_toggle o) (op_wake o) (op_inbox o))))
                         (updk (n_ka s) i None))
      else None
  | LGone i =>
      let o := n_ops s i in
      match op_phase o with
      | Exiting => Some (mkNet (n_now s) (n_ver s) (n_status s) (n_ids s)
                               (upd (n_ops s) i (mkOp Down (op_prio o) (op_life o) false false None []))
                               (n_ka s))
      | _ => None
      end
  | LKill i =>
      let o := n_ops s i in
      if is_alive o
      then Some (mkNet (n_now s) (n_ver s) (n_status s) (n_ids s)
                       (upd (n_ops s) i (mkOp Down (op_prio o) (op_life o) false false None []))
                       (updk (n_ka s) i None))
      else None
  | LForeign j r =>
      if is_alive (n_ops s j) then None else       (* the identity of a running operator is its own *)
      Some (commit s (match r with Some x => set j x (n_status s) | None => del j (n_status s) end) (n_ops s))
  | LCheck st =>
      if astatus_eqb st (n_status s) && astatus_eqb (n_status s) st then Some s else None
  end.

Fixpoint run (s : net) (tr : list label) : option net :=
  match tr with
  | [] => Some s
  | l :: tr' => match step s l with Some s' => run s' tr' | None => None end
  end.

(* index of the first rejected label (for the harness's diagnostics): None = accepted *)
Fixpoint rejected_at (s : net) (tr : list label) (n : nat) : option nat :=
  match tr with
  | [] => None
  | l :: tr' => match step s l with Some s' => rejected_at s' tr' (S n) | None => Some n end
  end.

Definition accepts (t0 : Z) (tr : list label) : bool :=
  match rejected_at (net0 t0) tr 0 with None => true | Some _ => false end.

(* ---------- the JSON form of the abstract status (what the API object's .status looks like) ---------- *)
(* [fmt] renders an instant as the lastseen string (datetime.isoformat); the only thing assumed about it, where
   it matters, is that iso8601.parse_date reads it back (odate (fmt t) = Some t). *)
Definition enc_rec (fmt : Z -> string) (r : arec) : json :=
  JObj ([("priority", JNum (r_prio r)); ("lifetime", JNum (r_life r))]
        ++ match r_seen r with Some t => [("lastseen", JStr (fmt t))] | None => [] end).

Definition enc_status (fmt : Z -> string) (st : astatus) : json :=
  JObj (map (fun kv => (fst kv, enc_rec fmt (snd kv))) st).

(* inside the range of timedelta / datetime (no OverflowError) *)
Definition rec_in_range (now : Z) (r : arec) : bool := td_ok (r_life r) && dt_ok (dl_at now r).

Definition fmt_tab (tab : list (Z * string)) (t : Z) : string :=
  match find (fun p => fst p =? t) tab with Some p => snd p | None => "?" end.
