(* C11 — the drivers of handler attempts.

   (1) The GENERIC driver: a labelled transition system over one handler's state.  A label
       [Tick ta tc tx te r] is one call of execution.execute_handlers_once that started at [ta]
       (where the `awakened` filter is evaluated), reached this handler's execute_handler_once at
       [tc] (strict checks, the user function entered with what it does = [r]), whose user function
       returned or raised at [tx] (look-ahead checks read the clock again) and whose outcomes
       were folded into the state at [te] (State.with_outcomes reads the clock once more).
       Tick times are ARBITRARY (only monotone): every sleeping policy of every driver, every
       watch-event arriving in between, every position of the handler in a batch is an instance.
       [Reset t] is `state = State.from_scratch().with_handlers([handler])` of daemons._timer,
       accepted only when the state is done and the handler has not failed
       (`if state.done and not state[handler.id].failure`), as in the code.
   (2) Four instantiations mirroring the code that exists:
       act_trace  — activities.run_activity           (in-memory loop, sleep(state.delay))
       dmn_trace  — daemons._daemon                   (in-memory loop, stopper, `if state.delay`)
       tmr_trace  — daemons._timer                    (reset after success only, sleep(state.delays) / interval / sharp)
       pstep/prun — processing.process_changing_cause (state re-read from the stored record on every
                    cycle, cycles at arbitrary event times, operator restarts in between)
   Definitions only; proofs in Proofs/Outcome.v. *)
From Coq Require Import ZArith List Bool.
From KV Require Import Model.Outcome.
Import ListNotations.
Open Scope Z_scope.

Record entry := mkEn {           (* one entry into the user function *)
  en_time   : Z;                 (* when it was entered *)
  en_retry  : Z;                 (* the `retry` kwarg it saw *)
  en_end    : Z;                 (* when its outcome was recorded *)
  en_raised : raised }.          (* what it did *)

Inductive label := Tick (ta tc tx te : Z) (r : raised) | Reset (t : Z).

Record dstate := mkD {
  d_hs    : hstate;
  d_clock : Z;
  d_log   : list entry;          (* entries of the current state lifetime, newest first *)
  d_past  : list (list entry) }. (* logs of the lifetimes ended by Reset, newest first *)

Definition init (t0 : Z) : dstate := mkD (from_scratch t0) t0 [] [].

Definition step (e : env) (c : hcfg) (s : dstate) (l : label) : option dstate :=
  match l with
  | Tick ta tc tx te r =>
      if (d_clock s <=? ta) && (ta <=? tc) && (tc <=? tx) && (tx <=? te) then
        let hs := d_hs s in
        if awakened ta hs then
          let oc := exec e c (s_retries hs) (runtime tc hs) (runtime tx hs) r in
          Some (mkD (with_outcome te hs (fst oc)) te
                    (if snd oc then mkEn tc (s_retries hs) te r :: d_log s else d_log s)
                    (d_past s))
        else Some (mkD hs te (d_log s) (d_past s))
      else None
  | Reset t =>
      if (d_clock s <=? t) && (st_done [d_hs s] && negb (s_failure (d_hs s)))
      then Some (mkD (from_scratch t) t [] (d_log s :: d_past s))
      else None
  end.

Fixpoint run (e : env) (c : hcfg) (s : dstate) (tr : list label) : option dstate :=
  match tr with
  | [] => Some s
  | l :: tr' => match step e c s l with Some s' => run e c s' tr' | None => None end
  end.

Definition is_tick (l : label) : bool := match l with Tick _ _ _ _ _ => true | Reset _ => false end.

(* every entry of the whole life, oldest first *)
Definition whole (s : dstate) : list entry := flat_map (@rev entry) (rev (d_log s :: d_past s)).

(* the delay the attempt asked for: TemporaryError.delay (None counts as 0), the backoff for an
   arbitrary error, the children's delay *)
Definition requested (e : env) (c : hcfg) (r : raised) : Z :=
  match r with
  | RTemp d | RChild d => or0 d
  | RArb => eff_backoff e c
  | _ => 0
  end.

(* consecutive entries of a newest-first log are at least the requested delay apart *)
Fixpoint spaced (e : env) (c : hcfg) (log : list entry) : Prop :=
  match log with
  | e2 :: ((e1 :: _) as rest) => en_end e1 + requested e c (en_raised e1) <= en_time e2 /\ spaced e c rest
  | _ => True
  end.

(* retry kwargs of a newest-first log count the previous attempts: n-1, ..., 1, 0 *)
Fixpoint counted (log : list entry) : Prop :=
  match log with
  | [] => True
  | x :: rest => en_retry x = Z.of_nat (List.length rest) /\ counted rest
  end.

(* ---------------------------------------------------------------- scripted handlers *)

Definition script := list (raised * Z).     (* per entry: what the function does, how long it takes *)

Definition next_act (sc : script) : raised * Z := match sc with x :: _ => x | [] => (ROk, 0) end.

Record iter := mkIt { it_hs : hstate; it_end : Z; it_sc : script; it_lab : label }.

(* one execute_handlers_once + state.with_outcomes over a one-handler state, entered at [now] *)
Definition iterate (e : env) (c : hcfg) (now : Z) (hs : hstate) (sc : script) : iter :=
  if awakened now hs then
    let r := fst (next_act sc) in
    let dur := snd (next_act sc) in
    let tx := now + Z.max 0 dur in
    let oc := exec e c (s_retries hs) (runtime now hs) (runtime tx hs) r in
    let te := if snd oc then tx else now in
    mkIt (with_outcome te hs (fst oc)) te (if snd oc then tl sc else sc) (Tick now now te te r)
  else mkIt hs now sc (Tick now now now now ROk).

Definition stop_set (stop : option Z) (now : Z) : bool :=
  match stop with Some ts => ts <=? now | None => false end.

(* aiotime.sleep(len, wakeup=stopper) entered at [now]: the instant it returns *)
Definition sleep_to (stop : option Z) (now len : Z) : Z :=
  if len <=? 0 then now else
  match stop with
  | Some ts => if ts <? now + len then Z.max now ts else now + len
  | None => now + len
  end.

Definition olist (o : option Z) : list Z := match o with Some x => [x] | None => [] end.

(* activities.run_activity with one handler *)
Fixpoint act_trace (fuel : nat) (e : env) (c : hcfg) (now : Z) (hs : hstate) (sc : script) : list label :=
  match fuel with
  | O => []
  | S f =>
      if st_done [hs] then [] else
      let it := iterate e c now hs sc in
      let te := it_end it in
      it_lab it :: act_trace f e c (sleep_to None te (sleep_len (olist (st_delay te [it_hs it])))) (it_hs it) (it_sc it)
  end.

(* daemons._daemon (initial_delay = None) *)
Fixpoint dmn_trace (fuel : nat) (e : env) (c : hcfg) (stop : option Z) (now : Z) (hs : hstate) (sc : script)
  : list label :=
  match fuel with
  | O => []
  | S f =>
      if stop_set stop now || st_done [hs] then [] else
      let it := iterate e c now hs sc in
      let te := it_end it in
      let len := match st_delay te [it_hs it] with Some d => if d =? 0 then 0 else d | None => 0 end in
      it_lab it :: dmn_trace f e c stop (sleep_to stop te len) (it_hs it) (it_sc it)
  end.

(* daemons._timer (initial_delay = None, idle = None, interval > 0 when given).  Since 071710e the state is created /
   reset inside the loop AFTER the idle wait (`if state is None or (state.done and not ...failure)`); without idle=
   the first creation happens at the instant the loop is entered, which is the [from_scratch t0] the trace starts from. *)
Fixpoint tmr_trace (fuel : nat) (e : env) (c : hcfg) (interval : option Z) (sharp : bool) (stop : option Z)
                   (now : Z) (hs : hstate) (sc : script) : list label :=
  match fuel with
  | O => []
  | S f =>
      if stop_set stop now then [] else
      let reset := st_done [hs] && negb (s_failure hs) in   (* reset only after a success; keep it if failed *)
      let hs0 := if reset then from_scratch now else hs in
      let pre := if reset then [Reset now] else [] in
      let started := now in
      let it := iterate e c now hs0 sc in
      let te := it_end it in
      let hs1 := it_hs it in
      if negb (st_done [hs1]) then
        pre ++ it_lab it :: tmr_trace f e c interval sharp stop (sleep_to stop te (sleep_len (st_delays te [hs1]))) hs1 (it_sc it)
      else
        match interval with
        | Some iv =>
            let len := if sharp then iv - ((te - started) mod iv) else iv in
            pre ++ it_lab it :: tmr_trace f e c interval sharp stop (sleep_to stop te len) hs1 (it_sc it)
        | None => pre ++ [it_lab it]
        end
  end.

Definition entries_of (e : env) (c : hcfg) (t0 : Z) (tr : list label) : option (list entry) :=
  match run e c (init t0) tr with Some s => Some (whole s) | None => None end.

Definition final_of (e : env) (c : hcfg) (t0 : Z) (tr : list label) : option hstate :=
  match run e c (init t0) tr with Some s => Some (d_hs s) | None => None end.

(* ---------------------------------------------------------------- the persisted driver *)

Inductive plabel :=
  | PCycle (ta tc tx te : Z) (r : raised)
  | PRestart
  | PRepurpose.   (* the cause changed: State.with_purpose(reason, handlers=cause_handlers) re-purposes the record *)

Record pstate := mkP {
  p_stored : option prec;        (* the handler's progress record on the object *)
  p_closed : bool;               (* the handling cycle is done: records purged, last-handled updated *)
  p_clock  : Z;
  p_log    : list entry }.

Definition pinit (t0 : Z) : pstate := mkP None false t0 [].

Definition pstep (e : env) (c : hcfg) (ps : pstate) (l : plabel) : option pstate :=
  match l with
  | PRestart => Some ps          (* nothing of a change handler's progress lives in memory *)
  | PRepurpose =>                (* the record is read, re-purposed and stored again by the cycle of the new cause *)
      Some (mkP (option_map (fun r => for_storage (with_purpose (state_for (p_clock ps) (Some r)))) (p_stored ps))
                (p_closed ps) (p_clock ps) (p_log ps))
  | PCycle ta tc tx te r =>
      if p_closed ps then None else
      if (p_clock ps <=? ta) && (ta <=? tc) && (tc <=? tx) && (tx <=? te) then
        let hs := state_for ta (p_stored ps) in
        if awakened ta hs then
          let oc := exec e c (s_retries hs) (runtime tc hs) (runtime tx hs) r in
          let hs' := with_outcome te hs (fst oc) in
          let dn := st_done [hs'] in
          Some (mkP (if dn then None else Some (for_storage hs')) dn te
                    (if snd oc then mkEn tc (s_retries hs) te r :: p_log ps else p_log ps))
        else Some (mkP (Some (for_storage hs)) false te (p_log ps))
      else None
  end.

Fixpoint prun (e : env) (c : hcfg) (ps : pstate) (tr : list plabel) : option pstate :=
  match tr with
  | [] => Some ps
  | l :: tr' => match pstep e c ps l with Some ps' => prun e c ps' tr' | None => None end
  end.

(* ---------------------------------------------------------------- decidable equalities for the harness *)

Definition raised_eqb (a b : raised) : bool :=
  match a, b with
  | ROk, ROk | RPerm, RPerm | RTimeoutE, RTimeoutE | RRetriesE, RRetriesE | RArb, RArb => true
  | RChild x, RChild y | RTemp x, RTemp y => oz_eqb x y
  | _, _ => false
  end.

(* observed entry: (time entered, retry kwarg, time the call ended) *)
Definition obs_of (x : entry) : Z * Z * Z := (en_time x, en_retry x, en_end x).

Definition obs_eqb (a b : Z * Z * Z) : bool :=
  let '(a1, a2, a3) := a in let '(b1, b2, b3) := b in (a1 =? b1) && (a2 =? b2) && (a3 =? b3).

Fixpoint obs_list_eqb (a b : list (Z * Z * Z)) : bool :=
  match a, b with
  | [], [] => true
  | x :: a', y :: b' => obs_eqb x y && obs_list_eqb a' b'
  | _, _ => false
  end.

(* model entries of a concrete trace against the observed ones *)
Definition trace_matches (e : env) (c : hcfg) (t0 : Z) (tr : list label) (obs : list (Z * Z * Z))
                         (fin : bool * bool) : bool :=
  match run e c (init t0) tr with
  | Some s => obs_list_eqb (map obs_of (whole s)) obs
              && Bool.eqb (s_success (d_hs s)) (fst fin) && Bool.eqb (s_failure (d_hs s)) (snd fin)
  | None => false
  end.

Definition oprec_eqb (a b : option prec) : bool :=
  match a, b with Some x, Some y => prec_eqb x y | None, None => true | _, _ => false end.

(* the persisted driver against what the implementation stored after every cycle and whom it called *)
Fixpoint prun_check (e : env) (c : hcfg) (ps : pstate) (tr : list (plabel * option prec)) : option pstate :=
  match tr with
  | [] => Some ps
  | (l, expected) :: tr' =>
      match pstep e c ps l with
      | Some ps' => if oprec_eqb (p_stored ps') expected then prun_check e c ps' tr' else None
      | None => None
      end
  end.

Definition prun_matches (e : env) (c : hcfg) (t0 : Z) (tr : list (plabel * option prec)) (obs : list (Z * Z * Z))
                        (closed : bool) : bool :=
  match prun_check e c (pinit t0) tr with
  | Some ps => obs_list_eqb (map obs_of (rev (p_log ps))) obs && Bool.eqb (p_closed ps) closed
  | None => false
  end.

(* in-memory drivers whose final state is not observable from outside: entries only *)
Definition trace_entries_match (e : env) (c : hcfg) (t0 : Z) (tr : list label) (obs : list (Z * Z * Z)) : bool :=
  match run e c (init t0) tr with
  | Some s => obs_list_eqb (map obs_of (whole s)) obs
  | None => false
  end.

(* the generic driver against state snapshots taken from the implementation between the ticks *)
Definition ohs_ok (s : hstate) (expected : option hstate) : bool :=
  match expected with Some h => hstate_eqb s h | None => true end.

Fixpoint run_check (e : env) (c : hcfg) (s : dstate) (tr : list (label * option hstate)) : option dstate :=
  match tr with
  | [] => Some s
  | (l, expected) :: tr' =>
      match step e c s l with
      | Some s' => if ohs_ok (d_hs s') expected then run_check e c s' tr' else None
      | None => None
      end
  end.

Definition run_check_matches (e : env) (c : hcfg) (t0 : Z) (tr : list (label * option hstate)) (obs : list (Z * Z * Z)) : bool :=
  match run_check e c (init t0) tr with
  | Some s => obs_list_eqb (map obs_of (whole s)) obs
  | None => false
  end.
