(* kopf/_cogs/configs/progress.py and diffbase.py: all provided storage classes as one
   configuration datatype; fetch/store/purge/touch/clear/build over Json with Python's errors. *)
From Coq Require Import ZArith NArith List String Bool Ascii.
From KV Require Import Base.Json Base.Dicts Model.Keys.
Import ListNotations.
Open Scope string_scope.
Open Scope list_scope.

Definition str_prefix_of (pre s : string) : bool := String.prefix pre s.

(* ---------- StorageKeyMarkingConvention ---------- *)
(* split 'a/b/c' at the first '/' : Some (prefix, name) *)
Fixpoint split_slash (s : string) : option (string * string) :=
  match s with
  | EmptyString => None
  | String c s' =>
      if Ascii.eqb c "/" then Some (EmptyString, s')
      else match split_slash s' with
           | Some (p, n) => Some (String c p, n)
           | None => None
           end
  end.

Fixpoint str_suffix_of (suf s : string) : bool :=
  String.eqb suf s || match s with EmptyString => false | String _ s' => str_suffix_of suf s' end.

Definition known_prefix : string := "kopf.zalando.org".
Definition marker_name : string := "kopf-managed".

Definition key_marks_prefix (key : string) : option string :=
  match split_slash key with
  | Some (p, n) =>
      if String.eqb n marker_name then Some p
      else if String.eqb p known_prefix then Some p
      else if str_suffix_of ("." ++ known_prefix)%string p then Some p
      else None
  | None => None
  end.

Fixpoint marked_prefixes (ks : list string) : list string :=
  match ks with
  | [] => []
  | k :: ks' => match key_marks_prefix k with Some p => p :: marked_prefixes ks' | None => marked_prefixes ks' end
  end.

Definition under_prefix (p key : string) : bool := str_prefix_of (p ++ "/")%string key.

(* prefixes recognised as Kopf's own without a marker: kopf.zalando.org and its subdomains *)
Definition known_without_marker (prefix : string) : bool :=
  String.eqb prefix known_prefix || str_suffix_of ("." ++ known_prefix)%string prefix.

(* _store_marker(prefix, patch, body) *)
Definition store_marker (prefix : string) (body patch : json) : res json :=
  if negb (String.eqb prefix "") && negb (known_without_marker prefix) then
    let marker := (prefix ++ "/" ++ marker_name)%string in
    match resolve_strict body ["metadata"; "annotations"; marker], resolve_strict patch ["metadata"; "annotations"; marker] with
    | ErrType, _ | _, ErrType => ErrType
    | ErrKey, ErrKey => ensure patch ["metadata"; "annotations"; marker] (JStr "yes")
    | _, _ => Ok patch
    end
  else Ok patch.

(* ---------- StorageStanzaCleaner ---------- *)
Definition get_obj (j : json) (k : string) : res obj :=   (* j.get(k, {}) then used as a mapping *)
  match j with
  | JObj kvs => match lookup k kvs with
                | Some (JObj o) => Ok o
                | Some _ => ErrType
                | None => Ok []
                end
  | _ => ErrType
  end.

Definition is_falsy (j : json) : bool :=
  match j with
  | JNull => true | JBool b => negb b | JNum z => Z.eqb z 0 | JStr s => String.eqb s ""
  | JList l => match l with [] => true | _ => false end
  | JObj o => match o with [] => true | _ => false end
  | JEnc _ => false
  end.

(* remove_annotations(essence, keys) *)
Definition remove_annotations (essence : json) (rm : string -> bool) : res json :=
  match essence with
  | JObj kvs =>
      match lookup "metadata" kvs with
      | None => Ok essence
      | Some md =>
          bind (get_obj md "annotations") (fun anns =>
            if existsb (fun kv => rm (fst kv)) anns then
              match md with
              | JObj mkvs => Ok (JObj (set "metadata" (JObj (set "annotations" (JObj (filter (fun kv => negb (rm (fst kv))) anns)) mkvs)) kvs))
              | _ => ErrType
              end
            else Ok essence)
      end
  | _ => ErrType
  end.

Definition drop_if_falsy_in (outer inner : string) (essence : obj) : res obj :=
  match lookup outer essence with
  | None => Ok essence
  | Some (JObj o) =>
      match lookup inner o with
      | Some v => if is_falsy v then Ok (set outer (JObj (del inner o)) essence) else Ok essence
      | None => Ok essence
      end
  | Some _ => ErrType        (* 'x' in <non-mapping> : modelled as an error; bodies have mapping metadata *)
  end.

Definition drop_if_falsy (k : string) (essence : obj) : obj :=
  match lookup k essence with
  | Some v => if is_falsy v then del k essence else essence
  | None => essence
  end.

(* remove_empty_stanzas(essence) *)
Definition remove_empty_stanzas (essence : json) : res json :=
  match essence with
  | JObj kvs =>
      bind (drop_if_falsy_in "metadata" "annotations" kvs) (fun kvs =>
      bind (drop_if_falsy_in "metadata" "labels" kvs) (fun kvs =>
      Ok (JObj (drop_if_falsy "status" (drop_if_falsy "metadata" kvs)))))
  | _ => ErrType
  end.

(* ---------- progress storages ---------- *)
Inductive pstorage : Type :=
| PAnn (prefix : string) (v1 verbose : bool) (touch_key : string)
| PStatus (field touch_field : path) (nowrite : bool)
| PMulti (l : list pstorage).

Definition smart (prefix : string) (v1 verbose : bool) (touch_key : string) (field touch_field : path) :=
  PMulti [PAnn prefix v1 verbose touch_key; PStatus field touch_field true].

Section WithDigest.
  Variable dg : chars -> list N.

  Definition full_keys (prefix : string) (v1 : bool) (body : json) (key : string) : list string :=
    map str_of (make_keys dg (chars_of prefix) v1 (is_drs_body body) (chars_of key)).

  Definition ann_path (k : string) : path := ["metadata"; "annotations"; k].

  (* json.loads(encoded) if encoded is not None else None *)
  Definition loads_opt (v : option json) : res (option json) :=
    match v with
    | None => Ok None
    | Some JNull => Ok None
    | Some (JEnc j) => Ok (match j with JNull => None | _ => Some j end)
    | Some (JStr _) => ErrValue          (* not JSON text: JSONDecodeError (a ValueError) *)
    | Some _ => ErrType
    end.

  Fixpoint fetch_keys (body : json) (ks : list string) : res (option json) :=
    match ks with
    | [] => Ok None
    | k :: ks' =>
        bind (loads_opt (resolve body (ann_path k))) (fun d =>
          match d with Some r => Ok (Some r) | None => fetch_keys body ks' end)
    end.

  Definition drop_nulls (o : obj) : obj := filter (fun kv => match snd kv with JNull => false | _ => true end) o.

  Fixpoint ensure_all (patch : json) (ks : list string) (v : json) : res json :=
    match ks with
    | [] => Ok patch
    | k :: ks' => bind (ensure patch (ann_path k) v) (fun p => ensure_all p ks' v)
    end.

  Definition purge_path (body patch : json) (p : path) : res json :=
    match resolve body p with
    | Some _ => ensure patch p JNull
    | None => match resolve patch p with
              | Some _ => remove patch p
              | None => Ok patch
              end
    end.

  Fixpoint purge_keys (body patch : json) (ks : list string) : res json :=
    match ks with
    | [] => Ok patch
    | k :: ks' => bind (purge_path body patch (ann_path k)) (fun p => purge_keys body p ks')
    end.

  (* body_value != value, with resolve(..., None) *)
  Definition differs (bv : option json) (v : json) : bool :=
    negb (py_eqb (match bv with Some x => x | None => JNull end) v).

  Fixpoint touch_keys (prefix : string) (body patch : json) (ks : list string) (v : json) : res json :=
    match ks with
    | [] => Ok patch
    | k :: ks' =>
        if differs (resolve body (ann_path k)) v then
          bind (ensure patch (ann_path k) v) (fun p =>
          bind (store_marker prefix body p) (fun p => touch_keys prefix body p ks' v))
        else touch_keys prefix body patch ks' v
    end.

  Fixpoint pfetch (s : pstorage) (key : string) (body : json) {struct s} : res (option json) :=
    match s with
    | PAnn prefix v1 _ _ => fetch_keys body (full_keys prefix v1 body key)
    | PStatus field _ _ =>
        match resolve body field with
        | None => Ok None
        | Some (JObj kvs) => Ok (match lookup key kvs with Some JNull => None | x => x end)
        | Some _ => ErrType
        end
    | PMulti l =>
        (fix go (l : list pstorage) : res (option json) :=
           match l with
           | [] => Ok None
           | s' :: l' => bind (pfetch s' key body) (fun r => match r with Some x => Ok (Some x) | None => go l' end)
           end) l
    end.

  Fixpoint pstore (s : pstorage) (key : string) (record : obj) (body patch : json) {struct s} : res json :=
    match s with
    | PAnn prefix v1 verbose _ =>
        let decoded := if verbose then record else drop_nulls record in
        bind (ensure_all patch (full_keys prefix v1 body key) (JEnc (JObj decoded))) (fun p =>
        store_marker prefix body p)
    | PStatus field _ nowrite =>
        if nowrite then Ok patch else ensure patch (field ++ [key]) (JObj record)
    | PMulti l =>
        (fix go (l : list pstorage) (patch : json) : res json :=
           match l with
           | [] => Ok patch
           | s' :: l' => bind (pstore s' key record body patch) (go l')
           end) l patch
    end.

  Fixpoint ppurge (s : pstorage) (key : string) (body patch : json) {struct s} : res json :=
    match s with
    | PAnn prefix v1 _ _ => purge_keys body patch (full_keys prefix v1 body key)
    | PStatus field _ _ => purge_path body patch (field ++ [key])
    | PMulti l =>
        (fix go (l : list pstorage) (patch : json) : res json :=
           match l with
           | [] => Ok patch
           | s' :: l' => bind (ppurge s' key body patch) (go l')
           end) l patch
    end.

  Fixpoint ptouch (s : pstorage) (body patch : json) (v : json) {struct s} : res json :=
    match s with
    | PAnn prefix v1 _ touch_key => touch_keys prefix body patch (full_keys prefix v1 body touch_key) v
    | PStatus _ touch_field nowrite =>
        if nowrite then Ok patch
        else if differs (resolve body touch_field) v then ensure patch touch_field v else Ok patch
    | PMulti l =>
        (fix go (l : list pstorage) (patch : json) : res json :=
           match l with
           | [] => Ok patch
           | s' :: l' => bind (ptouch s' body patch v) (go l')
           end) l patch
    end.

  Fixpoint pclear (s : pstorage) (essence : json) {struct s} : res json :=
    match s with
    | PAnn prefix _ _ _ =>
        bind (remove_annotations essence (fun k => negb (String.eqb prefix "") && under_prefix prefix k)) remove_empty_stanzas
    | PStatus field _ _ =>
        bind (remove essence field) remove_empty_stanzas
    | PMulti l =>
        (fix go (l : list pstorage) (e : json) : res json :=
           match l with
           | [] => Ok e
           | s' :: l' => bind (pclear s' e) (go l')
           end) l essence
    end.

  (* ---------- diff-base storages ---------- *)
  Inductive dstorage : Type :=
  | DAnn (prefix key : string) (v1 : bool) (ignored : list path)
  | DStatus (field : path) (ignored : list path)
  | DMulti (l : list dstorage).

  (* cherrypick(src, dst, fields): copy fields present in src; KeyError skipped; TypeError propagates *)
  Fixpoint cherrypick (src dst : json) (fields : list path) : res json :=
    match fields with
    | [] => Ok dst
    | f :: fs =>
        match resolve_strict src f with
        | Ok v => bind (ensure dst f v) (fun d => cherrypick src d fs)
        | ErrKey => cherrypick src dst fs
        | ErrType => ErrType
        | ErrValue => ErrValue
        end
    end.

  Definition last_applied : string := "kubectl.kubernetes.io/last-applied-configuration".

  (* DiffBaseStorage.build (the base class) *)
  Definition base_build (ignored : list path) (body : json) (extra : list path) : res json :=
    match body with
    | JObj kvs =>
        let e := JObj (del "status" (del "metadata" (del "kind" (del "apiVersion" kvs)))) in
        bind (cherrypick body e [["metadata"; "labels"]; ["metadata"; "annotations"]]) (fun e =>
        bind (match e with JObj ekvs => match lookup "metadata" ekvs with
                                        | None => Ok []
                                        | Some md => get_obj md "annotations" end
                         | _ => ErrType end) (fun anns =>
        let ignored_prefixes := marked_prefixes (keys anns) in
        let drop k := existsb (fun p => under_prefix p k) ignored_prefixes || String.eqb k last_applied in
        bind (if existsb (fun kv => drop (fst kv)) anns
              then ensure e ["metadata"; "annotations"] (JObj (filter (fun kv => negb (drop (fst kv))) anns))
              else Ok e) (fun e =>
        bind (cherrypick body e extra) (fun e =>
        bind (remove_empty_stanzas e) (fun e =>
        fold_left (fun acc f => bind acc (fun e => match remove e f with ErrType => Ok e | r => r end))
                  ignored (Ok e))))))
    | _ => ErrType
    end.

  Fixpoint dbuild (s : dstorage) (body : json) (extra : list path) {struct s} : res json :=
    match s with
    | DAnn prefix key v1 ignored =>
        bind (base_build ignored body extra) (fun e =>
        let ks := full_keys prefix v1 body key in
        bind (remove_annotations e (fun k => mem_str k ks)) remove_empty_stanzas)
    | DStatus field ignored =>
        bind (base_build ignored body extra) (fun e => remove e field)
    | DMulti l =>
        bind (base_build [] body extra) (fun e =>
        (fix go (l : list dstorage) (e : json) : res json :=
           match l with
           | [] => Ok e
           | s' :: l' => bind (dbuild s' e extra) (go l')
           end) l e)
    end.

  Fixpoint dfetch (s : dstorage) (body : json) {struct s} : res (option json) :=
    match s with
    | DAnn prefix key v1 _ => fetch_keys body (full_keys prefix v1 body key)
    | DStatus field _ => loads_opt (resolve body field)
    | DMulti l =>
        (fix go (l : list dstorage) : res (option json) :=
           match l with
           | [] => Ok None
           | s' :: l' => bind (dfetch s' body) (fun r => match r with Some x => Ok (Some x) | None => go l' end)
           end) l
    end.

  Fixpoint dstore (s : dstorage) (body patch essence : json) {struct s} : res json :=
    match s with
    | DAnn prefix key v1 _ =>
        bind (ensure_all patch (full_keys prefix v1 body key) (JEnc essence)) (fun p =>
        store_marker prefix body p)
    | DStatus field _ => ensure patch field (JEnc essence)
    | DMulti l =>
        (fix go (l : list dstorage) (patch : json) : res json :=
           match l with
           | [] => Ok patch
           | s' :: l' => bind (dstore s' body patch essence) (go l')
           end) l patch
    end.
End WithDigest.
