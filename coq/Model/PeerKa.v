(* kopf/_core/engines/peering.py keepalive(), one task against the API server, with the PATCH requests
   "in flight" between being issued and being answered.  Definitions only.

     try:   while True:  await touch()            <- KTouch  (request issued .. applied .. answered / failed)
                         await asyncio.sleep(..)  <- KSleep
     finally:            await shield(touch(lifetime=0))   <- KFinal (the withdrawal; survives a cancellation)

   A cancellation can arrive at every await (and before the task has run at all: KNew, where nothing was
   ever sent and no `finally` runs).  An un-applied request of a cancelled/failed call is dropped (the
   connection is closed); an applied one stays applied.  [pos]: the regular touch writes a record
   (lifetime > 0) — otherwise it writes null itself. *)
From Coq Require Import List Bool.
Import ListNotations.

Inductive kphase := KNew | KTouch | KSleep | KFinal | KEnd.

Record kst := mkK {
  k_ph : kphase;
  k_rec : bool;                      (* the server holds a record of this identity *)
  k_req : option (bool * bool);      (* request in flight: (is the withdrawal, already applied by the server) *)
  k_wfail : bool;                    (* a withdrawal request has failed (then nothing can be promised) *)
}.

Definition k0 : kst := mkK KNew false None false.

Inductive klabel :=
| KCall                 (* the loop calls touch(): first announcement, or the sleep is over *)
| KCallW                (* observation only: the withdrawal request has been issued *)
| KApply                (* the server applies the request in flight *)
| KReturn               (* the answer arrives *)
| KFail                 (* the call raises (before or after the server applied it) *)
| KCancel               (* task.cancel() *)
| KDone.                (* the coroutine has finished *)

Definition kstep (pos : bool) (s : kst) (l : klabel) : option kst :=
  match l, k_ph s, k_req s with
  | KCall, KNew, None | KCall, KSleep, None => Some (mkK KTouch (k_rec s) (Some (false, false)) (k_wfail s))
  | KCallW, (KFinal | KEnd), Some (true, false) => Some s
  | KApply, _, Some (w, false) => Some (mkK (k_ph s) (if w then false else pos) (Some (w, true)) (k_wfail s))
  | KReturn, KTouch, Some (false, true) => Some (mkK KSleep (k_rec s) None (k_wfail s))
  | KReturn, KFinal, Some (true, true) => Some (mkK KEnd (k_rec s) None (k_wfail s))
  | KReturn, KEnd, Some (true, true) => Some (mkK KEnd (k_rec s) None (k_wfail s))
  (* the loop's touch raises: the exception leaves through `finally`, which issues the withdrawal *)
  | KFail, KTouch, Some (false, _) => Some (mkK KFinal (k_rec s) (Some (true, false)) (k_wfail s))
  | KFail, KFinal, Some (true, _) => Some (mkK KEnd (k_rec s) None true)
  | KFail, KEnd, Some (true, _) => Some (mkK KEnd (k_rec s) None true)
  (* cancellation: before the first step nothing runs; inside the loop `finally` issues the withdrawal;
     inside the shielded withdrawal the coroutine ends and the request goes on in the background *)
  | KCancel, KNew, None => Some (mkK KEnd (k_rec s) None (k_wfail s))
  | KCancel, KTouch, Some (false, _) => Some (mkK KFinal (k_rec s) (Some (true, false)) (k_wfail s))
  | KCancel, KSleep, None => Some (mkK KFinal (k_rec s) (Some (true, false)) (k_wfail s))
  | KCancel, KFinal, Some (true, a) => Some (mkK KEnd (k_rec s) (Some (true, a)) (k_wfail s))
  | KDone, KEnd, _ => Some s
  | _, _, _ => None
  end.

Fixpoint krun (pos : bool) (s : kst) (tr : list klabel) : option kst :=
  match tr with
  | [] => Some s
  | l :: tr' => match kstep pos s l with Some s' => krun pos s' tr' | None => None end
  end.

Fixpoint krejected_at (pos : bool) (s : kst) (tr : list klabel) (n : nat) : option nat :=
  match tr with
  | [] => None
  | l :: tr' => match kstep pos s l with Some s' => krejected_at pos s' tr' (S n) | None => Some n end
  end.

(* accepted, and ends in the given server state / failure flag *)
Definition kaccepts (pos : bool) (tr : list klabel) (rec_end : bool) : bool :=
  match krun pos k0 tr with
  | Some s => Bool.eqb (k_rec s) rec_end
  | None => false
  end.
