(* C12 — model of kopf/_core/actions/throttlers.py::throttled (one `async with` episode) and of
   the per-object world around it (inventory.ResourceMemory.error_throttler).  Definitions only.
   Times are integer seconds of the loop clock. *)
From Coq Require Import ZArith List Bool Arith.
Import ListNotations.
Open Scope Z_scope.

(* Throttler: source_of_delays (None | an iterator = position in the configured sequence),
   last_used_delay, active_until *)
Record tstate := { pos : option nat; lastd : option Z; until : option Z }.

Definition t0 : tstate := {| pos := None; lastd := None; until := None |}.

(* what the wrapped block does *)
Inductive body :=
| BOk        (* ends without exception *)
| BErr       (* raises an Exception that is one of `errors` *)
| BEsc.      (* raises something else: BaseException (CancelledError) or not an error-of-interest *)

(* one episode's environment: is the wakeup event already set at entry; at which offset (>= 0) into
   the 1st / 2nd sleep it gets set (None = never); whether it gets set while the block runs;
   the block's outcome and duration *)
Record ep := { e_ev : bool; e_wk1 : option Z; e_body : body; e_dur : Z; e_evb : bool; e_wk2 : option Z }.

Definition with_body (e : ep) (b : body) : ep :=
  {| e_ev := e_ev e; e_wk1 := e_wk1 e; e_body := b; e_dur := e_dur e; e_evb := e_evb e; e_wk2 := e_wk2 e |}.

(* aiotime.sleep(remaining, wakeup): (clock afterwards, unslept time or None, event state) *)
Definition sleep (ev : bool) (remaining now : Z) (wk : option Z) : Z * option Z * bool :=
  if remaining <=? 0 then (now, None, ev)
  else if ev then (now, Some remaining, true)
  else match wk with
       | Some o => if (0 <=? o) && (o <? remaining) then (now + o, Some (remaining - o), true)
                   else (now + remaining, None, false)
       | None => (now + remaining, None, false)
       end.

Record result := {
  r_state : tstate;
  r_start : Z;              (* clock when the block is entered (after the 1st sleep) *)
  r_should : bool;          (* the value yielded to the block *)
  r_escalated : bool;       (* the exception left `throttled` *)
  r_exit : Z;               (* clock when the `async with` is left *)
  r_pause : option Z        (* the delay chosen by this episode, if it activated throttling *)
}.

(* `if source_of_delays is None: source_of_delays = iter(delays)`;
   `delay = next(source_of_delays, last_used_delay)`: (the delay, the iterator's new position) *)
Definition choose (dl : nat -> option Z) (st : tstate) : option Z * nat :=
  let p := match pos st with Some p => p | None => O end in
  match dl p with Some d => (Some d, S p) | None => (lastd st, p) end.

Definition episode (dl : nat -> option Z) (st : tstate) (now : Z) (e : ep) : result :=
  (* the 1st sleep *)
  let '(now1, until1, ev1) :=
    match until st with
    | Some u =>
        match sleep (e_ev e) (u - now) now (e_wk1 e) with
        | (n, None, ev) => (n, None, ev)            (* "Throttling is over" *)
        | (n, Some _, ev) => (n, Some u, ev)
        end
    | None => (now, None, e_ev e)
    end in
  let should := match until1 with None => true | Some _ => false end in
  let now2 := now1 + Z.max 0 (e_dur e) in
  let st1 := {| pos := pos st; lastd := lastd st; until := until1 |} in
  match e_body e with
  | BEsc => {| r_state := st1; r_start := now1; r_should := should; r_escalated := true; r_exit := now2; r_pause := None |}
  | BOk =>
      if should
      then {| r_state := t0; r_start := now1; r_should := true; r_escalated := false; r_exit := now2; r_pause := None |}
      else {| r_state := st1; r_start := now1; r_should := false; r_escalated := false; r_exit := now2; r_pause := None |}
  | BErr =>
      if negb should
      then {| r_state := st1; r_start := now1; r_should := false; r_escalated := true; r_exit := now2; r_pause := None |}
      else
        match choose dl st with
        | (Some d, p') =>
            (* the 2nd sleep *)
            match sleep (ev1 || e_evb e) d now2 (e_wk2 e) with
            | (n, None, _) =>
                {| r_state := {| pos := Some p'; lastd := Some d; until := None |};
                   r_start := now1; r_should := true; r_escalated := false; r_exit := n; r_pause := Some d |}
            | (n, Some _, _) =>
                {| r_state := {| pos := Some p'; lastd := Some d; until := Some (now2 + d) |};
                   r_start := now1; r_should := true; r_escalated := false; r_exit := n; r_pause := Some d |}
            end
        | (None, p') =>
            {| r_state := {| pos := Some p'; lastd := None; until := None |};
               r_start := now1; r_should := true; r_escalated := false; r_exit := now2; r_pause := None |}
        end
  end.

Definition dl_list (l : list Z) : nat -> option Z := fun i => nth_error l i.
Definition dl_fun (g : nat -> Z) : nat -> option Z := fun i => Some (g i).

(* a sequence of episodes of one object, each with its entry time *)
Fixpoint run_eps (dl : nat -> option Z) (st : tstate) (es : list (Z * ep)) : list result :=
  match es with
  | [] => []
  | (now, e) :: es' => let r := episode dl st now e in r :: run_eps dl (r_state r) es'
  end.

(* ghost: number of consecutive failed runs so far (skipped episodes do not count) *)
Definition count_after (c : nat) (r : result) (b : body) : nat :=
  if r_should r then match b with BErr => S c | BOk => O | BEsc => c end else c.

Fixpoint run_counts (dl : nat -> option Z) (st : tstate) (c : nat) (es : list (Z * ep)) : list (nat * ep * result) :=
  match es with
  | [] => []
  | (now, e) :: es' =>
      let r := episode dl st now e in
      (c, e, r) :: run_counts dl (r_state r) (count_after c r (e_body e)) es'
  end.

(* ---- processing.process_resource_event around it ----
   `async with throttled(...) as should_run: if should_run: <index, handle, patch>`: the block does
   nothing (and cannot fail) when told not to run; should_run does not depend on the block. *)
Definition guard (dl : nat -> option Z) (st : tstate) (now : Z) (e : ep) : ep :=
  if r_should (episode dl st now (with_body e BOk)) then e else with_body e BOk.

Definition proc_event (dl : nat -> option Z) (st : tstate) (now : Z) (e : ep) : result :=
  episode dl st now (guard dl st now e).

Fixpoint run_proc (dl : nat -> option Z) (st : tstate) (es : list (Z * ep)) : list result :=
  match es with
  | [] => []
  | (now, e) :: es' => let r := proc_event dl st now e in r :: run_proc dl (r_state r) es'
  end.

(* ghost-annotated processing cycles of one object: (consecutive errors before, the guarded environment, result) *)
Fixpoint proc_counts (dl : nat -> option Z) (st : tstate) (c : nat) (es : list (Z * ep)) : list (nat * ep * result) :=
  match es with
  | [] => []
  | (now, e) :: es' =>
      let e' := guard dl st now e in
      let r := episode dl st now e' in
      (c, e', r) :: proc_counts dl (r_state r) (count_after c r (e_body e')) es'
  end.

(* ---- the world of several objects: one throttler per uid ---- *)
Definition world := nat -> tstate.
Definition w0 : world := fun _ => t0.

Definition wstep (dl : nat -> option Z) (w : world) (u : nat) (now : Z) (e : ep) : world * result :=
  let r := episode dl (w u) now e in
  (fun v => if Nat.eqb v u then r_state r else w v, r).

(* any interleaving of processing cycles of several objects: (uid, entry time, environment) *)
Fixpoint wrun (dl : nat -> option Z) (w : world) (evs : list (nat * Z * ep)) : list (nat * result) :=
  match evs with
  | [] => []
  | (u, now, e) :: evs' =>
      let r := proc_event dl (w u) now e in
      (u, r) :: wrun dl (fun v => if Nat.eqb v u then r_state r else w v) evs'
  end.

Definition of_object {A} (v : nat) (l : list (nat * A)) : list A :=
  map snd (filter (fun x => Nat.eqb (fst x) v) l).

Definition events_of (v : nat) (evs : list (nat * Z * ep)) : list (Z * ep) :=
  map (fun x => (snd (fst x), snd x)) (filter (fun x => Nat.eqb (fst (fst x)) v) evs).

(* process_resource_event's block is `if should_run: ...`: it never raises when told not to run *)
Definition honours (st : tstate) (now : Z) (e : ep) : Prop :=
  forall dl, r_should (episode dl st now e) = false -> e_body e = BOk.

(* ---- decidable equality of observations for the correspondence check ---- *)
Definition oz_eqb' (a b : option Z) : bool :=
  match a, b with Some x, Some y => x =? y | None, None => true | _, _ => false end.

(* observed: (should_run, escalated, exit time, source_of_delays is not None, last_used_delay, active_until) *)
Definition obs := (bool * bool * Z * bool * option Z * option Z)%type.

Definition obs_of (r : result) : obs :=
  (r_should r, r_escalated r, r_exit r,
   match pos (r_state r) with Some _ => true | None => false end,
   lastd (r_state r), until (r_state r)).

Definition obs_eqb (x y : obs) : bool :=
  match x, y with
  | (a1, b1, c1, d1, e1, f1), (a2, b2, c2, d2, e2, f2) =>
      Bool.eqb a1 a2 && Bool.eqb b1 b2 && (c1 =? c2) && Bool.eqb d1 d2 && oz_eqb' e1 e2 && oz_eqb' f1 f2
  end.

Fixpoint obs_list_eqb (x y : list obs) : bool :=
  match x, y with
  | [], [] => true
  | a :: x', b :: y' => obs_eqb a b && obs_list_eqb x' y'
  | _, _ => false
  end.

Definition run_obs (dl : nat -> option Z) (es : list (Z * ep)) : list obs :=
  map obs_of (run_eps dl t0 es).

Definition wrun_obs (dl : nat -> option Z) (evs : list (nat * Z * ep)) : list (nat * obs) :=
  map (fun ur => (fst ur, obs_of (snd ur))) (wrun dl w0 evs).

Fixpoint wobs_list_eqb (x y : list (nat * obs)) : bool :=
  match x, y with
  | [], [] => true
  | (u, a) :: x', (v, b) :: y' => Nat.eqb u v && obs_eqb a b && wobs_list_eqb x' y'
  | _, _ => false
  end.
