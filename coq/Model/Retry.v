(* C12 — model of kopf/_cogs/clients/api.py::request (the retry loop) and of the status
   classification of kopf/_cogs/clients/errors.py::check_response.  Definitions only.

   One call of `request` makes attempts i = 0, 1, 2, ...  Attempt i consumes the i-th element of
   `itertools.chain(backoffs, itertools.repeat(None))`, here `src i : option Z` (None = the
   chain is past the configured backoffs: "the last or the only attempt").  What the server /
   transport does on each attempt is the fault script (user-independent environment oracle);
   a script that runs out means "the attempt succeeds".  Times are integer seconds. *)
From Coq Require Import ZArith List Bool.
Import ListNotations.
Open Scope Z_scope.

Inductive fault :=
| FOk                                             (* a response with status < 400 *)
| FStatus (code : Z) (hdr : option Z) (det : option Z)
    (* HTTP status; `Retry-After` header (integer text) ; `details.retryAfterSeconds` of the Status body *)
| FConn                                           (* aiohttp.ClientConnectionError *)
| FTimeout                                        (* asyncio.TimeoutError *)
| FSsl                                            (* ClientOSError "[SSL: APPLICATION_DATA_AFTER_CLOSE_NOTIFY]" *)
| FRtClosed                                       (* RuntimeError while context.session.closed *)
| FRtOpen                                         (* RuntimeError, session still open *)
| FOther.                                         (* any other exception (not caught by the loop) *)

Inductive cls :=
| KOk                       (* `else:` branch — return the response *)
| KRetry (ra : option Z)    (* the retried `except` branch; ra = server-requested delay (every APIError: 403, 429, 5xx) *)
| KReauth                   (* leaves `request` as APIUnauthorizedError / APISessionClosed *)
| KRaise.                   (* propagates at once *)

(* `e.details.get("retryAfterSeconds")` is tested for truthiness: 0 counts as absent *)
Definition truthy_det (d : option Z) : option Z :=
  match d with Some z => if z =? 0 then None else Some z | None => None end.

(* header first ("the new style"), then details ("the old style") *)
Definition retry_after (hdr det : option Z) : option Z :=
  match hdr with Some h => Some h | None => truthy_det det end.

(* check_response's class table composed with the `except` clauses of request *)
Definition classify (f : fault) : cls :=
  match f with
  | FOk => KOk
  | FStatus c hdr det =>
      if c <? 400 then KOk
      else if c =? 401 then KReauth                         (* APIUnauthorizedError: not in the tuple *)
      else if c =? 403 then KRetry (retry_after hdr det)    (* APIForbiddenError *)
      else if c =? 429 then KRetry (retry_after hdr det)    (* APITooManyRequestsError *)
      else if c <? 500 then KRaise                          (* 404/409/422/other APIClientError *)
      else if c <? 600 then KRetry (retry_after hdr det)    (* APIServerError *)
      else KRaise                                           (* plain APIError *)
  | FConn => KRetry None
  | FTimeout => KRetry None
  | FSsl => KReauth
  | FRtClosed => KReauth
  | FRtOpen => KRaise
  | FOther => KRaise
  end.

(* `if enforce_retry_after or retry_after > backoff: backoff = retry_after` *)
Definition adjust (enforce : bool) (b : Z) (ra : option Z) : Z :=
  match ra with
  | Some r => if enforce || (r >? b) then r else b
  | None => b
  end.

Inductive outcome :=
| ODone                     (* response returned to the caller *)
| OEscalate (f : fault)     (* the error of this fault is raised to the caller *)
| OReauth (f : fault).      (* 401 / APISessionClosed raised (to @authenticated) *)

(* (arguments given to asyncio.sleep between the attempts, outcome, unconsumed faults) *)
Fixpoint request (enforce : bool) (src : nat -> option Z) (i : nat) (fs : list fault)
  : list Z * outcome * list fault :=
  match fs with
  | [] => ([], ODone, [])
  | f :: fs' =>
      match classify f with
      | KOk => ([], ODone, fs')
      | KReauth => ([], OReauth f, fs')
      | KRaise => ([], OEscalate f, fs')
      | KRetry ra =>
          match src i with
          | None => ([], OEscalate f, fs')
          | Some b =>
              let w := adjust enforce b ra in
              match request enforce src (S i) fs' with
              | (ws, o, rest) => (w :: ws, o, rest)
              end
          end
      end
  end.

Definition waits_of (r : list Z * outcome * list fault) : list Z := fst (fst r).
Definition outcome_of (r : list Z * outcome * list fault) : outcome := snd (fst r).
Definition rest_of (r : list Z * outcome * list fault) : list fault := snd r.

(* the configured backoffs: a finite sequence (tuple/list; a scalar b is [b]; () is []) ... *)
Definition src_list (l : list Z) : nat -> option Z := fun i => nth_error l i.
(* ... or a re-iterable endless source *)
Definition src_fun (g : nat -> Z) : nat -> option Z := fun i => Some (g i).

(* settings.networking.error_backoffs as configured: `float | Iterable[float]`;
   `backoffs if isinstance(backoffs, Iterable) else [backoffs]` *)
Inductive backoffs :=
| BScalar (b : Z)              (* a bare number: one retry *)
| BList (l : list Z)           (* tuple / list, () included *)
| BEndless (g : nat -> Z).     (* a re-iterable endless source *)

Definition src_of (c : backoffs) : nat -> option Z :=
  match c with
  | BScalar b => src_list [b]
  | BList l => src_list l
  | BEndless g => src_fun g
  end.

(* the property's own list of transient failures: network errors, 5xx, 403, 429 *)
Definition transient (f : fault) : bool :=
  match f with
  | FConn | FTimeout => true
  | FStatus c _ _ => ((500 <=? c) && (c <? 600)) || (c =? 403) || (c =? 429)
  | _ => false
  end.

Definition is_reauth (f : fault) : bool :=
  match classify f with KReauth => true | _ => false end.

(* attempt timestamps: asyncio.sleep(d) with d <= 0 does not advance the clock *)
Fixpoint times (t : Z) (ws : list Z) : list Z :=
  match ws with
  | [] => [t]
  | w :: ws' => t :: times (t + Z.max 0 w) ws'
  end.

(* @authenticated around request, with a vault that always obtains fresh credentials after
   `lat` seconds: every OReauth restarts the whole cycle (retry counter reset) on the rest of
   the fault script.  Result: timestamps of all attempts, final outcome, number of re-auths. *)
Fixpoint call (fuel : nat) (enforce : bool) (src : nat -> option Z) (lat : Z) (t : Z) (fs : list fault)
  : list Z * outcome * nat :=
  match fuel with
  | O => ([], ODone, O)
  | S fuel' =>
      match request enforce src O fs with
      | (ws, o, rest) =>
          let ts := times t ws in
          match o with
          | OReauth _ =>
              match call fuel' enforce src lat (last ts t + Z.max 0 lat) rest with
              | (ts', o', n) => (ts ++ ts', o', S n)
              end
          | _ => (ts, o, O)
          end
      end
  end.

(* ---- decidable equalities for the correspondence check ---- *)
Definition oz_eqb (a b : option Z) : bool :=
  match a, b with Some x, Some y => x =? y | None, None => true | _, _ => false end.

Definition fault_eqb (a b : fault) : bool :=
  match a, b with
  | FOk, FOk | FConn, FConn | FTimeout, FTimeout | FSsl, FSsl
  | FRtClosed, FRtClosed | FRtOpen, FRtOpen | FOther, FOther => true
  | FStatus c h d, FStatus c' h' d' => (c =? c') && oz_eqb h h' && oz_eqb d d'
  | _, _ => false
  end.

Definition outcome_eqb (a b : outcome) : bool :=
  match a, b with
  | ODone, ODone => true
  | OEscalate f, OEscalate g => fault_eqb f g
  | OReauth f, OReauth g => fault_eqb f g
  | _, _ => false
  end.

Fixpoint zlist_eqb (a b : list Z) : bool :=
  match a, b with
  | [], [] => true
  | x :: a', y :: b' => (x =? y) && zlist_eqb a' b'
  | _, _ => false
  end.

(* what the harness observes of one `request(context=ctx)` call started at t = 0 *)
Definition request_obs (enforce : bool) (src : nat -> option Z) (fs : list fault) : list Z * outcome :=
  let r := request enforce src O fs in (times 0 (waits_of r), outcome_of r).

(* the same, from the configuration value as the operator writes it *)
Definition request_cfg_obs (enforce : bool) (c : backoffs) (fs : list fault) : list Z * outcome :=
  request_obs enforce (src_of c) fs.

Definition request_obs_eqb (x y : list Z * outcome) : bool :=
  zlist_eqb (fst x) (fst y) && outcome_eqb (snd x) (snd y).
