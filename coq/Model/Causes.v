(* C05 — cause detection and handler-kind selection.  Definitions only (no proofs).

   Mirrors, statement by statement:
     kopf/_cogs/structs/finalizers.py     is_deletion_ongoing / is_deletion_blocked /
                                          block_deletion / allow_deletion      (over Base/Json)
     kopf/_core/intents/causes.py         detect_changing_cause (ordered decision list),
                                          HANDLER_REASONS, ChangingCause.deleted
     kopf/_core/intents/registries.py     ChangingRegistry.iter_handlers (reason/initial/deleted
                                          selection; registries.match is an ORACLE boolean),
                                          _deduplicated, requires_finalizer, prematch (oracle)
     kopf/_core/reactor/processing.py     process_resource_causes: which cause reaches
                                          process_changing_cause, and its HANDLER_REASONS gate
     kopf/on.py                           which decorator sets which reason/initial/deleted/
                                          requires_finalizer
   Python exceptions are visible: AttributeError/TypeError = ErrType.  ErrValue is never raised
   by this code; the model uses it as the marker "outside the model" (a [finalizers] value that
   is a str holding JSON text, JEnc: its characters are not known to the model). *)
From Coq Require Import ZArith List String Bool Ascii.
From KV Require Import Base.Json Base.Dicts.
Import ListNotations.
Open Scope string_scope.
Open Scope list_scope.

(* ---------- causes.Reason ---------- *)
Inductive reason := Create | Update | Delete | Resume | Noop | Free | Gone.

Definition reason_eqb (a b : reason) : bool :=
  match a, b with
  | Create, Create | Update, Update | Delete, Delete | Resume, Resume
  | Noop, Noop | Free, Free | Gone, Gone => true
  | _, _ => false
  end.

Definition all_reasons : list reason := [Create; Update; Delete; Resume; Noop; Free; Gone].
Definition handler_reasons : list reason := [Create; Update; Delete; Resume].   (* HANDLER_REASONS *)
Definition reactor_reasons : list reason := [Noop; Free; Gone].                 (* REACTOR_REASONS *)
Definition is_handler_reason (r : reason) : bool := existsb (reason_eqb r) handler_reasons.

(* raw_event['type']: None (initial listing), ADDED, MODIFIED, DELETED *)
Inductive evtype := EvNone | EvAdded | EvModified | EvDeleted.
Definition is_deleted_event (e : evtype) : bool := match e with EvDeleted => true | _ => false end.

(* ---------- the atoms of the decision ---------- *)
Record atoms := {
  a_gone : bool;        (* raw_event['type'] == 'DELETED' *)
  a_deleting : bool;    (* finalizers.is_deletion_ongoing(body) *)
  a_blocked : bool;     (* finalizers.is_deletion_blocked(body, finalizer) *)
  a_old_none : bool;    (* old is None: no last-handled essence stored *)
  a_diff_empty : bool;  (* not diff  (diff is None or an empty tuple) *)
  a_initial : bool      (* memory.noticed_by_listing and not memory.fully_handled_once *)
}.

(* causes.detect_changing_cause: (cause.reason, cause.initial) *)
Definition detect (a : atoms) : reason * bool :=
  if a_gone a then (Gone, a_initial a)
  else if a_deleting a && negb (a_blocked a) then (Free, a_initial a)
  else if a_deleting a then (Delete, a_initial a)
  else if a_old_none a then (Create, false)           (* kwargs['initial'] = False *)
  else if a_diff_empty a && a_initial a then (Resume, a_initial a)   (* not diff and initial *)
  else if a_diff_empty a then (Noop, a_initial a)
  else (Update, a_initial a).

(* ---------- finalizers.py over JSON ---------- *)
Definition is_null (j : json) : bool := match j with JNull => true | _ => false end.

(* Python truthiness of a JSON-like value *)
Definition py_truthy (j : json) : bool :=
  match j with
  | JNull => false
  | JBool b => b
  | JNum z => negb (Z.eqb z 0)
  | JStr s => negb (String.eqb s "")
  | JList l => match l with [] => false | _ => true end
  | JObj o => match o with [] => false | _ => true end
  | JEnc _ => true            (* JSON text is never the empty string *)
  end.

(* body.get('metadata', {}) : TypeError/AttributeError if the body is not a mapping *)
Definition get_metadata (body : json) : res json :=
  match body with
  | JObj kvs => Ok (match lookup "metadata" kvs with Some m => m | None => JObj [] end)
  | _ => ErrType
  end.

(* x.get(k, default) on an arbitrary value x: AttributeError unless x is a dict *)
Definition py_get (x : json) (k : string) (default : json) : res json :=
  match x with
  | JObj kvs => Ok (match lookup k kvs with Some v => v | None => default end)
  | _ => ErrType
  end.

Fixpoint str_contains (sub s : string) : bool :=
  String.prefix sub s || match s with EmptyString => false | String _ s' => str_contains sub s' end.

Definition is_fin (fin : string) (x : json) : bool :=
  match x with JStr s => String.eqb s fin | _ => false end.

(* `finalizer in c` for a str finalizer that is not itself JSON text *)
Definition py_in (fin : string) (c : json) : res bool :=
  match c with
  | JList l => Ok (existsb (is_fin fin) l)
  | JObj kvs => Ok (has fin kvs)            (* key membership *)
  | JStr s => Ok (str_contains fin s)       (* substring test! *)
  | JEnc _ => ErrValue                      (* outside the model *)
  | _ => ErrType                            (* None / bool / int: not iterable *)
  end.

Definition is_deletion_ongoing (body : json) : res bool :=
  bind (get_metadata body) (fun m =>
  bind (py_get m "deletionTimestamp" JNull) (fun v =>
  Ok (negb (is_null v)))).

Definition is_deletion_blocked (fin : string) (body : json) : res bool :=
  bind (get_metadata body) (fun m =>
  bind (py_get m "finalizers" (JList [])) (fun fs =>
  py_in fin fs)).

Definition set_finalizers (body : json) (fs : json) : res json :=
  match body with
  | JObj kvs =>
      match (match lookup "metadata" kvs with Some m => m | None => JObj [] end) with
      | JObj mk => Ok (JObj (set "metadata" (JObj (set "finalizers" fs mk)) kvs))
      | _ => ErrType
      end
  | _ => ErrType
  end.

Definition block_deletion (fin : string) (body : json) : res json :=
  bind (get_metadata body) (fun m =>
  bind (py_get m "finalizers" (JList [])) (fun fs =>
  bind (py_in fin fs) (fun present =>
  if present then Ok body
  else match fs with
       | JList l => set_finalizers body (JList (l ++ [JStr fin]))
       | _ => ErrType                        (* str/dict have no .append *)
       end))).

Definition allow_deletion (fin : string) (body : json) : res json :=
  match body with
  | JObj kvs =>
      bind (get_metadata body) (fun m =>
      match m with
      | JObj mk =>
          bind (py_get m "finalizers" (JList [])) (fun fs =>
          bind (py_in fin fs) (fun present =>
          bind (if present
                then match fs with
                     | JList l => Ok (JList (filter (fun x => negb (is_fin fin x)) l))
                     | _ => ErrType          (* str/dict have no .remove *)
                     end
                else Ok fs) (fun fs' =>
          let mk' := if has "finalizers" mk
                     then (if py_truthy fs' then set "finalizers" fs' mk else del "finalizers" mk)
                     else mk in
          let kvs' := if has "metadata" kvs
                      then (match mk' with [] => del "metadata" kvs | _ => set "metadata" (JObj mk') kvs end)
                      else kvs in
          Ok (JObj kvs'))))
      | _ => ErrType
      end)
  | _ => ErrType
  end.

(* atoms computed from the body; old/diff/initial are inputs (essence: C04; memory: C14) *)
Definition atoms_of_body (fin : string) (ev : evtype) (body : json)
           (old_none diff_empty initial : bool) : res atoms :=
  bind (is_deletion_ongoing body) (fun ongoing =>
  bind (is_deletion_blocked fin body) (fun blocked =>
  Ok {| a_gone := is_deleted_event ev; a_deleting := ongoing; a_blocked := blocked;
        a_old_none := old_none; a_diff_empty := diff_empty; a_initial := initial |})).

(* detect_changing_cause on a real body: the DELETED test precedes any look at the body *)
Definition detect_body (fin : string) (ev : evtype) (body : json)
           (old_none diff_empty initial : bool) : res (reason * bool) :=
  if is_deleted_event ev then Ok (Gone, initial)
  else bind (atoms_of_body fin ev body old_none diff_empty initial) (fun a => Ok (detect a)).

(* The part of a body the functions above read.  Proofs/Causes.v proves that every function of this
   file gives the same answer on [core_body b] as on [b]; the correspondence check uses this to keep
   its case files small (and still sends a share of the bodies in full). *)
Definition core_key (k : string) : bool := String.eqb k "deletionTimestamp" || String.eqb k "finalizers".
Definition core_body (body : json) : json :=
  match body with
  | JObj kvs =>
      JObj (match lookup "metadata" kvs with
            | Some (JObj mk) => [("metadata", JObj (filter_keys core_key mk))]
            | Some m => [("metadata", m)]
            | None => []
            end)
  | _ => body
  end.

(* ---------- handlers ---------- *)
Record hdecl := {
  h_key : nat;                   (* stands for (id(handler.fn), handler.id) in _deduplicated *)
  h_reason : option reason;      (* handler.reason *)
  h_initial : option bool;       (* handler.initial *)
  h_deleted : option bool;       (* handler.deleted *)
  h_reqfin : option bool;        (* handler.requires_finalizer *)
  h_prematch : bool;             (* ORACLE: registries.prematch(handler, cause) *)
  h_match : bool                 (* ORACLE: registries.match(handler, cause) *)
}.

Definition truthy (o : option bool) : bool := match o with Some true => true | _ => false end.

Definition reason_accepts (hr : option reason) (r : reason) : bool :=
  match hr with None => true | Some x => reason_eqb x r end.

(* one iteration of ChangingRegistry.iter_handlers; [excluded] = handler.id in excluded *)
Definition select (r : reason) (c_initial c_deleted : bool) (excluded : bool) (h : hdecl) : bool :=
  if excluded then false
  else if reason_accepts (h_reason h) r then
    if truthy (h_initial h) && negb c_initial then false
    else if truthy (h_initial h) && c_deleted && negb (truthy (h_deleted h)) then false
    else h_match h
  else false.

Fixpoint dedup_from (seen : list nat) (l : list hdecl) : list hdecl :=
  match l with
  | [] => []
  | h :: l' => if existsb (Nat.eqb (h_key h)) seen then dedup_from seen l'
               else h :: dedup_from (h_key h :: seen) l'
  end.
Definition dedup (l : list hdecl) : list hdecl := dedup_from [] l.

(* ChangingRegistry.get_handlers(cause) *)
Definition get_handlers (r : reason) (c_initial c_deleted : bool) (hs : list hdecl) : list hdecl :=
  dedup (filter (select r c_initial c_deleted false) hs).

(* process_changing_cause: handlers are looked up only `if cause.reason in HANDLER_REASONS` *)
Definition invoked (r : reason) (c_initial c_deleted : bool) (hs : list hdecl) : list hdecl :=
  if is_handler_reason r then get_handlers r c_initial c_deleted hs else [].

(* ChangingRegistry.requires_finalizer / prematch *)
Definition requires_finalizer (hs : list hdecl) : bool :=
  existsb (fun h => truthy (h_reqfin h) && h_prematch h) hs.
Definition prematch_any (hs : list hdecl) : bool := existsb h_prematch hs.

(* ---------- one pass of process_resource_causes, changing part only ----------
   hs = the handlers of registry._changing for this resource (no daemons/timers: the spawning
   half of deletion_must_be_blocked is false); [consistent] = final value of
   consistency_is_achieved (input: depends on time and on the carried patch, C07). *)
Record cycle_out := {
  co_cause : option (reason * bool);  (* the cause handed to process_changing_cause *)
  co_invoked : list hdecl;            (* handlers selected there *)
  co_block : bool;                    (* block_deletion appended to patch.fns *)
  co_allow : bool                     (* allow_deletion appended (the early one) *)
}.

Definition cycle (fin : string) (ev : evtype) (body : json)
           (old_none diff_empty initial consistent : bool) (hs : list hdecl) : res cycle_out :=
  bind (match hs with
        | [] => Ok None                                   (* has_handlers() is false *)
        | _ => bind (detect_body fin ev body old_none diff_empty initial) (fun c => Ok (Some c))
        end) (fun cc =>
  let cc := if prematch_any hs then cc else None in
  bind (is_deletion_ongoing body) (fun ongoing =>
  bind (is_deletion_blocked fin body) (fun blocked =>
  let must := match cc with Some _ => requires_finalizer hs | None => false end in
  let add := must && negb blocked && negb ongoing in
  let rem := negb must && blocked in
  let cc := if add || rem then None else cc in
  match cc with
  | None => Ok {| co_cause := None; co_invoked := []; co_block := add; co_allow := rem |}
  | Some (r, ini) =>
      if consistent
      then Ok {| co_cause := cc; co_invoked := invoked r ini ongoing hs;   (* cause.deleted = ongoing *)
                 co_block := add; co_allow := rem |}
      else Ok {| co_cause := None; co_invoked := []; co_block := add; co_allow := rem |}
  end))).

(* ---------- kopf/on.py: the decorator table ---------- *)
Inductive kind :=
| KCreate | KUpdate | KField
| KDelete (optional : option bool)
| KResume (deleted : option bool).

Definition decl_of_kind (k : kind) (key : nat) (prematch mtch : bool) : hdecl :=
  match k with
  | KCreate => {| h_key := key; h_reason := Some Create; h_initial := None; h_deleted := None;
                  h_reqfin := None; h_prematch := prematch; h_match := mtch |}
  | KUpdate => {| h_key := key; h_reason := Some Update; h_initial := None; h_deleted := None;
                  h_reqfin := None; h_prematch := prematch; h_match := mtch |}
  | KField => {| h_key := key; h_reason := None; h_initial := None; h_deleted := None;
                 h_reqfin := None; h_prematch := prematch; h_match := mtch |}
  | KDelete opt => {| h_key := key; h_reason := Some Delete; h_initial := None; h_deleted := None;
                      h_reqfin := Some (negb (truthy opt));       (* bool(not optional) *)
                      h_prematch := prematch; h_match := mtch |}
  | KResume del => {| h_key := key; h_reason := None; h_initial := Some true; h_deleted := del;
                      h_reqfin := None; h_prematch := prematch; h_match := mtch |}
  end.

(* ---------- equalities for the correspondence checks ---------- *)
Definition obool_eqb (a b : option bool) : bool :=
  match a, b with Some x, Some y => Bool.eqb x y | None, None => true | _, _ => false end.
Definition oreason_eqb (a b : option reason) : bool :=
  match a, b with Some x, Some y => reason_eqb x y | None, None => true | _, _ => false end.
Definition cause_eqb (a b : reason * bool) : bool :=
  reason_eqb (fst a) (fst b) && Bool.eqb (snd a) (snd b).
Definition ocause_eqb (a b : option (reason * bool)) : bool :=
  match a, b with Some x, Some y => cause_eqb x y | None, None => true | _, _ => false end.
Definition keys_of (l : list hdecl) : list nat := map h_key l.
Fixpoint nats_eqb (a b : list nat) : bool :=
  match a, b with
  | [], [] => true
  | x :: a', y :: b' => Nat.eqb x y && nats_eqb a' b'
  | _, _ => false
  end.
Definition decl_fields_eqb (h : hdecl) (r : option reason) (i d f : option bool) : bool :=
  oreason_eqb (h_reason h) r && obool_eqb (h_initial h) i && obool_eqb (h_deleted h) d && obool_eqb (h_reqfin h) f.
Definition cycle_eqb (c : cycle_out) (cause : option (reason * bool)) (inv : list nat) (blk alw : bool) : bool :=
  ocause_eqb (co_cause c) cause && nats_eqb (keys_of (co_invoked c)) inv &&
  Bool.eqb (co_block c) blk && Bool.eqb (co_allow c) alw.

(* ====================================================================================== *)
(* The closed loop: one object, its operator-side memory, and every processed event       *)
(* (process_resource_event -> process_resource_causes -> process_changing_cause).         *)
(* Bodies are abstract here: the essence is a number, the stored last-handled essence an  *)
(* optional number; the JSON level above supplies deleting/blocked (C05_from_body) and    *)
(* C04 supplies essence/diff.                                                              *)
(* ====================================================================================== *)

(* the pass on atoms (no JSON, no errors): [pass_cause] is the cause that survives has_handlers,
   the stealth prematch and the finalizer passes; (cause, block_deletion added, allow_deletion added) *)
Definition pass_cause (a : atoms) (hs : list hdecl) : option (reason * bool) * bool * bool :=
  let cc := match hs with [] => None | _ => Some (detect a) end in
  let cc := if prematch_any hs then cc else None in
  let must := match cc with Some _ => requires_finalizer hs | None => false end in
  let add := must && negb (a_blocked a) && negb (a_deleting a) in
  let rem := negb must && a_blocked a in
  (if add || rem then None else cc, add, rem).

Definition cycle_on_atoms (a : atoms) (consistent : bool) (hs : list hdecl) : cycle_out :=
  match pass_cause a hs with
  | (None, add, rem) => {| co_cause := None; co_invoked := []; co_block := add; co_allow := rem |}
  | (Some (r, ini), add, rem) =>
      if consistent
      then {| co_cause := Some (r, ini); co_invoked := invoked r ini (a_deleting a) hs; co_block := add; co_allow := rem |}
      else {| co_cause := None; co_invoked := []; co_block := add; co_allow := rem |}
  end.

(* server-side object, abstract *)
Record aobj := {
  ao_ess : nat;              (* its current essence *)
  ao_last : option nat;      (* the stored last-handled essence, if any (whatever its content) *)
  ao_deleting : bool;        (* metadata.deletionTimestamp set *)
  ao_own : bool;             (* the framework's finalizer is in metadata.finalizers *)
  ao_foreign : bool          (* some other finalizer is *)
}.

(* inventory.ResourceMemory, the two flags behind `initial` *)
Record amem := { am_listed : bool (* noticed_by_listing *); am_handled : bool (* fully_handled_once *) }.

Definition onat_eqb (a b : option nat) : bool :=
  match a, b with Some x, Some y => Nat.eqb x y | None, None => true | _, _ => false end.

Definition is_listing (e : evtype) : bool := match e with EvNone => true | _ => false end.

(* memories.recall(raw_body, noticed_by_listing = raw_type is None): found, or created *)
Definition recall (m : option amem) (ev : evtype) : amem :=
  match m with Some x => x | None => {| am_listed := is_listing ev; am_handled := false |} end.

Definition first_sight (m : amem) : bool := am_listed m && negb (am_handled m).

(* the atoms as _detect_causes computes them from the event's object and the memory *)
Definition atoms_of_snap (ev : evtype) (s : aobj) (m : amem) : atoms :=
  {| a_gone := is_deleted_event ev; a_deleting := ao_deleting s; a_blocked := ao_own s;
     a_old_none := match ao_last s with None => true | Some _ => false end;
     a_diff_empty := onat_eqb (ao_last s) (Some (ao_ess s));
     a_initial := first_sight m |}.

(* what one pass does besides choosing handlers (process_changing_cause + the tail of
   process_resource_causes).  Oracles: [done] = state.done after the invoked handlers' outcomes,
   [nodelays] = no handler asked for a delay, [ran] = keys of the selected handlers actually
   executed this time (execute_handlers_once skips finished/sleeping ones: C02). *)
Record pass_fx := {
  fx_cause : option (reason * bool);   (* cause handled by process_changing_cause *)
  fx_ran : list hdecl;                 (* handlers invoked *)
  fx_store : bool;                     (* diffbase_storage.store(essence = cause.new) *)
  fx_handled : bool;                   (* memory.fully_handled_once = True *)
  fx_block : bool;                     (* patch.fns += block_deletion *)
  fx_allow : bool                      (* patch.fns += allow_deletion (early removal or final release) *)
}.

Definition pass_effects (a : atoms) (consistent done nodelays : bool) (ran : list nat) (hs : list hdecl) : pass_fx :=
  let release_if (delays_empty : bool) := negb (a_gone a) && a_deleting a && a_blocked a && delays_empty in
  match pass_cause a hs with
  | (None, add, rem) =>
      {| fx_cause := None; fx_ran := []; fx_store := false; fx_handled := false; fx_block := add;
         fx_allow := rem || release_if true |}
  | (Some (r, ini), add, rem) =>
      if negb consistent then                 (* consistency required and not achieved: return before anything *)
        {| fx_cause := None; fx_ran := []; fx_store := false; fx_handled := false; fx_block := add; fx_allow := rem |}
      else if is_handler_reason r then
        let sel := invoked r ini (a_deleting a) hs in
        let fin := match sel with [] => true | _ => done end in                (* `done or skip` *)
        let delays_empty := match sel with [] => true | _ => nodelays end in
        {| fx_cause := Some (r, ini);
           fx_ran := filter (fun h => existsb (Nat.eqb (h_key h)) ran) sel;
           fx_store := fin && negb (a_diff_empty a);                           (* cause.old != cause.new *)
           fx_handled := fin;
           fx_block := add; fx_allow := rem || release_if delays_empty |}
      else
        {| fx_cause := Some (r, ini); fx_ran := []; fx_store := false; fx_handled := false; fx_block := add;
           fx_allow := rem || release_if true |}
  end.

Record invocation := {
  iv_h : hdecl; iv_reason : reason; iv_initial : bool;     (* the handler and the cause it was given *)
  iv_ev : evtype; iv_snap : aobj; iv_mem : amem            (* the event, its object, the memory at that moment *)
}.

Record world := { w_obj : option aobj; w_mem : option amem; w_log : list invocation }.

(* the API server's side of a finalizer change: an object marked for deletion without finalizers goes away *)
Definition settle (o : aobj) : option aobj :=
  if ao_deleting o && negb (ao_own o) && negb (ao_foreign o) then None else Some o.

(* merge-patch + patch.fns applied to the CURRENT server-side object *)
Definition apply_fx (o snap : aobj) (fx : pass_fx) : aobj :=
  {| ao_ess := ao_ess o;
     ao_last := if fx_store fx then Some (ao_ess snap) else ao_last o;
     ao_deleting := ao_deleting o;
     ao_own := if fx_block fx then true else if fx_allow fx then false else ao_own o;
     ao_foreign := ao_foreign o |}.

Inductive label :=
| EnvEdit (e : nat)                 (* a user changes an essential field *)
| EnvDelete                         (* a user requests deletion *)
| EnvForeign (b : bool)             (* another controller adds/removes its finalizer *)
| EnvDropStored                     (* somebody strips the stored last-handled state *)
| Restart                           (* operator process restarts: memories are empty *)
| Proc (ev : evtype) (snap : aobj)  (* the operator processes an event carrying object [snap] — ANY snapshot, stale or not *)
       (hs : list hdecl) (consistent done nodelays : bool) (ran : list nat).

Definition set_obj (w : world) (o : option aobj) : world := {| w_obj := o; w_mem := w_mem w; w_log := w_log w |}.

Definition step (w : world) (l : label) : option world :=
  match l with
  | EnvEdit e =>
      match w_obj w with
      | Some o => Some (set_obj w (Some {| ao_ess := e; ao_last := ao_last o; ao_deleting := ao_deleting o;
                                           ao_own := ao_own o; ao_foreign := ao_foreign o |}))
      | None => None
      end
  | EnvDelete =>
      match w_obj w with
      | Some o => Some (set_obj w (settle {| ao_ess := ao_ess o; ao_last := ao_last o; ao_deleting := true;
                                             ao_own := ao_own o; ao_foreign := ao_foreign o |}))
      | None => None
      end
  | EnvForeign b =>
      match w_obj w with
      | Some o => Some (set_obj w (settle {| ao_ess := ao_ess o; ao_last := ao_last o; ao_deleting := ao_deleting o;
                                             ao_own := ao_own o; ao_foreign := b |}))
      | None => None
      end
  | EnvDropStored =>
      match w_obj w with
      | Some o => Some (set_obj w (Some {| ao_ess := ao_ess o; ao_last := None; ao_deleting := ao_deleting o;
                                           ao_own := ao_own o; ao_foreign := ao_foreign o |}))
      | None => None
      end
  | Restart => Some {| w_obj := w_obj w; w_mem := None; w_log := w_log w |}
  | Proc ev snap hs consistent done nodelays ran =>
      let m := recall (w_mem w) ev in
      let fx := pass_effects (atoms_of_snap ev snap m) consistent done nodelays ran hs in
      let m' := {| am_listed := am_listed m; am_handled := am_handled m || fx_handled fx |} in
      let invs := map (fun h => {| iv_h := h;
                                   iv_reason := match fx_cause fx with Some (r, _) => r | None => Noop end;
                                   iv_initial := match fx_cause fx with Some (_, i) => i | None => false end;
                                   iv_ev := ev; iv_snap := snap; iv_mem := m |}) (fx_ran fx) in
      Some {| w_obj := if is_deleted_event ev then w_obj w              (* nothing is applied for DELETED *)
                       else match w_obj w with Some o => settle (apply_fx o snap fx) | None => None end;
              w_mem := if is_deleted_event ev then None else Some m';   (* memories.forget *)
              w_log := w_log w ++ invs |}
  end.

Fixpoint run (w : world) (tr : list label) : option world :=
  match tr with
  | [] => Some w
  | l :: tr' => match step w l with Some w' => run w' tr' | None => None end
  end.

(* ---- replay of an observed history (T-tie): after every label the observed server-side object,
   memory and the invocations added must equal the model's ---- *)
Definition aobj_eqb (a b : aobj) : bool :=
  Nat.eqb (ao_ess a) (ao_ess b) && onat_eqb (ao_last a) (ao_last b) && Bool.eqb (ao_deleting a) (ao_deleting b) &&
  Bool.eqb (ao_own a) (ao_own b) && Bool.eqb (ao_foreign a) (ao_foreign b).
Definition oaobj_eqb (a b : option aobj) : bool :=
  match a, b with Some x, Some y => aobj_eqb x y | None, None => true | _, _ => false end.
Definition amem_eqb (a b : amem) : bool := Bool.eqb (am_listed a) (am_listed b) && Bool.eqb (am_handled a) (am_handled b).
Definition oamem_eqb (a b : option amem) : bool :=
  match a, b with Some x, Some y => amem_eqb x y | None, None => true | _, _ => false end.
Fixpoint inv_eqb (l : list invocation) (obs : list (nat * reason)) : bool :=
  match l, obs with
  | [], [] => true
  | iv :: l', (k, r) :: obs' => Nat.eqb (h_key (iv_h iv)) k && reason_eqb (iv_reason iv) r && inv_eqb l' obs'
  | _, _ => false
  end.

(* observation after one label: (object, memory, invocations added by this label) *)
Definition wobs := (option aobj * option amem * list (nat * reason))%type.

Fixpoint replay (w : world) (steps : list (label * wobs)) : bool :=
  match steps with
  | [] => true
  | (l, (o, m, invs)) :: rest =>
      match step w l with
      | Some w' =>
          oaobj_eqb (w_obj w') o && oamem_eqb (w_mem w') m &&
          inv_eqb (skipn (List.length (w_log w)) (w_log w')) invs && replay w' rest
      | None => false
      end
  end.

(* what the model says after each label (printed as the diagnostic of a rejected history) *)
Fixpoint observe (w : world) (ls : list label) : list (option wobs) :=
  match ls with
  | [] => []
  | l :: rest =>
      match step w l with
      | Some w' => Some (w_obj w', w_mem w',
                         map (fun iv => (h_key (iv_h iv), iv_reason iv)) (skipn (List.length (w_log w)) (w_log w')))
                   :: observe w' rest
      | None => [None]
      end
  end.
