(* kopf/_core/actions/progression.py deliver_results: the handlers' results are written into the patch
   under status.<handler id> (a framework write confined to the status stanza).  Definitions only.

     for handler_id, outcome in outcomes.items():
         if outcome.exception is not None: pass
         elif outcome.result is None: pass
         elif isinstance(outcome.result, Mapping):
             patch.setdefault('status', {}).setdefault(handler_id, {}).update(outcome.result)
         else:
             patch.setdefault('status', {})[handler_id] = copy.deepcopy(outcome.result)        *)
From Coq Require Import ZArith List String Bool Ascii.
From KV Require Import Base.Json Base.Dicts.
Import ListNotations.
Open Scope string_scope.
Open Scope list_scope.

Definition or_empty (o : option json) : json := match o with Some j => j | None => JObj [] end.

(* one successful outcome with result [result] (JNull = the handler returned None) *)
Definition deliver_result (hid : string) (result patch : json) : res json :=
  match result with
  | JNull => Ok patch
  | _ =>
      match patch with
      | JObj pk =>
          match or_empty (lookup "status" pk) with                 (* patch.setdefault('status', {}) *)
          | JObj st =>
              match result with
              | JObj r =>
                  match or_empty (lookup hid st) with              (* .setdefault(handler_id, {}) *)
                  | JObj sub =>                                    (* .update(result) *)
                      Ok (JObj (set "status" (JObj (set hid (JObj (fold_left (fun acc kv => set (fst kv) (snd kv) acc) r sub)) st)) pk))
                  | _ => ErrType
                  end
              | v => Ok (JObj (set "status" (JObj (set hid v st)) pk))
              end
          | _ => ErrType
          end
      | _ => ErrType
      end
  end.

(* outcomes as (handler id, Some result | None = the handler raised) in dict order *)
Definition deliver_results (outs : list (string * option json)) (patch : json) : res json :=
  fold_left (fun acc o => bind acc (fun p => match snd o with Some r => deliver_result (fst o) r p | None => Ok p end))
            outs (Ok patch).
