(* C09 — executable model of kopf's daemon/timer life-cycle machinery.  Definitions only (proofs: Proofs/Daemons.v).

   Mirrors, statement by statement where it matters:
     kopf/_cogs/aiokits/aioenums.py    FlagSetter.set / is_set                       -> sp_set / is_set
     kopf/_core/engines/daemons.py     stop_daemons (body of the per-daemon loop)     -> stage, stop_list
                                       stop_daemon (linear, used by daemon_killer)    -> linear_stop
                                       spawn_daemons / match_daemons / pause_daemons  -> spawn_all / proc
                                       _runner's finally                              -> finish
                                       _timer's control flow once the stopper is set  -> timer_tail
     kopf/_core/reactor/processing.py  process_spawning_cause (+ forget on DELETED)   -> proc / step (LProc)
   Times are integer milliseconds (Z).  User code is an oracle: the answers of `task.done()` after each
   "instant exit" wait (list bool), or reaction times (rx) for the linear procedure.
   Assumed setting: settings.background.instant_exit_timeout = None (the default), i.e. no virtual time passes
   inside stop_daemons, so the loop time at every stopper.set() equals the `now` read at its beginning. *)
From Coq Require Import ZArith List Bool Arith.
Import ListNotations.
Open Scope Z_scope.

(* ---------------------------------------------------------------- stop flag (aioenums.FlagSetter) *)

Inductive reason := RDone | RMismatch | RDeleted | RPausing | RExiting | RSignalled | RCancelled | RAbandoned.

Definition reason_idx (r : reason) : nat :=
  match r with RDone => 0 | RMismatch => 1 | RDeleted => 2 | RPausing => 3 | RExiting => 4
             | RSignalled => 5 | RCancelled => 6 | RAbandoned => 7 end%nat.
Definition reason_eqb (a b : reason) : bool := Nat.eqb (reason_idx a) (reason_idx b).

Definition rmem (r : reason) (l : list reason) : bool := existsb (reason_eqb r) l.
Definition radd (l : list reason) (r : reason) : list reason := if rmem r l then l else l ++ [r].
Definition rsubset (a b : list reason) : bool := forallb (fun r => rmem r b) a.
Definition rset_eqb (a b : list reason) : bool := rsubset a b && rsubset b a.

Record stopper := { sp_when : option Z; sp_reason : option (list reason); sp_event : bool }.
Definition fresh_stopper : stopper := {| sp_when := None; sp_reason := None; sp_event := false |}.

(* def set(self, reason=None):
       reason = reason if reason is not None else self.reason
       self.when = self.when if self.when is not None else loop.time()
       self.reason = reason if self.reason is None or reason is None else self.reason | reason
       self.sync_event.set(); self.async_event.set()                                              *)
Definition sp_set (sp : stopper) (r : option reason) (now : Z) : stopper :=
  let r' := match r with Some x => Some [x] | None => sp_reason sp end in
  {| sp_when := match sp_when sp with Some w => Some w | None => Some now end;
     sp_reason := match sp_reason sp with
                  | None => r'
                  | Some l => match r' with None => None | Some l' => Some (fold_left radd l' l) end
                  end;
     sp_event := true |}.

(* def is_set(self, reason=None):
       matching_reason = reason is None or (self.reason is not None and reason in self.reason)
       return matching_reason and self.sync_event.is_set()                                        *)
Definition is_set (sp : stopper) (r : option reason) : bool :=
  (match r with
   | None => true
   | Some x => match sp_reason sp with Some l => rmem x l | None => false end
   end) && sp_event sp.

(* ---------------------------------------------------------------- handler configuration *)

Inductive hkind := KDaemon | KTimer.
Record hcfg := { h_kind : hkind; h_backoff : option Z; h_timeout : option Z; h_polling : option Z }.

Definition oz (x : option Z) : Z := match x with Some v => v | None => 0 end.     (* Python: `x or 0` *)

(* match handler: case DaemonHandler(): backoff, timeout, polling = ..., handler.cancellation_polling or settings...
                  case TimerHandler():  backoff = None; timeout = None; polling = settings...        *)
Definition eff_backoff (h : hcfg) : option Z := match h_kind h with KDaemon => h_backoff h | KTimer => None end.
Definition eff_timeout (h : hcfg) : option Z := match h_kind h with KDaemon => h_timeout h | KTimer => None end.
Definition eff_polling (h : hcfg) (spoll : Z) : Z :=
  match h_kind h with
  | KDaemon => match h_polling h with Some p => if p =? 0 then spoll else p | None => spoll end
  | KTimer => spoll
  end.

(* ---------------------------------------------------------------- one daemon in stop_daemons: the stage function *)

Inductive stg := SSignal | SCancel | SAbandon | SPoll.

(* elif backoff is not None and age < backoff / elif timeout is not None and age < timeout + (backoff or 0) /
   elif timeout is not None / else                                                                  *)
Definition stage_of (bo tmo : option Z) (age : Z) : stg :=
  let rest := match tmo with
              | Some t => if age <? t + oz bo then SCancel else SAbandon
              | None => SPoll
              end in
  match bo with
  | Some b => if age <? b then SSignal else rest
  | None => rest
  end.

Inductive act := ASet (r : reason) | AWait | ACancel | AWarn.

(* _wait_for_instant_exit: nothing if the task is done already; otherwise the oracle says whether it is done afterwards *)
Definition wait_instant (done : bool) (ex : list bool) : bool * list bool :=
  if done then (true, ex) else match ex with b :: ex' => (b, ex') | [] => (false, []) end.

Record sres := { r_sp : stopper; r_done : bool; r_cancel : bool; r_acts : list act; r_delays : list Z; r_ex : list bool }.

(* "if not stopper.is_set(reason=X): stopper.set(reason=X); [task.cancel();] await _wait_for_instant_exit(...)" *)
Definition nudge (flag : reason) (cancel : bool) (now : Z) (sp : stopper) (ex : list bool)
  : stopper * bool * list bool * list act :=
  if is_set sp (Some flag) then (sp, false, ex, [])
  else let '(d, ex') := wait_instant false ex in
       (sp_set sp (Some flag) now, d, ex', [ASet flag] ++ (if cancel then [ACancel] else []) ++ [AWait]).

Definition stage (h : hcfg) (spoll now : Z) (why : reason) (sp : stopper) (done0 : bool) (ex : list bool) : sres :=
  let bo := eff_backoff h in
  let tmo := eff_timeout h in
  let age := now - (match sp_when sp with Some w => w | None => now end) in
  (* Whatever happens with other flags & logs & timings, this flag must be surely set. *)
  let '(sp1, d1, ex1, a1) :=
      if is_set sp (Some why) then (sp, done0, ex, [])
      else let '(d, ex') := wait_instant done0 ex in (sp_set sp (Some why) now, d, ex', [ASet why; AWait]) in
  if d1 then {| r_sp := sp1; r_done := true; r_cancel := false; r_acts := a1; r_delays := []; r_ex := ex1 |}
  else match stage_of bo tmo age with
       | SSignal =>
           let '(sp2, d2, ex2, a2) := nudge RSignalled false now sp1 ex1 in
           {| r_sp := sp2; r_done := d2; r_cancel := false; r_acts := a1 ++ a2;
              r_delays := if d2 then [] else [oz bo - age]; r_ex := ex2 |}
       | SCancel =>
           let '(sp2, d2, ex2, a2) := nudge RCancelled true now sp1 ex1 in
           {| r_sp := sp2; r_done := d2; r_cancel := negb (is_set sp1 (Some RCancelled)); r_acts := a1 ++ a2;
              r_delays := if d2 then [] else [oz tmo + oz bo - age]; r_ex := ex2 |}
       | SAbandon =>
           if is_set sp1 (Some RAbandoned)
           then {| r_sp := sp1; r_done := false; r_cancel := false; r_acts := a1; r_delays := []; r_ex := ex1 |}
           else {| r_sp := sp_set sp1 (Some RAbandoned) now; r_done := false; r_cancel := false;
                   r_acts := a1 ++ [ASet RAbandoned; AWarn]; r_delays := []; r_ex := ex1 |}
       | SPoll =>
           {| r_sp := sp1; r_done := false; r_cancel := false; r_acts := a1; r_delays := [eff_polling h spoll]; r_ex := ex1 |}
       end.

(* ---------------------------------------------------------------- stop_daemon: the linear procedure of the killer *)

(* Reaction of the user's function (oracle): how long after the first set of the stop flag / after task.cancel()
   the task ends; None = never. *)
Record rx := { x_flag : option Z; x_cancel : option Z }.

Definition omin (a b : option Z) : option Z :=
  match a, b with Some x, Some y => Some (Z.min x y) | Some x, None => Some x | None, b => b end.

Definition endtime (r : rx) (flagged cancelled : option Z) : option Z :=
  omin (match x_flag r, flagged with Some d, Some w => Some (w + d) | _, _ => None end)
       (match x_cancel r, cancelled with Some d, Some c => Some (c + d) | _, _ => None end).

Definition done_by (r : rx) (flagged cancelled : option Z) (t : Z) : bool :=
  match endtime r flagged cancelled with Some e => e <=? t | None => false end.

(* aiotasks.wait([task], timeout=limit) started at t: returns at the task's end or after the limit *)
Definition wait_until (r : rx) (flagged cancelled : option Z) (t limit : Z) : Z :=
  let lim := t + Z.max 0 limit in
  match endtime r flagged cancelled with
  | Some e => if e <=? lim then Z.max t e else lim
  | None => lim
  end.

Record lres := { l_sp : stopper; l_trace : list (Z * act); l_end : Z; l_done : bool; l_cancelled : option Z }.

Definition linear_stop (h : hcfg) (why : reason) (sp : stopper) (t0 : Z) (done0 : bool) (r : rx) : lres :=
  let bo := eff_backoff h in
  let tmo := eff_timeout h in
  let sp1 := sp_set sp (Some why) t0 in
  let d1 := done0 || done_by r (sp_when sp1) None t0 in               (* instant exit: zero-time *)
  (* if not daemon.task.done() and backoff is not None: set SIGNALLED; wait(backoff) *)
  let '(sp2, t2, tr2) :=
      match bo with
      | Some b => if d1 then (sp1, t0, []) else
                  (sp_set sp1 (Some RSignalled) t0, wait_until r (sp_when sp1) None t0 b, [(t0, ASet RSignalled)])
      | None => (sp1, t0, [])
      end in
  let d2 := done0 || done_by r (sp_when sp1) None t2 in
  (* if not daemon.task.done() and timeout is not None: set CANCELLED; cancel; wait(timeout) *)
  let '(sp3, t3, tr3, canc) :=
      match tmo with
      | Some t => if d2 then (sp2, t2, [], None) else
                  (sp_set sp2 (Some RCancelled) t2, wait_until r (sp_when sp1) (Some t2) t2 t,
                   [(t2, ASet RCancelled); (t2, ACancel)], Some t2)
      | None => (sp2, t2, [], None)
      end in
  let d3 := done0 || done_by r (sp_when sp1) canc t3 in
  (* if not daemon.task.done(): set ABANDONED; warn *)
  if d3 then {| l_sp := sp3; l_trace := (t0, ASet why) :: tr2 ++ tr3; l_end := t3; l_done := true; l_cancelled := canc |}
  else {| l_sp := sp_set sp3 (Some RAbandoned) t3; l_trace := (t0, ASet why) :: tr2 ++ tr3 ++ [(t3, ASet RAbandoned); (t3, AWarn)];
          l_end := t3; l_done := false; l_cancelled := canc |}.

(* ---------------------------------------------------------------- per-object memory and the life-cycle LTS *)

Record inst := { i_ser : nat; i_h : hcfg; i_sp : stopper; i_canc : bool }.

Record ost := {
  o_running : list (nat * inst);    (* DaemonsMemory.running_daemons: handler id -> Daemon (insertion order) *)
  o_forever : list nat;             (* DaemonsMemory.forever_stopped *)
  o_live : list (nat * nat);        (* ghost: (handler id, serial) of every runner task created and not yet finished *)
  o_next : nat;                     (* ghost: next serial *)
  o_known : bool;                   (* the memory is in ResourceMemories._items (reachable by the daemon killer) *)
  o_gone : bool;                    (* a DELETED event was processed: Kubernetes delivers nothing more for this uid *)
  o_kstop : list nat;               (* ghost: serials of the daemons in a killer's `list(memory.running_daemons.values())` *)
  o_kiter : bool;                   (* THIS memory is in the killer's `list(memories.iter_all_daemon_memories())` and not reached yet *)
  o_delays : list Z                 (* output register: delays returned by the last process_spawning_cause *)
}.

Definition init : ost :=
  {| o_running := []; o_forever := []; o_live := []; o_next := 0%nat; o_known := true; o_gone := false;
     o_kstop := []; o_kiter := false; o_delays := [] |}.

Fixpoint lookup {A} (k : nat) (l : list (nat * A)) : option A :=
  match l with [] => None | (k', v) :: l' => if Nat.eqb k k' then Some v else lookup k l' end.
Definition remove_key {A} (k : nat) (l : list (nat * A)) : list (nat * A) :=
  filter (fun kv => negb (Nat.eqb k (fst kv))) l.
Fixpoint update {A} (k : nat) (v : A) (l : list (nat * A)) : list (nat * A) :=
  match l with [] => [] | (k', v') :: l' => if Nat.eqb k k' then (k', v) :: l' else (k', v') :: update k v l' end.
Definition nmem (k : nat) (l : list nat) : bool := existsb (Nat.eqb k) l.
Definition keys {A} (l : list (nat * A)) : list nat := map fst l.

Definition set_running (s : ost) (r : list (nat * inst)) : ost :=
  {| o_running := r; o_forever := o_forever s; o_live := o_live s; o_next := o_next s; o_known := o_known s;
     o_gone := o_gone s; o_kstop := o_kstop s; o_kiter := o_kiter s; o_delays := o_delays s |}.

(* _runner, finally:   if stopper.reason is None: memory.forever_stopped.add(handler.id)
                       ... del daemons[handler.id] ; stopper.set(reason=DONE)
   `None` = KeyError from `del` (the finished task would carry an exception).                      *)
Definition finish (id : nat) (s : ost) : option ost :=
  match lookup id (o_running s) with
  | None => None
  | Some i =>
      Some {| o_running := remove_key id (o_running s);
              o_forever := match sp_reason (i_sp i) with
                           | None => if nmem id (o_forever s) then o_forever s else o_forever s ++ [id]
                           | Some _ => o_forever s
                           end;
              o_live := filter (fun p => negb (Nat.eqb (fst p) id && Nat.eqb (snd p) (i_ser i))) (o_live s);
              o_next := o_next s; o_known := o_known s; o_gone := o_gone s; o_kstop := o_kstop s; o_kiter := o_kiter s;
              o_delays := o_delays s |}
  end.

(* spawn_daemons: for handler in handlers: if handler.id not in daemons: ... create_task(_runner) ... daemons[id] = daemon
   (no suspension point inside: S-tie)                                                              *)
Fixpoint spawn_all (hs : list (nat * hcfg)) (s : ost) : ost :=
  match hs with
  | [] => s
  | (id, h) :: hs' =>
      spawn_all hs'
        (if nmem id (keys (o_running s)) then s
         else {| o_running := o_running s ++ [(id, {| i_ser := o_next s; i_h := h; i_sp := fresh_stopper; i_canc := false |})];
                 o_forever := o_forever s; o_live := o_live s ++ [(id, o_next s)]; o_next := S (o_next s);
                 o_known := o_known s; o_gone := o_gone s; o_kstop := o_kstop s; o_kiter := o_kiter s; o_delays := o_delays s |})
  end.

(* stop_daemons over a snapshot `list(daemons.values())`; one oracle entry (done at its turn, answers of its waits)
   per daemon of the snapshot.  A daemon found done is finished (its _runner's finally has run).     *)
Fixpoint stop_list (spoll now : Z) (why : reason) (targets : list nat) (orc : list (bool * list bool)) (s : ost)
  : ost * list Z * list (bool * list bool) :=
  match targets with
  | [] => (s, [], orc)
  | id :: rest =>
      let '(d0, ex) := match orc with o :: _ => o | [] => (false, []) end in
      let orc' := tl orc in
      match lookup id (o_running s) with
      | None => stop_list spoll now why rest orc' s
      | Some i =>
          if d0 then
            (* its task had finished before its turn: _runner's finally has run with the stopper as it was; the reason
               set now lands on a dead stopper; `if daemon.task.done(): pass` *)
            stop_list spoll now why rest orc' (match finish id s with Some x => x | None => s end)
          else
          let r := stage (i_h i) spoll now why (i_sp i) false ex in
          let i' := {| i_ser := i_ser i; i_h := i_h i; i_sp := r_sp r; i_canc := i_canc i || r_cancel r |} in
          let s1 := set_running s (update id i' (o_running s)) in
          let s2 := if r_done r then match finish id s1 with Some x => x | None => s1 end else s1 in
          let '(s3, ds, orc3) := stop_list spoll now why rest orc' s2 in
          (s3, r_delays r ++ ds, orc3)
      end
  end.

Record view := {
  v_matching : list (nat * hcfg);   (* handlers whose filters match the body, in registry order *)
  v_deleting : bool;                (* finalizers.is_deletion_ongoing: deletionTimestamp present *)
  v_paused : bool                   (* operator_paused.is_on() *)
}.

Definition with_delays (s : ost) (d : list Z) : ost :=
  {| o_running := o_running s; o_forever := o_forever s; o_live := o_live s; o_next := o_next s; o_known := o_known s;
     o_gone := o_gone s; o_kstop := o_kstop s; o_kiter := o_kiter s; o_delays := d |}.

(* process_spawning_cause *)
Definition proc (spoll : Z) (v : view) (now : Z) (orc : list (bool * list bool)) (s : ost) : ost :=
  if v_deleting v then
    let '(s1, ds, _) := stop_list spoll now RDeleted (keys (o_running s)) orc s in with_delays s1 ds
  else
    let hs := filter (fun h => negb (nmem (fst h) (o_forever s))) (v_matching v) in      (* get_handlers(excluded=forever_stopped) *)
    let s1 := spawn_all hs s in
    let mism := filter (fun id => negb (nmem id (keys hs))) (keys (o_running s1)) in      (* match_daemons *)
    let '(s2, d2, orc2) := stop_list spoll now RMismatch mism orc s1 in
    if v_paused v then                                                                    (* pause_daemons *)
      let '(s3, d3, _) := stop_list spoll now RPausing (keys (o_running s2)) orc2 s2 in with_delays s3 (d2 ++ d3)
    else with_delays s2 d2.

Definition forget (s : ost) : ost :=
  {| o_running := o_running s; o_forever := o_forever s; o_live := o_live s; o_next := o_next s; o_known := false;
     o_gone := true; o_kstop := o_kstop s; o_kiter := o_kiter s; o_delays := o_delays s |}.

Inductive label :=
| LProc (deleted_event : bool) (v : view) (now : Z) (orc : list (bool * list bool))
| LEnd (id ser : nat)                          (* a runner task finishes outside of process_spawning_cause *)
| LKEnter                                       (* daemon_killer (since c948bdc): `list(memories.iter_all_daemon_memories())` contains this, still known, memory *)
| LKSnap                                        (* ... its loop reaches it: `list(memory.running_daemons.values())`; a stop_daemon is scheduled for each *)
| LKStart (id ser : nat) (why : reason) (now : Z)  (* that stop_daemon starts: sets the reason (the daemon may have ended meanwhile) *)
| LKSet (id ser : nat) (r : reason) (now : Z)      (* that stop_daemon sets SIGNALLED / CANCELLED / ABANDONED *)
| LKCancel (id ser : nat).

Definition set_kiter (s : ost) (b : bool) : ost :=
  {| o_running := o_running s; o_forever := o_forever s; o_live := o_live s; o_next := o_next s; o_known := o_known s;
     o_gone := o_gone s; o_kstop := o_kstop s; o_kiter := b; o_delays := o_delays s |}.

Definition kreason (r : reason) : bool := match r with RPausing | RExiting => true | _ => false end.
Definition kstage (r : reason) : bool := match r with RSignalled | RCancelled | RAbandoned => true | _ => false end.

Definition upd_inst (s : ost) (id ser : nat) (f : inst -> inst) : ost :=
  match lookup id (o_running s) with
  | Some i => if Nat.eqb (i_ser i) ser then set_running s (update id (f i) (o_running s)) else s
  | None => s
  end.

Definition has_inst (s : ost) (id ser : nat) : bool :=
  match lookup id (o_running s) with Some i => Nat.eqb (i_ser i) ser | None => false end.

Definition step (spoll : Z) (s : ost) (l : label) : option ost :=
  match l with
  | LProc del v now orc =>
      (* environment: nothing is delivered for a uid after its DELETED event *)
      if o_gone s then None
      else Some (proc spoll v now orc (if del then forget s else s))
  | LEnd id ser =>
      match lookup id (o_running s) with
      | Some i => if Nat.eqb (i_ser i) ser then finish id s else None
      | None => None
      end
  | LKEnter => if o_known s then Some (set_kiter s true) else None
  | LKSnap =>
      (* the snapshots are plain lists: what ends, is forgotten or spawned meanwhile does not disturb the iteration;
         a Daemon that has ended before its stop_daemon runs is still "stopped" by it, without any effect *)
      if o_kiter s then
        Some {| o_running := o_running s; o_forever := o_forever s; o_live := o_live s; o_next := o_next s;
                o_known := o_known s; o_gone := o_gone s;
                o_kstop := map (fun kv => i_ser (snd kv)) (o_running s) ++ o_kstop s; o_kiter := false;
                o_delays := o_delays s |}
      else None
  | LKStart id ser why now =>
      if (nmem ser (o_kstop s) || negb (has_inst s id ser)) && kreason why
      then Some (upd_inst s id ser (fun i => {| i_ser := i_ser i; i_h := i_h i; i_sp := sp_set (i_sp i) (Some why) now; i_canc := i_canc i |}))
      else None
  | LKSet id ser r now =>
      if (nmem ser (o_kstop s) || negb (has_inst s id ser)) && kstage r
      then Some (upd_inst s id ser (fun i => {| i_ser := i_ser i; i_h := i_h i; i_sp := sp_set (i_sp i) (Some r) now; i_canc := i_canc i |}))
      else None
  | LKCancel id ser =>
      if nmem ser (o_kstop s) || negb (has_inst s id ser)
      then Some (upd_inst s id ser (fun i => {| i_ser := i_ser i; i_h := i_h i; i_sp := i_sp i; i_canc := true |}))
      else None
  end.

(* one complete pass of daemon_killer over this memory (pause: every second; exit: once): the memory is listed, its daemons are
   snapshotted, a stop_daemon is started for each of them *)
Definition ksnap_sers (s : ost) : list nat := if o_known s then map (fun kv => i_ser (snd kv)) (o_running s) else [].
Definition kpass_labels (why : reason) (now : Z) (s : ost) : list label :=
  LKEnter :: LKSnap :: map (fun kv => LKStart (fst kv) (i_ser (snd kv)) why now) (o_running s).

Fixpoint run (spoll : Z) (s : ost) (tr : list label) : option ost :=
  match tr with
  | [] => Some s
  | l :: tr' => match step spoll s l with Some s' => run spoll s' tr' | None => None end
  end.

(* ---------------------------------------------------------------- _timer once its stopper is set *)

(* Every aiotime.sleep(..., wakeup=stopper.async_event) returns at once when the event is set (asyncio.wait_for on an
   already-set Event.wait() does not suspend), so from that moment on the coroutine runs without yielding.  Program points: *)
Inductive tpoint :=
| TTop            (* `while not stopper.is_set():` about to be evaluated *)
| TIdleWait       (* inside `while not stopper.is_set() and clock() - idle_reset_time < idle:` *)
| TAfterRun (done : bool)  (* after the invocation and the patch, before choosing the sleep *)
| TIdleOnly       (* inside `while memory.idle_reset_time <= started:` *)
| TExit.

Record tcfg := { t_interval : option Z; t_idle : option Z; t_sharp : bool }.

(* `reset_after` = (memory.idle_reset_time > started); it cannot change while the coroutine does not yield.
   `guarded` = the idle-only loop also tests the stopper (`and not stopper.is_set()`): TRUE for the code since ba077d7
   (the faithful model is `timer_tail true`); false describes the loop as it was before that fix (hypothetical variant). *)
Definition tstep (guarded : bool) (c : tcfg) (reset_after : bool) (p : tpoint) : tpoint * nat (* sleep() calls made *) :=
  match p with
  | TTop => (TExit, 0%nat)
  | TIdleWait => (TTop, 0%nat)                            (* inner loop ends; `if stopper.is_set(): continue` *)
  | TAfterRun done =>
      if negb done then (TTop, 1%nat)                     (* sleep(state.delays) *)
      else match t_interval c with
           | Some _ => (TTop, 1%nat)                      (* sharp or plain interval sleep *)
           | None => match t_idle c with
                     | Some _ => (TIdleOnly, 0%nat)
                     | None => (TExit, 0%nat)             (* break: one-shot *)
                     end
           end
  | TIdleOnly => if reset_after || guarded then (TTop, 0%nat) else (TIdleOnly, 1%nat)
  | TExit => (TExit, 0%nat)
  end.

(* number of sleep() calls until the coroutine leaves the loop, or None when the fuel runs out *)
Fixpoint timer_tail (guarded : bool) (c : tcfg) (reset_after : bool) (fuel : nat) (p : tpoint) : option nat :=
  match p with
  | TExit => Some 0%nat
  | _ => match fuel with
         | O => None
         | S f => let '(p', n) := tstep guarded c reset_after p in
                  match timer_tail guarded c reset_after f p' with Some m => Some (n + m)%nat | None => None end
         end
  end.

(* ---------------------------------------------------------------- _daemon once its stopper is set *)

(* `while not stopper.is_set() and not state.done:` invoke; patch; `if state.delay: await aiotime.sleep(state.delay, wakeup=...)`.
   Program points: *)
Inductive dpoint :=
| DTop                         (* the while condition is about to be evaluated *)
| DAfterRun (delayed : bool)   (* after the invocation and the patch; `delayed` = state.delay is set (temporary error / retry) *)
| DExit.

Definition dstep (p : dpoint) : dpoint * nat (* sleep() calls made, none of which suspends *) :=
  match p with
  | DTop => (DExit, 0%nat)
  | DAfterRun true => (DTop, 1%nat)
  | DAfterRun false => (DTop, 0%nat)
  | DExit => (DExit, 0%nat)
  end.

Fixpoint daemon_tail (fuel : nat) (p : dpoint) : option nat :=
  match p with
  | DExit => Some 0%nat
  | _ => match fuel with
         | O => None
         | S f => let '(p', n) := dstep p in match daemon_tail f p' with Some m => Some (n + m)%nat | None => None end
         end
  end.

(* ---------------------------------------------------------------- helpers for the generated case files *)

Definition oz_eqb (a b : option Z) : bool :=
  match a, b with Some x, Some y => x =? y | None, None => true | _, _ => false end.
Definition oreasons_eqb (a b : option (list reason)) : bool :=
  match a, b with Some x, Some y => rset_eqb x y | None, None => true | _, _ => false end.
Definition stopper_eqb (a b : stopper) : bool :=
  oz_eqb (sp_when a) (sp_when b) && oreasons_eqb (sp_reason a) (sp_reason b) && Bool.eqb (sp_event a) (sp_event b).
Fixpoint zlist_eqb (a b : list Z) : bool :=
  match a, b with [] , [] => true | x :: a', y :: b' => (x =? y) && zlist_eqb a' b' | _, _ => false end.
Fixpoint nlist_eqb (a b : list nat) : bool :=
  match a, b with [] , [] => true | x :: a', y :: b' => Nat.eqb x y && nlist_eqb a' b' | _, _ => false end.
Definition act_eqb (a b : act) : bool :=
  match a, b with
  | ASet x, ASet y => reason_eqb x y | AWait, AWait => true | ACancel, ACancel => true | AWarn, AWarn => true
  | _, _ => false end.
Fixpoint alist_eqb (a b : list act) : bool :=
  match a, b with [] , [] => true | x :: a', y :: b' => act_eqb x y && alist_eqb a' b' | _, _ => false end.
Fixpoint talist_eqb (a b : list (Z * act)) : bool :=
  match a, b with [] , [] => true
  | (t, x) :: a', (u, y) :: b' => (t =? u) && act_eqb x y && talist_eqb a' b' | _, _ => false end.

(* snapshot of a memory as the harness reads it from the implementation: running (id, serial, reasons, when), forever *)
Definition snap_inst_eqb (m : nat * inst) (e : nat * (nat * (option (list reason) * option Z))) : bool :=
  Nat.eqb (fst m) (fst e) && Nat.eqb (i_ser (snd m)) (fst (snd e))
  && oreasons_eqb (sp_reason (i_sp (snd m))) (fst (snd (snd e))) && oz_eqb (sp_when (i_sp (snd m))) (snd (snd (snd e))).
Fixpoint snap_run_eqb (m : list (nat * inst)) (e : list (nat * (nat * (option (list reason) * option Z)))) : bool :=
  match m, e with [], [] => true | x :: m', y :: e' => snap_inst_eqb x y && snap_run_eqb m' e' | _, _ => false end.
Definition nset_eqb (a b : list nat) : bool := forallb (fun x => nmem x b) a && forallb (fun x => nmem x a) b.

Record snap := { n_running : list (nat * (nat * (option (list reason) * option Z))); n_forever : list nat;
                 n_delays : option (list Z) }.
Definition snap_ok (s : ost) (e : snap) : bool :=
  snap_run_eqb (o_running s) (n_running e) && nset_eqb (o_forever s) (n_forever e)
  && match n_delays e with Some d => zlist_eqb (o_delays s) d | None => true end.

(* replay of an observed history: every label must be accepted and every snapshot must agree; returns the index of the
   first disagreement (0-based) or None *)
Fixpoint replay (spoll : Z) (s : ost) (h : list (label * option snap)) (i : nat) : option nat :=
  match h with
  | [] => None
  | (l, e) :: h' =>
      match step spoll s l with
      | None => Some i
      | Some s' => if match e with Some e => snap_ok s' e | None => true end then replay spoll s' h' (S i) else Some i
      end
  end.
Definition history_ok (spoll : Z) (h : list (label * option snap)) : bool :=
  match replay spoll init h 0 with None => true | Some _ => false end.
