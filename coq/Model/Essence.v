(* kopf/_core/reactor/processing.py (detection of causes): old / new / diff as computed there,
   kopf/_core/intents/causes.py detect_changing_cause (the essence-dependent part),
   kopf/_core/intents/handlers.py ResourceHandler.adjust_cause.  Definitions only.

     old = diffbase_storage.fetch(body=body)
     new = diffbase_storage.build(body=body, extra_fields=extra_fields)
     old = progress_storage.clear(essence=old) if old is not None else None
     new = progress_storage.clear(essence=new) if new is not None else None
     diff = diffs.diff(old, new)

   The storage classes themselves are Model/Storage.v (dbuild, dfetch, pclear). *)
From Coq Require Import ZArith NArith List String Bool Ascii.
From KV Require Import Base.Json Base.Dicts Model.Keys Model.Storage Model.Diff.
Import ListNotations.
Open Scope string_scope.
Open Scope list_scope.

Section WithDigest.
  Variable dg : chars -> list N.

  (* new: the essence of a body under a (diff-base storage, progress storage) configuration *)
  Definition essence (ds : dstorage) (ps : pstorage) (body : json) (extra : list path) : res json :=
    bind (dbuild dg ds body extra) (pclear ps).

  (* old: the last-handled essence, cleaned the same way (None = never handled) *)
  Definition old_essence (ds : dstorage) (ps : pstorage) (body : json) : res (option json) :=
    bind (dfetch dg ds body) (fun o =>
      match o with
      | None => Ok None
      | Some e => bind (pclear ps e) (fun e' => Ok (Some e'))
      end).

  Definition opt_json (o : option json) : json := match o with Some j => j | None => JNull end.

  (* (old, new, diff) handed to detect_changing_cause *)
  Definition old_new_diff (ds : dstorage) (ps : pstorage) (body : json) (extra : list path)
    : res (option json * json * list ditem) :=
    bind (old_essence ds ps body) (fun old =>
    bind (essence ds ps body extra) (fun new =>
    Ok (old, new, diff (opt_json old) new))).
End WithDigest.

(* the essence-dependent decisions of detect_changing_cause for an object that is neither gone
   nor being deleted: CREATE (no old), NOOP/RESUME (empty diff), UPDATE (non-empty diff) *)
Inductive change_kind : Type := KCreate | KSame | KUpdate.

Definition classify_change (old : option json) (d : list ditem) : change_kind :=
  match old with
  | None => KCreate
  | Some _ => match d with [] => KSame | _ => KUpdate end
  end.

(* ResourceHandler.adjust_cause for a handler with field=... : (old, new, diff) narrowed *)
Definition adjust_cause (field : path) (old : option json) (new : json) (d : list ditem)
  : json * json * list ditem :=
  (resolve_d (opt_json old) field, resolve_d new field, reduce d field).

(* processing.py, after all handlers are done: store the new essence iff it differs (Python !=) *)
Definition must_store_diffbase (old : option json) (new : json) : bool :=
  negb (py_eqb (opt_json old) new).
