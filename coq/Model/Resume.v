(* C14 — resume handlers once per object per operator process.  Definitions only (no proofs).

   Mirrors, statement by statement:
     kopf/_core/reactor/inventory.py    ResourceMemory.{noticed_by_listing, fully_handled_once},
                                        ResourceMemories._build_key / recall / forget
     kopf/_core/reactor/processing.py   process_resource_event: recall(noticed_by_listing = raw_type is None),
                                        forget on DELETED (the recalled memory object stays in use);
                                        _detect_causes: initial = noticed_by_listing and not fully_handled_once;
                                        process_changing_cause: HANDLER_REASONS gate, skip on no handlers,
                                        done = State.done, fully_handled_once = True on (done or skip)
     kopf/_core/intents/causes.py       detect_changing_cause (ordered decision list; initial forced False
                                        on CREATE; RESUME iff no diff and initial)
     kopf/_core/intents/registries.py   ChangingRegistry.iter_handlers (reason / initial / deleted selection),
                                        _deduplicated by (fn, id)
     kopf/_core/actions/execution.py    execute_handlers_once: only handlers whose record is `awakened`
     kopf/_core/actions/progression.py  HandlerState.finished / awakened, State.done (active states only),
                                        with_outcomes (outcomes are keyed by handler id: the last one wins)
     kopf/on.py                         resume: reason=None, initial=True, deleted=<arg>; create/update/delete:
                                        reason=<kind>, initial=None, deleted=None
     kopf/_cogs/clients/watching.py     continuous_watch: every (re-)listing yields the objects with type None

   Oracles (arguments of the step): registries.match per registration, "not sleeping" per open progress
   record (wall clock), the outcome of each invoked handler function, and the gate "the changing cause reaches
   process_changing_cause" (throttling, prematch, finalizer juggling, consistency wait: C05/C03 territory).
   Python exceptions are visible: AttributeError/TypeError = ErrType. *)
From Coq Require Import ZArith List String Bool Arith.
From KV Require Import Base.Json Base.Dicts.
Import ListNotations.
Open Scope string_scope.
Open Scope list_scope.

(* ---------- inventory.ResourceMemory: the two flags C14 is about ---------- *)
Record rs_mem := { rs_noticed : bool;      (* noticed_by_listing *)
                   rs_handled : bool }.    (* fully_handled_once *)

Definition rs_mem_eqb (a b : rs_mem) : bool :=
  Bool.eqb (rs_noticed a) (rs_noticed b) && Bool.eqb (rs_handled a) (rs_handled b).

(* raw_event['type'] *)
Inductive rs_evt := EListed (* None *) | EAdded | EModified | EDeleted.
Definition rs_is_listed (e : rs_evt) : bool := match e with EListed => true | _ => false end.
Definition rs_is_deleted (e : rs_evt) : bool := match e with EDeleted => true | _ => false end.

(* causes.Reason *)
Inductive rs_reason := RsCreate | RsUpdate | RsDelete | RsResume | RsNoop | RsFree | RsGone.
Definition rs_reason_eqb (a b : rs_reason) : bool :=
  match a, b with
  | RsCreate, RsCreate | RsUpdate, RsUpdate | RsDelete, RsDelete | RsResume, RsResume
  | RsNoop, RsNoop | RsFree, RsFree | RsGone, RsGone => true
  | _, _ => false
  end.
(* causes.HANDLER_REASONS *)
Definition rs_is_handler_reason (r : rs_reason) : bool :=
  match r with RsCreate | RsUpdate | RsDelete | RsResume => true | _ => false end.

(* progress record of a handler id on the object, as progression reads it *)
Inductive rs_prog := PNone       (* no record *)
                   | POpen       (* a record, neither success nor failure *)
                   | PFinished.  (* success or failure *)
Definition rs_prog_finished (p : rs_prog) : bool := match p with PFinished => true | _ => false end.

(* what one handler invocation did (execution.Outcome: final without / with exception, or not final) *)
Inductive rs_outcome := OSuccess | OPermanent | OTemporary.
Definition rs_outcome_eqb (a b : rs_outcome) : bool :=
  match a, b with OSuccess, OSuccess | OPermanent, OPermanent | OTemporary, OTemporary => true | _, _ => false end.
Definition rs_final (o : rs_outcome) : bool := match o with OTemporary => false | _ => true end.

(* the abstract view of the object carried by an event *)
Record rs_view := {
  vw_old_none : bool;                 (* old is None: no last-handled essence stored (never handled) *)
  vw_diff_empty : bool;               (* not diff *)
  vw_deleting : bool;                 (* finalizers.is_deletion_ongoing(body) *)
  vw_blocked : bool;                  (* finalizers.is_deletion_blocked(body, finalizer) *)
  vw_prog : list (nat * rs_prog)      (* handler id -> progress record (default PNone) *)
}.

Fixpoint rs_nat_assoc {V : Type} (d : V) (k : nat) (l : list (nat * V)) : V :=
  match l with
  | [] => d
  | (k', v) :: l' => if Nat.eqb k k' then v else rs_nat_assoc d k l'
  end.
Definition rs_mem_nat (k : nat) (l : list nat) : bool := existsb (Nat.eqb k) l.
Definition rs_prog_of (v : rs_view) (id : nat) : rs_prog := rs_nat_assoc PNone id (vw_prog v).

(* one registration in the ChangingRegistry *)
Record rs_hdecl := {
  hd_ix : nat;                      (* position of the registration (identity of the handler object) *)
  hd_id : nat;                      (* handler.id *)
  hd_fn : nat;                      (* id(handler.fn) *)
  hd_reason : option rs_reason;     (* handler.reason *)
  hd_initial : option bool;         (* handler.initial *)
  hd_deleted : option bool          (* handler.deleted *)
}.
(* Python truthiness of `bool | None` *)
Definition rs_ob (o : option bool) : bool := match o with Some true => true | _ => false end.

(* kopf/on.py *)
Definition rs_on_resume (ix id fn : nat) (deleted : option bool) : rs_hdecl :=
  {| hd_ix := ix; hd_id := id; hd_fn := fn; hd_reason := None; hd_initial := Some true; hd_deleted := deleted |}.
Definition rs_on_reason (r : rs_reason) (ix id fn : nat) : rs_hdecl :=
  {| hd_ix := ix; hd_id := id; hd_fn := fn; hd_reason := Some r; hd_initial := None; hd_deleted := None |}.
Definition rs_is_resume_handler (h : rs_hdecl) : bool := rs_ob (hd_initial h).

(* ---------- causes.detect_changing_cause: (cause.reason, cause.initial) ---------- *)
Definition rs_detect (e : rs_evt) (v : rs_view) (initial : bool) : rs_reason * bool :=
  if rs_is_deleted e then (RsGone, initial)
  else if vw_deleting v && negb (vw_blocked v) then (RsFree, initial)
  else if vw_deleting v then (RsDelete, initial)
  else if vw_old_none v then (RsCreate, false)                       (* kwargs['initial'] = False *)
  else if vw_diff_empty v && initial then (RsResume, initial)        (* not diff and initial *)
  else if vw_diff_empty v then (RsNoop, initial)
  else (RsUpdate, initial).

(* ---------- ChangingRegistry.iter_handlers / get_handlers ---------- *)
Definition rs_reason_ok (h : rs_hdecl) (r : rs_reason) : bool :=
  match hd_reason h with None => true | Some r' => rs_reason_eqb r' r end.

(* one iteration of the loop body; [matches] is registries.match(handler, cause) *)
Definition rs_select (r : rs_reason) (initial deleting : bool) (matches : bool) (h : rs_hdecl) : bool :=
  if rs_reason_ok h r then
    if rs_ob (hd_initial h) && negb initial then false                                 (* initial handler, non-initial cause *)
    else if rs_ob (hd_initial h) && deleting && negb (rs_ob (hd_deleted h)) then false (* deletion, not opted in *)
    else matches
  else false.

(* _deduplicated: first occurrence of each (id(fn), id) *)
Fixpoint rs_dedup (seen : list (nat * nat)) (l : list rs_hdecl) : list rs_hdecl :=
  match l with
  | [] => []
  | h :: l' =>
      if existsb (fun s => Nat.eqb (fst s) (hd_fn h) && Nat.eqb (snd s) (hd_id h)) seen
      then rs_dedup seen l'
      else h :: rs_dedup ((hd_fn h, hd_id h) :: seen) l'
  end.

Definition rs_get_handlers (regs : list rs_hdecl) (r : rs_reason) (initial deleting : bool) (matching : list nat)
  : list rs_hdecl :=
  rs_dedup [] (filter (fun h => rs_select r initial deleting (rs_mem_nat (hd_ix h) matching) h) regs).

(* ---------- ResourceMemories._items: a dict, generic in the key type ---------- *)
Section Memories.
  Context {K : Type}.
  Variable keqb : K -> K -> bool.

  Definition rs_mems := list (K * rs_mem).

  Fixpoint rs_find (k : K) (ms : rs_mems) : option rs_mem :=
    match ms with
    | [] => None
    | (k', m) :: ms' => if keqb k k' then Some m else rs_find k ms'
    end.

  (* d[k] = m : replace in place, else append *)
  Fixpoint rs_set (k : K) (m : rs_mem) (ms : rs_mems) : rs_mems :=
    match ms with
    | [] => [(k, m)]
    | (k', m') :: ms' => if keqb k k' then (k', m) :: ms' else (k', m') :: rs_set k m ms'
    end.

  Fixpoint rs_del (k : K) (ms : rs_mems) : rs_mems :=
    match ms with
    | [] => []
    | (k', m') :: ms' => if keqb k k' then rs_del k ms' else (k', m') :: rs_del k ms'
    end.

  (* ResourceMemories.recall (memobase is irrelevant to the flags): the flag is taken only when the
     memory is CREATED; an existing memory is returned as it is *)
  Definition rs_recall (ms : rs_mems) (k : K) (noticed_by_listing ephemeral : bool) : rs_mem * rs_mems :=
    match rs_find k ms with
    | Some m => (m, ms)
    | None =>
        let m := {| rs_noticed := noticed_by_listing; rs_handled := false |} in
        (m, if ephemeral then ms else rs_set k m ms)
    end.

  (* ResourceMemories.forget *)
  Definition rs_forget (ms : rs_mems) (k : K) : rs_mems :=
    match rs_find k ms with Some _ => rs_del k ms | None => ms end.

  (* ---------- one processing step: process_resource_event as far as C14 is concerned ---------- *)
  Record rs_in := {
    in_key : K;                          (* memories._build_key(raw_body) *)
    in_evt : rs_evt;
    in_view : rs_view;
    in_gate : bool;                      (* the changing cause reaches process_changing_cause *)
    in_match : list nat;                 (* hd_ix of the registrations for which registries.match holds *)
    in_awake : list nat;                 (* handler ids whose OPEN record is not sleeping now *)
    in_out : list (nat * rs_outcome)     (* hd_ix -> what the function does if invoked (default: success) *)
  }.

  Record rs_obs := {
    ob_initial0 : bool;                  (* memory.noticed_by_listing and not memory.fully_handled_once *)
    ob_reason : rs_reason;               (* cause.reason *)
    ob_initial : bool;                   (* cause.initial *)
    ob_selected : list nat;              (* hd_ix of cause_handlers (empty unless reached with a handler reason) *)
    ob_invoked : list (nat * rs_outcome);(* hd_ix of the handlers executed, in order, with their outcomes *)
    ob_done : bool;                      (* done is True *)
    ob_skip : bool;                      (* skip is True *)
    ob_handled_after : bool              (* memory.fully_handled_once of the recalled memory object afterwards *)
  }.

  (* execute_handlers_once: handlers_todo = those whose state is `awakened` = not finished and not sleeping;
     a handler without a record starts from scratch (never sleeping) *)
  Definition rs_awakened (i : rs_in) (id : nat) : bool :=
    match rs_prog_of (in_view i) id with
    | PNone => true
    | POpen => rs_mem_nat id (in_awake i)
    | PFinished => false
    end.

  Definition rs_invoked (i : rs_in) (sel : list rs_hdecl) : list (nat * rs_outcome) :=
    map (fun h => (hd_ix h, rs_nat_assoc OSuccess (hd_ix h) (in_out i)))
        (filter (fun h => rs_awakened i (hd_id h)) sel).

  (* outcomes[handler.id] = outcome : the last invoked registration of an id wins *)
  Fixpoint rs_last_outcome (id : nat) (sel : list rs_hdecl) (inv : list (nat * rs_outcome)) (acc : option rs_outcome)
    : option rs_outcome :=
    match sel with
    | [] => acc
    | h :: sel' =>
        let acc' := if Nat.eqb (hd_id h) id && rs_mem_nat (hd_ix h) (map fst inv)
                    then Some (rs_nat_assoc OSuccess (hd_ix h) inv) else acc in
        rs_last_outcome id sel' inv acc'
    end.

  (* HandlerState.finished after with_outcomes *)
  Definition rs_finished_after (i : rs_in) (sel : list rs_hdecl) (inv : list (nat * rs_outcome)) (id : nat) : bool :=
    match rs_last_outcome id sel inv None with
    | Some o => rs_final o
    | None => rs_prog_finished (rs_prog_of (in_view i) id)
    end.

  Definition rs_step (regs : list rs_hdecl) (ms : rs_mems) (i : rs_in) : rs_mems * rs_obs :=
    let k := in_key i in
    let '(m, ms1) := rs_recall ms k (rs_is_listed (in_evt i)) false in
    let ms2 := if rs_is_deleted (in_evt i) then rs_forget ms1 k else ms1 in
    let initial0 := rs_noticed m && negb (rs_handled m) in
    let '(reason, initial) := rs_detect (in_evt i) (in_view i) initial0 in
    let handling := in_gate i && rs_is_handler_reason reason in
    let sel := if handling then rs_get_handlers regs reason initial (vw_deleting (in_view i)) (in_match i) else [] in
    let inv := rs_invoked i sel in
    let nonempty := match sel with [] => false | _ => true end in
    let done := handling && nonempty && forallb (fun h => rs_finished_after i sel inv (hd_id h)) sel in
    let skip := handling && negb nonempty in
    let handled' := rs_handled m || done || skip in
    let m' := {| rs_noticed := rs_noticed m; rs_handled := handled' |} in
    (* the memory object is mutated in place: visible in the container iff it is still there *)
    let ms3 := match rs_find k ms2 with Some _ => rs_set k m' ms2 | None => ms2 end in
    (ms3, {| ob_initial0 := initial0; ob_reason := reason; ob_initial := initial;
             ob_selected := map hd_ix sel; ob_invoked := inv; ob_done := done; ob_skip := skip;
             ob_handled_after := handled' |}).

  (* ---------- the transition system: events of any objects, and process restarts ---------- *)
  Inductive rs_label := LEv (i : rs_in) | LRestart.

  Record rs_entry := { en_epoch : nat; en_in : rs_in; en_obs : rs_obs }.

  (* memories, incarnation number, trace so far (oldest first) *)
  Fixpoint rs_exec (regs : list rs_hdecl) (ms : rs_mems) (epoch : nat) (ls : list rs_label) : rs_mems * list rs_entry :=
    match ls with
    | [] => (ms, [])
    | LRestart :: ls' => rs_exec regs [] (S epoch) ls'            (* a new process: ResourceMemories() *)
    | LEv i :: ls' =>
        let '(ms', o) := rs_step regs ms i in
        let '(msf, tr) := rs_exec regs ms' epoch ls' in
        (msf, {| en_epoch := epoch; en_in := i; en_obs := o |} :: tr)
    end.

  Definition rs_trace (regs : list rs_hdecl) (ls : list rs_label) : list rs_entry := snd (rs_exec regs [] 0 ls).

  (* a (re-)listing: every listed object is delivered with type None (continuous_watch) *)
  Definition rs_relisting (objs : list rs_in) : list rs_label :=
    map (fun i => LEv {| in_key := in_key i; in_evt := EListed; in_view := in_view i; in_gate := in_gate i;
                         in_match := in_match i; in_awake := in_awake i; in_out := in_out i |}) objs.

  (* ---------- vocabulary of the property statements ---------- *)
  (* registration [ix] was invoked and returned normally in this entry *)
  Definition rs_succeeded (ix : nat) (o : rs_obs) : bool :=
    existsb (fun p => Nat.eqb (fst p) ix && rs_outcome_eqb (snd p) OSuccess) (ob_invoked o).

  Definition rs_entry_counts (e : nat) (k : K) (ix : nat) (en : rs_entry) : bool :=
    Nat.eqb (en_epoch en) e && keqb (in_key (en_in en)) k && rs_succeeded ix (en_obs en).

  (* successful invocations of registration ix for object k in incarnation e *)
  Definition rs_successes (e : nat) (k : K) (ix : nat) (tr : list rs_entry) : nat :=
    List.length (filter (rs_entry_counts e k ix) tr).

  (* no event of object k and no restart *)
  Fixpoint rs_no_key (k : K) (ls : list rs_label) : Prop :=
    match ls with
    | [] => True
    | LRestart :: _ => True      (* a new process starts: per-process statements end here *)
    | LEv i :: ls' => keqb (in_key i) k = false /\ rs_no_key k ls'
    end.

  (* Kubernetes: a uid is never reused; DELETED is the last event of an object within a process *)
  Fixpoint rs_uid_final (k : K) (ls : list rs_label) : Prop :=
    match ls with
    | [] => True
    | LRestart :: ls' => rs_uid_final k ls'
    | LEv i :: ls' =>
        (keqb (in_key i) k = true -> in_evt i = EDeleted -> rs_no_key k ls') /\ rs_uid_final k ls'
    end.

  (* within one process, no DELETED event of k and no restart *)
  Fixpoint rs_quiet (k : K) (ls : list rs_label) : Prop :=
    match ls with
    | [] => True
    | LRestart :: _ => False
    | LEv i :: ls' => (keqb (in_key i) k = true -> in_evt i <> EDeleted) /\ rs_quiet k ls'
    end.

  (* The in-cycle guarantee of C02 (C02_finished_never_selected needs the record to be there): once
     registration ix of handler id [hid] has succeeded for object k in this process, every later event of k
     shows its progress record as finished until a handling cycle of k has completed in this process
     (the record is purged then).  [phase]: 0 = not yet succeeded, 1 = succeeded and cycle open, 2 = cycle closed. *)
  Definition rs_phase_next (k : K) (ix : nat) (phase : nat) (i : rs_in) (o : rs_obs) : nat :=
    if keqb (in_key i) k then
      match phase with
      | 0 => if rs_succeeded ix o then (if ob_handled_after o then 2 else 1) else 0
      | 1 => if ob_handled_after o then 2 else 1
      | _ => 2
      end
    else phase.

  Fixpoint rs_c02_finished_persisted (regs : list rs_hdecl) (k : K) (ix hid : nat) (ms : rs_mems) (phase : nat)
           (ls : list rs_label) : Prop :=
    match ls with
    | [] => True
    | LRestart :: ls' => rs_c02_finished_persisted regs k ix hid [] 0 ls'
    | LEv i :: ls' =>
        let '(ms', o) := rs_step regs ms i in
        (keqb (in_key i) k = true -> phase = 1 -> rs_prog_of (in_view i) hid = PFinished) /\
        rs_c02_finished_persisted regs k ix hid ms' (rs_phase_next k ix phase i o) ls'
    end.
End Memories.

Arguments rs_in : clear implicits.
Arguments rs_label : clear implicits.
Arguments rs_entry : clear implicits.
Arguments rs_mems : clear implicits.

(* a correct boolean equality on keys *)
Definition rs_lawful {K : Type} (keqb : K -> K -> bool) : Prop := forall a b, keqb a b = true <-> a = b.

(* ---------- the concrete key: ResourceMemories._build_key on a raw body ---------- *)
(* Python truthiness of a JSON-like value *)
Definition rs_truthy (j : json) : bool :=
  match j with
  | JNull => false
  | JBool b => b
  | JNum z => negb (Z.eqb z 0)
  | JStr s => negb (String.eqb s "")
  | JList l => match l with [] => false | _ => true end
  | JObj o => match o with [] => false | _ => true end
  | JEnc _ => true
  end.

(* raw_body.get('metadata', {}).get('uid') or '' : AttributeError when the body or metadata has no .get *)
Definition rs_build_key (body : json) : res json :=
  match body with
  | JObj o =>
      match (match lookup "metadata" o with Some md => md | None => JObj [] end) with
      | JObj md =>
          let uid := match lookup "uid" md with Some u => u | None => JNull end in
          Ok (if rs_truthy uid then uid else JStr "")
      | _ => ErrType
      end
  | _ => ErrType
  end.

(* `key in self._items`: TypeError for an unhashable key *)
Definition rs_hashable (j : json) : bool := match j with JList _ | JObj _ => false | _ => true end.
Definition rs_key_of (body : json) : res json :=
  bind (rs_build_key body) (fun k => if rs_hashable k then Ok k else ErrType).

Definition rs_recall_body (ms : rs_mems json) (body : json) (noticed ephemeral : bool) : res (rs_mem * rs_mems json) :=
  bind (rs_key_of body) (fun k => Ok (rs_recall py_eqb ms k noticed ephemeral)).
Definition rs_forget_body (ms : rs_mems json) (body : json) : res (rs_mems json) :=
  bind (rs_key_of body) (fun k => Ok (rs_forget py_eqb ms k)).

Definition rs_with_key {K K' : Type} (i : rs_in K) (k : K') : rs_in K' :=
  {| in_key := k; in_evt := in_evt i; in_view := in_view i; in_gate := in_gate i; in_match := in_match i;
     in_awake := in_awake i; in_out := in_out i |}.

Definition rs_step_body (regs : list rs_hdecl) (ms : rs_mems json) (body : json) (i : rs_in unit)
  : res (rs_mems json * rs_obs) :=
  bind (rs_key_of body) (fun k => Ok (rs_step py_eqb regs ms (rs_with_key i k))).

(* ---------- comparison functions for the correspondence check ---------- *)
Fixpoint rs_list_eqb {A : Type} (e : A -> A -> bool) (x y : list A) : bool :=
  match x, y with
  | [], [] => true
  | a :: x', b :: y' => e a b && rs_list_eqb e x' y'
  | _, _ => false
  end.

Definition rs_mems_eqb (a b : rs_mems json) : bool :=
  rs_list_eqb (fun x y => jeqb (fst x) (fst y) && rs_mem_eqb (snd x) (snd y)) a b.

Definition rs_inv_eqb (a b : list (nat * rs_outcome)) : bool :=
  rs_list_eqb (fun x y => Nat.eqb (fst x) (fst y) && rs_outcome_eqb (snd x) (snd y)) a b.

Definition rs_obs_eqb (a b : rs_obs) : bool :=
  Bool.eqb (ob_initial0 a) (ob_initial0 b) && rs_reason_eqb (ob_reason a) (ob_reason b) &&
  Bool.eqb (ob_initial a) (ob_initial b) && rs_list_eqb Nat.eqb (ob_selected a) (ob_selected b) &&
  rs_inv_eqb (ob_invoked a) (ob_invoked b) && Bool.eqb (ob_done a) (ob_done b) &&
  Bool.eqb (ob_skip a) (ob_skip b) && Bool.eqb (ob_handled_after a) (ob_handled_after b).

Definition rs_cause_eqb (a b : rs_reason * bool) : bool :=
  rs_reason_eqb (fst a) (fst b) && Bool.eqb (snd a) (snd b).

Definition rs_oreason_eqb (a b : option rs_reason) : bool :=
  match a, b with Some x, Some y => rs_reason_eqb x y | None, None => true | _, _ => false end.
Definition rs_obool_eqb (a b : option bool) : bool :=
  match a, b with Some x, Some y => Bool.eqb x y | None, None => true | _, _ => false end.
Definition rs_hdecl_eqb (a b : rs_hdecl) : bool :=
  Nat.eqb (hd_ix a) (hd_ix b) && Nat.eqb (hd_id a) (hd_id b) && Nat.eqb (hd_fn a) (hd_fn b) &&
  rs_oreason_eqb (hd_reason a) (hd_reason b) && rs_obool_eqb (hd_initial a) (hd_initial b) &&
  rs_obool_eqb (hd_deleted a) (hd_deleted b).

Definition rs_step_eqb (a b : rs_mems json * rs_obs) : bool :=
  rs_mems_eqb (fst a) (fst b) && rs_obs_eqb (snd a) (snd b).
Definition rs_recall_eqb (a b : rs_mem * rs_mems json) : bool :=
  rs_mem_eqb (fst a) (fst b) && rs_mems_eqb (snd a) (snd b).

(* the trace of a label list over concrete bodies: labels carry the key already resolved *)
Definition rs_trace_obs (regs : list rs_hdecl) (ls : list (rs_label json)) : list rs_obs :=
  map (@en_obs json) (snd (rs_exec py_eqb regs [] 0 ls)).
