(* C14 — the memory flags (Model/Resume.v) composed with the progress pipeline (Model/Progress.v, C02).
   Definitions only.

   One processing step of kopf/_core/reactor/processing.py as far as resume handlers are concerned, now with the
   CONCRETE progress records of the object and the real execution pipeline instead of Resume.v's abstraction
   (all handlers awakened = invoked; lifecycles not modelled there):

     process_resource_event   memory = recall(raw_body, noticed_by_listing = raw_type is None); forget on DELETED
     _detect_causes           initial = memory.noticed_by_listing and not memory.fully_handled_once;
                              detect_changing_cause                                    (rs_detect)
     process_resource_causes  the gate: whether process_changing_cause is called at all (oracle ci_gate)
     process_changing_cause   owned_handlers = registry.get_resource_handlers(resource)      (rc_owned: all, _deduplicated)
                              cause_handlers = registry.get_handlers(cause)                  (rs_get_handlers)
                              State.from_storage / with_purpose / with_handlers / extras / purge / execute_handlers_once
                              (lifecycle) / with_outcomes / store / done / purge            (pg_pipeline, any lifecycle)
                              if done or skip: memory.fully_handled_once = True             (r_fho)

   The object's progress records are an INPUT of each event (ci_body: what the event shows); that consecutive events of
   an object show the records as kopf's own patch left them is a hypothesis about the world (rc_world), stated on the
   history, not built into the step.  Handler ids are numbers in Resume.v and strings in Progress.v: [name] translates. *)
From Coq Require Import ZArith List String Bool Arith.
From KV Require Import Base.Harness Model.Resume Model.Progress.
Import ListNotations.
Open Scope nat_scope.
Open Scope list_scope.

Definition rc_reason (r : rs_reason) : pg_reason :=
  match r with
  | RsCreate => PRCreate | RsUpdate => PRUpdate | RsDelete => PRDelete | RsResume => PRResume
  | RsNoop => PRNoop | RsFree => PRFree | RsGone => PRGone
  end.

Definition rc_records := list (pg_hid * pg_srec).

Section Cycle.
  Context {K : Type}.
  Variable keqb : K -> K -> bool.
  Variable name : nat -> pg_hid.                 (* handler.id of the registrations' id numbers *)

  Definition rc_ids (hs : list rs_hdecl) : list pg_hid := map (fun h => name (hd_id h)) hs.

  (* registry.get_resource_handlers(resource): every registration, _deduplicated by (fn, id) *)
  Definition rc_owned (regs : list rs_hdecl) : list pg_hid := rc_ids (rs_dedup [] regs).

  Record rc_in := {
    ci_key : K;
    ci_evt : rs_evt;
    ci_old_none : bool;          (* no last-handled essence *)
    ci_diff_empty : bool;
    ci_deleting : bool;
    ci_blocked : bool;
    ci_body : rc_records;        (* the progress records the event's body carries (owned ids and others) *)
    ci_gate : bool;              (* the changing cause reaches process_changing_cause *)
    ci_match : list nat;         (* hd_ix of the registrations for which registries.match holds *)
    ci_lc : pg_lifecycle;        (* the lifecycle passed to process_resource_event *)
    ci_now : Z;                  (* microseconds *)
    ci_nd : bool;                (* cause.new is not None and cause.old != cause.new *)
    ci_orc : pg_oracle           (* what each handler does if invoked now: (id, retry) -> outcome + effects *)
  }.

  Definition rc_view (i : rc_in) : rs_view :=
    {| vw_old_none := ci_old_none i; vw_diff_empty := ci_diff_empty i; vw_deleting := ci_deleting i;
       vw_blocked := ci_blocked i; vw_prog := [] |}.

  Record rc_obs := {
    co_initial0 : bool;                (* memory.noticed_by_listing and not memory.fully_handled_once *)
    co_reason : rs_reason;             (* cause.reason *)
    co_initial : bool;                 (* cause.initial *)
    co_sel : list rs_hdecl;            (* cause_handlers ([] unless process_changing_cause runs with a handler reason) *)
    co_result : pg_result;             (* what process_changing_cause did (the idle result when it is not called) *)
    co_handled_after : bool            (* memory.fully_handled_once of the recalled memory object afterwards *)
  }.

  Definition rc_step (regs : list rs_hdecl) (ms : rs_mems K) (i : rc_in) : rs_mems K * rc_obs :=
    let k := ci_key i in
    let '(m, ms1) := rs_recall keqb ms k (rs_is_listed (ci_evt i)) false in
    let ms2 := if rs_is_deleted (ci_evt i) then rs_forget keqb ms1 k else ms1 in
    let initial0 := rs_noticed m && negb (rs_handled m) in
    let '(reason, initial) := rs_detect (ci_evt i) (rc_view i) initial0 in
    let handling := ci_gate i && rs_is_handler_reason reason in
    let sel := if handling then rs_get_handlers regs reason initial (ci_deleting i) (ci_match i) else [] in
    (* not called = nothing happens = what a reactor-only cause does (C02_idle_causes_do_nothing) *)
    let r := pg_pipeline (ci_body i) (rc_owned regs) (if ci_gate i then rc_reason reason else PRNoop) (rc_ids sel)
                         (ci_lc i) (ci_now i) (ci_nd i) (ci_orc i) in
    let handled' := rs_handled m || r_fho r in
    let m' := {| rs_noticed := rs_noticed m; rs_handled := handled' |} in
    let ms3 := match rs_find keqb k ms2 with Some _ => rs_set keqb k m' ms2 | None => ms2 end in
    (ms3, {| co_initial0 := initial0; co_reason := reason; co_initial := initial; co_sel := sel; co_result := r;
             co_handled_after := handled' |}).

  (* ---------- histories ---------- *)
  Inductive rc_label := CEv (i : rc_in) | CRestart.
  Record rc_entry := { ce_epoch : nat; ce_in : rc_in; ce_obs : rc_obs }.

  Fixpoint rc_exec (regs : list rs_hdecl) (ms : rs_mems K) (epoch : nat) (ls : list rc_label) : rs_mems K * list rc_entry :=
    match ls with
    | [] => (ms, [])
    | CRestart :: ls' => rc_exec regs [] (S epoch) ls'
    | CEv i :: ls' =>
        let '(ms', o) := rc_step regs ms i in
        let '(msf, tr) := rc_exec regs ms' epoch ls' in
        (msf, {| ce_epoch := epoch; ce_in := i; ce_obs := o |} :: tr)
    end.

  Definition rc_trace (regs : list rs_hdecl) (ls : list rc_label) : list rc_entry := snd (rc_exec regs [] 0 ls).

  (* the object as the next event shows it when nothing but kopf's patch touched the records *)
  Definition rc_next_body (i : rc_in) (o : rc_obs) : rc_records := pg_apply (ci_body i) (r_patch (co_result o)).

  (* ---------- vocabulary of the statements ---------- *)
  (* execution.Outcome of a handler that returned normally *)
  Definition rc_success (o : pg_outcome) : bool := o_final o && match o_exc o with None => true | Some _ => false end.

  (* registration [ix] is among the cause handlers, was invoked in this step, and returned normally *)
  Definition rc_succeeded (ix : nat) (i : rc_in) (o : rc_obs) : bool :=
    existsb (fun h => Nat.eqb (hd_ix h) ix &&
                      existsb (fun kn => String.eqb (fst kn) (name (hd_id h)) && rc_success (fst (ci_orc i (fst kn) (snd kn))))
                              (r_invoked (co_result o)))
            (co_sel o).

  Definition rc_entry_counts (e : nat) (k : K) (ix : nat) (en : rc_entry) : bool :=
    Nat.eqb (ce_epoch en) e && keqb (ci_key (ce_in en)) k && rc_succeeded ix (ce_in en) (ce_obs en).

  Definition rc_successes (e : nat) (k : K) (ix : nat) (tr : list rc_entry) : nat :=
    List.length (filter (rc_entry_counts e k ix) tr).

  Fixpoint rc_no_key (k : K) (ls : list rc_label) : Prop :=
    match ls with
    | [] => True
    | CRestart :: _ => True
    | CEv i :: ls' => keqb (ci_key i) k = false /\ rc_no_key k ls'
    end.

  (* world: a uid is never reused; DELETED is the last event of an object within a process *)
  Fixpoint rc_uid_final (k : K) (ls : list rc_label) : Prop :=
    match ls with
    | [] => True
    | CRestart :: ls' => rc_uid_final k ls'
    | CEv i :: ls' => (keqb (ci_key i) k = true -> ci_evt i = EDeleted -> rc_no_key k ls') /\ rc_uid_final k ls'
    end.

  Fixpoint rc_quiet (k : K) (ls : list rc_label) : Prop :=
    match ls with
    | [] => True
    | CRestart :: _ => False
    | CEv i :: ls' => (keqb (ci_key i) k = true -> ci_evt i <> EDeleted) /\ rc_quiet k ls'
    end.

  (* world: within a process, every event of k shows the progress records as the previous event of k and kopf's own
     patch left them (the patch was applied, nobody else edits the records, no stale event is processed afterwards).
     [prev]: the records expected in the next event of k, None before the first one of the process. *)
  Fixpoint rc_world (regs : list rs_hdecl) (k : K) (ms : rs_mems K) (prev : option rc_records) (ls : list rc_label) : Prop :=
    match ls with
    | [] => True
    | CRestart :: ls' => rc_world regs k [] None ls'
    | CEv i :: ls' =>
        let '(ms', o) := rc_step regs ms i in
        if keqb (ci_key i) k
        then match prev with Some b => forall s, pg_find s (ci_body i) = pg_find s b | None => True end /\
             rc_world regs k ms' (Some (rc_next_body i o)) ls'
        else rc_world regs k ms' prev ls'
    end.

  (* handlers: what an invocation writes (sub-handler records) over a finished record still says finished *)
  Fixpoint rc_orcs_ok (k : K) (ls : list rc_label) : Prop :=
    match ls with
    | [] => True
    | CRestart :: ls' => rc_orcs_ok k ls'
    | CEv i :: ls' => (keqb (ci_key i) k = true -> pg_keeps_finished (ci_body i) (ci_orc i)) /\ rc_orcs_ok k ls'
    end.

  (* [phase] of registration ix for object k in the current process: 0 = not yet succeeded, 1 = succeeded and the
     cycle is still open, 2 = a cycle has closed since, 3 = succeeded, cycle open, and the object is being deleted while
     the registration has not opted in ([opted] = handler.deleted): it cannot be selected any more. *)
  Definition rc_phase_next (k : K) (ix : nat) (opted : bool) (phase : nat) (i : rc_in) (o : rc_obs) : nat :=
    if keqb (ci_key i) k then
      match phase with
      | 0 => if rc_succeeded ix i o then (if co_handled_after o then 2 else 1) else 0
      | 1 => if co_handled_after o then 2 else if ci_deleting i && negb opted then 3 else 1
      | 2 => 2
      | _ => 3
      end
    else phase.

  (* the supersession purge of process_changing_cause runs in this step (if state.extras: state.purge(...)) *)
  Definition rc_purges (regs : list rs_hdecl) (i : rc_in) (o : rc_obs) : bool :=
    ci_gate i && rs_is_handler_reason (co_reason o) &&
    pg_has_extras (pg_prepare (ci_body i) (rc_owned regs) (rc_reason (co_reason o)) (rc_ids (co_sel o)) (ci_now i)).

  (* The guard, the negation of the signature of F0201 / F1401: between the success of registration ix and the closing
     of the cycle, no step of the object runs the supersession purge — except when the object is being deleted and the
     registration has not opted in (the purge of a deletion that supersedes the resuming is harmless: rc_deleting_permanent). *)
  Fixpoint rc_no_purge_while_open (regs : list rs_hdecl) (k : K) (ix : nat) (opted : bool) (ms : rs_mems K) (phase : nat)
           (ls : list rc_label) : Prop :=
    match ls with
    | [] => True
    | CRestart :: ls' => rc_no_purge_while_open regs k ix opted [] 0 ls'
    | CEv i :: ls' =>
        let '(ms', o) := rc_step regs ms i in
        (keqb (ci_key i) k = true -> phase = 1 -> ci_deleting i && negb opted = false -> rc_purges regs i o = false) /\
        rc_no_purge_while_open regs k ix opted ms' (rc_phase_next k ix opted phase i o) ls'
    end.

  (* world: a deletion is never undone — once an event of k shows the deletion timestamp, every later one of the
     process does.  [seen]: an earlier event of k in this process showed it. *)
  Fixpoint rc_deleting_permanent (k : K) (seen : bool) (ls : list rc_label) : Prop :=
    match ls with
    | [] => True
    | CRestart :: ls' => rc_deleting_permanent k false ls'
    | CEv i :: ls' =>
        if keqb (ci_key i) k
        then (seen = true -> ci_deleting i = true) /\ rc_deleting_permanent k (seen || ci_deleting i) ls'
        else rc_deleting_permanent k seen ls'
    end.
End Cycle.

Arguments rc_in : clear implicits.
Arguments rc_label : clear implicits.
Arguments rc_entry : clear implicits.

(* ---------- over concrete bodies (the correspondence check) ---------- *)
Definition rc_with_key {K K' : Type} (i : rc_in K) (k : K') : rc_in K' :=
  {| ci_key := k; ci_evt := ci_evt i; ci_old_none := ci_old_none i; ci_diff_empty := ci_diff_empty i;
     ci_deleting := ci_deleting i; ci_blocked := ci_blocked i; ci_body := ci_body i; ci_gate := ci_gate i;
     ci_match := ci_match i; ci_lc := ci_lc i; ci_now := ci_now i; ci_nd := ci_nd i; ci_orc := ci_orc i |}.

Definition rc_name_of (names : list pg_hid) (n : nat) : pg_hid := nth n names "?"%string.

(* what the harness observes of one step *)
Definition rc_step_eqb (names : list pg_hid) (x : rs_mems Base.Json.json * rc_obs)
           (ms : rs_mems Base.Json.json) (initial0 : bool) (reason : rs_reason) (initial : bool) (sel : list nat)
           (invoked : list (pg_hid * Z)) (fho_step handled_after : bool)
           (after : list (option pg_srec)) (i : rc_in Base.Json.json) : bool :=
  let o := snd x in
  rs_mems_eqb (fst x) ms && Bool.eqb (co_initial0 o) initial0 && rs_reason_eqb (co_reason o) reason &&
  Bool.eqb (co_initial o) initial && rs_list_eqb Nat.eqb (map hd_ix (co_sel o)) sel &&
  pg_inv_eqb (r_invoked (co_result o)) invoked && Bool.eqb (r_fho (co_result o)) fho_step &&
  Bool.eqb (co_handled_after o) handled_after &&
  list_eqb (opt_eqb pg_srec_eqb) (map (fun s => pg_find s (rc_next_body i o)) names) after.
