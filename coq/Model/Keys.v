(* kopf/_cogs/configs/conventions.py : StorageKeyFormingConvention + CollisionEvadingConvention.
   Strings are lists of ascii here (lengths, slicing, per-character facts); conversions at the
   interface.  The hash (blake2b, 4 bytes) is an oracle [dg]. *)
From Coq Require Import ZArith NArith List String Bool Ascii Lia.
From KV Require Import Base.Json.
Import ListNotations.
Open Scope list_scope.

Definition chars := list ascii.
Definition chars_of (s : string) : chars := list_ascii_of_string s.
Definition str_of (c : chars) : string := string_of_list_ascii c.

Definition ceqb (a b : ascii) : bool := Ascii.eqb a b.

(* make_safe_key: '/'->'.', '<'->'_', '>'->'_' *)
Definition safe_char (c : ascii) : ascii :=
  if ceqb c "/" then "."%char
  else if ceqb c "<" then "_"%char
  else if ceqb c ">" then "_"%char
  else c.
Definition make_safe (k : chars) : chars := map safe_char k.

(* Python slicing s[:n] for a possibly negative n *)
Definition py_take (n : Z) (s : chars) : chars :=
  if (0 <=? n)%Z then firstn (Z.to_nat n) s
  else firstn (List.length s - Z.to_nat (- n)) s.

(* base64 with altchars "-." *)
Definition b64char (n : N) : ascii :=
  if (n <? 26)%N then ascii_of_N (65 + n)
  else if (n <? 52)%N then ascii_of_N (97 + (n - 26))
  else if (n <? 62)%N then ascii_of_N (48 + (n - 52))
  else if (n =? 62)%N then "-"%char
  else "."%char.

(* the six sextets of four bytes (the last one carries two payload bits) *)
Definition sextets (d : list N) : list N :=
  match d with
  | [b0; b1; b2; b3] =>
      [ b0 / 4; (b0 mod 4) * 16 + b1 / 16; (b1 mod 16) * 4 + b2 / 64; b2 mod 64;
        b3 / 4; (b3 mod 4) * 16 ]%N
  | _ => []
  end.

Definition b64_4 (d : list N) : chars := map b64char (sextets d) ++ ["="; "="]%char.

Definition strip_char (c : ascii) : bool := ceqb c "=" || ceqb c "-" || ceqb c ".".

Fixpoint dropwhile (p : ascii -> bool) (s : chars) : chars :=
  match s with
  | [] => []
  | c :: s' => if p c then dropwhile p s' else s
  end.

Definition rstrip (s : chars) : chars := rev (dropwhile strip_char (rev s)).

(* make_suffix, given the digest bytes *)
Definition suffix_of (d : list N) : chars := rstrip ("-"%char :: b64_4 d).

Section WithDigest.
  Variable dg : chars -> list N.      (* blake2b(key, digest_size=4) as 4 bytes *)

  Definition pre_of (prefix : chars) : chars :=
    match prefix with [] => [] | _ => prefix ++ ["/"%char] end.

  Definition v2_name (key : chars) : chars :=
    let suffix := if (63 <? List.length key)%nat then suffix_of (dg key) else [] in
    let limit := Z.max 0 (63 - Z.of_nat (List.length suffix)) in
    py_take limit (make_safe key) ++ suffix.

  Definition v2_key (prefix key : chars) : chars := pre_of prefix ++ v2_name key.

  Definition v1_name (prefix key : chars) : chars :=
    let safe := make_safe key in
    let pre := pre_of prefix in
    let room := (63 - Z.of_nat (List.length pre))%Z in
    let suffix := if (Z.of_nat (List.length safe) <=? room)%Z then [] else suffix_of (dg safe) in
    py_take (room - Z.of_nat (List.length suffix)) safe ++ suffix.

  Definition v1_key (prefix key : chars) : chars := pre_of prefix ++ v1_name prefix key.

  Definition chars_eqb (a b : chars) : bool := String.eqb (str_of a) (str_of b).

  (* mark_key: ReplicaSets owned by Deployments *)
  Definition mark (is_drs : bool) (key : chars) : chars :=
    if is_drs then key ++ chars_of "-ofDRS" else key.

  (* make_keys: v2 first, v1 if enabled and different *)
  Definition make_keys (prefix : chars) (v1 : bool) (is_drs : bool) (key : chars) : list chars :=
    let key := mark is_drs key in
    let k2 := v2_key prefix key in
    let k1 := v1_key prefix key in
    k2 :: (if v1 && negb (chars_eqb k1 k2) then [k1] else []).
End WithDigest.

(* is the body a ReplicaSet owned by a Deployment? (mark_key's test) *)
Definition owner_is_deployment (o : json) : bool :=
  match o with
  | JObj kvs => match lookup "kind"%string kvs with Some (JStr "Deployment"%string) => true | _ => false end
  | _ => false
  end.

Definition is_drs_body (body : json) : bool :=
  match body with
  | JObj kvs =>
      match lookup "kind"%string kvs with
      | Some (JStr "ReplicaSet"%string) =>
          match resolve body ["metadata"; "ownerReferences"]%string with
          | Some (JList owners) => existsb owner_is_deployment owners
          | _ => false
          end
      | _ => false
      end
  | _ => false
  end.

(* ---- the Kubernetes qualified-name grammar for the name part ---- *)
Definition is_alnum (c : ascii) : bool :=
  let n := N_of_ascii c in
  ((48 <=? n) && (n <=? 57) || (65 <=? n) && (n <=? 90) || (97 <=? n) && (n <=? 122))%N.

Definition is_name_char (c : ascii) : bool :=
  is_alnum c || ceqb c "-" || ceqb c "_" || ceqb c ".".

Definition valid_name (s : chars) : bool :=
  match s with
  | [] => false
  | c :: _ =>
      (List.length s <=? 63)%nat && forallb is_name_char s && is_alnum c && is_alnum (last s c)
  end.

(* the alphabet of handler ids named by the property: [A-Za-z0-9_./<>-] *)
Definition is_id_char (c : ascii) : bool :=
  is_alnum c || ceqb c "_" || ceqb c "." || ceqb c "/" || ceqb c "<" || ceqb c ">" || ceqb c "-".

(* a digest oracle given as a finite table (for running the model on cases) *)
Definition table_dg (tbl : list (string * list N)) (k : chars) : list N :=
  match lookup (str_of k) tbl with Some d => d | None => [] end.
