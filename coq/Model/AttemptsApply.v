(* C11 — "is retried" for change handlers: kopf/_core/actions/application.py `apply` (patch, then sleep, then
   touch) and the closed loop it forms with process_changing_cause when nothing else touches the object.
   Definitions only; proofs in Proofs/AttemptsApply.v. Times in integer milliseconds. *)
From Coq Require Import ZArith List Bool.
From KV Require Import Model.Outcome Model.Attempts.
Import ListNotations.
Open Scope Z_scope.

Definition KEEPALIVE : Z := 600000.      (* application.WAITING_KEEPALIVE_INTERVAL = 10 * 60 s *)

Record applied := mkAp {
  ap_patched : bool;        (* the accumulated patch was sent (it was not empty) *)
  ap_slept   : Z;           (* how long apply slept *)
  ap_touched : bool;        (* a touch-dummy patch was sent after the sleep *)
  ap_applied : bool }.      (* the `applied` flag returned: nothing to patch, nothing to wait for *)

(* [patch]: the accumulated patch is non-empty; [delays]: what the handling returned;
   [wake]: the offset into the sleep at which stream_pressure gets set (None: never; <= 0: already set) *)
Definition apply_plan (patch : bool) (delays : list Z) (wake : option Z) : applied :=
  match zmin_list delays with
  | None => mkAp patch 0 false (negb patch)                      (* `elif not patch: applied = True` *)
  | Some d =>
      if negb (d =? 0) && patch then mkAp true 0 false false      (* `if delay and patch`: sleeping is skipped *)
      else
        let len := if KEEPALIVE <? d then KEEPALIVE else if 0 <? d then d else 0 in
        let interrupted := match wake with Some w => (0 <? len) && (w <? len) | None => false end in
        let slept := if interrupted then Z.max 0 (or0 wake) else len in
        if patch && (d =? 0) then mkAp true slept false false     (* `if patch and not delay: pass` *)
        else if interrupted then mkAp patch slept false false     (* interrupted by new changes *)
        else mkAp patch slept true false                          (* slept in full: touch *)
  end.

Definition plabel_of (l : label) : plabel :=
  match l with Tick a b x y r => PCycle a b x y r | Reset _ => PRestart end.

(* The closed loop of one change handler while nobody else touches the object: a processing cycle at [now];
   its patch (the progress record changes exactly when the handler was executed) is echoed by the server as a
   new event at once; otherwise apply sleeps min(delay, KEEPALIVE) and touches, which is the next event. *)
Fixpoint pcl_trace (fuel : nat) (e : env) (c : hcfg) (now : Z) (ps : pstate) (sc : script) : list plabel :=
  match fuel with
  | O => []
  | S f =>
      if p_closed ps then [] else
      let hs := state_for now (p_stored ps) in
      let it := iterate e c now hs sc in
      let lab := plabel_of (it_lab it) in
      match pstep e c ps lab with
      | None => []
      | Some ps' =>
          let ap := apply_plan (awakened now hs) (st_delays (it_end it) [it_hs it]) None in
          if ap_patched ap || ap_touched ap
          then lab :: pcl_trace f e c (it_end it + ap_slept ap) ps' (it_sc it)
          else [lab]
      end
  end.

(* ---- for the harness *)
Definition applied_eqb (a b : applied) : bool :=
  Bool.eqb (ap_patched a) (ap_patched b) && (ap_slept a =? ap_slept b) &&
  Bool.eqb (ap_touched a) (ap_touched b) && Bool.eqb (ap_applied a) (ap_applied b).

Definition cycle_of (l : plabel) : Z * Z := match l with PCycle a _ _ y _ => (a, y) | _ => (0, 0) end.

Fixpoint zz_list_eqb (a b : list (Z * Z)) : bool :=
  match a, b with
  | [], [] => true
  | (x1, x2) :: a', (y1, y2) :: b' => (x1 =? y1) && (x2 =? y2) && zz_list_eqb a' b'
  | _, _ => false
  end.

(* the closed loop against the implementation: same cycles (start, end), same entries, same closing *)
Definition pcl_matches (fuel : nat) (e : env) (c : hcfg) (t0 : Z) (sc : script)
                       (cycles : list (Z * Z)) (obs : list (Z * Z * Z)) (closed : bool) : bool :=
  let tr := pcl_trace fuel e c t0 (pinit t0) sc in
  zz_list_eqb (map cycle_of tr) cycles &&
  match prun e c (pinit t0) tr with
  | Some ps => obs_list_eqb (map obs_of (rev (p_log ps))) obs && Bool.eqb (p_closed ps) closed
  | None => false
  end.
