(* kopf/_core/intents/registries.py: match / prematch / _matches_* / _deduplicated and the
   get_handlers of the Indexing/Watching/Spawning/Changing registries; the handler shape of
   kopf/_core/intents/handlers.py with the constants the decorators of kopf/on.py fix per kind;
   Selector.check of kopf/_cogs/structs/references.py as far as exact names are concerned.

   Definitions only.  Python exceptions are visible: a malformed `metadata` / `labels` /
   `annotations` (not a mapping) makes the real code raise AttributeError/TypeError, here ErrType,
   with Python's short-circuit order of evaluation.  User callbacks (`when=`, value callbacks) are
   arbitrary total Gallina functions: theorems quantify over them. *)
From Coq Require Import ZArith List String Bool.
From KV Require Import Base.Json Base.Dicts.
Import ListNotations.
Open Scope string_scope.
Open Scope list_scope.

(* ---------- resources and selectors (exact matching only) ---------- *)
Record resource := {
  r_group : string; r_version : string; r_kind : string; r_plural : string; r_singular : string;
  r_shortcuts : list string; r_categories : list string; r_preferred : bool }.

Inductive selname :=
| SAny (s : string)          (* positional name: kind | plural | singular | shortcut *)
| SKind (s : string) | SPlural (s : string) | SSingular (s : string)
| SShortcut (s : string) | SCategory (s : string).

(* Selector(...) with fn=None and any_name not EVERYTHING *)
Record selector := { s_group : option string; s_version : option string; s_name : selname }.

Definition oeq (o : option string) (s : string) : bool :=
  match o with None => true | Some x => String.eqb x s end.

Definition selname_check (n : selname) (r : resource) : bool :=
  match n with
  | SAny s => String.eqb s (r_kind r) || String.eqb s (r_plural r) || String.eqb s (r_singular r)
              || mem_str s (r_shortcuts r)
  | SKind s => String.eqb s (r_kind r)
  | SPlural s => String.eqb s (r_plural r)
  | SSingular s => String.eqb s (r_singular r)
  | SShortcut s => mem_str s (r_shortcuts r)
  | SCategory s => mem_str s (r_categories r)
  end.

(* Selector.check *)
Definition selector_check (s : selector) (r : resource) : bool :=
  oeq (s_group s) (r_group r)
  && match s_version s with None => r_preferred r | Some v => String.eqb v (r_version r) end
  && selname_check (s_name s) r.

(* ---------- causes ---------- *)
Inductive reason := RCreate | RUpdate | RDelete | RResume | RNoop | RFree | RGone.
Definition reason_eqb (a b : reason) : bool :=
  match a, b with
  | RCreate, RCreate | RUpdate, RUpdate | RDelete, RDelete | RResume, RResume
  | RNoop, RNoop | RFree, RFree | RGone, RGone => true
  | _, _ => false
  end.

(* which cause class: isinstance(cause, ChangingCause) decides old/new vs body *)
Inductive cclass := CChanging | CWatching | CSpawning | CIndexing.

Record cause := {
  c_class : cclass;
  c_resource : resource;
  c_body : json;                 (* cause.body (raw body under the Body view) *)
  c_old : option json;           (* ChangingCause.old : essence or Python None *)
  c_new : option json;           (* ChangingCause.new *)
  c_reason : reason;             (* ChangingCause.reason *)
  c_initial : bool }.            (* ChangingCause.initial *)

Definition is_changing (c : cause) : bool :=
  match c_class c with CChanging => true | _ => false end.

(* ---------- criteria ---------- *)
(* What a value callback receives: a JSON-like Python value ([JNull] = Python None).  The private marker
   registries._UNSET.token never reaches a callback (since the repair of F15b, commit b981eb5). *)
Definition vcallback := json -> cause -> bool.     (* value(v, **kwargs); kwargs come from the cause *)

Inductive crit :=
| CNone                       (* Python None = not specified *)
| CVal (v : json)             (* a literal *)
| CPresent | CAbsent          (* kopf.PRESENT / kopf.ABSENT *)
| CCb (f : vcallback).        (* anything callable *)

Inductive hclass := HChanging | HWatching | HSpawning | HIndexing.

Record hdecl := {
  h_id : string;                         (* handler.id (with the field suffix, as on.py builds it) *)
  h_fn : nat;                            (* identity of the function object: id(handler.fn) *)
  h_class : hclass;
  h_selector : option selector;          (* None only for sub-handlers *)
  h_labels : list (string * crit);
  h_annotations : list (string * crit);
  h_when : option (cause -> bool);
  h_field : option path;                 (* None or a non-empty path *)
  h_value : crit;
  h_old : crit;                          (* ChangingHandler only *)
  h_new : crit;
  h_reason : option reason;
  h_initial : bool;                      (* None counts as False *)
  h_deleted : bool;
  h_requires_finalizer : bool;
  h_needs_change : bool }.               (* field_needs_change *)

Definition h_is_changing (h : hdecl) : bool :=
  match h_class h with HChanging => true | _ => false end.

(* ---------- result monad with Python's `and` ---------- *)
Definition andr (a : res bool) (b : res bool) : res bool :=
  bind a (fun x => if x then b else Ok false).

(* ---------- _matches_resource ---------- *)
Definition matches_resource (h : hdecl) (r : resource) : bool :=
  match h_selector h with None => true | Some s => selector_check s r end.

(* ---------- _matches_labels / _matches_annotations / _matches_metadata ---------- *)
(* cause.body.get('metadata', {}).get(which, {}) used as a mapping *)
Definition meta_content (body : json) (which : string) : res obj :=
  match body with
  | JObj b =>
      match lookup "metadata" b with
      | None => Ok []
      | Some (JObj m) =>
          match lookup which m with
          | None => Ok []
          | Some (JObj l) => Ok l
          | Some _ => ErrType          (* `key in None`, None.get: TypeError / AttributeError *)
          end
      | Some _ => ErrType
      end
  | _ => ErrType
  end.

(* one (key, value) item of the pattern against the content; true = `continue`, false = `return False` *)
Definition meta_item (c : cause) (content : obj) (key : string) (value : crit) : bool :=
  match value with
  | CAbsent => negb (has key content)
  | CPresent => has key content
  | CCb f => f (match lookup key content with Some v => v | None => JNull end) c   (* content.get(key, None) *)
  | CVal v => match lookup key content with Some w => py_eqb v w | None => false end
  | CNone => match lookup key content with Some w => py_eqb JNull w | None => false end
  end.

Definition matches_metadata (c : cause) (pattern : list (string * crit)) (which : string) : res bool :=
  match pattern with
  | [] => Ok true                         (* `not handler.labels`: the body is not even looked at *)
  | _ => bind (meta_content (c_body c) which) (fun content =>
           Ok (forallb (fun kv => meta_item c content (fst kv) (snd kv)) pattern))
  end.

(* ---------- _matches_field_values ---------- *)
Definition resolve_opt (o : option json) (p : path) : option json :=
  match o with Some j => resolve j p | None => None end.   (* dicts.resolve(None, f, absent) = absent *)

(* values = [new, old] for changing causes, [val] otherwise; None = absent marker *)
Definition field_values (c : cause) (p : path) : list (option json) :=
  if is_changing c then [resolve_opt (c_new c) p; resolve_opt (c_old c) p]
  else [resolve (c_body c) p].

Definition is_some {A} (o : option A) : bool := match o with Some _ => true | None => false end.

(* `None if value is absent else value`: a present null and an absent field look the same to a callback *)
Definition py_arg (v : option json) : json := match v with Some x => x | None => JNull end.

Definition value_on (c : cause) (k : crit) (v : option json) : bool :=
  match k with
  | CNone => is_some v
  | CPresent => is_some v
  | CAbsent => negb (is_some v)
  | CCb f => f (py_arg v) c
  | CVal x => match v with Some w => py_eqb x w | None => false end
  end.

Definition matches_field_values (h : hdecl) (c : cause) : bool :=
  match h_field h with
  | None => true
  | Some p => existsb (value_on c (h_value h)) (field_values c p)
  end.

(* ---------- _matches_field_changes ---------- *)
Definition opt_py_eqb (a b : option json) : bool :=
  match a, b with
  | Some x, Some y => py_eqb x y
  | None, None => true
  | _, _ => false
  end.

Definition side_on (c : cause) (k : crit) (v : option json) : bool :=
  match k with
  | CNone => true
  | CAbsent => negb (is_some v)
  | CPresent => is_some v
  | CCb f => f (py_arg v) c
  | CVal x => match v with Some w => py_eqb x w | None => false end
  end.

Definition matches_field_changes (h : hdecl) (c : cause) : bool :=
  if negb (h_is_changing h) then true
  else if negb (is_changing c) then true
  else match h_field h with
       | None => true
       | Some p =>
           let old := resolve_opt (c_old c) p in
           let new := resolve_opt (c_new c) p in
           (negb (h_needs_change h) || negb (opt_py_eqb old new))
           && side_on c (h_old h) old
           && side_on c (h_new h) new
       end.

(* ---------- _matches_filter_callback ---------- *)
Definition matches_when (h : hdecl) (c : cause) : bool :=
  match h_when h with None => true | Some f => f c end.

(* ---------- `kwargs |= cause.kwargs` ---------- *)
(* Evaluated before the first use of a field or of `when=` (and of a metadata callback, but there
   the metadata was already read).  ResourceCause._kwargs reads body.metadata.uid/name/namespace:
   TypeError iff `metadata` is there and is not a mapping. *)
Definition kwargs_ok (c : cause) : res bool :=
  match c_body c with
  | JObj b =>
      match lookup "metadata" b with
      | None | Some (JObj _) => Ok true
      | Some _ => ErrType
      end
  | _ => ErrType
  end.

Definition with_kwargs (need : bool) (c : cause) (b : bool) : res bool :=
  if need then bind (kwargs_ok c) (fun _ => Ok b) else Ok b.

(* ---------- prematch / match (webhooks' _matches_subresource is True for these classes) ---------- *)
Definition prematches (h : hdecl) (c : cause) : res bool :=
  andr (Ok (matches_resource h (c_resource c)))
  (andr (matches_metadata c (h_labels h) "labels")
  (andr (matches_metadata c (h_annotations h) "annotations")
  (andr (with_kwargs (is_some (h_field h)) c (matches_field_values h c))
        (with_kwargs (is_some (h_when h)) c (matches_when h c))))).

Definition matches (h : hdecl) (c : cause) : res bool :=
  andr (Ok (matches_resource h (c_resource c)))
  (andr (matches_metadata c (h_labels h) "labels")
  (andr (matches_metadata c (h_annotations h) "annotations")
  (andr (with_kwargs (is_some (h_field h)) c (matches_field_values h c))
  (andr (Ok (matches_field_changes h c))
        (with_kwargs (is_some (h_when h)) c (matches_when h c)))))).

(* ---------- ChangingCause.deleted = finalizers.is_deletion_ongoing(body) ---------- *)
Definition cause_deleted (c : cause) : res bool :=
  match c_body c with
  | JObj b =>
      match lookup "metadata" b with
      | None => Ok false
      | Some (JObj m) =>
          match lookup "deletionTimestamp" m with
          | None | Some JNull => Ok false
          | Some _ => Ok true
          end
      | Some _ => ErrType
      end
  | _ => ErrType
  end.

(* ---------- iter_handlers of the four registries ---------- *)
(* the per-handler decision of XRegistry.iter_handlers: Ok true = yielded *)
Definition selects (excluded : list string) (h : hdecl) (c : cause) : res bool :=
  if mem_str (h_id h) excluded then Ok false
  else match c_class c with
       | CChanging =>
           if match h_reason h with None => true | Some r => reason_eqb r (c_reason c) end then
             if h_initial h && negb (c_initial c) then Ok false
             else bind (if h_initial h then andr (cause_deleted c) (Ok (negb (h_deleted h))) else Ok false)
                       (fun skip => if skip then Ok false else matches h c)
           else Ok false
       | _ => matches h c
       end.

(* list(generator): the first exception aborts the whole call *)
Fixpoint iter_handlers (excluded : list string) (hs : list hdecl) (c : cause) : res (list hdecl) :=
  match hs with
  | [] => Ok []
  | h :: hs' =>
      bind (selects excluded h c) (fun b =>
      bind (iter_handlers excluded hs' c) (fun rest =>
      Ok (if b then h :: rest else rest)))
  end.

(* ---------- _deduplicated: first occurrence of each (id(fn), handler.id) ---------- *)
Definition hkey := (nat * string)%type.
Definition hkey_of (h : hdecl) : hkey := (h_fn h, h_id h).
Definition hkey_eqb (a b : hkey) : bool := Nat.eqb (fst a) (fst b) && String.eqb (snd a) (snd b).

Fixpoint dedup_from (seen : list hkey) (hs : list hdecl) : list hdecl :=
  match hs with
  | [] => []
  | h :: hs' =>
      if existsb (hkey_eqb (hkey_of h)) seen then dedup_from seen hs'
      else h :: dedup_from (hkey_of h :: seen) hs'
  end.
Definition deduplicated (hs : list hdecl) : list hdecl := dedup_from [] hs.

(* registry.get_handlers(cause, excluded) *)
Definition get_handlers (excluded : list string) (hs : list hdecl) (c : cause) : res (list hdecl) :=
  bind (iter_handlers excluded hs c) (fun l => Ok (deduplicated l)).

(* ChangingRegistry.prematch(cause): any handler, whatever its reason *)
Fixpoint registry_prematch (hs : list hdecl) (c : cause) : res bool :=
  match hs with
  | [] => Ok false
  | h :: hs' => bind (prematches h c) (fun b => if b then Ok true else registry_prematch hs' c)
  end.

(* ChangingRegistry.requires_finalizer (prematch) / SpawningRegistry.requires_finalizer (match) *)
Fixpoint requires_finalizer (use_prematch : bool) (excluded : list string) (hs : list hdecl) (c : cause) : res bool :=
  match hs with
  | [] => Ok false
  | h :: hs' =>
      if mem_str (h_id h) excluded then requires_finalizer use_prematch excluded hs' c
      else if h_requires_finalizer h then
        bind (if use_prematch then prematches h c else matches h c)
             (fun b => if b then Ok true else requires_finalizer use_prematch excluded hs' c)
      else requires_finalizer use_prematch excluded hs' c
  end.

(* ---------- what the harness compares ---------- *)
Definition ids_of (l : list hdecl) : list string := map h_id l.

Fixpoint str_list_eqb (a b : list string) : bool :=
  match a, b with
  | [], [] => true
  | x :: a', y :: b' => String.eqb x y && str_list_eqb a' b'
  | _, _ => false
  end.

Definition rbool_eqb (a b : res bool) : bool := res_eqb Bool.eqb a b.
Definition rids_eqb (a : res (list hdecl)) (b : res (list string)) : bool :=
  match a, b with
  | Ok l, Ok m => str_list_eqb (ids_of l) m
  | ErrKey, ErrKey | ErrType, ErrType | ErrValue, ErrValue => true
  | _, _ => false
  end.
Definition rids (a : res (list hdecl)) : res (list string) := bind a (fun l => Ok (ids_of l)).

(* ---------- the decorators of kopf/on.py: constants per kind ---------- *)
Inductive dkind := DResume (deleted : bool) | DCreate | DUpdate | DDelete (optional : bool) | DField
                 | DEvent | DDaemon | DTimer | DIndex.

Definition join_path (p : path) : string := String.concat "." p.

(* generate_id(fn, id, suffix=".".join(field)) ; @kopf.index has no suffix *)
Definition decorated_id (k : dkind) (id : string) (field : option path) : string :=
  match k, field with
  | DIndex, _ => id
  | _, None => id
  | _, Some p => id ++ "/" ++ join_path p
  end.

Definition decorate (k : dkind) (id : string) (fn : nat) (sel : selector)
    (labels annotations : list (string * crit)) (when : option (cause -> bool))
    (field : option path) (value old new : crit) : hdecl :=
  let mk cls v_old v_new rsn ini del fin nc :=
    {| h_id := decorated_id k id field; h_fn := fn; h_class := cls; h_selector := Some sel;
       h_labels := labels; h_annotations := annotations; h_when := when;
       h_field := field; h_value := value; h_old := v_old; h_new := v_new;
       h_reason := rsn; h_initial := ini; h_deleted := del; h_requires_finalizer := fin;
       h_needs_change := nc |} in
  match k with
  | DResume d  => mk HChanging CNone CNone None true d false false
  | DCreate    => mk HChanging CNone CNone (Some RCreate) false false false false
  | DUpdate    => mk HChanging old new (Some RUpdate) false false false true
  | DDelete o  => mk HChanging CNone CNone (Some RDelete) false false (negb o) false
  | DField     => mk HChanging old new None false false false true
  | DEvent     => mk HWatching CNone CNone None false false false false
  | DDaemon    => mk HSpawning CNone CNone None false false true false
  | DTimer     => mk HSpawning CNone CNone None false false true false
  | DIndex     => mk HIndexing CNone CNone None false false false false
  end.

(* ---------- callbacks used by the harness (also handy for examples) ---------- *)
Definition cb_is_none : vcallback := fun v _ => match v with JNull => true | _ => false end.
Definition cb_not_none : vcallback := fun v _ => match v with JNull => false | _ => true end.
Definition cb_eq (x : json) : vcallback := fun v _ => py_eqb v x.
Definition cb_const (b : bool) : vcallback := fun _ _ => b.
(* bool(v) *)
Definition py_truthy (j : json) : bool :=
  match j with
  | JNull => false
  | JBool b => b
  | JNum z => negb (Z.eqb z 0)
  | JStr s => negb (String.eqb s "")
  | JList l => match l with [] => false | _ => true end
  | JObj o => match o with [] => false | _ => true end
  | JEnc _ => true
  end.
Definition cb_truthy : vcallback := fun v _ => py_truthy v.
Definition when_const (b : bool) : cause -> bool := fun _ => b.
(* lambda spec, **_: spec.get(k) == x   (spec is a view: absent/non-mapping spec behaves as empty) *)
Definition when_spec_eq (k : string) (x : json) : cause -> bool :=
  fun c => match resolve (c_body c) ["spec"; k] with Some w => py_eqb w x | None => false end.

(* ====================================================================================== *)
(* The documented semantics: docs/filters.rst read sentence by sentence.  Prop-valued,    *)
(* written independently of the code-shaped functions above; each constructor cites its   *)
(* sentence.  [None : option json] = "the label / field is not there".                    *)
(* ====================================================================================== *)

(* "The passed value will be None if the value is absent in the resource." *)
Definition doc_arg (v : option json) : json :=
  match v with Some x => x | None => JNull end.

(* "There are only a few kinds of checks" *)
Inductive Holds (c : cause) : crit -> option json -> Prop :=
| H_val : forall x w, py_eqb x w = true -> Holds c (CVal x) (Some w)
    (* "Specific values --- expressed with Python literals"; "has a specific value" *)
| H_present : forall w, Holds c CPresent (Some w)
    (* "has a label or an annotation with any value"; empty strings "are considered as present" *)
| H_absent : Holds c CAbsent None
    (* "has no label or annotation with that name" *)
| H_cb : forall f v, f (doc_arg v) c = true -> Holds c (CCb f) v.
    (* "Per-value callbacks --- with anything callable which evaluates to true/false" *)

(* "Multiple criteria are joined with AND" over the keys of labels= / annotations= *)
Definition MetaHolds (c : cause) (pattern : list (string * crit)) (content : obj) : Prop :=
  Forall (fun kv => Holds c (snd kv) (lookup (fst kv) content)) pattern.

(* "When the value= filter is not specified, but the field= filter is, it is equivalent to value=kopf.PRESENT" *)
Definition value_crit (k : crit) : crit := match k with CNone => CPresent | _ => k end.

(* "If one of old= or new= is not specified (or set to None), that part is not checked,
    but the other (specified) part is still checked" *)
Inductive SideHolds (c : cause) : crit -> option json -> Prop :=
| S_unspecified : forall v, SideHolds c CNone v
| S_specified : forall k v, k <> CNone -> Holds c k v -> SideHolds c k v.

(* the label/annotation maps of a well-formed body *)
Definition meta_of (c : cause) (which : string) : obj :=
  match meta_content (c_body c) which with Ok l => l | _ => [] end.

(* "the update handlers (specifically, @kopf.on.update and @kopf.on.field)" reacting to a change *)
Definition updating (h : hdecl) (c : cause) : Prop :=
  h_is_changing h = true /\ is_changing c = true /\ h_needs_change h = true.

(* "a change means not only an actual change of the value, but also a change in whether the field
   is present or absent" ; values compared as Python compares them *)
Definition affected (old new : option json) : Prop := opt_py_eqb old new = false.

Inductive FieldHolds (h : hdecl) (c : cause) : Prop :=
| F_nofield : h_field h = None -> FieldHolds h c
| F_update : forall p, h_field h = Some p -> updating h c ->
    let old := resolve_opt (c_old c) p in
    let new := resolve_opt (c_new c) p in
    (Holds c (value_crit (h_value h)) old \/ Holds c (value_crit (h_value h)) new) ->
      (* "The value= filter applies to either the old or the new value" *)
    affected old new ->
      (* "restricts the update handlers to cases where the specified field is affected in any way:
          changed, added, or removed"; "not invoked when it remains the same" *)
    SideHolds c (h_old h) old -> SideHolds c (h_new h) new ->
      (* "the old and new values can be checked separately with the old=/new= filters" *)
    FieldHolds h c
| F_current : forall p, h_field h = Some p -> ~ updating h c ->
    Holds c (value_crit (h_value h)) (resolve (c_body c) p) ->
      (* "For all other handlers ... the field=/value= filters check the resource in its current
          ---and only--- state." *)
    FieldHolds h c.

(* "Whole-body callbacks" : when= *)
Definition WhenHolds (h : hdecl) (c : cause) : Prop :=
  match h_when h with None => True | Some f => f c = true end.

(* "Multiple criteria are joined with AND, i.e. they all must be satisfied." *)
Record Matches (h : hdecl) (c : cause) : Prop := {
  M_resource : matches_resource h (c_resource c) = true;
  M_labels : MetaHolds c (h_labels h) (meta_of c "labels");
  M_annotations : MetaHolds c (h_annotations h) (meta_of c "annotations");
  M_field : FieldHolds h c;
  M_when : WhenHolds h c }.

(* ---------- side conditions under which the statements are made ---------- *)
(* what the decorators guarantee: no None in labels=/annotations= (ValueError otherwise);
   old=/new= only on update handlers *)
Definition crit_specified (k : crit) : Prop := k <> CNone.
Record wf_decl (h : hdecl) : Prop := {
  wf_labels : Forall (fun kv => crit_specified (snd kv)) (h_labels h);
  wf_annotations : Forall (fun kv => crit_specified (snd kv)) (h_annotations h);
  wf_oldnew : h_needs_change h = false -> h_old h = CNone /\ h_new h = CNone }.

(* metadata, labels, annotations are mappings where present (what the API guarantees) *)
Definition body_ok (c : cause) : Prop :=
  (exists l, meta_content (c_body c) "labels" = Ok l) /\ (exists a, meta_content (c_body c) "annotations" = Ok a).

(* registries are typed: a ChangingRegistry holds ChangingHandlers and sees ChangingCauses *)
Definition class_agree (h : hdecl) (c : cause) : Prop := h_is_changing h = is_changing c.

(* the essence (cause.new) carries the handler's field as the body does (kopf adds handler fields to it) *)
Definition essence_ok (h : hdecl) (c : cause) : Prop :=
  is_changing c = true -> forall p, h_field h = Some p -> resolve_opt (c_new c) p = resolve (c_body c) p.

(* for handlers other than update handlers on a changing cause: the OLD value does not satisfy the
   value criterion unless the current one does *)
Definition old_silent (h : hdecl) (c : cause) : Prop :=
  is_changing c = true -> h_needs_change h = false -> forall p, h_field h = Some p ->
    value_on c (h_value h) (resolve_opt (c_old c) p) = true ->
    value_on c (h_value h) (resolve_opt (c_new c) p) = true.

(* ====================================================================================== *)
(* kopf.subhandler (kopf/on.py) and the cause its handlers see (execution.invoke_handler)  *)
(* ====================================================================================== *)
(* _warn_incompatible_parent_with_oldnew + the isinstance check: the decorator raises TypeError unless the parent is a
   ChangingHandler, and old=/new= are only accepted under @on.update (reason UPDATE) or @on.field-like parents
   (reason None and not initial) *)
Definition sub_allowed (parent : hdecl) (old new : crit) : bool :=
  h_is_changing parent &&
  match old, new with
  | CNone, CNone => true
  | _, _ => match h_reason parent with
            | Some RUpdate => true
            | None => negb (h_initial parent)
            | _ => false
            end
  end.

(* the ChangingHandler the decorator builds: id = parent.id/id (no field suffix), selector None, reason/initial/deleted/
   requires_finalizer None, field_needs_change INHERITED from the parent, everything else from the arguments *)
Definition sub_decorate (parent : hdecl) (id : string) (fn : nat)
    (labels annotations : list (string * crit)) (when : option (cause -> bool))
    (field : option path) (value old new : crit) : hdecl :=
  {| h_id := h_id parent ++ "/" ++ id; h_fn := fn; h_class := HChanging; h_selector := None;
     h_labels := labels; h_annotations := annotations; h_when := when;
     h_field := field; h_value := value; h_old := old; h_new := new;
     h_reason := None; h_initial := false; h_deleted := false; h_requires_finalizer := false;
     h_needs_change := h_needs_change parent |}.

(* ResourceHandler.adjust_cause: under a parent with a field the sub-handlers see old/new narrowed to that field
   (dicts.resolve(..., None): an absent field and a null one both become Python None) *)
Definition narrow (o : option json) (p : path) : option json :=
  match resolve_opt o p with Some JNull => None | r => r end.
Definition adjust_cause (parent : hdecl) (c : cause) : cause :=
  match h_field parent, c_class c with
  | Some p, CChanging =>
      {| c_class := c_class c; c_resource := c_resource c; c_body := c_body c;
         c_old := narrow (c_old c) p; c_new := narrow (c_new c) p; c_reason := c_reason c; c_initial := c_initial c |}
  | _, _ => c
  end.
