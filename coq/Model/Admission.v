(* kopf/_core/engines/admission.py : serve_admission_request / build_response, and
   kopf/_core/intents/registries.py : WebhooksRegistry.iter_handlers + get_handlers (_deduplicated).
   Definitions only. *)
From Coq Require Import ZArith List String Bool Ascii.
From KV Require Import Base.Json Base.Dicts Model.JsonPatch Model.MergeDsl.
Import ListNotations.
Open Scope string_scope.
Open Scope Z_scope.
Open Scope list_scope.

(* ---------- handler errors as build_response sees them ---------- *)

(* An exception object: the three isinstance() tests of the sort key, Python's str()/repr() of it
   (oracles: supplied by the harness from the real exception), and its `.code` attribute. *)
Record herror := {
  e_adm : bool;            (* isinstance(e, AdmissionError) *)
  e_perm : bool;           (* isinstance(e, PermanentError) *)
  e_temp : bool;           (* isinstance(e, TemporaryError) *)
  e_str : string;          (* str(e) *)
  e_repr : string;         (* repr(e) *)
  e_code : option Z        (* e.code (None or an int), meaningful for admission errors *)
}.

Definition rank (e : herror) : Z :=
  if e_adm e then 0 else if e_perm e then 1 else if e_temp e then 2 else 9.

(* str(errors[0]) or repr(errors[0]) *)
Definition message (e : herror) : string :=
  match e_str e with EmptyString => e_repr e | s => s end.

(* (errors[0].code if isinstance(errors[0], AdmissionError) else None) or 500 *)
Definition code (e : herror) : Z :=
  match (if e_adm e then e_code e else None) with
  | Some c => if c =? 0 then 500 else c
  | None => 500
  end.

(* list.sort(key=rank): stable *)
Fixpoint insert_err (e : herror) (l : list herror) : list herror :=
  match l with
  | [] => [e]
  | x :: l' => if rank e <=? rank x then e :: l else x :: insert_err e l'
  end.

Definition sort_errors (l : list herror) : list herror := fold_right insert_err [] l.

(* ---------- the response ---------- *)

Record response := {
  r_uid : string;
  r_allowed : bool;
  r_warnings : option (list string);         (* key absent when there are none *)
  r_patch : option (list jop);               (* key absent (and no patchType) when the op list is empty *)
  r_status : option (string * Z)             (* (message, code); absent when nothing raised *)
}.

(* outcomes: dict[HandlerId, Outcome] in insertion order; only `.exception` is looked at *)
Definition outcomes := list (string * option herror).

Definition errors_of (outs : outcomes) : list herror :=
  flat_map (fun kv => match snd kv with Some e => [e] | None => [] end) outs.

Definition build_response (uid : string) (outs : outcomes) (warnings : list string) (jsonpatch : list jop)
  : response :=
  {| r_uid := uid;
     r_allowed := forallb (fun kv => match snd kv with None => true | Some _ => false end) outs;
     r_warnings := if is_nil warnings then None else Some warnings;
     r_patch := if is_nil jsonpatch then None else Some jsonpatch;
     r_status := match sort_errors (errors_of outs) with
                 | e :: _ => Some (message e, code e)
                 | [] => None
                 end |}.

(* ---------- selection of the handlers ---------- *)

Record whandler := {
  h_id : string;
  h_fn : nat;                          (* identity of the function object: id(handler.fn) *)
  h_mutating : bool;                   (* handler.reason == WebhookType.MUTATING *)
  h_ops : option (list string);        (* handler.operations *)
  h_sub : option string;               (* handler.subresource *)
  h_extra : bool                       (* oracle: resource selector, labels, annotations, field, value, when=
                                          all matched (registries.match minus the subresource; property C15) *)
}.

Record wcause := {
  c_webhook : option string;           (* id hint from the URL *)
  c_reason : option bool;              (* reason hint: Some true = MUTATING *)
  c_op : option string;                (* request.operation *)
  c_sub : option string                (* request.subResource *)
}.

Definition ostr_eqb (a b : option string) : bool :=
  match a, b with
  | Some x, Some y => String.eqb x y
  | None, None => true
  | _, _ => false
  end.

(* set(handler.operations or []) == {'DELETE'} *)
Definition only_delete (ops : option (list string)) : bool :=
  match ops with
  | Some (o :: l) => forallb (String.eqb "DELETE") (o :: l)
  | _ => false
  end.

(* handler.subresource == '*' or handler.subresource == cause.subresource *)
Definition sub_matches (h : whandler) (c : wcause) : bool :=
  ostr_eqb (h_sub h) (Some "*") || ostr_eqb (h_sub h) (c_sub c).

Definition wh_selected (c : wcause) (h : whandler) : bool :=
  let matching_reason := match c_reason c with None => true | Some r => Bool.eqb r (h_mutating h) end in
  let matching_webhook := match c_webhook c with None => true | Some w => String.eqb w (h_id h) end in
  let non_mutating := negb (h_mutating h) in
  let non_deletion := negb (ostr_eqb (c_op c) (Some "DELETE")) in
  matching_reason && matching_webhook
  && (non_mutating || non_deletion || only_delete (h_ops h))
  && (sub_matches h c && h_extra h).

Definition key_eqb (a b : nat * string) : bool := Nat.eqb (fst a) (fst b) && String.eqb (snd a) (snd b).

(* registries._deduplicated: first occurrence of each (id(fn), handler.id) *)
Fixpoint dedup (seen : list (nat * string)) (hs : list whandler) : list whandler :=
  match hs with
  | [] => []
  | h :: rest =>
      let key := (h_fn h, h_id h) in
      if existsb (key_eqb key) seen then dedup seen rest else h :: dedup (key :: seen) rest
  end.

Definition select_webhooks (c : wcause) (hs : list whandler) : list whandler :=
  dedup [] (filter (wh_selected c) hs).

(* ---------- serve_admission_request ---------- *)

(* What one invocation of a handler does, as far as the response is concerned (user code: an oracle):
   the warnings it appended and the exception it raised, if any.  With errors=None, timeout=None,
   retries=None and default_errors=PERMANENT, execute_handler_once stores the raised exception
   itself in the outcome, whatever its class. *)
Definition handler_run := whandler -> list string * option herror.

(* outcomes[handler.id] = outcome, for the handlers in order: a dict, so a later handler with the
   same id overwrites the outcome of an earlier one (keeping the earlier position) *)
Definition collect_outcomes (run : handler_run) (sel : list whandler) : outcomes :=
  fold_left (fun acc h => set (h_id h) (snd (run h)) acc) sel [].

Definition collect_warnings (run : handler_run) (sel : list whandler) : list string :=
  flat_map (fun h => fst (run h)) sel.

(* ---------- which outcomes reach build_response (specification side of `collect_outcomes`) ---------- *)

(* the LAST selected handler carrying this id: its outcome is the one the dict keeps *)
Fixpoint last_by_id (id : string) (sel : list whandler) : option whandler :=
  match sel with
  | [] => None
  | h :: rest =>
      match last_by_id id rest with
      | Some h' => Some h'
      | None => if String.eqb id (h_id h) then Some h else None
      end
  end.

(* the ids of the selected handlers in order of first occurrence: the key order of the dict *)
Fixpoint ids_first (sel : list whandler) : list string :=
  match sel with
  | [] => []
  | h :: rest => h_id h :: filter (fun i => negb (String.eqb i (h_id h))) (ids_first rest)
  end.

Definition effective_outcome (run : handler_run) (sel : list whandler) (id : string) : option herror :=
  match last_by_id id sel with Some h => snd (run h) | None => None end.

Definition effective_outcomes (run : handler_run) (sel : list whandler) : outcomes :=
  map (fun id => (id, effective_outcome run sel id)) (ids_first sel).

Section Serve.
  Variable from_diff : json -> json -> list jop.

  (* [patch], [fns]: the content of the shared Patch object once the handlers are done (user code). *)
  Definition serve (uid : string) (c : wcause) (hs : list whandler) (run : handler_run)
             (patch : json) (fns : list (json -> json)) (body : json) : res response :=
    let sel := select_webhooks c hs in
    bind (as_json_patch from_diff patch fns body) (fun ops =>
      Ok (build_response uid (collect_outcomes run sel) (collect_warnings run sel) ops)).
End Serve.

(* ---------- the patch on the wire ---------- *)

(* build_response puts base64.b64encode(json.dumps(jsonpatch).encode('utf-8')).decode('ascii') into `patch`; the API
   server decodes that text with the STANDARD base64 alphabet, strictly, and parses the JSON.  Both directions are
   oracles (Python's json/base64, Go's encoding/base64 + json); what is needed of them is the round-trip law
   decode_std (encode ops) = Some ops, validated on every real response by the correspondence check. *)
Section Wire.
  Variable text : Type.                        (* str in Python; any type for the theorems *)
  Variable encode : list jop -> text.
  Variable decode_std : text -> option (list jop).

  Definition wire_patch (r : response) : option text :=
    match r_patch r with Some ops => Some (encode ops) | None => None end.

  (* the operations the API server ends up with: none when the field is absent, an error (None) when it cannot decode *)
  Definition received_patch (r : response) : option (list jop) :=
    match wire_patch r with Some text => decode_std text | None => Some [] end.
End Wire.
Arguments wire_patch {text}.
Arguments received_patch {text}.

(* ---------- comparison helpers for the correspondence check ---------- *)

Definition jop_eqb (a b : jop) : bool :=
  match a, b with
  | OAdd p v, OAdd p' v' => String.eqb p p' && jeqb v v'
  | ORemove p, ORemove p' => String.eqb p p'
  | OReplace p v, OReplace p' v' => String.eqb p p' && jeqb v v'
  | OTest p v, OTest p' v' => String.eqb p p' && jeqb v v'
  | OMove f p, OMove f' p' => String.eqb f f' && String.eqb p p'
  | OCopy f p, OCopy f' p' => String.eqb f f' && String.eqb p p'
  | _, _ => false
  end.

Fixpoint jops_eqb (a b : list jop) : bool :=
  match a, b with
  | [], [] => true
  | x :: a', y :: b' => jop_eqb x y && jops_eqb a' b'
  | _, _ => false
  end.

Definition ojops_eqb (a b : option (list jop)) : bool :=
  match a, b with Some x, Some y => jops_eqb x y | None, None => true | _, _ => false end.


Definition herror_eqb (a b : herror) : bool :=
  Bool.eqb (e_adm a) (e_adm b) && Bool.eqb (e_perm a) (e_perm b) && Bool.eqb (e_temp a) (e_temp b)
  && String.eqb (e_str a) (e_str b) && String.eqb (e_repr a) (e_repr b)
  && match e_code a, e_code b with Some x, Some y => Z.eqb x y | None, None => true | _, _ => false end.

Fixpoint outcomes_eqb (a b : outcomes) : bool :=
  match a, b with
  | [], [] => true
  | (i, x) :: a', (j, y) :: b' =>
      String.eqb i j && match x, y with Some e, Some f => herror_eqb e f | None, None => true | _, _ => false end
      && outcomes_eqb a' b'
  | _, _ => false
  end.

Definition oz_eqb (a b : option Z) : bool :=
  match a, b with Some x, Some y => Z.eqb x y | None, None => true | _, _ => false end.

Definition status_eqb (a b : option (string * Z)) : bool :=
  match a, b with
  | Some (m, c), Some (m', c') => String.eqb m m' && Z.eqb c c'
  | None, None => true
  | _, _ => false
  end.

Fixpoint strs_eqb (a b : list string) : bool :=
  match a, b with
  | [], [] => true
  | x :: a', y :: b' => String.eqb x y && strs_eqb a' b'
  | _, _ => false
  end.

Definition ostrs_eqb (a b : option (list string)) : bool :=
  match a, b with Some x, Some y => strs_eqb x y | None, None => true | _, _ => false end.
