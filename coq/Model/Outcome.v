(* C11 — model of kopf/_core/actions/execution.py (execute_handler_once: strict checks,
   classification of what the handler raised, look-ahead checks) and of
   kopf/_core/actions/progression.py (HandlerState algebra, State.done/delays/delay,
   for_storage/from_storage).  Definitions only; proofs are in Proofs/Outcome.v.

   Time is Z in integer milliseconds (the harness only uses dyadic values, so kopf's float
   arithmetic is exact and agrees with Z).  "now" is an explicit argument wherever the code reads
   basetime + loop.time().  User code is the oracle argument [raised]. *)
From Coq Require Import ZArith List Bool.
Import ListNotations.
Open Scope Z_scope.

(* ---------------------------------------------------------------- execution.py *)

Inductive mode := MIgnored | MTemporary | MPermanent.          (* ErrorsMode *)

(* What the user function did when it was entered. *)
Inductive raised :=
  | ROk                              (* returned *)
  | RChild (d : option Z)            (* HandlerChildrenRetry(delay=d) *)
  | RTemp (d : option Z)             (* TemporaryError(delay=d) *)
  | RPerm                            (* PermanentError *)
  | RTimeoutE                        (* HandlerTimeoutError raised from inside *)
  | RRetriesE                        (* HandlerRetriesError raised from inside *)
  | RArb.                            (* any other Exception *)

(* Outcome.exception, by class *)
Inductive exn := XNone | XChild | XTemp | XPerm | XTimeout | XRetries | XArb.

Record hcfg := mkCfg {               (* execution.Handler: errors, timeout, retries, backoff *)
  c_errors  : option mode;
  c_timeout : option Z;
  c_retries : option Z;
  c_backoff : option Z }.

Record env := mkEnv {                (* default_errors argument, settings.execution.default_backoff *)
  e_errors  : mode;
  e_backoff : Z }.

Record outcome := mkOut { o_final : bool; o_delay : option Z; o_exn : exn }.

Definition mode_eqb (a b : mode) : bool :=
  match a, b with MIgnored, MIgnored | MTemporary, MTemporary | MPermanent, MPermanent => true | _, _ => false end.

Definition exn_eqb (a b : exn) : bool :=
  match a, b with
  | XNone, XNone | XChild, XChild | XTemp, XTemp | XPerm, XPerm
  | XTimeout, XTimeout | XRetries, XRetries | XArb, XArb => true
  | _, _ => false end.

Definition or0 (d : option Z) : Z := match d with Some x => x | None => 0 end.   (* `e.delay or 0` *)

(* `limit is not None and x >= limit` *)
Definition reaches (x : Z) (limit : option Z) : bool :=
  match limit with Some l => l <=? x | None => false end.

Definition eff_mode (e : env) (c : hcfg) : mode :=
  match c_errors c with Some m => m | None => e_errors e end.
Definition eff_backoff (e : env) (c : hcfg) : Z :=
  match c_backoff c with Some b => b | None => e_backoff e end.

Definition final_with (x : exn) : outcome := mkOut true None x.

(* The strict checks: which of them (if any) prevents the call. *)
Definition strict (c : hcfg) (retries runtime : Z) : option exn :=
  if reaches runtime (c_timeout c) then Some XTimeout
  else if reaches retries (c_retries c) then Some XRetries
  else None.

(* Classification of what the call raised (the `except` chain, in its order). *)
Definition classify (e : env) (c : hcfg) (retries runtime : Z) (r : raised) : outcome :=
  match r with
  | ROk => final_with XNone
  | RChild d => mkOut false d XChild
  | RTemp d =>
      if reaches (runtime + or0 d) (c_timeout c) then final_with XTimeout
      else if reaches (retries + 1) (c_retries c) then final_with XRetries
      else mkOut false d XTemp
  | RTimeoutE => final_with XTimeout
  | RRetriesE => final_with XRetries
  | RPerm => final_with XPerm
  | RArb =>
      let backoff := eff_backoff e c in
      let la_timeout := reaches (runtime + backoff) (c_timeout c) in
      let la_retries := reaches (retries + 1) (c_retries c) in
      match eff_mode e c with
      | MIgnored => final_with XNone
      | MTemporary =>
          if la_timeout then final_with XTimeout
          else if la_retries then final_with XRetries
          else mkOut false (Some backoff) XArb
      | MPermanent => final_with XArb
      end
  end.

(* execute_handler_once: (outcome, was the user function entered?).
   `state.runtime` is a property that reads the clock: the strict checks see the runtime at the moment
   of the call [rt_call], the look-ahead checks in the `except` clauses see the runtime at the moment the
   function raised [rt_end] (the handler's own duration is included). *)
Definition exec (e : env) (c : hcfg) (retries rt_call rt_end : Z) (r : raised) : outcome * bool :=
  match strict c retries rt_call with
  | Some x => (final_with x, false)
  | None => (classify e c retries rt_end r, true)
  end.

(* ---------------------------------------------------------------- progression.py *)

Record hstate := mkHS {
  s_active  : bool;
  s_started : Z;
  s_stopped : option Z;
  s_delayed : option Z;
  s_retries : Z;
  s_success : bool;
  s_failure : bool }.

Definition finished (s : hstate) : bool := s_success s || s_failure s.

(* not finished and delayed is not None and delayed > now *)
Definition sleeping (now : Z) (s : hstate) : bool :=
  negb (finished s) && match s_delayed s with Some d => now <? d | None => false end.

Definition awakened (now : Z) (s : hstate) : bool := negb (finished s) && negb (sleeping now s).

Definition runtime (now : Z) (s : hstate) : Z := now - s_started s.

Definition from_scratch (now : Z) : hstate := mkHS true now None None 0 false false.

Definition is_none (x : exn) : bool := exn_eqb x XNone.

Definition with_outcome (now : Z) (s : hstate) (o : outcome) : hstate :=
  mkHS (s_active s)
       (s_started s)
       (match s_stopped s with Some x => Some x | None => if o_final o then Some now else None end)
       (match o_delay o with Some d => Some (now + d) | None => None end)
       (s_retries s + 1)
       (o_final o && is_none (o_exn o))
       (o_final o && negb (is_none (o_exn o))).

(* HandlerState.with_purpose = dataclasses.replace(self, purpose=purpose): a copy with every other field kept.
   The purpose itself (which cause the record belongs to) is outside this model; what matters for the error policy
   is that NOTHING ELSE changes when one cause supersedes another (resume -> update after a restart, update ->
   delete for a handler id shared by both) while the handler sleeps off its delay. *)
Definition with_purpose (s : hstate) : hstate :=
  mkHS (s_active s) (s_started s) (s_stopped s) (s_delayed s) (s_retries s) (s_success s) (s_failure s).

Definition as_active (s : hstate) : hstate :=
  mkHS true (s_started s) (s_stopped s) (s_delayed s) (s_retries s) (s_success s) (s_failure s).

(* ProgressRecord, the fields that matter here; every field may be absent/null *)
Record prec := mkRec {
  r_started : option Z;
  r_stopped : option Z;
  r_delayed : option Z;
  r_retries : option Z;
  r_success : option bool;
  r_failure : option bool }.

Definition for_storage (s : hstate) : prec :=
  mkRec (Some (s_started s)) (s_stopped s) (s_delayed s) (Some (s_retries s))
        (Some (s_success s)) (Some (s_failure s)).

Definition orb0 (b : option bool) : bool := match b with Some x => x | None => false end.

Definition from_storage (now : Z) (r : prec) : hstate :=
  mkHS false
       (match r_started r with Some x => x | None => now end)
       (r_stopped r) (r_delayed r) (or0 (r_retries r)) (orb0 (r_success r)) (orb0 (r_failure r)).

(* State.from_storage(...).with_handlers([h])[h.id]: what a processing cycle starts from *)
Definition state_for (now : Z) (stored : option prec) : hstate :=
  match stored with
  | Some r => as_active (from_storage now r)
  | None => from_scratch now
  end.

(* State.done / State.delays / State.delay over the handler states in the State *)
Definition st_done (l : list hstate) : bool :=
  forallb (fun s => negb (s_active s) || finished s) l.

Definition st_delays (now : Z) (l : list hstate) : list Z :=
  map (fun s => match s_delayed s with Some d => Z.max 0 (d - now) | None => 0 end)
      (filter (fun s => s_active s && negb (finished s)) l).

Fixpoint zmin_list (l : list Z) : option Z :=
  match l with
  | [] => None
  | x :: l' => match zmin_list l' with Some m => Some (Z.min x m) | None => Some x end
  end.

Definition st_delay (now : Z) (l : list hstate) : option Z := zmin_list (st_delays now l).

(* aiotime.sleep(delays): how long it sleeps when nothing wakes it up *)
Definition sleep_len (delays : list Z) : Z :=
  match zmin_list delays with Some m => Z.max 0 m | None => 0 end.

(* ---------------------------------------------------------------- decidable equalities for the harness *)

Definition oz_eqb (a b : option Z) : bool :=
  match a, b with Some x, Some y => x =? y | None, None => true | _, _ => false end.
Definition ob_eqb (a b : option bool) : bool :=
  match a, b with Some x, Some y => Bool.eqb x y | None, None => true | _, _ => false end.

Definition outcome_eqb (a b : outcome) : bool :=
  Bool.eqb (o_final a) (o_final b) && oz_eqb (o_delay a) (o_delay b) && exn_eqb (o_exn a) (o_exn b).

Definition exec_eqb (a b : outcome * bool) : bool :=
  outcome_eqb (fst a) (fst b) && Bool.eqb (snd a) (snd b).

Definition hstate_eqb (a b : hstate) : bool :=
  Bool.eqb (s_active a) (s_active b) && (s_started a =? s_started b) && oz_eqb (s_stopped a) (s_stopped b)
  && oz_eqb (s_delayed a) (s_delayed b) && (s_retries a =? s_retries b)
  && Bool.eqb (s_success a) (s_success b) && Bool.eqb (s_failure a) (s_failure b).

Definition prec_eqb (a b : prec) : bool :=
  oz_eqb (r_started a) (r_started b) && oz_eqb (r_stopped a) (r_stopped b) && oz_eqb (r_delayed a) (r_delayed b)
  && oz_eqb (r_retries a) (r_retries b) && ob_eqb (r_success a) (r_success b) && ob_eqb (r_failure a) (r_failure b).

Fixpoint zlist_eqb (a b : list Z) : bool :=
  match a, b with
  | [], [] => true
  | x :: a', y :: b' => (x =? y) && zlist_eqb a' b'
  | _, _ => false
  end.
