(* C02 — model of kopf/_core/actions/progression.py (HandlerState, State: from_storage, with_purpose,
   with_handlers, with_outcomes, store, purge, done, delays, counts, extras; deliver_results), of the
   selection part of kopf/_core/actions/execution.py (execute_handlers_once: awakened filter + lifecycle),
   of kopf/_core/actions/lifecycles.py, of the state pipeline of
   kopf/_core/reactor/processing.py process_changing_cause, and of kopf/_core/reactor/subhandling.py execute.
   Definitions only; proofs are in Proofs/Progress.v.

   Conventions.
   * Time is Z in integer microseconds since the harness epoch; [now] is an explicit argument wherever the
     code reads basetime + loop.time().  Persisted timestamps are their microsecond values (the harness only
     writes the canonical isoformat(timespec='microseconds') text kopf itself writes, so equality of texts is
     equality of values).
   * A stored record (progress.ProgressRecord as found in / written to the storage) is [pg_srec]: every field
     optional; "absent" and "null" are the same (storages do not keep nulls; AnnotationsProgressStorage is
     used with verbose=False).
   * execute_handler_once is an ORACLE: (handler id, retries) -> outcome + the effects the invocation itself
     had on the patch (the stores of its sub-handlers; empty for a plain handler).
   * The patch is abstracted per handler id: [PStore r] (record written), [PNull] (key set to null), absent.
   * Python errors that exist in the mirrored code (KeyError in State.with_purpose / state[h.id],
     RuntimeError in State.with_outcomes) are definedness predicates [pg_*_defined]; Proofs/Progress.v proves
     they always hold inside the pipeline. *)
From Coq Require Import ZArith List String Bool Ascii.
From KV Require Import Base.Harness.
Import ListNotations.
Open Scope string_scope. Open Scope Z_scope. Open Scope list_scope.

Definition pg_hid := string.

(* ------------------------------------------------------------------ causes.Reason *)
Inductive pg_reason := PRCreate | PRUpdate | PRDelete | PRResume | PRNoop | PRFree | PRGone.

Definition pg_reason_str (r : pg_reason) : string :=
  match r with
  | PRCreate => "create" | PRUpdate => "update" | PRDelete => "delete" | PRResume => "resume"
  | PRNoop => "noop" | PRFree => "free" | PRGone => "gone"
  end.

(* causes.HANDLER_REASONS *)
Definition pg_handler_reason (r : pg_reason) : bool :=
  match r with PRCreate | PRUpdate | PRDelete | PRResume => true | _ => false end.

(* ------------------------------------------------------------------ small helpers *)
Definition pg_ostr_eqb := opt_eqb String.eqb.
Definition pg_oz_eqb := opt_eqb Z.eqb.
Definition pg_ob_eqb := opt_eqb Bool.eqb.
Definition pg_ids_eqb := list_eqb String.eqb.

Fixpoint pg_find {A} (k : pg_hid) (l : list (pg_hid * A)) : option A :=
  match l with
  | [] => None
  | (k', v) :: l' => if String.eqb k' k then Some v else pg_find k l'
  end.

Definition pg_has {A} (k : pg_hid) (l : list (pg_hid * A)) : bool :=
  match pg_find k l with Some _ => true | None => false end.

Fixpoint pg_mem (k : pg_hid) (l : list pg_hid) : bool :=
  match l with [] => false | k' :: l' => String.eqb k' k || pg_mem k l' end.

Fixpoint pg_dedup (l : list pg_hid) : list pg_hid :=      (* set(...) — first occurrences *)
  match l with
  | [] => []
  | k :: l' => k :: filter (fun x => negb (String.eqb k x)) (pg_dedup l')
  end.

Fixpoint pg_insert (k : pg_hid) (l : list pg_hid) : list pg_hid :=
  match l with
  | [] => [k]
  | x :: l' => if String.leb k x then k :: l else x :: pg_insert k l'
  end.

Fixpoint pg_sort (l : list pg_hid) : list pg_hid :=       (* sorted(...) of str: code-point = byte order *)
  match l with [] => [] | k :: l' => pg_insert k (pg_sort l') end.

(* ------------------------------------------------------------------ progress.ProgressRecord *)
Record pg_srec := mkPgRec {
  s_started : option Z;
  s_stopped : option Z;
  s_delayed : option Z;
  s_purpose : option string;
  s_retries : option Z;
  s_success : option bool;
  s_failure : option bool;
  s_message : option string;
  s_subrefs : option (list pg_hid) }.

Definition pg_srec_eqb (a b : pg_srec) : bool :=
  pg_oz_eqb (s_started a) (s_started b) && pg_oz_eqb (s_stopped a) (s_stopped b) &&
  pg_oz_eqb (s_delayed a) (s_delayed b) && pg_ostr_eqb (s_purpose a) (s_purpose b) &&
  pg_oz_eqb (s_retries a) (s_retries b) && pg_ob_eqb (s_success a) (s_success b) &&
  pg_ob_eqb (s_failure a) (s_failure b) && pg_ostr_eqb (s_message a) (s_message b) &&
  opt_eqb pg_ids_eqb (s_subrefs a) (s_subrefs b).

(* ------------------------------------------------------------------ execution.Outcome *)
Record pg_outcome := mkPgOut {
  o_final   : bool;
  o_exc     : option string;      (* str(exception) when there is one *)
  o_delay   : option Z;
  o_result  : option Z;           (* a token standing for the returned value *)
  o_subrefs : list pg_hid }.

(* what one invocation did besides returning an outcome (its sub-handlers, via the shared patch) *)
Record pg_effects := mkPgEff {
  e_invoked   : list (pg_hid * Z);        (* sub-handler invocations (id, retry) *)
  e_stores    : list (pg_hid * pg_srec);  (* storage.store calls into the shared patch, in order *)
  e_delivered : list (pg_hid * Z) }.      (* deliver_results of the sub-handlers *)

Definition pg_no_effects := mkPgEff [] [] [].

Definition pg_oracle := pg_hid -> Z -> pg_outcome * pg_effects.

(* ------------------------------------------------------------------ progression.HandlerState *)
Record pg_hstate := mkPgHS {
  h_active  : bool;
  h_started : Z;
  h_stopped : option Z;
  h_delayed : option Z;
  h_purpose : option string;
  h_retries : Z;
  h_success : bool;
  h_failure : bool;
  h_message : option string;
  h_subrefs : list pg_hid;
  h_origin  : option pg_srec }.

Definition pg_finished (h : pg_hstate) : bool := h_success h || h_failure h.

(* not finished and delayed is not None and delayed > now *)
Definition pg_sleeping (now : Z) (h : pg_hstate) : bool :=
  negb (pg_finished h) && match h_delayed h with Some d => now <? d | None => false end.

Definition pg_awakened (now : Z) (h : pg_hstate) : bool :=
  negb (pg_finished h) && negb (pg_sleeping now h).

Definition pg_or {A} (x : option A) (d : A) : A := match x with Some v => v | None => d end.

(* `__d.get('purpose') if __d.get('purpose') else None`: the empty string is falsy *)
Definition pg_truthy_str (x : option string) : option string :=
  match x with Some "" => None | _ => x end.

Definition pg_from_scratch (now : Z) (purpose : option string) : pg_hstate :=
  mkPgHS true now None None purpose 0 false false None [] None.

Definition pg_hs_from_storage (now : Z) (d : pg_srec) : pg_hstate :=
  mkPgHS false (pg_or (s_started d) now) (s_stopped d) (s_delayed d) (pg_truthy_str (s_purpose d))
         (pg_or (s_retries d) 0) (pg_or (s_success d) false) (pg_or (s_failure d) false)
         (s_message d) (pg_or (s_subrefs d) []) (Some d).

(* for_storage; as_in_storage drops the None values, which [pg_srec] does not distinguish from absence *)
Definition pg_for_storage (h : pg_hstate) : pg_srec :=
  mkPgRec (Some (h_started h)) (h_stopped h) (h_delayed h) (h_purpose h) (Some (h_retries h))
          (Some (h_success h)) (Some (h_failure h)) (h_message h)
          (match h_subrefs h with [] => None | l => Some (pg_sort l) end).

(* State.store: `pure_record != handler_state._origin` *)
Definition pg_changed (h : pg_hstate) : bool :=
  match h_origin h with
  | None => true
  | Some d => negb (pg_srec_eqb (pg_for_storage h) d)
  end.

Definition pg_as_active (h : pg_hstate) : pg_hstate :=
  mkPgHS true (h_started h) (h_stopped h) (h_delayed h) (h_purpose h) (h_retries h) (h_success h)
         (h_failure h) (h_message h) (h_subrefs h) (h_origin h).

Definition pg_hs_with_purpose (p : option string) (h : pg_hstate) : pg_hstate :=
  mkPgHS (h_active h) (h_started h) (h_stopped h) (h_delayed h) p (h_retries h) (h_success h)
         (h_failure h) (h_message h) (h_subrefs h) (h_origin h).

Definition pg_hs_with_outcome (now : Z) (h : pg_hstate) (o : pg_outcome) : pg_hstate :=
  mkPgHS (h_active h) (h_started h)
         (match h_stopped h with Some s => Some s | None => if o_final o then Some now else None end)
         (match o_delay o with Some d => Some (now + d) | None => None end)
         (h_purpose h)
         (h_retries h + 1)
         (o_final o && match o_exc o with None => true | Some _ => false end)
         (o_final o && match o_exc o with None => false | Some _ => true end)
         (o_exc o)
         (pg_sort (pg_dedup (h_subrefs h ++ o_subrefs o)))
         (h_origin h).

(* ------------------------------------------------------------------ progression.State *)
Definition pg_items := list (pg_hid * pg_hstate).

Record pg_state := mkPgSt { st_items : pg_items; st_purpose : option string }.

Definition pg_upd (k : pg_hid) (f : pg_hstate -> pg_hstate) (items : pg_items) : pg_items :=
  map (fun kv => if String.eqb (fst kv) k then (fst kv, f (snd kv)) else kv) items.

(* State.from_storage: one fetch per distinct owned id *)
Definition pg_from_storage (body : list (pg_hid * pg_srec)) (owned : list pg_hid) (now : Z) : pg_state :=
  mkPgSt (flat_map (fun k => match pg_find k body with
                             | Some d => [(k, pg_hs_from_storage now d)]
                             | None => []
                             end) (pg_dedup owned))
         None.

(* State.with_purpose(purpose, handlers): KeyError iff some handler id has no state *)
Definition pg_with_purpose_defined (st : pg_state) (ids : list pg_hid) : bool :=
  forallb (fun k => pg_has k (st_items st)) ids.

Definition pg_with_purpose (st : pg_state) (p : option string) (ids : list pg_hid) : pg_state :=
  mkPgSt (map (fun kv => if pg_mem (fst kv) ids then (fst kv, pg_hs_with_purpose p (snd kv)) else kv)
              (st_items st))
         p.

Definition pg_with_handlers (st : pg_state) (ids : list pg_hid) (now : Z) : pg_state :=
  mkPgSt (fold_left (fun items k => if pg_has k items then pg_upd k pg_as_active items
                                    else items ++ [(k, pg_from_scratch now (st_purpose st))])
                    ids (st_items st))
         (st_purpose st).

(* the outcomes dict: the last assignment for an id wins *)
Definition pg_outcomes := list (pg_hid * pg_outcome).
Definition pg_out_of (k : pg_hid) (outs : pg_outcomes) : option pg_outcome := pg_find k (rev outs).

(* State.with_outcomes: RuntimeError iff an outcome is for an unknown id *)
Definition pg_with_outcomes_defined (st : pg_state) (outs : pg_outcomes) : bool :=
  forallb (fun ko => pg_has (fst ko) (st_items st)) outs.

Definition pg_with_outcomes (st : pg_state) (outs : pg_outcomes) (now : Z) : pg_state :=
  mkPgSt (map (fun kv => match pg_out_of (fst kv) outs with
                         | Some o => (fst kv, pg_hs_with_outcome now (snd kv) o)
                         | None => kv
                         end) (st_items st))
         (st_purpose st).

(* State.without_successes (used by the daemons/timers/activities, not by the pipeline) *)
Definition pg_without_successes (st : pg_state) : pg_state :=
  mkPgSt (filter (fun kv => negb (h_success (snd kv))) (st_items st)) None.

Definition pg_done (st : pg_state) : bool :=
  forallb (fun kv => negb (h_active (snd kv)) || pg_finished (snd kv)) (st_items st).

Definition pg_delays (st : pg_state) (now : Z) : list Z :=
  flat_map (fun kv => let h := snd kv in
                      if h_active h && negb (pg_finished h)
                      then [match h_delayed h with Some d => Z.max 0 (d - now) | None => 0 end]
                      else []) (st_items st).

Definition pg_min_list (l : list Z) : option Z :=
  match l with [] => None | x :: l' => Some (fold_left Z.min l' x) end.

Definition pg_delay (st : pg_state) (now : Z) : option Z := pg_min_list (pg_delays st now).

(* State.extras: the purposes other than the state's own, with their counters *)
Definition pg_is_extra (st : pg_state) (h : pg_hstate) : bool :=
  match h_purpose h with
  | Some p => negb (pg_ostr_eqb (Some p) (st_purpose st))
  | None => false
  end.

Definition pg_has_extras (st : pg_state) : bool := existsb (fun kv => pg_is_extra st (snd kv)) (st_items st).

Definition pg_count (f : pg_hstate -> bool) (items : pg_items) : Z :=
  Z.of_nat (List.length (filter (fun kv => f (snd kv)) items)).

Definition pg_counters (sel : pg_hstate -> bool) (items : pg_items) : Z * Z * Z :=
  (pg_count (fun h => sel h && h_success h) items,
   pg_count (fun h => sel h && h_failure h) items,
   pg_count (fun h => sel h && negb (pg_finished h)) items).

Definition pg_extras (st : pg_state) : list (string * (Z * Z * Z)) :=
  let purposes := pg_dedup (flat_map (fun kv => if pg_is_extra st (snd kv)
                                                then match h_purpose (snd kv) with Some p => [p] | None => [] end
                                                else []) (st_items st)) in
  map (fun p => (p, pg_counters (fun h => pg_ostr_eqb (h_purpose h) (Some p)) (st_items st))) purposes.

Definition pg_counts (st : pg_state) : Z * Z * Z :=
  pg_counters (fun h => match st_purpose st, h_purpose h with
                        | None, _ => true
                        | _, None => true
                        | Some a, Some b => String.eqb a b
                        end) (st_items st).

(* ------------------------------------------------------------------ the patch, per handler id *)
Inductive pg_pact := PStore (r : pg_srec) | PNull.
Definition pg_patch := list (pg_hid * pg_pact).

Definition pg_p_del (k : pg_hid) (p : pg_patch) : pg_patch :=
  filter (fun ka => negb (String.eqb (fst ka) k)) p.
Definition pg_p_set (k : pg_hid) (a : pg_pact) (p : pg_patch) : pg_patch := (k, a) :: pg_p_del k p.

(* storage.purge: in the body -> null in the patch; only in the patch -> removed from the patch *)
Definition pg_purge1 (body : list (pg_hid * pg_srec)) (p : pg_patch) (k : pg_hid) : pg_patch :=
  if pg_has k body then pg_p_set k PNull p else pg_p_del k p.

(* State.store: only the records that differ from what was fetched *)
Definition pg_store (st : pg_state) (p : pg_patch) : pg_patch :=
  fold_left (fun p kv => if pg_changed (snd kv) then pg_p_set (fst kv) (PStore (pg_for_storage (snd kv))) p else p)
            (st_items st) p.

(* State.purge(handlers=owned): the owned ids, the state's own ids, and every subref of every state *)
Definition pg_purge_ids (st : pg_state) (owned : list pg_hid) : list pg_hid :=
  pg_dedup owned ++
  flat_map (fun kv => (if pg_mem (fst kv) owned then [] else [fst kv]) ++ h_subrefs (snd kv)) (st_items st).

Definition pg_purge (body : list (pg_hid * pg_srec)) (st : pg_state) (owned : list pg_hid) (p : pg_patch) : pg_patch :=
  fold_left (pg_purge1 body) (pg_purge_ids st owned) p.

(* what a later fetch sees for id k on merge(body, patch) *)
Definition pg_after (body : list (pg_hid * pg_srec)) (p : pg_patch) (k : pg_hid) : option pg_srec :=
  match pg_find k p with
  | Some (PStore r) => Some r
  | Some PNull => None
  | None => pg_find k body
  end.

(* ------------------------------------------------------------------ lifecycles.py *)
Inductive pg_lifecycle :=
  | LAll                       (* all_at_once *)
  | LOne                       (* one_by_one *)
  | LAsap                      (* asap: the first handler with the fewest retries *)
  | LPick (idx : list nat).    (* randomized / shuffled / any lifecycle that picks positions of its input *)

Definition pg_retries_of (st : pg_state) (k : pg_hid) : Z :=
  match pg_find k (st_items st) with Some h => h_retries h | None => 0 end.

(* sorted(handlers, key=retries)[:1] — stable: the first one among the minimal *)
Fixpoint pg_argmin (st : pg_state) (best : pg_hid) (l : list pg_hid) : pg_hid :=
  match l with
  | [] => best
  | k :: l' => if pg_retries_of st k <? pg_retries_of st best then pg_argmin st k l' else pg_argmin st best l'
  end.

Definition pg_lc_apply (lc : pg_lifecycle) (st : pg_state) (todo : list pg_hid) : list pg_hid :=
  match lc with
  | LAll => todo
  | LOne => firstn 1 todo
  | LAsap => match todo with [] => [] | k :: l => [pg_argmin st k l] end
  | LPick idx => flat_map (fun i => match nth_error todo i with Some k => [k] | None => [] end) idx
  end.

(* ------------------------------------------------------------------ execution.execute_handlers_once *)
(* state[h.id] raises KeyError iff a handler has no state *)
Definition pg_execute_defined (st : pg_state) (handlers : list pg_hid) : bool :=
  forallb (fun k => pg_has k (st_items st)) handlers.

Definition pg_todo (st : pg_state) (handlers : list pg_hid) (now : Z) : list pg_hid :=
  filter (fun k => match pg_find k (st_items st) with Some h => pg_awakened now h | None => false end) handlers.

Definition pg_plan (lc : pg_lifecycle) (st : pg_state) (handlers : list pg_hid) (now : Z) : list pg_hid :=
  pg_lc_apply lc st (pg_todo st handlers now).

Definition pg_invocations (st : pg_state) (plan : list pg_hid) : list (pg_hid * Z) :=
  map (fun k => (k, pg_retries_of st k)) plan.

Definition pg_run (orc : pg_oracle) (st : pg_state) (plan : list pg_hid) : list (pg_hid * (pg_outcome * pg_effects)) :=
  map (fun k => (k, orc k (pg_retries_of st k))) plan.

Definition pg_outs_of_run (ran : list (pg_hid * (pg_outcome * pg_effects))) : pg_outcomes :=
  map (fun ke => (fst ke, fst (snd ke))) ran.

(* the stores made into the shared patch during the invocations, in order *)
Definition pg_apply_effects (ran : list (pg_hid * (pg_outcome * pg_effects))) (p : pg_patch) : pg_patch :=
  fold_left (fun p ke => fold_left (fun p kr => pg_p_set (fst kr) (PStore (snd kr)) p) (e_stores (snd (snd ke))) p)
            ran p.

(* progression.deliver_results: no exception and a result *)
Definition pg_deliver (outs : pg_outcomes) : list (pg_hid * Z) :=
  flat_map (fun ko => match o_exc (snd ko), o_result (snd ko) with
                      | None, Some r => [(fst ko, r)]
                      | _, _ => []
                      end) outs.

(* ------------------------------------------------------------------ processing.process_changing_cause *)
Record pg_result := mkPgRes {
  r_invoked   : list (pg_hid * Z);     (* execute_handler_once calls of this level: (id, state.retries) *)
  r_sub       : list (pg_hid * Z);     (* invocations made inside them (sub-handlers) *)
  r_patch     : pg_patch;
  r_delivered : list (pg_hid * Z);
  r_done      : option bool;           (* None: no handlers were executed *)
  r_skip      : bool;
  r_delays    : list Z;
  r_diffbase  : bool;                  (* diffbase_storage.store was called *)
  r_fho       : bool;                  (* memory.fully_handled_once := True *)
  r_extras    : list (string * (Z * Z * Z));   (* the "... is superseded by ..." log lines *)
  r_counts    : option (Z * Z * Z);            (* the "... is processed: ..." log line (iff done) *)
  r_final     : pg_state }.            (* the last State object of the call *)

(* State.from_storage(...).with_purpose(cause.reason).with_handlers(cause_handlers) *)
Definition pg_prepare1 (body : list (pg_hid * pg_srec)) (owned : list pg_hid) (reason : pg_reason)
           (selected : list pg_hid) (now : Z) : pg_state :=
  pg_with_handlers (pg_with_purpose (pg_from_storage body owned now) (Some (pg_reason_str reason)) []) selected now.

Definition pg_prepare (body : list (pg_hid * pg_srec)) (owned : list pg_hid) (reason : pg_reason)
           (selected : list pg_hid) (now : Z) : pg_state :=
  let st1 := pg_prepare1 body owned reason selected now in
  (* for extra_purpose, counters in state.extras.items(): state = state.with_purpose(reason, cause_handlers) *)
  if pg_has_extras st1 then pg_with_purpose st1 (Some (pg_reason_str reason)) selected else st1.

Definition pg_pipeline (body : list (pg_hid * pg_srec)) (owned : list pg_hid) (reason : pg_reason)
           (selected : list pg_hid) (lc : pg_lifecycle) (now : Z) (new_differs : bool) (orc : pg_oracle)
  : pg_result :=
  if negb (pg_handler_reason reason)
  then mkPgRes [] [] [] [] None false [] false false [] None (mkPgSt [] None)
  else
    let st2 := pg_prepare body owned reason selected now in
    let ex := pg_extras (pg_prepare1 body owned reason selected now) in
    (* if state.extras: state.purge(handlers=owned_handlers) *)
    let p1 := if pg_has_extras st2 then pg_purge body st2 owned [] else [] in
    match selected with
    | [] => mkPgRes [] [] p1 [] None true [] new_differs true ex None st2
    | _ =>
      let plan := pg_plan lc st2 selected now in
      let ran := pg_run orc st2 plan in
      let outs := pg_outs_of_run ran in
      let st3 := pg_with_outcomes st2 outs now in
      let p2 := pg_store st3 (pg_apply_effects ran p1) in
      let d := pg_done st3 in
      let p3 := if d then pg_purge body st3 owned p2 else p2 in
      mkPgRes (pg_invocations st2 plan)
              (flat_map (fun ke => e_invoked (snd (snd ke))) ran)
              p3
              (flat_map (fun ke => e_delivered (snd (snd ke))) ran ++ pg_deliver outs)
              (Some d) false (pg_delays st3 now) (d && new_differs) d ex
              (if d then Some (pg_counts st3) else None) st3
    end.

(* the definedness of every partial operation used by the pipeline *)
Definition pg_pipeline_defined (body : list (pg_hid * pg_srec)) (owned : list pg_hid) (reason : pg_reason)
           (selected : list pg_hid) (lc : pg_lifecycle) (now : Z) (orc : pg_oracle) : bool :=
  let st1 := pg_prepare1 body owned reason selected now in
  let st2 := pg_prepare body owned reason selected now in
  pg_with_purpose_defined st1 selected && pg_execute_defined st2 selected &&
  pg_with_outcomes_defined st2 (pg_outs_of_run (pg_run orc st2 (pg_plan lc st2 selected now))).

(* ------------------------------------------------------------------ subhandling.execute *)
(* One call of kopf.execute() inside a handler: the sub-registry's handlers [sub_owned] (all of them are
   also the cause handlers unless filtered: [sub_selected]); same body, same patch, same lifecycle. *)
Record pg_subresult := mkPgSub {
  sr_invoked   : list (pg_hid * Z);
  sr_sub       : list (pg_hid * Z);
  sr_stores    : list (pg_hid * pg_srec);   (* storage.store calls, in order (incl. nested ones) *)
  sr_delivered : list (pg_hid * Z);
  sr_keys      : list pg_hid;               (* `for key in state`: added to every enclosing subrefs container *)
  sr_trace     : list (pg_hid * Z);         (* all invocations of this level and below, in call order (depth first) *)
  sr_deeper    : list pg_hid;               (* what the invoked sub-handlers' own levels added to the enclosing containers *)
  sr_done      : bool;
  sr_delay     : option Z;
  sr_final     : pg_state }.

Definition pg_store_list (st : pg_state) : list (pg_hid * pg_srec) :=
  flat_map (fun kv => if pg_changed (snd kv) then [(fst kv, pg_for_storage (snd kv))] else []) (st_items st).

Definition pg_sub_execute (body : list (pg_hid * pg_srec)) (reason : pg_reason) (sub_owned sub_selected : list pg_hid)
           (lc : pg_lifecycle) (now : Z) (orc : pg_oracle) : pg_subresult :=
  let p := Some (pg_reason_str reason) in
  let st := pg_with_handlers (pg_with_purpose (pg_from_storage body sub_owned now) p []) sub_selected now in
  let plan := pg_plan lc st sub_selected now in
  let ran := pg_run orc st plan in
  let outs := pg_outs_of_run ran in
  let st' := pg_with_outcomes st outs now in
  mkPgSub (pg_invocations st plan)
          (flat_map (fun ke => e_invoked (snd (snd ke))) ran)
          (flat_map (fun ke => e_stores (snd (snd ke))) ran ++ pg_store_list st')
          (flat_map (fun ke => e_delivered (snd (snd ke))) ran ++ pg_deliver outs)
          (map fst (st_items st'))
          (flat_map (fun ke => (fst ke, pg_retries_of st (fst ke)) :: e_invoked (snd (snd ke))) ran)
          (flat_map (fun ke => o_subrefs (fst (snd ke))) ran)
          (pg_done st')
          (pg_delay st' now)
          st'.

(* The outcome of a parent whose own code returned [result] (execute_handler_once: HandlerChildrenRetry is
   caught -> Outcome(final=False, exception=e, delay=e.delay, subrefs); str(HandlerChildrenRetry()) = "None";
   subrefs also collects what deeper levels added to the enclosing containers). *)
Definition pg_parent_outcome (result : option Z) (sr : pg_subresult) (deeper : list pg_hid) : pg_outcome * pg_effects :=
  (if sr_done sr
   then mkPgOut true None None result (sr_keys sr ++ deeper)
   else mkPgOut false (Some "None") (sr_delay sr) None (sr_keys sr ++ deeper),
   mkPgEff (sr_trace sr) (sr_stores sr) (sr_delivered sr)).

(* A description of which top-level ids are parents: id -> (returned token, sub ids owned, sub ids selected). *)
Definition pg_family := pg_hid -> option (option Z * list pg_hid * list pg_hid).

Definition pg_children_oracle (body : list (pg_hid * pg_srec)) (reason : pg_reason) (lc : pg_lifecycle) (now : Z)
           (fam : pg_family) (leaf : pg_oracle) : pg_oracle :=
  fun k n =>
    match fam k with
    | None => leaf k n
    | Some (result, sub_owned, sub_selected) =>
        pg_parent_outcome result (pg_sub_execute body reason sub_owned sub_selected lc now leaf) []
    end.

(* Arbitrary nesting depth.  execution.invoke_handler sets subrefs_var to the containers of ALL enclosing levels plus
   the handler's own one; subhandling.execute adds every key of its state to every container.  Hence the set of a
   handler = the keys of its own sub-state + the sets of the sub-handlers invoked in this call (their outcomes'
   subrefs), at every depth.  [fuel] bounds the depth that is unfolded; theorems hold for every fuel. *)
Fixpoint pg_deep_oracle (fuel : nat) (body : list (pg_hid * pg_srec)) (reason : pg_reason) (lc : pg_lifecycle) (now : Z)
         (fam : pg_family) (leaf : pg_oracle) : pg_oracle :=
  fun k n =>
    match fuel, fam k with
    | S f, Some (result, sub_owned, sub_selected) =>
        let sr := pg_sub_execute body reason sub_owned sub_selected lc now (pg_deep_oracle f body reason lc now fam leaf) in
        pg_parent_outcome result sr (sr_deeper sr)
    | _, _ => leaf k n
    end.

(* every record on the object is a top-level one or referenced (subrefs) by a top-level one;
   [rec] is the object as a lookup: [fun s => pg_find s body] before a call, [pg_after body patch] after it *)
Definition pg_refs_closed (rec : pg_hid -> option pg_srec) (tops : list pg_hid) : Prop :=
  forall s, rec s <> None ->
    In s tops \/ exists k d, In k tops /\ rec k = Some d /\ In s (pg_or (s_subrefs d) []).

(* an oracle whose writes into the shared patch are all reported as sub-handler references *)
Definition pg_reports_stores (orc : pg_oracle) : Prop :=
  forall k n s, In s (map fst (e_stores (snd (orc k n)))) -> In s (o_subrefs (fst (orc k n))).

(* ------------------------------------------------------------------ comparison helpers for the differential *)
Definition pg_pact_eqb (a b : option pg_pact) : bool :=
  match a, b with
  | Some (PStore x), Some (PStore y) => pg_srec_eqb x y
  | Some PNull, Some PNull => true
  | None, None => true
  | _, _ => false
  end.

Definition pg_patch_view (p : pg_patch) (universe : list pg_hid) : list (option pg_pact) :=
  map (fun k => pg_find k p) universe.

Definition pg_inv_eqb := list_eqb (pair_eqb String.eqb Z.eqb).

Fixpoint pg_zinsert (x : Z) (l : list Z) : list Z :=
  match l with [] => [x] | y :: l' => if x <=? y then x :: l else y :: pg_zinsert x l' end.
Fixpoint pg_zsort (l : list Z) : list Z := match l with [] => [] | x :: l' => pg_zinsert x (pg_zsort l') end.

Definition pg_triple_eqb (a b : Z * Z * Z) : bool :=
  Z.eqb (fst (fst a)) (fst (fst b)) && Z.eqb (snd (fst a)) (snd (fst b)) && Z.eqb (snd a) (snd b).

(* the observable part of a result, order-insensitive where the code's order is a set/dict order *)
Definition pg_result_eqb (r : pg_result) (universe : list pg_hid)
           (invoked sub : list (pg_hid * Z)) (patch : list (option pg_pact)) (delivered : list (option Z))
           (done : option bool) (skip : bool) (delays : list Z) (diffbase fho : bool)
           (extras : list (string * (Z * Z * Z))) (processed : option (Z * Z)) : bool :=
  pg_inv_eqb (r_invoked r) invoked && pg_inv_eqb (r_sub r) sub &&
  list_eqb pg_pact_eqb (pg_patch_view (r_patch r) universe) patch &&
  list_eqb pg_oz_eqb (map (fun k => pg_find k (rev (r_delivered r))) universe) delivered &&
  Bool.eqb (r_skip r) skip &&
  list_eqb Z.eqb (pg_zsort (r_delays r)) (pg_zsort delays) &&
  Bool.eqb (r_diffbase r) diffbase && Bool.eqb (r_fho r) fho &&
  Nat.eqb (List.length (r_extras r)) (List.length extras) &&
  forallb (fun pc => match pg_find (fst pc) (r_extras r) with Some c => pg_triple_eqb c (snd pc) | None => false end) extras &&
  opt_eqb (pair_eqb Z.eqb Z.eqb) (match r_counts r with Some c => Some (fst c) | None => None end) processed &&
  pg_ob_eqb (r_done r) done &&
  forallb (fun ka => pg_mem (fst ka) universe) (r_patch r).

(* oracles and families given as finite tables (for the harness) *)
Definition pg_table_oracle (tbl : list (pg_hid * Z * pg_outcome)) (dflt : pg_outcome) : pg_oracle :=
  fun k n => (match find (fun e => String.eqb (fst (fst e)) k && Z.eqb (snd (fst e)) n) tbl with
              | Some e => snd e
              | None => dflt
              end, pg_no_effects).

Definition pg_table_family (tbl : list (pg_hid * (option Z * list pg_hid * list pg_hid))) : pg_hid -> option (option Z * list pg_hid * list pg_hid) :=
  fun k => pg_find k tbl.

Definition pg_hstate_eqb (a b : pg_hstate) : bool :=
  Bool.eqb (h_active a) (h_active b) && Z.eqb (h_started a) (h_started b) &&
  pg_oz_eqb (h_stopped a) (h_stopped b) && pg_oz_eqb (h_delayed a) (h_delayed b) &&
  pg_ostr_eqb (h_purpose a) (h_purpose b) && Z.eqb (h_retries a) (h_retries b) &&
  Bool.eqb (h_success a) (h_success b) && Bool.eqb (h_failure a) (h_failure b) &&
  pg_ostr_eqb (h_message a) (h_message b) && pg_ids_eqb (h_subrefs a) (h_subrefs b) &&
  opt_eqb pg_srec_eqb (h_origin a) (h_origin b).

(* a State as a map over a universe of ids + its purpose *)
Definition pg_state_eqb (st : pg_state) (universe : list pg_hid) (items : list (option pg_hstate))
           (purpose : option string) : bool :=
  list_eqb (opt_eqb pg_hstate_eqb) (map (fun k => pg_find k (st_items st)) universe) items &&
  pg_ostr_eqb (st_purpose st) purpose &&
  forallb (fun kv => pg_mem (fst kv) universe) (st_items st).

(* ------------------------------------------------------------------ the property's vocabulary on stored records *)
Definition pg_rec_finished (d : option pg_srec) : bool :=
  match d with Some r => pg_or (s_success r) false || pg_or (s_failure r) false | None => false end.

Definition pg_rec_retries (d : option pg_srec) : Z :=
  match d with Some r => pg_or (s_retries r) 0 | None => 0 end.

(* recorded as due later than now *)
Definition pg_rec_sleeping (now : Z) (d : option pg_srec) : bool :=
  negb (pg_rec_finished d) &&
  match d with Some r => match s_delayed r with Some t => now <? t | None => false end | None => false end.

(* ------------------------------------------------------------------ the in-memory part (inventory.ResourceMemory) *)
Record pg_memory := mkPgMem { m_listed : bool; m_fho : bool }.

(* process_changing_cause(memory=...) : the memory is only written, never read *)
Definition pg_process (mem : pg_memory) (body : list (pg_hid * pg_srec)) (owned : list pg_hid) (reason : pg_reason)
           (selected : list pg_hid) (lc : pg_lifecycle) (now : Z) (new_differs : bool) (orc : pg_oracle)
  : pg_result * pg_memory :=
  let r := pg_pipeline body owned reason selected lc now new_differs orc in
  (r, mkPgMem (m_listed mem) (m_fho mem || r_fho r)).

Definition pg_pure (orc : pg_oracle) : Prop := forall k n, e_stores (snd (orc k n)) = [].

(* the writes of an oracle never go to the top-level ids (sub-handler ids carry their parent's id as a prefix) *)
Definition pg_stores_apart (orc : pg_oracle) (tops : list pg_hid) : Prop :=
  forall k n s, In s (map fst (e_stores (snd (orc k n)))) -> ~ In s tops.

Definition pg_fam_apart (fam : pg_family) (tops : list pg_hid) : Prop :=
  forall k res so ss, fam k = Some (res, so, ss) -> forall s, In s so \/ In s ss -> ~ In s tops.

(* ------------------------------------------------------------------ several calls on the evolving object *)
(* an oracle that only returns outcomes (plain handlers) *)
Definition pg_quiet (orc : pg_oracle) : Prop := forall k n, snd (orc k n) = pg_no_effects.

(* the sub-registry's cause handlers are among its resource handlers *)
Definition pg_fam_wf (fam : pg_family) : Prop := forall k res so ss, fam k = Some (res, so, ss) -> incl ss so.

(* whatever an invocation writes over a record that says "finished" still says "finished" *)
Definition pg_keeps_finished (body : list (pg_hid * pg_srec)) (orc : pg_oracle) : Prop :=
  forall k n s r, In (s, r) (e_stores (snd (orc k n))) ->
                  pg_rec_finished (pg_find s body) = true -> pg_rec_finished (Some r) = true.

(* the records on the object after the patch was applied (merge): what the next call fetches *)
Definition pg_apply (body : list (pg_hid * pg_srec)) (p : pg_patch) : list (pg_hid * pg_srec) :=
  flat_map (fun k => match pg_after body p k with Some r => [(k, r)] | None => [] end)
           (pg_dedup (map fst p ++ map fst body)).

(* one call: the cause, the selection, the lifecycle, the instant, and the handlers' behaviour (which may read the object) *)
Record pg_call := mkPgCall {
  c_reason   : pg_reason;
  c_selected : list pg_hid;
  c_lc       : pg_lifecycle;
  c_now      : Z;
  c_nd       : bool;
  c_orc      : list (pg_hid * pg_srec) -> pg_oracle }.

Definition pg_call_result (owned : list pg_hid) (body : list (pg_hid * pg_srec)) (c : pg_call) : pg_result :=
  pg_pipeline body owned (c_reason c) (c_selected c) (c_lc c) (c_now c) (c_nd c) (c_orc c body).

Fixpoint pg_run_calls (owned : list pg_hid) (body : list (pg_hid * pg_srec)) (calls : list pg_call)
  : list pg_result * list (pg_hid * pg_srec) :=
  match calls with
  | [] => ([], body)
  | c :: cs =>
      let r := pg_call_result owned body c in
      let rest := pg_run_calls owned (pg_apply body (r_patch r)) cs in
      (r :: fst rest, snd rest)
  end.

(* every invocation of a call, of every depth *)
Definition pg_trace (r : pg_result) : list (pg_hid * Z) := r_invoked r ++ r_sub r.

(* a call that neither closes the cycle nor runs the supersession purge *)
Definition pg_calm (owned : list pg_hid) (body : list (pg_hid * pg_srec)) (c : pg_call) : Prop :=
  r_done (pg_call_result owned body c) <> Some true /\
  (pg_handler_reason (c_reason c) = true ->
   pg_has_extras (pg_prepare body owned (c_reason c) (c_selected c) (c_now c)) = false).

Fixpoint pg_all_calm (owned : list pg_hid) (body : list (pg_hid * pg_srec)) (calls : list pg_call) : Prop :=
  match calls with
  | [] => True
  | c :: cs => pg_calm owned body c /\ pg_all_calm owned (pg_apply body (r_patch (pg_call_result owned body c))) cs
  end.

(* the handlers that are due: selected, not recorded as finished, recorded delay elapsed *)
Definition pg_due (body : list (pg_hid * pg_srec)) (selected : list pg_hid) (now : Z) : list pg_hid :=
  filter (fun k => negb (pg_rec_finished (pg_find k body)) && negb (pg_rec_sleeping now (pg_find k body))) selected.

(* comparison of a run with what was observed (for the differential) *)
Definition pg_run_eqb (run : list pg_result * list (pg_hid * pg_srec)) (universe : list pg_hid)
           (traces : list (list (pg_hid * Z))) (final : list (option pg_srec)) : bool :=
  list_eqb pg_inv_eqb (map pg_trace (fst run)) traces &&
  list_eqb (opt_eqb pg_srec_eqb) (map (fun k => pg_find k (snd run)) universe) final &&
  forallb (fun kv => pg_mem (fst kv) universe) (snd run).
