(* The index-readiness gate: orchestration.spawn_missing_watchers (blocker + per-kind toggles),
   queueing.watcher (LISTED drops the kind's toggle; a toggle per first-seen object until readiness was
   seen once), processing.process_resource_event (index, drop own toggle, operator_indexed.wait_for(True)),
   aiotoggles.ToggleSet(all) (on = no toggle in the set, since nobody ever turns these toggles on),
   composed with aiotasks.Scheduler(limit=settings.queueing.worker_limit) (FIFO of pending coroutines,
   at most [limit] running tasks).  Labelled transition system; definitions only. *)
From Coq Require Import List Bool Arith.
Import ListNotations.

Inductive ophase :=
| PNew        (* no stream / no worker for the object *)
| PChecked    (* watcher: KeyError branch entered, operator_indexed.is_on() evaluated *)
| PToggled    (* watcher: per-object toggle created, worker not yet spawned *)
| PQueued     (* scheduler.spawn done: coroutine pending *)
| PRunning    (* worker task started; an event is being indexed *)
| PWaiting    (* indexed, own toggle dropped, at operator_indexed.wait_for(True) *)
| PPassed     (* process_resource_causes reached: handlers, daemons, timers may start *)
| PFailed.    (* index_resource raised for the event being processed (e.g. a when= callback of an @kopf.index handler):
                 the own toggle was dropped in the `finally` (fix c050920), the exception went to the error throttler,
                 process_resource_causes is NOT reached in this cycle; the worker lives on and idles *)

Record orec := mkO {
  ph : ophase;
  kind : nat;          (* the resource kind (watcher) of the object *)
  mk : bool;           (* a per-object toggle is (to be) made for this worker *)
  gated : bool;        (* the worker was given operator_indexed (not None) *)
  early : bool         (* ghost: first seen while its indexed kind had not been listed yet *)
}.
Definition o0 : orec := mkO PNew 0 false false false.

Record wrec := mkW {
  won : bool;          (* the watcher task exists *)
  windexed : bool;     (* resource in indexed_resources: resource_indexed toggle given *)
  armed : bool;        (* the watcher's local operator_indexed is still not None *)
  busy : option nat    (* the object whose first event the watcher is in the middle of multiplexing *)
}.
Definition w0 : wrec := mkW false false false None.

Record gst := mkG {
  blocker : bool;            (* "orchestration blocker" toggle in the set *)
  nblock : nat;              (* ghost: number of spawn_missing_watchers rounds so far *)
  rtog : list nat;           (* kinds whose toggle is in the set *)
  otog : list nat;           (* objects whose toggle is in the set *)
  wst : nat -> wrec;
  ost : nat -> orec;
  pend : nat -> list nat;    (* per watcher (each has its own Scheduler): Scheduler._pending_coros *)
  nrun : nat -> nat;         (* per watcher: len(Scheduler._running_tasks) *)
  nseen : nat -> nat;        (* ghost, per watcher: workers spawned and not yet retired *)
  listed : nat -> bool;      (* ghost: Bookmark.LISTED of the kind was handled at least once *)
  kinds : list nat;          (* ghost: the watchers created so far *)
  opened : bool              (* ghost: the toggle set was empty at some moment after the first round began *)
}.

Definition ginit : gst := mkG false 0 [] [] (fun _ => w0) (fun _ => o0) (fun _ => []) (fun _ => 0) (fun _ => 0) (fun _ => false) [] false.

Definition upd {A} (f : nat -> A) (x : nat) (v : A) : nat -> A := fun y => if Nat.eqb y x then v else f y.

(* ToggleSet(all).is_on() with toggles that are never turned on *)
Definition is_on (s : gst) : bool :=
  negb (blocker s) && match rtog s with [] => true | _ => false end && match otog s with [] => true | _ => false end.

Inductive label :=
| MakeBlocker                       (* spawn_missing_watchers: make_toggle("orchestration blocker") *)
| MakeRes (r : nat) (indexed : bool)(* ... make_toggle(resource) if indexed; create the watcher task *)
| DropBlocker                       (* ... drop_toggle(blocker) *)
| Listed (r : nat)                  (* watcher: Bookmark.LISTED -> drop_toggle(resource_indexed) *)
| SeenCheck (r o : nat) (on : bool)  (* watcher, new stream: `operator_indexed.is_on()` returned [on] -> maybe disarm *)
| SeenMake (r o : nat)              (* watcher: make_toggle(object) *)
| Spawn (r o : nat) (tg gt : bool)  (* watcher: streams[key] = ...; scheduler.spawn(worker(resource_indexed is not None = tg,
                                       operator_indexed is not None = gt)) *)
| Start (o : nat)                   (* scheduler: pending coroutine becomes a running task *)
| Indexed (o : nat)                 (* processor: index_resource done, drop_toggle(own) *)
| Pass (o : nat)                    (* processor: wait_for(True) returned -> process_resource_causes *)
| Retire (o : nat)                  (* worker: idle, exits; the stream is deleted *)
| IndexRaised (o : nat).            (* processor: index_resource raised; `finally`: drop_toggle(own); the exception leaves *)

Definition remove_nat (x : nat) (l : list nat) : list nat := filter (fun y => negb (Nat.eqb y x)) l.
Definition mem_nat (x : nat) (l : list nat) : bool := existsb (Nat.eqb x) l.

Definition phase_eqb (a b : ophase) : bool :=
  match a, b with
  | PNew, PNew | PChecked, PChecked | PToggled, PToggled | PQueued, PQueued
  | PRunning, PRunning | PWaiting, PWaiting | PPassed, PPassed | PFailed, PFailed => true
  | _, _ => false
  end.

Definition opt_nat_eqb (a : option nat) (b : nat) : bool := match a with Some x => Nat.eqb x b | None => false end.
Definition is_none {A} (a : option A) : bool := match a with None => true | _ => false end.

Definition set_w (s : gst) (r : nat) (w : wrec) : gst :=
  mkG (blocker s) (nblock s) (rtog s) (otog s) (upd (wst s) r w) (ost s) (pend s) (nrun s) (nseen s) (listed s) (kinds s) (opened s).
Definition set_o (s : gst) (o : nat) (x : orec) : gst :=
  mkG (blocker s) (nblock s) (rtog s) (otog s) (wst s) (upd (ost s) o x) (pend s) (nrun s) (nseen s) (listed s) (kinds s) (opened s).

(* the step without the ghost [opened] *)
Definition step0 (lim : option nat) (s : gst) (l : label) : option gst :=
  match l with
  | MakeBlocker =>
      if blocker s then None
      else Some (mkG true (S (nblock s)) (rtog s) (otog s) (wst s) (ost s) (pend s) (nrun s) (nseen s) (listed s) (kinds s) (opened s))
  | MakeRes r ix =>
      if blocker s && negb (won (wst s r))
      then Some (mkG true (nblock s) (if ix then r :: rtog s else rtog s) (otog s)
                     (upd (wst s) r (mkW true ix true None)) (ost s) (pend s) (nrun s) (nseen s)
                     (upd (listed s) r false) (r :: kinds s) (opened s))
      else None
  | DropBlocker =>
      if blocker s
      then Some (mkG false (nblock s) (rtog s) (otog s) (wst s) (ost s) (pend s) (nrun s) (nseen s) (listed s) (kinds s) (opened s))
      else None
  | Listed r =>
      let w := wst s r in
      if won w && is_none (busy w)
      then Some (mkG (blocker s) (nblock s) (remove_nat r (rtog s)) (otog s) (wst s) (ost s) (pend s) (nrun s) (nseen s)
                     (upd (listed s) r true) (kinds s) (opened s))
      else None
  | SeenCheck r o on =>
      let w := wst s r in
      if won w && armed w && is_none (busy w) && phase_eqb (ph (ost s o)) PNew && Bool.eqb on (is_on s)
      then let a := negb (is_on s) in
           Some (set_o (set_w s r (mkW true (windexed w) a (Some o))) o
                       (mkO PChecked r (a && windexed w) a (windexed w && negb (listed s r))))
      else None
  | SeenMake r o =>
      let w := wst s r in let x := ost s o in
      if opt_nat_eqb (busy w) o && phase_eqb (ph x) PChecked && mk x
      then let s' := set_o s o (mkO PToggled (kind x) (mk x) (gated x) (early x)) in
           Some (mkG (blocker s') (nblock s') (rtog s') (o :: otog s') (wst s') (ost s') (pend s') (nrun s') (nseen s')
                     (listed s') (kinds s') (opened s'))
      else None
  | Spawn r o tg gt =>
      let w := wst s r in let x := ost s o in
      if opt_nat_eqb (busy w) o && ((phase_eqb (ph x) PChecked && negb (mk x)) || phase_eqb (ph x) PToggled)
         && Bool.eqb tg (mk x) && Bool.eqb gt (gated x)
      then let s' := set_o (set_w s r (mkW (won w) (windexed w) (armed w) None)) o
                           (mkO PQueued (kind x) (mk x) (gated x) (early x)) in
           Some (mkG (blocker s') (nblock s') (rtog s') (otog s') (wst s') (ost s')
                     (upd (pend s') r (pend s' r ++ [o])) (nrun s') (upd (nseen s') r (S (nseen s' r)))
                     (listed s') (kinds s') (opened s'))
      else if won w && negb (armed w) && is_none (busy w) && phase_eqb (ph x) PNew && negb tg && negb gt
      then let s' := set_o s o (mkO PQueued r false false false) in
           Some (mkG (blocker s') (nblock s') (rtog s') (otog s') (wst s') (ost s')
                     (upd (pend s') r (pend s' r ++ [o])) (nrun s') (upd (nseen s') r (S (nseen s' r)))
                     (listed s') (kinds s') (opened s'))
      else None
  | Start o =>
      let r := kind (ost s o) in
      match pend s r with
      | o' :: rest =>
          if Nat.eqb o o' && phase_eqb (ph (ost s o)) PQueued
             && match lim with None => true | Some n => Nat.ltb (nrun s r) n end
          then let x := ost s o in
               let s' := set_o s o (mkO PRunning (kind x) (mk x) (gated x) (early x)) in
               Some (mkG (blocker s') (nblock s') (rtog s') (otog s') (wst s') (ost s')
                         (upd (pend s') r rest) (upd (nrun s') r (S (nrun s' r))) (nseen s')
                         (listed s') (kinds s') (opened s'))
          else None
      | [] => None
      end
  | Indexed o =>
      let x := ost s o in
      if phase_eqb (ph x) PRunning || phase_eqb (ph x) PPassed || phase_eqb (ph x) PFailed
      then let s' := set_o s o (mkO PWaiting (kind x) (mk x) (gated x) (early x)) in
           Some (mkG (blocker s') (nblock s') (rtog s') (remove_nat o (otog s')) (wst s') (ost s') (pend s') (nrun s') (nseen s')
                     (listed s') (kinds s') (opened s'))
      else None
  | Pass o =>
      let x := ost s o in
      if phase_eqb (ph x) PWaiting && (negb (gated x) || is_on s)
      then Some (set_o s o (mkO PPassed (kind x) (mk x) (gated x) (early x)))
      else None
  | Retire o =>
      let x := ost s o in
      let r := kind x in
      if (phase_eqb (ph x) PPassed || phase_eqb (ph x) PFailed) && Nat.ltb 0 (nrun s r)
      then let s' := set_o s o o0 in
           Some (mkG (blocker s') (nblock s') (rtog s') (otog s') (wst s') (ost s') (pend s')
                     (upd (nrun s') r (pred (nrun s' r))) (upd (nseen s') r (pred (nseen s' r)))
                     (listed s') (kinds s') (opened s'))
      else None
  | IndexRaised o =>
      let x := ost s o in
      if phase_eqb (ph x) PRunning || phase_eqb (ph x) PPassed || phase_eqb (ph x) PFailed
      then let s' := set_o s o (mkO PFailed (kind x) (mk x) (gated x) (early x)) in
           Some (mkG (blocker s') (nblock s') (rtog s') (remove_nat o (otog s')) (wst s') (ost s') (pend s') (nrun s') (nseen s')
                     (listed s') (kinds s') (opened s'))
      else None
  end.

Definition touch (s : gst) : gst :=
  mkG (blocker s) (nblock s) (rtog s) (otog s) (wst s) (ost s) (pend s) (nrun s) (nseen s) (listed s) (kinds s)
      (opened s || (is_on s && Nat.ltb 0 (nblock s))).

Definition gstep (lim : option nat) (s : gst) (l : label) : option gst := option_map touch (step0 lim s l).

Fixpoint grun (lim : option nat) (s : gst) (tr : list label) : option gst :=
  match tr with
  | [] => Some s
  | l :: t => match gstep lim s l with Some s' => grun lim s' t | None => None end
  end.

(* the labels by which the operator itself makes progress towards readiness (no new arrivals) *)
Definition progress_label (l : label) : bool :=
  match l with DropBlocker | Listed _ | Start _ | Indexed _ => true | _ => false end.

(* "every indexed kind made so far has been listed, every object first seen before that has been through index_resource":
   indexed (PWaiting / PPassed), or its indexing raised (PFailed: the property's "indexed once" cannot hold for an object
   whose filter callback raises; it is not indexed and no longer holds the others back) *)
Definition pending_phase (p : ophase) : bool :=
  match p with PChecked | PToggled | PQueued | PRunning => true | _ => false end.
Definition Ready (s : gst) : Prop :=
  blocker s = false /\
  (forall r, won (wst s r) = true -> windexed (wst s r) = true -> listed s r = true) /\
  (forall o, early (ost s o) = true -> pending_phase (ph (ost s o)) = false).

(* acceptor for label traces recorded from the implementation: position of the first rejected label *)
Fixpoint gaccept (lim : option nat) (s : gst) (tr : list label) (i : nat) : option nat :=
  match tr with
  | [] => None
  | l :: t => match gstep lim s l with Some s' => gaccept lim s' t (S i) | None => Some i end
  end.
Definition passed_count (s : gst) (objs : list nat) : nat :=
  List.length (filter (fun o => phase_eqb (ph (ost s o)) PPassed) objs).

Definition gfinal (lim : option nat) (tr : list label) : option (bool * bool) :=
  match grun lim ginit tr with Some s => Some (is_on s, opened s) | None => None end.

(* the finite quantity the operator's own progress consumes *)
Definition sum_pend (s : gst) : nat := fold_right (fun r acc => List.length (pend s r) + acc) 0 (kinds s).
Definition measure (s : gst) : nat :=
  (if blocker s then 1 else 0) + List.length (rtog s) + List.length (otog s) + sum_pend s.
Definition quiescent (s : gst) : Prop :=
  forall o, ph (ost s o) <> PChecked /\ ph (ost s o) <> PToggled.     (* no watcher is in the middle of a first event *)
Definition limit_ok (lim : option nat) (s : gst) : Prop :=
  match lim with None => True | Some n => forall r, nseen s r <= n end.

(* ---------- boolean readings used by the trace tie (restricted to the kinds / objects that occur) ---------- *)
Definition limit_okb (lim : option nat) (s : gst) (rs : list nat) : bool :=
  match lim with None => true | Some n => forallb (fun r => Nat.leb (nseen s r) n) rs end.
Definition quiescentb (s : gst) (os : list nat) : bool :=
  forallb (fun o => negb (phase_eqb (ph (ost s o)) PChecked || phase_eqb (ph (ost s o)) PToggled)) os.
(* the ghost flag [early] of every worker at the moment it is spawned *)
Fixpoint gearly (lim : option nat) (s : gst) (tr : list label) : list (nat * bool) :=
  match tr with
  | [] => []
  | l :: t =>
      match gstep lim s l with
      | Some s' => (match l with Spawn _ o _ _ => [(o, early (ost s' o))] | _ => [] end) ++ gearly lim s' t
      | None => []
      end
  end.
Definition nat_bool_eqb (a b : nat * bool) : bool := Nat.eqb (fst a) (fst b) && Bool.eqb (snd a) (snd b).
Fixpoint list_nb_eqb (a b : list (nat * bool)) : bool :=
  match a, b with
  | [], [] => true
  | x :: a', y :: b' => nat_bool_eqb x y && list_nb_eqb a' b'
  | _, _ => false
  end.
(* end-of-run cross-check: watchers idle (quiescent); live workers per watcher as observed; the observed early flags;
   and "the real gate stayed closed although everything was fed and listed" only where limit_ok fails (C17_gate_opens) *)
Definition gcheck (lim : option nat) (tr : list label) (rs os : list nat) (live : list nat)
           (earlies : list (nat * bool)) (judge_open real_on : bool) : bool :=
  match grun lim ginit tr with
  | Some s =>
      quiescentb s os
      && list_nb_eqb (gearly lim ginit tr) earlies
      && forallb (fun p => Nat.eqb (nseen s (fst p)) (snd p)) (combine rs live)
      && (negb judge_open || real_on || negb (limit_okb lim s rs))
  | None => false
  end.
