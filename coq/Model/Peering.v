(* kopf/_core/engines/peering.py : Peer, process_peering_event, touch, clean, keepalive's period.
   Definitions only (no proofs).  Times are integer MILLISECONDS relative to the harness epoch,
   lifetimes integer SECONDS (as in the peering records).
   Oracles (third-party / interpreter functions, supplied per case by the harness, quantified in
   the theorems):  [oint]  = Python's int(str)        (None = ValueError)
                   [odate] = iso8601.parse_date(str)  (None = ParseError, a ValueError)  in ms.
   JEnc never occurs in peering inputs (the harness encodes with coqio.cjson); it is treated as
   a str that is neither a number nor a date. *)
From Coq Require Import ZArith List String Bool.
From KV Require Import Base.Json.
Import ListNotations.
Open Scope string_scope.
Open Scope Z_scope.
Open Scope list_scope.

(* ---------- Python exceptions that the code can raise on a status content ---------- *)
Inductive exn := TypeError | ValueError | OverflowError | AttributeError | ApiError.

Inductive pres (A : Type) : Type :=
| POk (a : A)
| PErr (e : exn).
Arguments POk {A} a.
Arguments PErr {A} e.

Definition pbind {A B} (r : pres A) (f : A -> pres B) : pres B :=
  match r with POk a => f a | PErr e => PErr e end.

Definition exn_eqb (a b : exn) : bool :=
  match a, b with
  | TypeError, TypeError | ValueError, ValueError | OverflowError, OverflowError
  | AttributeError, AttributeError | ApiError, ApiError => true
  | _, _ => false
  end.

(* oracle tables as the harness supplies them *)
Definition otab := list (string * option Z).
Definition tab_fn (t : otab) (s : string) : option Z :=
  match lookup s t with Some r => r | None => None end.

(* ---------- limits of datetime / timedelta (OverflowError beyond) ---------- *)
(* timedelta(seconds=n): |days| <= 999999999 *)
Definition td_min_s : Z := -86399999913600.
Definition td_max_s : Z := 86399999999999.
(* datetime.min / datetime.max in ms relative to the harness epoch 2030-01-01T00:00:00Z *)
Definition dt_min_ms : Z := -64029052800000.
Definition dt_max_ms : Z := 251508844799999.

Definition td_ok (life : Z) : bool := (td_min_s <=? life) && (life <=? td_max_s).
Definition dt_ok (t : Z) : bool := (dt_min_ms <=? t) && (t <=? dt_max_ms).

(* ---------- class Peer ---------- *)
Record peer := mkPeer {
  p_id : string;
  p_prio : json;        (* stored as given: never validated by Peer.__init__ *)
  p_life : Z;           (* seconds *)
  p_seen : Z;           (* ms *)
  p_deadline : Z;       (* ms *)
  p_dead : bool;        (* deadline <= now at construction *)
}.

(* int(x) for a JSON-like x *)
Definition py_int (oint : string -> option Z) (j : json) : pres Z :=
  match j with
  | JNum z => POk z
  | JBool b => POk (if b then 1 else 0)
  | JStr s => match oint s with Some z => POk z | None => PErr ValueError end
  | JEnc _ => PErr ValueError
  | JNull | JList _ | JObj _ => PErr TypeError
  end.

(* lastseen: None -> now; str -> iso8601.parse_date; anything else: ParseError (wraps the TypeError) *)
Definition py_lastseen (odate : string -> option Z) (now : Z) (j : option json) : pres Z :=
  match j with
  | None | Some JNull => POk now
  | Some (JStr s) => match odate s with Some t => POk t | None => PErr ValueError end
  | Some _ => PErr ValueError
  end.

Definition dflt (d : json) (o : option json) : json := match o with Some v => v | None => d end.

(* Peer(identity=id, **opinfo) evaluated at wall-clock [now] *)
Definition mk_peer (oint odate : string -> option Z) (now : Z) (id : string) (info : json) : pres peer :=
  match info with
  | JObj o =>
      (* keyword binding: 'identity' given twice, 'self' collides with the bound method's self *)
      if has "identity" o || has "self" o then PErr TypeError else
      let prio := dflt (JNum 0) (lookup "priority" o) in
      pbind (py_int oint (dflt (JNum 60) (lookup "lifetime" o))) (fun life =>
      if negb (td_ok life) then PErr OverflowError else
      pbind (py_lastseen odate now (lookup "lastseen" o)) (fun seen =>
      let dl := seen + life * 1000 in
      if negb (dt_ok dl) then PErr OverflowError else
      POk (mkPeer id prio life seen dl (dl <=? now))))
  | _ => PErr TypeError            (* argument after ** must be a mapping *)
  end.

Fixpoint mk_peers (oint odate : string -> option Z) (now : Z) (kvs : list (string * json)) : pres (list peer) :=
  match kvs with
  | [] => POk []
  | (id, info) :: rest =>
      pbind (mk_peer oint odate now id info) (fun p =>
      pbind (mk_peers oint odate now rest) (fun ps => POk (p :: ps)))
  end.

(* ---------- Python comparisons of a stored priority with the own (int) priority ---------- *)
Definition py_gt_int (j : json) (own : Z) : pres bool :=
  match num_of j with Some z => POk (own <? z) | None => PErr TypeError end.
Definition py_eq_int (j : json) (own : Z) : bool :=
  match num_of j with Some z => z =? own | None => false end.

(* [peer for peer in live if peer.priority > own] : raises at the first incomparable one *)
Fixpoint filter_gt (own : Z) (l : list peer) : pres (list peer) :=
  match l with
  | [] => POk []
  | p :: l' =>
      pbind (py_gt_int (p_prio p) own) (fun b =>
      pbind (filter_gt own l') (fun r => POk (if b then p :: r else r)))
  end.

(* ---------- settings + call arguments ---------- *)
Record cfg := mkCfg {
  c_id : string;          (* identity *)
  c_prio : Z;             (* settings.peering.priority *)
  c_life : Z;             (* settings.peering.lifetime, seconds *)
  c_name : string;        (* settings.peering.name *)
  c_autoclean : bool;
}.

Definition min_list (l : list Z) : option Z :=
  match l with
  | [] => None
  | x :: l' => Some (fold_left Z.min l' x)
  end.

(* the classification of the parsed peers *)
Definition dead_of (ps : list peer) : list peer := filter p_dead ps.
Definition live_of (me : string) (ps : list peer) : list peer :=
  filter (fun p => negb (p_dead p) && negb (String.eqb (p_id p) me)) ps.
Definition same_of (own : Z) (live : list peer) : list peer :=
  filter (fun p => py_eq_int (p_prio p) own) live.

(* What one call of process_peering_event does, in order (each item is one awaited effect). *)
Record outcome := mkOutcome {
  o_clean : list string;     (* ids set to None by the clean() PATCH; [] = no PATCH *)
  o_turn : option bool;      (* Some b = conflicts_found.turn_to(b) was called *)
  o_toggle : option bool;    (* state of conflicts_found afterwards (None = no toggle given) *)
  o_wake : option Z;         (* None: nothing to wait for, no touch.
                                Some w: blockers exist; w = earliest blocker deadline (ms);
                                sleeps until w if w > now1 (interruptible), then touch(self). *)
}.

(* the decision on already parsed peers; now1 is unused here (kept by [process]) *)
Definition decide_peers (c : cfg) (toggle0 : option bool) (ps : list peer) : pres outcome :=
  let dead := dead_of ps in
  let live := live_of (c_id c) ps in
  pbind (filter_gt (c_prio c) live) (fun prio =>
  let same := same_of (c_prio c) live in
  let clean := if c_autoclean c then map p_id dead else [] in
  let blocked := match prio, same with [], [] => false | _, _ => true end in
  let turn := match toggle0 with
              | None => None
              | Some t => if Bool.eqb t blocked then None else Some blocked
              end in
  let toggle := match toggle0 with None => None | Some _ => Some blocked end in
  POk (mkOutcome clean turn toggle (min_list (map p_deadline (same ++ prio))))).

(* body.get('status', {}) then .items() *)
Definition status_items (status : option json) : pres (list (string * json)) :=
  match status with
  | None => POk []
  | Some (JObj kvs) => POk kvs
  | Some _ => PErr AttributeError
  end.

(* process_peering_event up to the sleep: [name] = meta.get('name'); [now0] the wall clock while
   parsing (no await in between), None result = "not ours", silently ignored *)
Definition process (oint odate : string -> option Z) (c : cfg) (toggle0 : option bool)
           (name : option string) (status : option json) (now0 : Z) : pres (option outcome) :=
  if negb (match name with Some n => String.eqb n (c_name c) | None => false end) then POk None else
  pbind (status_items status) (fun kvs =>
  pbind (mk_peers oint odate now0 kvs) (fun ps =>
  pbind (decide_peers c toggle0 ps) (fun o => POk (Some o)))).

(* The sleep and the self-touch.  [now1] = wall clock after clean/turn_to;
   [interrupt] = Some t when stream_pressure gets set at t (t <= now1: already set on entry).
   Result: Some t = touch(self) is issued at t;  None = no touch. *)
Definition touch_time (o : outcome) (now1 : Z) (interrupt : option Z) : option Z :=
  match o_wake o with
  | None => None
  | Some w =>
      if w <=? now1 then Some now1                 (* minimal_delay <= 0: no sleep at all, touch *)
      else match interrupt with
           | Some t => if t <? w then None else Some w
           | None => Some w
           end
  end.

(* ---------- touch(): the record written for oneself ---------- *)
(* None = the PATCH carries null for the own identity (lifetime <= 0: "dead" at construction) *)
Definition touch_record (c : cfg) (lifetime : option Z) (now : Z) : option (Z * Z * Z) :=
  let life := match lifetime with Some l => l | None => c_life c end in
  if (now + life * 1000 <=? now) then None else Some (c_prio c, life, now).

(* ---------- keepalive(): seconds slept between two touches ---------- *)
Definition ka_period (life jitter : Z) : Z := Z.max 1 (Z.min life (Z.max 1 (life - jitter))).

(* ---------- comparison helpers for the generated case files ---------- *)
Definition pres_eqb {A} (eqb : A -> A -> bool) (x y : pres A) : bool :=
  match x, y with
  | POk a, POk b => eqb a b
  | PErr e, PErr f => exn_eqb e f
  | _, _ => false
  end.

Definition obool_eqb (x y : option bool) : bool :=
  match x, y with Some a, Some b => Bool.eqb a b | None, None => true | _, _ => false end.
Definition oZ_eqb (x y : option Z) : bool :=
  match x, y with Some a, Some b => Z.eqb a b | None, None => true | _, _ => false end.
Fixpoint strs_eqb (x y : list string) : bool :=
  match x, y with
  | [], [] => true
  | a :: x', b :: y' => String.eqb a b && strs_eqb x' y'
  | _, _ => false
  end.

Definition outcome_eqb (a b : outcome) : bool :=
  strs_eqb (o_clean a) (o_clean b) && obool_eqb (o_turn a) (o_turn b)
  && obool_eqb (o_toggle a) (o_toggle b) && oZ_eqb (o_wake a) (o_wake b).

Definition ooutcome_eqb (a b : option outcome) : bool :=
  match a, b with Some x, Some y => outcome_eqb x y | None, None => true | _, _ => false end.

Definition rec_eqb (a b : option (Z * Z * Z)) : bool :=
  match a, b with
  | Some (p, l, s), Some (p', l', s') => (p =? p') && (l =? l') && (s =? s')
  | None, None => true
  | _, _ => false
  end.

(* ---------- the log line of the equal-priority branch ---------- *)
(* `logger.warning(f"Pausing all operators, including self: {peers}")` formats EVERY parsed peer (dead ones
   and oneself included); Peer.__repr__ -> as_dict() -> int(self.priority) raises on a priority that is
   not int-convertible.  It is evaluated only when no higher-priority peer exists, a same-priority one
   does, and the toggle is off; the exception aborts the call after clean() and BEFORE turn_to(). *)
Fixpoint first_int_error (oint : string -> option Z) (ps : list peer) : option exn :=
  match ps with
  | [] => None
  | p :: ps' => match py_int oint (p_prio p) with PErr e => Some e | POk _ => first_int_error oint ps' end
  end.

Definition num_gt (own : Z) (p : peer) : bool :=
  match num_of (p_prio p) with Some z => own <? z | None => false end.

Definition log_raises (oint : string -> option Z) (c : cfg) (toggle0 : option bool) (ps : list peer) : option exn :=
  let live := live_of (c_id c) ps in
  match toggle0 with
  | Some false =>
      if forallb (fun p => negb (num_gt (c_prio c) p)) live
         && match same_of (c_prio c) live with [] => false | _ => true end
      then first_int_error oint ps else None
  | _ => None
  end.

Definition parsed_peers (oint odate : string -> option Z) (status : option json) (now0 : Z) : list peer :=
  match status_items status with
  | POk kvs => match mk_peers oint odate now0 kvs with POk ps => ps | PErr _ => [] end
  | PErr _ => []
  end.

(* ---------- one whole call as the harness observes it ---------- *)
(* The awaited effects in order: the clean() PATCH, conflicts_found.turn_to(), the sleep, the
   touch() PATCH.  [lat] = virtual ms the clean PATCH takes (the wall clock is read again after
   it); [fail] = index of the PATCH call (0-based, within this event) that raises. *)
Inductive obs :=
| ObsClean (ids : list string)
| ObsTurn (b : bool)
| ObsTouch (t : Z) (r : option (Z * Z * Z)).

Definition obs_eqb (a b : obs) : bool :=
  match a, b with
  | ObsClean x, ObsClean y => strs_eqb x y
  | ObsTurn x, ObsTurn y => Bool.eqb x y
  | ObsTouch t r, ObsTouch t' r' => (t =? t') && rec_eqb r r'
  | _, _ => false
  end.

Definition onat_eqb (x : option nat) (n : nat) : bool :=
  match x with Some m => Nat.eqb m n | None => false end.

Definition run_event (oint odate : string -> option Z) (c : cfg) (toggle0 : option bool)
           (name : option string) (status : option json) (now0 lat : Z)
           (interrupt : option Z) (fail : option nat) : list obs * option exn :=
  match process oint odate c toggle0 name status now0 with
  | PErr e => ([], Some e)
  | POk None => ([], None)
  | POk (Some o) =>
      let has_clean := match o_clean o with [] => false | _ => true end in
      let pre := if has_clean then [ObsClean (o_clean o)] else [] in
      if has_clean && onat_eqb fail 0 then (pre, Some ApiError) else
      match log_raises oint c toggle0 (parsed_peers oint odate status now0) with
      | Some e => (pre, Some e)
      | None =>
      let now1 := if has_clean then now0 + lat else now0 in
      let turn := match o_turn o with Some b => [ObsTurn b] | None => [] end in
      match touch_time o now1 interrupt with
      | None => (pre ++ turn, None)
      | Some t =>
          let idx := if has_clean then 1%nat else 0%nat in
          (pre ++ turn ++ [ObsTouch t (touch_record c None t)],
           if onat_eqb fail idx then Some ApiError else None)
      end
      end
  end.

Fixpoint obss_eqb (x y : list obs) : bool :=
  match x, y with
  | [], [] => true
  | a :: x', b :: y' => obs_eqb a b && obss_eqb x' y'
  | _, _ => false
  end.

Definition oexn_eqb (x y : option exn) : bool :=
  match x, y with Some a, Some b => exn_eqb a b | None, None => true | _, _ => false end.

Definition run_eqb (a b : list obs * option exn) : bool :=
  obss_eqb (fst a) (fst b) && oexn_eqb (snd a) (snd b).
