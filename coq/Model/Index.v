(* kopf/_core/engines/indexing.py : Store, Index (_replace/_discard), OperatorIndexer(s).replace/discard,
   and index_resource's decision which handlers run and how their outcomes are interpreted.
   Definitions only.  Python dicts are insertion-ordered association lists (assignment to an existing
   key keeps its position, a new key is appended, deletion removes); Python sets are lists whose order
   is never observable.  Python exceptions are visible as [ErrKey] (KeyError). *)
From Coq Require Import ZArith List String Bool.
From KV Require Import Base.Json Base.Dicts Base.Harness.
Import ListNotations.
Open Scope list_scope.

(* ---------- ordered dictionaries over any key type ---------- *)
Section Assoc.
  Context {A B : Type} (eqb : A -> A -> bool).

  Fixpoint aget (k : A) (l : list (A * B)) : option B :=
    match l with
    | [] => None
    | (k', v) :: l' => if eqb k k' then Some v else aget k l'
    end.

  (* d[k] = v *)
  Fixpoint aset (k : A) (v : B) (l : list (A * B)) : list (A * B) :=
    match l with
    | [] => [(k, v)]
    | (k', v') :: l' => if eqb k k' then (k', v) :: l' else (k', v') :: aset k v l'
    end.

  (* del d[k] / d.pop(k, None) *)
  Fixpoint adel (k : A) (l : list (A * B)) : list (A * B) :=
    match l with
    | [] => []
    | (k', v') :: l' => if eqb k k' then adel k l' else (k', v') :: adel k l'
    end.
End Assoc.

(* ---------- sets as lists ---------- *)
Section LSet.
  Context {A : Type} (eqb : A -> A -> bool).
  Definition lmem (k : A) (l : list A) : bool := existsb (eqb k) l.
  Definition ladd (k : A) (l : list A) : list A := if lmem k l then l else l ++ [k].
  Definition lrem (k : A) (l : list A) : list A := filter (fun x => negb (eqb k x)) l.
  Definition ldiff (l m : list A) : list A := filter (fun x => negb (lmem x m)) l.
End LSet.

Definition is_nil {A} (l : list A) : bool := match l with [] => true | _ => false end.

Section Index.
  (* O: identity of an object = OperatorIndexers.make_key(body) = (namespace, name, uid);
     K: index keys; V: indexed values with Python's [!=] given as [veqb] (True == 1 !). *)
  Context {O K V : Type} (oeqb : O -> O -> bool) (keqb : K -> K -> bool) (veqb : V -> V -> bool).

  Definition store := list (O * V).                       (* Store.__items *)

  (* Store._discard *)
  Definition store_discard (o : O) (st : store) : store := adel oeqb o st.

  (* Store._replace: "only update if really changed" *)
  Definition store_replace (o : O) (v : V) (st : store) : store :=
    match aget oeqb o st with
    | Some v' => if veqb v' v then st else aset oeqb o v st
    | None => aset oeqb o v st
    end.

  Record index := mkIndex {
    items : list (K * store);          (* Index.__items   : key -> Store *)
    rev_of : list (O * list K)         (* Index.__reverse : object -> set of keys *)
  }.
  Definition index_empty : index := mkIndex [] [].

  (* one iteration of the loop of Index._discard *)
  Definition discard_step (o : O) (acc : res index) (k : K) : res index :=
    bind acc (fun idx =>
      match aget keqb k (items idx) with
      | None => ErrKey                                            (* store = self.__items[obj_key] *)
      | Some st =>
          let st' := store_discard o st in
          let items' := if is_nil st' then adel keqb k (items idx) else aset keqb k st' (items idx) in
          match aget oeqb o (rev_of idx) with
          | None => ErrKey                                        (* self.__reverse[acckey].discard(...) *)
          | Some ks => Ok (mkIndex items' (aset oeqb o (lrem keqb k ks) (rev_of idx)))
          end
      end).

  (* Index._discard(acckey, obj_keys=None) *)
  Definition index_discard (o : O) (oks : option (list K)) (idx : index) : res index :=
    match aget oeqb o (rev_of idx) with
    | None => Ok idx
    | Some ks0 =>
        let ks := match oks with Some ks => ks | None => ks0 end in
        bind (fold_left (discard_step o) ks (Ok idx)) (fun idx' =>
          match aget oeqb o (rev_of idx') with
          | None => ErrKey
          | Some [] => Ok (mkIndex (items idx') (adel oeqb o (rev_of idx')))
          | Some _ => Ok idx'
          end)
    end.

  (* one iteration of the first loop of Index._replace *)
  Definition replace_step (o : O) (idx : index) (kv : K * V) : index :=
    let (k, v) := kv in
    let st := match aget keqb k (items idx) with Some st => st | None => [] end in
    let ks := match aget oeqb o (rev_of idx) with Some ks => ks | None => [] end in
    mkIndex (aset keqb k (store_replace o v st) (items idx))
            (aset oeqb o (ladd keqb k ks) (rev_of idx)).

  (* Index._replace(acckey, obj) *)
  Definition index_replace (o : O) (obj : list (K * V)) (idx : index) : res index :=
    let idx0 := match aget oeqb o (rev_of idx) with
                | Some _ => idx
                | None => mkIndex (items idx) (aset oeqb o [] (rev_of idx))
                end in
    let idx1 := fold_left (replace_step o) obj idx0 in
    let ks := match aget oeqb o (rev_of idx1) with Some ks => ks | None => [] end in
    index_discard o (Some (ldiff keqb ks (map fst obj))) idx1.

  (* ---------- OperatorIndexer / OperatorIndexers ---------- *)

  (* What a handler returned: a Mapping, or anything else (stored under the key None). *)
  Inductive result := RMap (m : list (K * V)) | RScalar (v : V).

  (* execution.Outcome as far as OperatorIndexers.replace looks at it *)
  Inductive outcome :=
  | OExc                      (* outcome.exception is not None *)
  | ORes (r : result)         (* outcome.result is not None *)
  | OKeep.                    (* neither: the handler returned None, or its error was ignored *)

  Variable knone : K.          (* the index key None *)

  (* OperatorIndexer.replace: obj if isinstance(obj, Mapping) else {None: obj} *)
  Definition indexer_replace (o : O) (r : result) (idx : index) : res index :=
    index_replace o (match r with RMap m => m | RScalar v => [(knone, v)] end) idx.

  Definition indexer_discard (o : O) (idx : index) : res index := index_discard o None idx.

  Definition indexers := list (string * index).             (* OperatorIndexers: handler id -> indexer *)

  (* OperatorIndexers.discard(body) *)
  Fixpoint indexers_discard (o : O) (ixs : indexers) : res indexers :=
    match ixs with
    | [] => Ok []
    | (h, idx) :: t =>
        bind (indexer_discard o idx) (fun idx' =>
        bind (indexers_discard o t) (fun t' => Ok ((h, idx') :: t')))
    end.

  (* first loop of OperatorIndexers.replace: for id, outcome in outcomes.items() *)
  Fixpoint apply_outcomes (o : O) (outs : list (string * outcome)) (ixs : indexers) : res indexers :=
    match outs with
    | [] => Ok ixs
    | (h, oc) :: t =>
        match aget String.eqb h ixs with
        | None => match oc with OKeep => apply_outcomes o t ixs | _ => ErrKey end   (* self[id] *)
        | Some idx =>
            let r := match oc with
                     | OExc => indexer_discard o idx
                     | ORes x => indexer_replace o x idx
                     | OKeep => Ok idx
                     end in
            bind r (fun idx' => apply_outcomes o t (aset String.eqb h idx' ixs))
        end
    end.

  (* second loop: for id, indexer in self.items(): if id not in outcomes: discard *)
  Fixpoint purge_absent (o : O) (outs : list (string * outcome)) (ixs : indexers) : res indexers :=
    match ixs with
    | [] => Ok []
    | (h, idx) :: t =>
        bind (match aget String.eqb h outs with
              | Some _ => Ok idx
              | None => indexer_discard o idx
              end) (fun idx' =>
        bind (purge_absent o outs t) (fun t' => Ok ((h, idx') :: t')))
    end.

  Definition indexers_replace (o : O) (outs : list (string * outcome)) (ixs : indexers) : res indexers :=
    bind (apply_outcomes o outs ixs) (purge_absent o outs).

  (* what OperatorIndexers.replace must do to the index of one handler, by the handler's outcome
     (None = the handler is not among the outcomes: filter mismatch, sleeping after an error, failed for good) *)
  Definition outcome_effect (o : O) (oc : option outcome) (idx : index) : res index :=
    match oc with
    | Some OExc => indexer_discard o idx
    | Some (ORes r) => indexer_replace o r idx
    | Some OKeep => Ok idx
    | None => indexer_discard o idx
    end.

  (* ---------- index_resource: which handlers run, and with which outcome ---------- *)

  (* what the user's index function does when it is called (oracle) *)
  Inductive action :=
  | AResult (r : result)
  | ANone                          (* returns None *)
  | ATemp (delay : option Z)       (* raises TemporaryError(delay=...) *)
  | APerm                          (* raises PermanentError *)
  | AArb.                          (* raises any other exception *)

  Inductive errmode := EIgnored | ETemporary | EPermanent.

  Record hcfg := mkHcfg {
    h_id : string;
    h_errors : option errmode;     (* errors=...; None -> default_errors = IGNORED *)
    h_retries : option Z;          (* retries=... *)
    h_backoff : Z                  (* backoff or settings.execution.default_backoff, seconds *)
  }.

  (* HandlerState kept in IndexingMemory.indexing_state: only failures & retries are kept *)
  Record hstate := mkHstate {
    s_retries : Z;
    s_delayed : option Z;          (* absolute time, seconds *)
    s_failure : bool
  }.
  Definition memory := list (string * hstate).

  Definition awakened (now : Z) (s : hstate) : bool :=
    negb (s_failure s) && negb (match s_delayed s with Some d => (now <? d)%Z | None => false end).

  (* what execute_handler_once makes of one invocation: (outcome for the indexers, new state if kept) *)
  Definition exec_once (now : Z) (h : hcfg) (s : hstate) (a : action) : outcome * option hstate :=
    let n := s_retries s in
    let failed := (OExc, Some (mkHstate (n + 1) None true)) in
    let retry d := (OExc, Some (mkHstate (n + 1) (match d with Some x => Some (now + x)%Z | None => None end) false)) in
    let lookahead := match h_retries h with Some r => (r <=? n + 1)%Z | None => false end in
    if match h_retries h with Some r => (r <=? n)%Z | None => false end
    then failed                                                  (* HandlerRetriesError before the call *)
    else match a with
         | AResult r => (ORes r, None)
         | ANone => (OKeep, None)
         | ATemp d => if lookahead then failed else retry d
         | APerm => failed
         | AArb =>
             match h_errors h with
             | None | Some EIgnored => (OKeep, None)
             | Some ETemporary => if lookahead then failed else retry (Some (h_backoff h))
             | Some EPermanent => failed
             end
         end.

  Definition fresh : hstate := mkHstate 0 None false.

  (* the loop of execute_handlers_once over the matching handlers, in registration order *)
  Fixpoint run_handlers (now : Z) (hs : list hcfg) (matches : string -> bool) (script : string -> action)
           (mem : memory) : list (string * outcome) * memory :=
    match hs with
    | [] => ([], mem)
    | h :: t =>
        if matches (h_id h) then
          let s := match aget String.eqb (h_id h) mem with Some s => s | None => fresh end in
          if awakened now s then
            let (oc, s') := exec_once now h s (script (h_id h)) in
            let mem' := match s' with
                        | Some x => aset String.eqb (h_id h) x mem
                        | None => adel String.eqb (h_id h) mem           (* without_successes *)
                        end in
            let (outs, mem'') := run_handlers now t matches script mem' in
            ((h_id h, oc) :: outs, mem'')
          else
            (* sleeping or failed for good: kept in the state, not invoked (a fresh state is always awake) *)
            run_handlers now t matches script mem
        else run_handlers now t matches script mem
    end.

  (* index_resource for an indexed resource kind *)
  Definition index_event (now : Z) (hs : list hcfg) (deleted : bool) (o : O)
             (matches : string -> bool) (script : string -> action)
             (ixs : indexers) (mem : memory) : res (indexers * memory) :=
    if is_nil hs then Ok (ixs, mem)
    else if deleted then bind (indexers_discard o ixs) (fun ixs' => Ok (ixs', mem))
    else
      let (outs, mem') := run_handlers now hs matches script mem in
      bind (indexers_replace o outs ixs) (fun ixs' => Ok (ixs', mem')).

  (* ---------- the read-only views ---------- *)
  (* list(index) ; list(index[k]) ; what the object contributes *)
  Definition view_keys (idx : index) : list K := map fst (items idx).
  Definition view_store (k : K) (idx : index) : option (list V) :=
    match aget keqb k (items idx) with Some st => Some (map snd st) | None => None end.
  Definition get_val (idx : index) (k : K) (o : O) : option V :=
    match aget keqb k (items idx) with Some st => aget oeqb o st | None => None end.
  Definition get_rev (idx : index) (o : O) (k : K) : bool :=
    match aget oeqb o (rev_of idx) with Some ks => lmem keqb k ks | None => false end.

  (* ---------- the abstract specification: a reference map  object -> key -> value ---------- *)
  Inductive gop := GReplace (o : O) (obj : list (K * V)) | GDiscard (o : O).
  Definition gop_run (idx : index) (op : gop) : res index :=
    match op with
    | GReplace o obj => index_replace o obj idx
    | GDiscard o => index_discard o None idx
    end.
  Fixpoint gops_run (idx : index) (ops : list gop) : res index :=
    match ops with
    | [] => Ok idx
    | op :: t => bind (gop_run idx op) (fun i => gops_run i t)
    end.

  Definition refmap := O -> K -> option V.
  Definition abs (idx : index) : refmap := fun o k => get_val idx k o.

  (* Store._replace keeps the old value when it is == to the new one *)
  Definition upd_val (old : option V) (v : V) : V :=
    match old with Some v' => if veqb v' v then v' else v | None => v end.

  (* what the code does to the reference map (with the ==-guard) ... *)
  Definition spec_op (R : refmap) (op : gop) : refmap :=
    match op with
    | GReplace o obj => fun o' k =>
        if oeqb o' o then match aget keqb k obj with Some v => Some (upd_val (R o k) v) | None => None end
        else R o' k
    | GDiscard o => fun o' k => if oeqb o' o then None else R o' k
    end.
  (* ... and what the property text says: the latest result of the object, nothing of a discarded object *)
  Definition latest_op (R : refmap) (op : gop) : refmap :=
    match op with
    | GReplace o obj => fun o' k => if oeqb o' o then aget keqb k obj else R o' k
    | GDiscard o => fun o' k => if oeqb o' o then None else R o' k
    end.
  Definition op_wf (op : gop) : Prop :=
    match op with GReplace _ obj => NoDup (map fst obj) | GDiscard _ => True end.     (* a Mapping has unique keys *)

  (* ---------- the documented rules, per (event, index function) ---------- *)
  Inductive rule := RSet (r : result) | RKeep | RDrop.
  Definition result_map (r : result) : list (K * V) := match r with RMap m => m | RScalar v => [(knone, v)] end.
  Definition state_of (mem : memory) (h : hcfg) : hstate :=
    match aget String.eqb (h_id h) mem with Some x => x | None => fresh end.
  (* deleted -> removed; filter mismatch -> removed; excluded after an error (sleeping / failed for good) -> removed;
     otherwise by what the invocation gives: result -> set, None or ignored error -> kept, error -> removed *)
  Definition rule_of (now : Z) (h : hcfg) (mem : memory) (deleted : bool)
             (matches : string -> bool) (script : string -> action) : rule :=
    if deleted then RDrop
    else if negb (matches (h_id h)) then RDrop
    else let x := state_of mem h in
         if negb (awakened now x) then RDrop
         else match fst (exec_once now h x (script (h_id h))) with
              | OExc => RDrop
              | ORes r => RSet r
              | OKeep => RKeep
              end.
  Definition rule_spec (o : O) (ru : rule) (R : refmap) : refmap :=
    match ru with
    | RSet r => spec_op R (GReplace o (result_map r))
    | RKeep => R
    | RDrop => spec_op R (GDiscard o)
    end.
  Definition script_wf (script : string -> action) : Prop :=
    forall h m, script h = AResult (RMap m) -> NoDup (map fst m).        (* a Mapping has unique keys *)

  (* ---------- histories: index_resource per event, memories per object, forgotten on DELETED ---------- *)
  Record event := mkEvent {
    e_now : Z; e_deleted : bool; e_obj : O; e_matches : string -> bool; e_script : string -> action
  }.
  Definition hist_state := (indexers * (O -> memory))%type.
  Definition event_run (hs : list hcfg) (st : hist_state) (e : event) : res hist_state :=
    let (ixs, mems) := st in
    bind (index_event (e_now e) hs (e_deleted e) (e_obj e) (e_matches e) (e_script e) ixs (mems (e_obj e)))
         (fun r => Ok (fst r, fun o' => if oeqb o' (e_obj e)
                                        then (if e_deleted e then [] else snd r)   (* memories.forget() *)
                                        else mems o')).
  Fixpoint hist_run (hs : list hcfg) (st : hist_state) (es : list event) : res hist_state :=
    match es with
    | [] => Ok st
    | e :: t => bind (event_run hs st e) (fun st' => hist_run hs st' t)
    end.
  (* the retry memory after an event, as index_resource + memories.forget() leave it *)
  Definition mem_next (hs : list hcfg) (mems : O -> memory) (e : event) : O -> memory :=
    fun o' => if oeqb o' (e_obj e)
              then (if e_deleted e then []
                    else if is_nil hs then mems (e_obj e)
                    else snd (run_handlers (e_now e) hs (e_matches e) (e_script e) (mems (e_obj e))))
              else mems o'.
  (* the reference map of one index function over a history: the documented rule of every event, in order *)
  Fixpoint rule_hist (hs : list hcfg) (c : hcfg) (mems : O -> memory) (es : list event) (R : refmap) : refmap :=
    match es with
    | [] => R
    | e :: t =>
        rule_hist hs c (mem_next hs mems e) t
                  (rule_spec (e_obj e) (rule_of (e_now e) c (mems (e_obj e)) (e_deleted e) (e_matches e) (e_script e)) R)
    end.
  Definition init_indexers (hs : list hcfg) : indexers := map (fun c => (h_id c, index_empty)) hs.   (* ensure() *)
End Index.

Arguments index O K V : clear implicits.
Arguments index_empty {O K V}.
Arguments result K V : clear implicits.
Arguments outcome K V : clear implicits.
Arguments action K V : clear implicits.
Arguments indexers O K V : clear implicits.
Arguments gop O K V : clear implicits.
Arguments rule K V : clear implicits.
Arguments event O K V : clear implicits.
Arguments hist_state O K V : clear implicits.
Arguments refmap O K V : clear implicits.

(* ---------- the instance the correspondence check runs ---------- *)
(* index keys of the generated index functions: None | str | int | (str, str) *)
Inductive ikey := KNone | KStr (s : string) | KNum (z : Z) | KPair (a b : string).
Definition ikey_eqb (a b : ikey) : bool :=
  match a, b with
  | KNone, KNone => true
  | KStr x, KStr y => String.eqb x y
  | KNum x, KNum y => Z.eqb x y
  | KPair x1 x2, KPair y1 y2 => String.eqb x1 y1 && String.eqb x2 y2
  | _, _ => false
  end.

(* objects are numbered by the harness: an injective image of (namespace, name, uid) *)
Definition jindex := index nat ikey json.
Definition jindexers := indexers nat ikey json.

(* comparisons used by the generated case files: dict order is compared exactly, sets as sets *)
Definition set_eqb {A} (eqb : A -> A -> bool) (a b : list A) : bool :=
  Nat.eqb (List.length a) (List.length b) && forallb (fun x => lmem eqb x b) a && forallb (fun x => lmem eqb x a) b.
Definition jstore_eqb : list (nat * json) -> list (nat * json) -> bool := list_eqb (pair_eqb Nat.eqb jeqb).
Definition jindex_eqb (a b : jindex) : bool :=
  list_eqb (pair_eqb ikey_eqb jstore_eqb) (items a) (items b)
  && list_eqb (pair_eqb Nat.eqb (set_eqb ikey_eqb)) (rev_of a) (rev_of b).
Definition jindexers_eqb : jindexers -> jindexers -> bool := list_eqb (pair_eqb String.eqb jindex_eqb).

Definition hstate_eqb (a b : hstate) : bool :=
  Z.eqb (s_retries a) (s_retries b) && opt_eqb Z.eqb (s_delayed a) (s_delayed b) && Bool.eqb (s_failure a) (s_failure b).
(* IndexingMemory is a dict whose order is not observable: compared as a finite map *)
Definition memory_eqb (a b : memory) : bool :=
  Nat.eqb (List.length a) (List.length b)
  && forallb (fun kv => opt_eqb hstate_eqb (aget String.eqb (fst kv) b) (Some (snd kv))) a.

Definition jdiscard := @index_discard nat ikey json Nat.eqb ikey_eqb.
Definition jreplace := @index_replace nat ikey json Nat.eqb ikey_eqb py_eqb.
Definition jixs_replace := @indexers_replace nat ikey json Nat.eqb ikey_eqb py_eqb KNone.
Definition jixs_discard := @indexers_discard nat ikey json Nat.eqb ikey_eqb.
Definition jindex_event := @index_event nat ikey json Nat.eqb ikey_eqb py_eqb KNone.
Definition script_of {A} (d : A) (l : list (string * A)) (h : string) : A :=
  match aget String.eqb h l with Some a => a | None => d end.
Definition jres_eqb {A} (eqb : A -> A -> bool) := @res_eqb A eqb.

(* operation alphabets of the correspondence check *)
Inductive iop := OpReplace (o : nat) (obj : list (ikey * json)) | OpDiscard (o : nat).
Definition jop (idx : jindex) (op : iop) : res jindex :=
  match op with
  | OpReplace o obj => jreplace o obj idx
  | OpDiscard o => jdiscard o None idx
  end.
Inductive xop := XReplace (o : nat) (outs : list (string * outcome ikey json)) | XDiscard (o : nat).
Definition jxop (ixs : jindexers) (op : xop) : res jindexers :=
  match op with
  | XReplace o outs => jixs_replace o outs ixs
  | XDiscard o => jixs_discard o ixs
  end.
Definition jevent_eqb (a b : res (jindexers * memory)) : bool :=
  res_eqb (pair_eqb jindexers_eqb memory_eqb) a b.

(* ---------- history-level readings used by the correspondence check ---------- *)
Definition rule_tag {K V} (ru : rule K V) : nat := match ru with RSet _ => 0 | RKeep => 1 | RDrop => 2 end.
Definition jrule_of := @rule_of ikey json.
Definition jhist_run := @hist_run nat ikey json Nat.eqb ikey_eqb py_eqb KNone.
Definition jrule_hist := @rule_hist nat ikey json Nat.eqb ikey_eqb py_eqb KNone.
Definition jevent (now : Z) (del : bool) (o : nat) (ms : list string) (sc : list (string * action ikey json)) : event nat ikey json :=
  mkEvent now del o (fun h => lmem String.eqb h ms) (script_of ANone sc).
(* the whole history through the model from the start state vs the final indexers and memories of the implementation *)
Definition jhist_check (hs : list hcfg) (es : list (event nat ikey json)) (objs : list nat)
           (ixs : jindexers) (mems : list (nat * memory)) : bool :=
  match jhist_run hs (init_indexers hs, fun _ => []) es with
  | Ok (ixs', mems') =>
      jindexers_eqb ixs' ixs
      && forallb (fun o => memory_eqb (mems' o) (match aget Nat.eqb o mems with Some m => m | None => [] end)) objs
  | _ => false
  end.
(* the reference map of the documented rules vs what the implementation's index holds, probe by probe *)
Definition jref_check (hs : list hcfg) (es : list (event nat ikey json))
           (probes : list (hcfg * (nat * (ikey * option json)))) : bool :=
  forallb (fun p => let '(c, (o, (k, v))) := p in
                    opt_eqb jeqb (jrule_hist hs c (fun _ => []) es (fun _ _ => None) o k) v) probes.
