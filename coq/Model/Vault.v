(* C12 — model of kopf/_cogs/structs/credentials.py::Vault as used by
   kopf/_cogs/clients/auth.py::authenticated and the authenticator activity.  Definitions only.

   Every mutation of the vault happens inside `async with self._guard`; one label = one such
   critical section (the `wait_for` inside `invalidate` splits its section in two: `Invalidate`
   and the later `Wake`; likewise `_expire` inside `_items`: `Expire` and the later `WakeExp`).
   Expiry follows the code: `_expire()` runs in `_items` right before `select()` with the wall clock
   `now`; items whose `expiration <= now` are dropped WITHOUT being remembered in `_invalid`; if that
   empties the vault the requester triggers a re-authentication and waits.  The post-yield check of
   `_items` ("is the yielded item still the current one?") is the `Recheck` label.
   `cred` stands for the whole value of the KubeContext (dataclass equality, expiration included);
   `init` assumes the initial credentials are not yet expired. *)
From Coq Require Import ZArith List Bool Arith.
Import ListNotations.

(* VaultItem: identity (object identity of the item / of its info), the credentials' value
   (dataclass equality of the KubeContext), priority *)
Record item := { iid : nat; cred : Z; prio : Z; exp : option Z }.

Inductive rstate :=
| RIdle                          (* not holding an item: before select(), or between two calls *)
| RExpWait                       (* inside _items/_expire: dropped the last item, waiting for _ready *)
| RHold (k : nat) (it : item)    (* _items yielded (k, it): fn is running with its context *)
| RBlocked (k : nat) (it : item) (* inside invalidate(k, it): waiting for _ready *)
| RAfter (k : nat) (it : item).  (* invalidate() returned: _items is about to re-check the yielded item *)

Inductive wake_out := WStill | WResumed | WLoginErr.

Inductive vlabel :=
| Expire (r : nat) (now : Z) (blocked : bool)  (* _items: _expire() at wall-clock `now`; does it wait? *)
| WakeExp (r : nat) (o : wake_out)      (* a requester waiting in _expire got the lock again *)
| Select (r k id : nat)                 (* select() returned the item `id` under key k *)
| SelectErr (r : nat)                   (* select() raised LoginError (ready, but nothing to use) *)
| Done (r : nat)                        (* fn returned or failed with a non-auth error *)
| Invalidate (r : nat) (blocked : bool) (* invalidate(key, info): first critical section; does it wait? *)
| Wake (r : nat) (o : wake_out)         (* a blocked requester got the lock again *)
| Recheck (r : nat) (again : bool)      (* _items after the yield: loop again (true) or stop iterating (false
                                           = @authenticated raises "end of the authentication cycle") *)
| WakeEmpty                             (* authenticator: wait_for_emptiness() returned *)
| Populate (src : list (nat * Z * Z * option Z)).  (* populate({key: info(cred, prio, expiration)}) *)

Record vstate := {
  cur : list (nat * item);              (* _current *)
  inv : list (nat * list item);         (* _invalid *)
  ready : bool;                         (* _ready *)
  busy : bool;                          (* the authenticator is between WakeEmpty and Populate *)
  nextid : nat;
  req : list (nat * rstate);
  (* ghosts for the theorems *)
  wakes : nat;                          (* re-authentication episodes started *)
  flips : nat;                          (* times the vault went not-ready (incl. initially empty) *)
  invalidated : list nat;               (* identities removed by invalidate *)
  barren : nat;                         (* populate calls that left the vault empty *)
  expirations : nat                     (* _expire() calls that emptied the vault *)
}.

Fixpoint lookupn {A} (k : nat) (l : list (nat * A)) : option A :=
  match l with
  | [] => None
  | (k', v) :: l' => if Nat.eqb k k' then Some v else lookupn k l'
  end.

Fixpoint deln {A} (k : nat) (l : list (nat * A)) : list (nat * A) :=
  match l with
  | [] => []
  | (k', v) :: l' => if Nat.eqb k k' then deln k l' else (k', v) :: deln k l'
  end.

(* dict assignment: replaces in place or appends (order is irrelevant to the model) *)
Fixpoint setn {A} (k : nat) (v : A) (l : list (nat * A)) : list (nat * A) :=
  match l with
  | [] => [(k, v)]
  | (k', v') :: l' => if Nat.eqb k k' then (k, v) :: l' else (k', v') :: setn k v l'
  end.

Definition hist (k : nat) (s : list (nat * list item)) : list item :=
  match lookupn k s with Some l => l | None => [] end.

Definition rget (r : nat) (s : vstate) : rstate :=
  match lookupn r (req s) with Some x => x | None => RIdle end.

(* l[-2:] *)
Definition last2 {A} (l : list A) : list A := skipn (length l - 2) l.

Definition is_empty {A} (l : list A) : bool := match l with [] => true | _ => false end.

Definition top_prio (c : list (nat * item)) (p : Z) : bool :=
  forallb (fun kv => Z.leb (prio (snd kv)) p) c.

Definition cred_in (c : Z) (l : list item) : bool := existsb (fun it => Z.eqb (cred it) c) l.

(* _update_converted *)
Fixpoint update_converted (src : list (nat * Z * Z * option Z)) (c : list (nat * item)) (iv : list (nat * list item)) (n : nat)
  : list (nat * item) * nat :=
  match src with
  | [] => (c, n)
  | (k, cr, p, e) :: src' =>
      if cred_in cr (hist k iv)
      then update_converted src' c iv n
      else update_converted src' (setn k {| iid := n; cred := cr; prio := p; exp := e |} c) iv (S n)
  end.

(* `now >= expiration` *)
Definition expired_at (now : Z) (it : item) : bool :=
  match exp it with Some e => Z.leb e now | None => false end.

Definition drop_expired (now : Z) (c : list (nat * item)) : list (nat * item) :=
  filter (fun kv => negb (expired_at now (snd kv))) c.

Definition is_current (k : nat) (it : item) (c : list (nat * item)) : bool :=
  match lookupn k c with Some it' => Nat.eqb (iid it') (iid it) | None => false end.

Definition with_req (s : vstate) (r : nat) (x : rstate) : list (nat * rstate) := setn r x (req s).

Definition upd (s : vstate) (c : list (nat * item)) (iv : list (nat * list item)) (rd bz : bool) (n : nat)
               (rq : list (nat * rstate)) (wk fl : nat) (invd : list nat) (br ex : nat) : vstate :=
  {| cur := c; inv := iv; ready := rd; busy := bz; nextid := n; req := rq;
     wakes := wk; flips := fl; invalidated := invd; barren := br; expirations := ex |}.

Definition set_req (s : vstate) (r : nat) (x : rstate) : vstate :=
  upd s (cur s) (inv s) (ready s) (busy s) (nextid s) (with_req s r x)
      (wakes s) (flips s) (invalidated s) (barren s) (expirations s).

Definition wake_expect (s : vstate) : wake_out :=
  if ready s then (if is_empty (cur s) then WLoginErr else WResumed) else WStill.

Definition wake_eqb (a b : wake_out) : bool :=
  match a, b with
  | WStill, WStill | WResumed, WResumed | WLoginErr, WLoginErr => true
  | _, _ => false
  end.

Definition step (s : vstate) (l : vlabel) : option vstate :=
  match l with
  | Expire r now blocked =>
      match rget r s with
      | RIdle =>
          if ready s
          then
            let cur' := drop_expired now (cur s) in
            let dropped := negb (Nat.eqb (length cur') (length (cur s))) in
            let waits := dropped && is_empty cur' in
            if Bool.eqb blocked waits
            then Some (upd s cur' (inv s) (if waits then false else true) (busy s) (nextid s)
                           (with_req s r (if waits then RExpWait else RIdle))
                           (wakes s) (if waits then S (flips s) else flips s) (invalidated s) (barren s)
                           (if waits then S (expirations s) else expirations s))
            else None
          else None
      | _ => None
      end
  | WakeExp r o =>
      match rget r s with
      | RExpWait =>
          (* after the wait select() follows at once: an empty vault shows as SelectErr there *)
          let expect := if ready s then WResumed else WStill in
          if wake_eqb o expect
          then Some (set_req s r (if ready s then RIdle else RExpWait))
          else None
      | _ => None
      end
  | Select r k id =>
      match rget r s, lookupn k (cur s) with
      | RIdle, Some it =>
          if ready s && Nat.eqb (iid it) id && top_prio (cur s) (prio it)
          then Some (set_req s r (RHold k it))
          else None
      | _, _ => None
      end
  | SelectErr r =>
      match rget r s with
      | RIdle => if ready s && is_empty (cur s) then Some s else None
      | _ => None
      end
  | Done r =>
      match rget r s with
      | RHold _ _ => Some (set_req s r RIdle)
      | _ => None
      end
  | Invalidate r blocked =>
      match rget r s with
      | RHold k it =>
          let hit := match lookupn k (cur s) with
                     | Some it' => if Nat.eqb (iid it') (iid it) then Some it' else None
                     | None => None end in
          let eff := match hit with Some _ => true | None => false end in
          let cur' := if eff then deln k (cur s) else cur s in
          let inv' := match hit with
                      | Some it' => setn k (last2 (hist k (inv s)) ++ [it']) (inv s)
                      | None => inv s end in
          let invd := if eff then iid it :: invalidated s else invalidated s in
          let empty := is_empty cur' in
          if Bool.eqb blocked empty
          then Some (upd s cur' inv' (if empty then false else ready s) (busy s) (nextid s)
                         (with_req s r (if empty then RBlocked k it else RAfter k it))
                         (wakes s) (if empty && ready s then S (flips s) else flips s) invd (barren s) (expirations s))
          else None
      | _ => None
      end
  | Wake r o =>
      match rget r s with
      | RBlocked k it =>
          if wake_eqb o (wake_expect s)
          then Some (set_req s r (if ready s then (if is_empty (cur s) then RIdle else RAfter k it) else RBlocked k it))
          else None
      | _ => None
      end
  | Recheck r again =>
      match rget r s with
      | RAfter k it =>
          if Bool.eqb again (negb (is_current k it (cur s)))
          then Some (set_req s r RIdle)
          else None
      | _ => None
      end
  | WakeEmpty =>
      if negb (ready s) && negb (busy s)
      then Some (upd s (cur s) (inv s) false true (nextid s) (req s)
                     (S (wakes s)) (flips s) (invalidated s) (barren s) (expirations s))
      else None
  | Populate src =>
      if busy s
      then match update_converted src (cur s) (inv s) (nextid s) with
           | (c', n') =>
               Some (upd s c' (inv s) true false n' (req s)
                         (wakes s) (flips s) (invalidated s)
                         (if is_empty c' then S (barren s) else barren s) (expirations s))
           end
      else None
  end.

Fixpoint run (s : vstate) (tr : list vlabel) : option vstate :=
  match tr with
  | [] => Some s
  | l :: tr' => match step s l with Some s' => run s' tr' | None => None end
  end.

(* Vault(src): pre-populated is ready at once, empty triggers the initial authentication *)
Definition init (src : list (nat * Z * Z * option Z)) : vstate :=
  match update_converted src [] [] O with
  | (c, n) =>
      {| cur := c; inv := []; ready := negb (is_empty c); busy := false; nextid := n; req := [];
         wakes := O; flips := if is_empty c then 1%nat else O; invalidated := []; barren := O; expirations := O |}
  end.

(* index of the first rejected label (for diagnostics), None = accepted *)
Fixpoint rejected_at (s : vstate) (tr : list vlabel) (i : nat) : option nat :=
  match tr with
  | [] => None
  | l :: tr' => match step s l with Some s' => rejected_at s' tr' (S i) | None => Some i end
  end.

Definition accepts (src : list (nat * Z * Z * option Z)) (tr : list vlabel) : bool :=
  match run (init src) tr with Some _ => true | None => false end.

(* state abstraction snapshotted from the implementation at the end of a scenario:
   (sorted-by-key [(key, iid)] of _current, _ready, [(key, [cred...])] of _invalid) is compared
   by the harness through these projections *)
Definition cur_ids (s : vstate) : list (nat * nat) := map (fun kv => (fst kv, iid (snd kv))) (cur s).
Definition inv_creds (s : vstate) (k : nat) : list Z := map cred (hist k (inv s)).

Definition final_ok (src : list (nat * Z * Z * option Z)) (tr : list vlabel)
           (chk : vstate -> bool) : bool :=
  match run (init src) tr with Some s => chk s | None => false end.
