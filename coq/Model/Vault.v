(* C12 — model of kopf/_cogs/structs/credentials.py::Vault as used by
   kopf/_cogs/clients/auth.py::authenticated and the authenticator activity.  Definitions only.

   Every mutation of the vault happens inside `async with self._guard`; one label = one such
   critical section (the `wait_for` inside `invalidate` splits its section in two: `Invalidate`
   and the later `Wake`).  Credentials expiry (`_expire`) is not modelled. *)
From Coq Require Import ZArith List Bool Arith.
Import ListNotations.

(* VaultItem: identity (object identity of the item / of its info), the credentials' value
   (dataclass equality of the KubeContext), priority *)
Record item := { iid : nat; cred : Z; prio : Z }.

Inductive rstate :=
| RIdle                          (* not holding an item: before select(), or between two loops *)
| RHold (k : nat) (it : item)    (* _items yielded (k, it): fn is running with its context *)
| RBlocked.                      (* inside invalidate(): waiting for _ready *)

Inductive wake_out := WStill | WResumed | WLoginErr.

Inductive vlabel :=
| Select (r k id : nat)                 (* select() returned the item `id` under key k *)
| SelectErr (r : nat)                   (* select() raised LoginError (ready, but nothing to use) *)
| Done (r : nat)                        (* fn returned or failed with a non-auth error *)
| Invalidate (r : nat) (blocked : bool) (* invalidate(key, info): first critical section; does it wait? *)
| Wake (r : nat) (o : wake_out)         (* a blocked requester got the lock again *)
| WakeEmpty                             (* authenticator: wait_for_emptiness() returned *)
| Populate (src : list (nat * Z * Z)).  (* populate({key: info(cred, prio)}) *)

Record vstate := {
  cur : list (nat * item);              (* _current *)
  inv : list (nat * list item);         (* _invalid *)
  ready : bool;                         (* _ready *)
  busy : bool;                          (* the authenticator is between WakeEmpty and Populate *)
  nextid : nat;
  req : list (nat * rstate);
  (* ghosts for the theorems *)
  wakes : nat;                          (* re-authentication episodes started *)
  flips : nat;                          (* times the vault went not-ready (incl. initially empty) *)
  invalidated : list nat;               (* identities removed by invalidate *)
  barren : nat                          (* populate calls that left the vault empty *)
}.

Fixpoint lookupn {A} (k : nat) (l : list (nat * A)) : option A :=
  match l with
  | [] => None
  | (k', v) :: l' => if Nat.eqb k k' then Some v else lookupn k l'
  end.

Fixpoint deln {A} (k : nat) (l : list (nat * A)) : list (nat * A) :=
  match l with
  | [] => []
  | (k', v) :: l' => if Nat.eqb k k' then deln k l' else (k', v) :: deln k l'
  end.

(* dict assignment: replaces in place or appends (order is irrelevant to the model) *)
Fixpoint setn {A} (k : nat) (v : A) (l : list (nat * A)) : list (nat * A) :=
  match l with
  | [] => [(k, v)]
  | (k', v') :: l' => if Nat.eqb k k' then (k, v) :: l' else (k', v') :: setn k v l'
  end.

Definition hist (k : nat) (s : list (nat * list item)) : list item :=
  match lookupn k s with Some l => l | None => [] end.

Definition rget (r : nat) (s : vstate) : rstate :=
  match lookupn r (req s) with Some x => x | None => RIdle end.

(* l[-2:] *)
Definition last2 {A} (l : list A) : list A := skipn (length l - 2) l.

Definition is_empty {A} (l : list A) : bool := match l with [] => true | _ => false end.

Definition top_prio (c : list (nat * item)) (p : Z) : bool :=
  forallb (fun kv => Z.leb (prio (snd kv)) p) c.

Definition cred_in (c : Z) (l : list item) : bool := existsb (fun it => Z.eqb (cred it) c) l.

(* _update_converted *)
Fixpoint update_converted (src : list (nat * Z * Z)) (c : list (nat * item)) (iv : list (nat * list item)) (n : nat)
  : list (nat * item) * nat :=
  match src with
  | [] => (c, n)
  | (k, cr, p) :: src' =>
      if cred_in cr (hist k iv)
      then update_converted src' c iv n
      else update_converted src' (setn k {| iid := n; cred := cr; prio := p |} c) iv (S n)
  end.

Definition with_req (s : vstate) (r : nat) (x : rstate) : list (nat * rstate) := setn r x (req s).

Definition step (s : vstate) (l : vlabel) : option vstate :=
  match l with
  | Select r k id =>
      match rget r s, lookupn k (cur s) with
      | RIdle, Some it =>
          if ready s && Nat.eqb (iid it) id && top_prio (cur s) (prio it)
          then Some {| cur := cur s; inv := inv s; ready := ready s; busy := busy s; nextid := nextid s;
                       req := with_req s r (RHold k it);
                       wakes := wakes s; flips := flips s; invalidated := invalidated s; barren := barren s |}
          else None
      | _, _ => None
      end
  | SelectErr r =>
      match rget r s with
      | RIdle => if ready s && is_empty (cur s) then Some s else None
      | _ => None
      end
  | Done r =>
      match rget r s with
      | RHold _ _ =>
          Some {| cur := cur s; inv := inv s; ready := ready s; busy := busy s; nextid := nextid s;
                  req := with_req s r RIdle;
                  wakes := wakes s; flips := flips s; invalidated := invalidated s; barren := barren s |}
      | _ => None
      end
  | Invalidate r blocked =>
      match rget r s with
      | RHold k it =>
          let hit := match lookupn k (cur s) with
                     | Some it' => if Nat.eqb (iid it') (iid it) then Some it' else None
                     | None => None end in
          let eff := match hit with Some _ => true | None => false end in
          let cur' := if eff then deln k (cur s) else cur s in
          let inv' := match hit with
                      | Some it' => setn k (last2 (hist k (inv s)) ++ [it']) (inv s)
                      | None => inv s end in
          let invd := if eff then iid it :: invalidated s else invalidated s in
          let empty := is_empty cur' in
          if Bool.eqb blocked empty
          then Some {| cur := cur'; inv := inv';
                       ready := if empty then false else ready s;
                       busy := busy s; nextid := nextid s;
                       req := with_req s r (if empty then RBlocked else RIdle);
                       wakes := wakes s;
                       flips := if empty && ready s then S (flips s) else flips s;
                       invalidated := invd; barren := barren s |}
          else None
      | _ => None
      end
  | Wake r o =>
      match rget r s with
      | RBlocked =>
          let expect := if ready s then (if is_empty (cur s) then WLoginErr else WResumed) else WStill in
          let same := match o, expect with
                      | WStill, WStill | WResumed, WResumed | WLoginErr, WLoginErr => true
                      | _, _ => false end in
          if same
          then Some {| cur := cur s; inv := inv s; ready := ready s; busy := busy s; nextid := nextid s;
                       req := with_req s r (if ready s then RIdle else RBlocked);
                       wakes := wakes s; flips := flips s; invalidated := invalidated s; barren := barren s |}
          else None
      | _ => None
      end
  | WakeEmpty =>
      if negb (ready s) && negb (busy s)
      then Some {| cur := cur s; inv := inv s; ready := false; busy := true; nextid := nextid s; req := req s;
                   wakes := S (wakes s); flips := flips s; invalidated := invalidated s; barren := barren s |}
      else None
  | Populate src =>
      if busy s
      then match update_converted src (cur s) (inv s) (nextid s) with
           | (c', n') =>
               Some {| cur := c'; inv := inv s; ready := true; busy := false; nextid := n'; req := req s;
                       wakes := wakes s; flips := flips s; invalidated := invalidated s;
                       barren := if is_empty c' then S (barren s) else barren s |}
           end
      else None
  end.

Fixpoint run (s : vstate) (tr : list vlabel) : option vstate :=
  match tr with
  | [] => Some s
  | l :: tr' => match step s l with Some s' => run s' tr' | None => None end
  end.

(* Vault(src): pre-populated is ready at once, empty triggers the initial authentication *)
Definition init (src : list (nat * Z * Z)) : vstate :=
  match update_converted src [] [] O with
  | (c, n) =>
      {| cur := c; inv := []; ready := negb (is_empty c); busy := false; nextid := n; req := [];
         wakes := O; flips := if is_empty c then 1%nat else O; invalidated := []; barren := O |}
  end.

(* index of the first rejected label (for diagnostics), None = accepted *)
Fixpoint rejected_at (s : vstate) (tr : list vlabel) (i : nat) : option nat :=
  match tr with
  | [] => None
  | l :: tr' => match step s l with Some s' => rejected_at s' tr' (S i) | None => Some i end
  end.

Definition accepts (src : list (nat * Z * Z)) (tr : list vlabel) : bool :=
  match run (init src) tr with Some _ => true | None => false end.

(* state abstraction snapshotted from the implementation at the end of a scenario:
   (sorted-by-key [(key, iid)] of _current, _ready, [(key, [cred...])] of _invalid) is compared
   by the harness through these projections *)
Definition cur_ids (s : vstate) : list (nat * nat) := map (fun kv => (fst kv, iid (snd kv))) (cur s).
Definition inv_creds (s : vstate) (k : nat) : list Z := map cred (hist k (inv s)).

Definition final_ok (src : list (nat * Z * Z)) (tr : list vlabel)
           (chk : vstate -> bool) : bool :=
  match run (init src) tr with Some s => chk s | None => false end.
