(* C06 — acceptor for label traces recorded from the real process_resource_event / patch_obj (T-tie).
   Definitions only.  After each label the model's state is compared with what was observed of the real one. *)
From Coq Require Import ZArith List String Bool Ascii Arith.
From KV Require Import Base.Json Base.Dicts Model.Finalizers.
Import ListNotations.
Open Scope string_scope.
Open Scope list_scope.

Record fl_obs := {
  b_alive : bool;               (* the object exists on the server *)
  b_fins : list string;         (* its metadata.finalizers *)
  b_deleting : bool;
  b_mdel : bool;                (* H's filters match it *)
  b_rec : bool;                 (* the progress record under H's id says finished *)
  b_carried : list fz_fn;       (* memory.remaining_patch.fns of the operator *)
  b_done : bool;                (* the harness's log: H was invoked with reason=delete and finished *)
  b_idle : bool                 (* not inside patch_obj *)
}.

Definition fl_is_idle (s : fl_state) : bool := match p_flight s with FNone => true | _ => false end.

Definition fl_obs_ok (s : fl_state) (o : fl_obs) : bool :=
  Bool.eqb (v_alive (sv s)) (b_alive o) &&
  (negb (b_alive o) ||
   (fl_eqb (v_fins (sv s)) (b_fins o) && Bool.eqb (v_deleting (sv s)) (b_deleting o) &&
    Bool.eqb (v_mdel (sv s)) (b_mdel o) && Bool.eqb (v_rec (sv s)) (b_rec o))) &&
  fz_fns_eqb (p_carried s) (b_carried o) && Bool.eqb (g_done s) (b_done o) && Bool.eqb (fl_is_idle s) (b_idle o).

(* index of the first label that is not enabled or after which the states differ *)
Fixpoint fl_replay (c : fl_cfg) (s : fl_state) (h : list (fl_label * option fl_obs)) (i : nat) : option nat :=
  match h with
  | [] => None
  | (l, o) :: h' =>
      match fl_step c s l with
      | None => Some i
      | Some s' =>
          match o with
          | Some ob => if fl_obs_ok s' ob then fl_replay c s' h' (S i) else Some i
          | None => fl_replay c s' h' (S i)
          end
      end
  end.

Definition fl_history_ok (c : fl_cfg) (s : fl_state) (h : list (fl_label * option fl_obs)) : bool :=
  match fl_replay c s h 0 with None => true | Some _ => false end.

(* is the recorded history a steady one (guard of C06_not_released_early_steady)? compared with the harness's own
   classification of what happened *)
Definition fl_history_steady (c : fl_cfg) (s : fl_state) (h : list (fl_label * option fl_obs)) : bool :=
  match fl_run_steady c s (map fst h) with Some _ => true | None => false end.
