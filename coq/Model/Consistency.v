(* Model of the consistency barrier (C07).  Definitions only.
   - worker side: kopf/_core/reactor/queueing.py:worker — the locals expected_version / consistency_time;
   - gate: kopf/_core/reactor/processing.py:process_resource_causes — the finalizer pre-step that may
     null the changing cause, and the consistency gate in front of process_changing_cause.
   Times are Z in eighths of a second (the harness only uses dyadic times, so kopf's float arithmetic is
   exact); resource versions are opaque strings compared by equality only, as in the code. *)
From Coq Require Import ZArith String Bool List.
Import ListNotations.
Open Scope Z_scope.

Definition rv := string.

(* ---------------- worker side ---------------- *)
Record wst := mkW { expected : option rv; deadline : option Z }.
Definition w0 : wst := mkW None None.

(* `if expected_version is not None and expected_version == get_version(raw_event)`: clear both *)
Definition on_event (w : wst) (v : option rv) : wst :=
  match expected w, v with
  | Some x, Some y => if String.eqb x y then w0 else w
  | _, _ => w
  end.

(* `if newer_patch_version is not None and settings.persistence.consistency_timeout:` (0 is falsy)
   expected := newer; consistency_time := loop.time() + timeout   — evaluated AFTER the processor returned *)
Definition on_processed (T now : Z) (w : wst) (newer : option rv) : wst :=
  match newer with
  | Some r => if Z.eqb T 0 then w else mkW (Some r) (Some (now + T))
  | None => w
  end.

(* `timeout = max(idle_timeout, consistency_time - loop.time() if consistency_time is not None else 0)` *)
Definition wait_timeout (idle now : Z) (w : wst) : Z :=
  Z.max idle (match deadline w with Some d => d - now | None => 0 end).

(* what the harness observes of one object's workers, in order *)
Inductive wobs :=
| OStart                                         (* a new worker task begins: fresh locals                     *)
| OWait (now timeout : Z)                        (* wait_for(backlog.get(), timeout) entered                   *)
| OGet (v : option rv) (now : Z) (ct : option Z) (* event dequeued; processor called with consistency_time=ct  *)
| OEnd (now : Z) (newer : option rv).            (* processor returned the patched resourceVersion (or None)  *)

Definition optZ_eqb (a b : option Z) : bool :=
  match a, b with Some x, Some y => Z.eqb x y | None, None => true | _, _ => false end.

Fixpoint obs_ok (T idle : Z) (w : wst) (l : list wobs) : bool :=
  match l with
  | [] => true
  | OStart :: l' => obs_ok T idle w0 l'
  | OWait now t :: l' => Z.eqb t (wait_timeout idle now w) && obs_ok T idle w l'
  | OGet v now ct :: l' =>
      let w1 := on_event w v in
      optZ_eqb ct (deadline w1) && obs_ok T idle w1 l'
  | OEnd now newer :: l' => obs_ok T idle (on_processed T now w newer) l'
  end.

(* position of the first disagreement, for diagnostics *)
Fixpoint obs_bad (T idle : Z) (w : wst) (l : list wobs) (i : nat) : option nat :=
  match l with
  | [] => None
  | OStart :: l' => obs_bad T idle w0 l' (S i)
  | OWait now t :: l' => if Z.eqb t (wait_timeout idle now w) then obs_bad T idle w l' (S i) else Some i
  | OGet v now ct :: l' =>
      let w1 := on_event w v in
      if optZ_eqb ct (deadline w1) then obs_bad T idle w1 l' (S i) else Some i
  | OEnd now newer :: l' => obs_bad T idle (on_processed T now w newer) l' (S i)
  end.

(* ---------------- the finalizer pre-step of process_resource_causes ---------------- *)
(* has_cause: changing_cause detected and prematched; must_block: some handler requires the finalizer;
   blocked / ongoing: finalizers.is_deletion_blocked / is_deletion_ongoing of the body.
   Result: (changing cause survives?, a finalizer function was appended to patch.fns?)               *)
Definition pre_gate (has_cause must_block blocked ongoing : bool) : bool * bool :=
  if must_block && negb blocked && negb ongoing then (false, true)      (* block_deletion; cause := None *)
  else if negb must_block && blocked then (false, true)                 (* allow_deletion; cause := None *)
  else (has_cause, false).

(* ---------------- the gate ---------------- *)
Record gin := mkG {
  g_required : bool;        (* changing_cause is not None (after pre_gate)                              *)
  g_gone : bool;            (* changing_cause.reason == GONE                                            *)
  g_ctime : option Z;       (* consistency_time passed by the worker                                    *)
  g_pie : bool;             (* patch_initially_empty                                                     *)
  g_pne : bool;             (* `not patch` when the gate is reached (low-level handlers may have added)  *)
  g_now : Z;                (* loop.time() at the gate                                                   *)
  g_press : option Z        (* absolute time at which stream_pressure is / gets set; None: stays clear  *)
}.

Record gout := mkO {
  o_slept : bool;           (* aiotime.sleep(consistency_time - now, wakeup=stream_pressure) was awaited *)
  o_until : Z;              (* loop.time() when the gate is left                                         *)
  o_go : bool               (* the code after the gate is reached (process_changing_cause, release)      *)
}.

Definition gate (g : gin) : gout :=
  let achieved0 := match g_ctime g with None => true | Some _ => false end || (g_required g && g_gone g) in
  let truthy := match g_ctime g with Some t => negb (Z.eqb t 0) | None => false end in
  let sleeps := g_required g && negb achieved0 && g_pne g && truthy in
  let ct := match g_ctime g with Some t => t | None => 0 end in
  let delay := ct - g_now g in
  let woke_at : option Z :=                       (* aiotime.sleep: delay <= 0 returns None at once *)
    if Z.leb delay 0 then None
    else match g_press g with
         | Some tp => if Z.ltb tp ct then Some (Z.max (g_now g) tp) else None
         | None => None
         end in
  let until := if sleeps
               then (if Z.leb delay 0 then g_now g else match woke_at with Some t => t | None => ct end)
               else g_now g in
  let achieved1 := if sleeps then (match woke_at with Some _ => false | None => true end) else achieved0 in
  let achieved := achieved1 && g_pie g in
  mkO sleeps until (negb (g_required g && negb achieved)).

(* change-detecting handlers are invoked (HANDLER_REASONS exclude GONE) *)
Definition runs_handlers (g : gin) : bool := o_go (gate g) && g_required g && negb (g_gone g).

(* `if not deleted and deletion_is_ongoing and deletion_is_blocked and not delays: allow_deletion` after the gate *)
Definition releases (g : gin) (deleted_event ongoing blocked no_delays : bool) : bool :=
  o_go (gate g) && negb deleted_event && ongoing && blocked && no_delays.

(* one cycle of process_resource_causes as far as this property is concerned: the low-level part
   (on.event handlers, daemon/timer spawning; indexing happens even earlier, in process_resource_event)
   is executed at g_now, before and independently of the gate *)
Record cycle_out := mkC { c_low_at : Z; c_gate : gout }.
Definition cycle (g : gin) : cycle_out := mkC (g_now g) (gate g).

(* ---------------- specification side: what the property talks about ---------------- *)
(* the operator's last own patch of this object whose version has not yet come back: (version, time) *)
Definition spec_event (o : option (rv * Z)) (v : option rv) : option (rv * Z) :=
  match o, v with
  | Some (r, _), Some y => if String.eqb r y then None else o
  | _, _ => o
  end.

Definition spec_patch (T : Z) (o : option (rv * Z)) (newer : option rv) (t_end : Z) : option (rv * Z) :=
  match newer with
  | Some r => if Z.eqb T 0 then o else Some (r, t_end)
  | None => o
  end.

(* handlers may run at time t: nothing outstanding, or the timeout has elapsed since the patch *)
Definition allowed (T : Z) (o : option (rv * Z)) (t : Z) : Prop :=
  match o with None => True | Some (_, tp) => tp + T <= t end.

(* one processed event of an object *)
Record pstep := mkP {
  p_rv : option rv;            (* resourceVersion of the event                                   *)
  p_begin : Z;                 (* loop.time() when the gate is reached                            *)
  p_required : bool; p_gone : bool; p_pie : bool; p_pne : bool; p_press : option Z;
  p_patched : option rv;       (* what the processor returned                                     *)
  p_end : Z                    (* loop.time() when the processor returned                         *)
}.

Definition gin_of (w : wst) (p : pstep) : gin :=
  mkG (p_required p) (p_gone p) (deadline w) (p_pie p) (p_pne p) (p_begin p) (p_press p).

(* the handler invocations of a sequence of processed events: (time, outstanding patch per spec) *)
Fixpoint exec (T : Z) (w : wst) (o : option (rv * Z)) (l : list pstep) : list (Z * option (rv * Z)) :=
  match l with
  | [] => []
  | p :: l' =>
      let w1 := on_event w (p_rv p) in
      let o1 := spec_event o (p_rv p) in
      let g := gin_of w1 p in
      let here := if runs_handlers g then [(o_until (gate g), o1)] else [] in
      here ++ exec T (on_processed T (p_end p) w1 (p_patched p)) (spec_patch T o1 (p_patched p) (p_end p)) l'
  end.

(* ---------------- the property in its own words: views and versions ---------------- *)
(* handler invocations with what the property text speaks about: the time, the resourceVersion of the view the
   handlers see, and the operator's last own patch of this object (version, time the processor returned it) —
   whether or not it has been echoed *)
Definition last_patch (T : Z) (last : option (rv * Z)) (newer : option rv) (t_end : Z) : option (rv * Z) :=
  match newer with
  | Some r => if Z.eqb T 0 then last else Some (r, t_end)
  | None => last
  end.

Fixpoint exec_views (T : Z) (w : wst) (last : option (rv * Z)) (l : list pstep)
  : list (Z * option rv * option (rv * Z)) :=
  match l with
  | [] => []
  | p :: l' =>
      let w1 := on_event w (p_rv p) in
      let g := gin_of w1 p in
      let here := if runs_handlers g then [(o_until (gate g), p_rv p, last)] else [] in
      here ++ exec_views T (on_processed T (p_end p) w1 (p_patched p)) (last_patch T last (p_patched p) (p_end p)) l'
  end.

(* the watch stream delivers the events of one object in the order of their versions
   (`ver` = any order-embedding of resourceVersions; Kubernetes: the etcd revision) *)
Fixpoint delivered_in_order (ver : rv -> Z) (cur : Z) (l : list pstep) : Prop :=
  match l with
  | [] => True
  | p :: l' => exists y, p_rv p = Some y /\ cur <= ver y /\ delivered_in_order ver (ver y) l'
  end.

(* the statement of C07 for one handler invocation *)
Definition view_ok (ver : rv -> Z) (T : Z) (x : Z * option rv * option (rv * Z)) : Prop :=
  match x with
  | (t, Some y, Some (r, tp)) => ver r <= ver y \/ tp + T <= t
  | _ => True
  end.

(* ---------------- what the D-tie compares (one run of process_resource_causes around the gate) ---------------- *)
(* inputs as the harness sets them up; outputs: aiotime.sleep awaited?, time of return, process_changing_cause
   called?, the `matched` flag returned, number of functions appended to patch.fns (block/allow_deletion) *)
Definition gate_case (has_cause gone must_block blocked ongoing : bool) (ct : option Z) (pie low_adds : bool)
                     (now : Z) (press : option Z) : bool * Z * bool * bool * nat :=
  let pg := pre_gate has_cause must_block blocked ongoing in
  let pne := pie && negb low_adds && negb (snd pg) in
  let g := mkG (fst pg) gone ct pie pne now press in
  let o := gate g in
  (o_slept o, o_until o, o_go o && fst pg, o_go o && fst pg,
   ((if snd pg then 1 else 0) + (if releases g false ongoing blocked true then 1 else 0))%nat).

(* time at which the low-level part (on.event handlers, daemon/timer spawning) of that run happens *)
Definition gate_case_low (now : Z) (ct : option Z) (press : option Z) : Z :=
  c_low_at (cycle (mkG true false ct true true now press)).

(* The same run when daemons/timers of the object are being stopped: process_spawning_cause returns re-check
   delays (`spawning_delays`).  They are NOT an input of the wait: it ends only by stream_pressure or at
   consistency_time.  They only (a) are returned to apply() and (b) block the release of the finaliser. *)
Definition gate_case_sp (spawning_delays : list Z) (has_cause gone must_block blocked ongoing : bool) (ct : option Z)
                        (pie low_adds : bool) (now : Z) (press : option Z) : bool * Z * bool * bool * nat :=
  let pg := pre_gate has_cause must_block blocked ongoing in
  let pne := pie && negb low_adds && negb (snd pg) in
  let g := mkG (fst pg) gone ct pie pne now press in
  let o := gate g in
  let no_delays := match spawning_delays with [] => true | _ => false end in
  (o_slept o, o_until o, o_go o && fst pg, o_go o && fst pg,
   ((if snd pg then 1 else 0) + (if releases g false ongoing blocked no_delays then 1 else 0))%nat).

Definition gate_obs_eqb (a b : bool * Z * bool * bool * nat) : bool :=
  match a, b with
  | (s1, u1, c1, m1, n1), (s2, u2, c2, m2, n2) =>
      Bool.eqb s1 s2 && Z.eqb u1 u2 && Bool.eqb c1 c2 && Bool.eqb m1 m2 && Nat.eqb n1 n2
  end.

(* ---------------- what the cycle tie compares (real worker + real gate + real pressure) ---------------- *)
Definition orv_eqb (a b : option rv) : bool :=
  match a, b with Some x, Some y => String.eqb x y | None, None => true | _, _ => false end.

Definition olast_eqb (a b : option (rv * Z)) : bool :=
  match a, b with
  | Some (x, t), Some (y, u) => String.eqb x y && Z.eqb t u
  | None, None => true
  | _, _ => false
  end.

Fixpoint views_eqb (a b : list (Z * option rv * option (rv * Z))) : bool :=
  match a, b with
  | [], [] => true
  | (t, v, l) :: a', (t', v', l') :: b' => Z.eqb t t' && orv_eqb v v' && olast_eqb l l' && views_eqb a' b'
  | _, _ => false
  end.

(* the handler invocations of the model on the processed events the harness observed = those observed *)
Definition cycle_ok (T : Z) (l : list pstep) (obs : list (Z * option rv * option (rv * Z))) : bool :=
  views_eqb (exec_views T w0 None l) obs.

(* ---------------- application.apply(): which resourceVersion is reported as "the operator's last write" ---------------- *)
(* One call of kopf/_core/actions/application.py:apply().  Inputs: is the accumulated patch non-empty
   (Patch.__bool__: content or fns); the minimal delay of the delayed handlers (None: no delays); whether the
   sleep was interrupted by stream_pressure; the resourceVersion in the response to each request that gets sent
   (None: the response carried no object, e.g. 404).  Following the code:
     rv, remaining := patch_and_check(patch)              -- sends a request iff patch
     if delay and patch: (no sleep)                        -- `delay` falsy when 0
     elif delay is not None:
        unslept := sleep(min(delay, 600)) if delay > 0 else None
        if patch and not delay: pass
        elif unslept is not None: (interrupted)
        else: rv, _ := patch_and_check(touch)              -- the touch-dummy patch: always sent
     elif not patch: applied := True
     return applied, rv, remaining                                                              *)
Record ain := mkA {
  a_patch : bool; a_delay : option Z; a_interrupted : bool; a_resp1 : option rv; a_resp2 : option rv
}.

Definition keepalive : Z := 4800.     (* WAITING_KEEPALIVE_INTERVAL = 600 s, in eighths *)

Definition a_sleeps (a : ain) : option Z :=           (* the duration asked from aiotime.sleep, if it is called *)
  match a_delay a with
  | Some d => if a_patch a && negb (Z.eqb d 0) then None
              else if Z.ltb keepalive d then Some keepalive else if Z.ltb 0 d then Some d else None
  | None => None
  end.

Definition a_touches (a : ain) : bool :=
  match a_delay a with
  | Some d => if a_patch a && negb (Z.eqb d 0) then false
              else if a_patch a && Z.eqb d 0 then false
              else match a_sleeps a with Some _ => negb (a_interrupted a) | None => true end
  | None => false
  end.

Definition apply_rv (a : ain) : option rv :=
  let rv1 := if a_patch a then a_resp1 a else None in
  if a_touches a then a_resp2 a else rv1.

Definition apply_applied (a : ain) : bool :=
  match a_delay a with None => negb (a_patch a) | Some _ => false end.

(* the responses of the requests this call sends, in order *)
Definition apply_responses (a : ain) : list (option rv) :=
  (if a_patch a then [a_resp1 a] else []) ++ (if a_touches a then [a_resp2 a] else []).

Definition apply_obs_eqb (a b : option rv * nat * bool * option Z) : bool :=
  match a, b with
  | (r1, n1, p1, s1), (r2, n2, p2, s2) => orv_eqb r1 r2 && Nat.eqb n1 n2 && Bool.eqb p1 p2 && optZ_eqb s1 s2
  end.

Definition apply_case (a : ain) : option rv * nat * bool * option Z :=
  (apply_rv a, List.length (apply_responses a), apply_applied a, a_sleeps a).
