(* RFC 6901 JSON pointers and RFC 6902 JSON patches: an executable SPECIFICATION (not a model of
   kopf code).  It is the meaning given to the `patch` field of an admission response: what the
   API server does with the operations kopf returns.  Definitions only. *)
From Coq Require Import ZArith List String Bool Ascii Arith.
From KV Require Import Base.Json.
Import ListNotations.
Open Scope string_scope.
Open Scope list_scope.

Definition c_slash : ascii := "/"%char.
Definition c_tilde : ascii := "~"%char.
Definition c_zero : ascii := "0"%char.
Definition c_one : ascii := "1"%char.

(* ---------- RFC 6901: reference tokens ---------- *)

(* "~" -> "~0", "/" -> "~1" *)
Fixpoint jp_escape (s : string) : string :=
  match s with
  | EmptyString => EmptyString
  | String c s' =>
      if Ascii.eqb c c_tilde then String c_tilde (String c_zero (jp_escape s'))
      else if Ascii.eqb c c_slash then String c_tilde (String c_one (jp_escape s'))
      else String c (jp_escape s')
  end.

Fixpoint jp_render (p : list string) : string :=
  match p with
  | [] => EmptyString
  | k :: p' => String c_slash (jp_escape k ++ jp_render p')%string
  end.

(* One pass over the text after the leading "/": splits at "/" and decodes "~0"/"~1";
   any other use of "~" is an error (None).  Returns the first token and the remaining ones. *)
Fixpoint jp_toks (s : string) : option (string * list string) :=
  match s with
  | EmptyString => Some (EmptyString, [])
  | String c s' =>
      if Ascii.eqb c c_slash then
        match jp_toks s' with Some (t, ts) => Some (EmptyString, t :: ts) | None => None end
      else if Ascii.eqb c c_tilde then
        match s' with
        | EmptyString => None
        | String d s'' =>
            if Ascii.eqb d c_zero then
              match jp_toks s'' with Some (t, ts) => Some (String c_tilde t, ts) | None => None end
            else if Ascii.eqb d c_one then
              match jp_toks s'' with Some (t, ts) => Some (String c_slash t, ts) | None => None end
            else None
        end
      else
        match jp_toks s' with Some (t, ts) => Some (String c t, ts) | None => None end
  end.

Definition jp_parse (s : string) : option (list string) :=
  match s with
  | EmptyString => Some []
  | String c s' =>
      if Ascii.eqb c c_slash then
        match jp_toks s' with Some (t, ts) => Some (t :: ts) | None => None end
      else None
  end.

(* array index: "0" or a decimal numeral without a leading zero *)
Definition digit_of (c : ascii) : option nat :=
  let n := nat_of_ascii c in
  if ((48 <=? n)%nat && (n <=? 57)%nat)%bool then Some (n - 48)%nat else None.

Fixpoint digits_val (s : string) (acc : nat) : option nat :=
  match s with
  | EmptyString => Some acc
  | String c s' => match digit_of c with Some d => digits_val s' (10 * acc + d)%nat | None => None end
  end.

Definition parse_index (s : string) : option nat :=
  match s with
  | EmptyString => None
  | String c s' =>
      if Ascii.eqb c c_zero then (match s' with EmptyString => Some 0 | _ => None end)
      else digits_val s 0
  end.

(* ---------- RFC 6902 ---------- *)

Inductive jop : Type :=
| OAdd (path : string) (v : json)
| ORemove (path : string)
| OReplace (path : string) (v : json)
| OTest (path : string) (v : json)
| OMove (from path : string)
| OCopy (from path : string).

Fixpoint list_set {A} (i : nat) (x : A) (l : list A) : list A :=
  match l, i with
  | [], _ => []
  | _ :: l', O => x :: l'
  | y :: l', S i' => y :: list_set i' x l'
  end.

Fixpoint list_del {A} (i : nat) (l : list A) : list A :=
  match l, i with
  | [], _ => []
  | _ :: l', O => l'
  | y :: l', S i' => y :: list_del i' l'
  end.

Fixpoint jp_get (doc : json) (p : list string) : option json :=
  match p with
  | [] => Some doc
  | k :: p' =>
      match doc with
      | JObj o => match lookup k o with Some s => jp_get s p' | None => None end
      | JList l => match parse_index k with
                   | Some i => match nth_error l i with Some s => jp_get s p' | None => None end
                   | None => None
                   end
      | _ => None
      end
  end.

(* walk to the parent of the last token and apply [leaf parent last] there *)
Fixpoint jp_at (doc : json) (p : list string) (leaf : json -> string -> option json) : option json :=
  match p with
  | [] => None
  | [k] => leaf doc k
  | k :: p' =>
      match doc with
      | JObj o =>
          match lookup k o with
          | Some s => match jp_at s p' leaf with Some s' => Some (JObj (set k s' o)) | None => None end
          | None => None
          end
      | JList l =>
          match parse_index k with
          | Some i =>
              match nth_error l i with
              | Some s => match jp_at s p' leaf with Some s' => Some (JList (list_set i s' l)) | None => None end
              | None => None
              end
          | None => None
          end
      | _ => None
      end
  end.

Definition leaf_add (v : json) (parent : json) (k : string) : option json :=
  match parent with
  | JObj o => Some (JObj (set k v o))
  | JList l =>
      if String.eqb k "-" then Some (JList (l ++ [v]))
      else match parse_index k with
           | Some i => if (i <=? List.length l)%nat then Some (JList (firstn i l ++ v :: skipn i l)) else None
           | None => None
           end
  | _ => None
  end.

Definition leaf_remove (parent : json) (k : string) : option json :=
  match parent with
  | JObj o => if has k o then Some (JObj (del k o)) else None
  | JList l =>
      match parse_index k with
      | Some i => if (i <? List.length l)%nat then Some (JList (list_del i l)) else None
      | None => None
      end
  | _ => None
  end.

Definition leaf_replace (v : json) (parent : json) (k : string) : option json :=
  match parent with
  | JObj o => if has k o then Some (JObj (set k v o)) else None
  | JList l =>
      match parse_index k with
      | Some i => if (i <? List.length l)%nat then Some (JList (list_set i v l)) else None
      | None => None
      end
  | _ => None
  end.

Definition ptr_add (doc : json) (p : list string) (v : json) : option json :=
  match p with [] => Some v | _ => jp_at doc p (leaf_add v) end.
Definition ptr_remove (doc : json) (p : list string) : option json :=
  match p with [] => None | _ => jp_at doc p leaf_remove end.
Definition ptr_replace (doc : json) (p : list string) (v : json) : option json :=
  match p with [] => Some v | _ => jp_at doc p (leaf_replace v) end.

Definition obind {A B} (x : option A) (f : A -> option B) : option B :=
  match x with Some a => f a | None => None end.

Definition apply_op (doc : json) (o : jop) : option json :=
  match o with
  | OAdd path v => obind (jp_parse path) (fun p => ptr_add doc p v)
  | ORemove path => obind (jp_parse path) (fun p => ptr_remove doc p)
  | OReplace path v => obind (jp_parse path) (fun p => ptr_replace doc p v)
  | OTest path v =>
      obind (jp_parse path) (fun p => obind (jp_get doc p) (fun x => if jeqb x v then Some doc else None))
  | OMove from path =>
      obind (jp_parse from) (fun pf => obind (jp_parse path) (fun p =>
        obind (jp_get doc pf) (fun x => obind (ptr_remove doc pf) (fun d => ptr_add d p x))))
  | OCopy from path =>
      obind (jp_parse from) (fun pf => obind (jp_parse path) (fun p =>
        obind (jp_get doc pf) (fun x => ptr_add doc p x)))
  end.

Fixpoint apply_ops (ops : list jop) (doc : json) : option json :=
  match ops with
  | [] => Some doc
  | o :: rest => obind (apply_op doc o) (apply_ops rest)
  end.

(* The simplest conceivable diff: one `replace` of the whole document.  Shows that the law assumed
   of jsonpatch.from_diff is satisfiable (non-vacuity of the section hypothesis). *)
Definition root_replace_diff (a b : json) : list jop := [OReplace EmptyString b].
