(* kopf/_cogs/structs/patches.py : Patch._apply_patch and Patch.as_json_patch.
   Definitions only.  Python's exceptions are visible [res] errors. *)
From Coq Require Import ZArith List String Bool Ascii.
From KV Require Import Base.Json Base.Dicts Model.JsonPatch.
Import ListNotations.
Open Scope string_scope.
Open Scope list_scope.

(* `if not isinstance(dicts.resolve(body, path, value), Mapping): dicts.ensure(body, path, {})`
   dicts.resolve with a default returns the default (here `value`, a mapping) for an absent key or a
   non-mapping on the way; only a value PRESENT at the path and not a mapping (null included) is replaced.
   ensure(body, (), {}) raises ValueError: visible as ErrValue when the root itself is not a mapping. *)
Definition overwrite_nonmapping (body : json) (p : path) : res json :=
  match resolve body p with
  | Some (JObj _) => Ok body
  | Some _ => ensure body p (JObj [])
  | None => Ok body
  end.

(* Patch._apply_patch(body, path, value), the mutated body returned as a value:
     case None                  -> dicts.remove(body, path)
     case Mapping               -> if not isinstance(dicts.resolve(body, path, value), Mapping):
                                       dicts.ensure(body, path, {})
                                   for key, val in value.items(): self._apply_patch(body, path + (key,), val)
     case _                     -> dicts.ensure(body, path, value)
   The first exception aborts everything (nothing catches it up to serve_admission_request). *)
Fixpoint apply_at (body : json) (p : path) (value : json) {struct value} : res json :=
  match value with
  | JNull => remove body p
  | JObj kvs =>
      bind (overwrite_nonmapping body p)
        ((fix go (kvs : list (string * json)) (body : json) : res json :=
            match kvs with
            | [] => Ok body
            | (k, v) :: rest => bind (apply_at body (p ++ [k]) v) (go rest)
            end) kvs)
  | _ => ensure body p value
  end.

(* self._apply_patch(body_to_be, (), dict(self)) *)
Definition apply_dsl (patch body : json) : res json := apply_at body [] patch.

(* ---------- "up to the presence of empty mappings" ---------- *)

(* The non-mapping value found at a path, if any: the observable content of a JSON document when
   empty mappings (and the order of keys) are disregarded. *)
Definition leaf_at (j : json) (p : path) : option json :=
  match resolve j p with
  | Some (JObj _) => None
  | Some v => Some v
  | None => None
  end.

(* remove empty mappings bottom-up (inside mappings; lists are values and stay as they are) *)
Fixpoint prune (j : json) : json :=
  match j with
  | JObj kvs =>
      JObj ((fix go (kvs : list (string * json)) : list (string * json) :=
               match kvs with
               | [] => []
               | (k, v) :: rest =>
                   let v' := prune v in
                   if is_empty_obj v' then go rest else (k, v') :: go rest
               end) kvs)
  | _ => j
  end.

(* ---------- what a patch content requests for one path (specification side) ---------- *)

(* the walk of q through the patch falls off at a key the patch does not mention: the patch says nothing about q *)
Fixpoint untouchedb (p : json) (q : path) {struct q} : bool :=
  match q with
  | [] => false
  | k :: q' =>
      match p with
      | JObj kvs => match lookup k kvs with None => true | Some v => untouchedb v q' end
      | _ => false
      end
  end.

(* The non-mapping value the reviewed object must show at path q once the content p is applied:
   untouched paths keep the object's value; a non-null leaf of the patch is set (overwriting whatever was there, so
   nothing remains below it); a null deletes (nothing at or below it); a mapping node of the patch is a mapping. *)
Definition requested (p body : json) (q : path) : option json :=
  if untouchedb p q then leaf_at body q
  else match leaf_at p q with Some JNull => None | x => x end.

(* ---------- how handlers fill the Patch (Patch.__setitem__, MutableMappingView.__setitem__) ---------- *)

(* patch[k] = v is ensure [k]; patch.spec[k] = v, patch.status[k] = v, patch.metadata[k] = v are
   dicts.ensure(patch, (view, k), v); patch.metadata.labels[k] = v is dicts.ensure(patch, ('metadata', 'labels', k), v).
   A write that raises (TypeError: a non-mapping set earlier is in the way) leaves the content as it was. *)
Definition apply_write (content : json) (w : path * json) : json :=
  match ensure content (fst w) (snd w) with Ok c => c | _ => content end.

Definition content_of (writes : list (path * json)) : json := fold_left apply_write writes (JObj []).

(* ---------- transformation functions (patch.fns) ---------- *)

(* User code: arbitrary functions on the body (they mutate it in place in Python). *)
Definition run_fns (fns : list (json -> json)) (b : json) : json := fold_left (fun b f => f b) fns b.

(* A small language of transformations used ONLY to run scripted fns on both sides of the
   correspondence check (the theorems quantify over all functions). *)
Fixpoint alter (j : json) (p : path) (f : option json -> option json) : json :=
  match p with
  | [] => j
  | [k] =>
      match j with
      | JObj o => match f (lookup k o) with Some v => JObj (set k v o) | None => JObj (del k o) end
      | _ => j
      end
  | k :: p' =>
      match j with
      | JObj o => match lookup k o with Some s => JObj (set k (alter s p' f) o) | None => j end
      | _ => j
      end
  end.

Inductive fnop : Type :=
| FSet (p : path) (v : json)        (* create parents as needed; no-op if a non-mapping is in the way *)
| FDel (p : path)                   (* delete the key if its parents exist *)
| FAppend (p : path) (v : json).    (* append to the list at p, if there is a list *)

Definition run_fnop (f : fnop) (b : json) : json :=
  match f with
  | FSet p v => match ensure b p v with Ok b' => b' | _ => b end
  | FDel p => alter b p (fun _ => None)
  | FAppend p v => alter b p (fun x => match x with Some (JList l) => Some (JList (l ++ [v])) | _ => x end)
  end.

(* ---------- Patch.as_json_patch ---------- *)

Definition patch_is_empty (patch : json) : bool :=
  match patch with JObj [] => true | _ => false end.

Definition is_nil {A} (l : list A) : bool := match l with [] => true | _ => false end.

(* body_to_be after `_apply_patch` and the fns *)
Definition body_to_be (patch : json) (fns : list (json -> json)) (body : json) : res json :=
  bind (apply_dsl patch body) (fun b => Ok (run_fns fns b)).

Section AsJsonPatch.
  (* jsonpatch.JsonPatch.from_diff(src, dst).patch : third-party, an oracle *)
  Variable from_diff : json -> json -> list jop.

  (*  if not self: return []          (Patch.__bool__: len(self) > 0 or bool(self.fns))
      self._apply_patch(...); for fn in self.fns: fn(body_to_be); from_diff(body_as_is, body_to_be) *)
  Definition as_json_patch (patch : json) (fns : list (json -> json)) (body : json) : res (list jop) :=
    if patch_is_empty patch && is_nil fns then Ok []
    else bind (body_to_be patch fns body) (fun b => Ok (from_diff body b)).
End AsJsonPatch.
