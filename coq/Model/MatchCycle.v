(* kopf/_core/reactor/processing.py: the decision skeleton of process_resource_causes (with the parts of
   _detect_causes, process_watching_cause, process_spawning_cause, process_changing_cause that decide WHICH
   handlers are handed to the execution / daemon machinery and which finaliser edits are queued).

   Definitions only.  What is not decided here is an oracle argument, quantified in the theorems:
     - the verdict of detect_changing_cause (reason, initial, old/new essences): C05 / C04;
     - whether the consistency wait succeeded (i_achieved): C07;
     - whether the daemon machinery / the executed handlers left delays (i_spawn_delays, i_change_delays): C09 / C02.
   Python exceptions (malformed metadata / finalizers) are visible as ErrType. *)
From Coq Require Import ZArith List String Bool.
From KV Require Import Base.Json Base.Dicts Model.Match.
Import ListNotations.
Open Scope string_scope.
Open Scope list_scope.

(* OperatorRegistry: the three registries process_resource_causes consults *)
Record registry := { g_watching : list hdecl; g_spawning : list hdecl; g_changing : list hdecl }.

(* ResourceRegistry.has_handlers(resource): only _matches_resource *)
Definition has_handlers (hs : list hdecl) (r : resource) : bool :=
  existsb (fun h => matches_resource h r) hs.

(* the queued patch functions: finalizers.block_deletion / finalizers.allow_deletion *)
Inductive fnop := FBlock | FAllow.
Definition fnop_eqb (a b : fnop) : bool :=
  match a, b with FBlock, FBlock | FAllow, FAllow => true | _, _ => false end.

Record cycle_in := {
  i_resource : resource;
  i_body : json;
  i_old : option json;               (* as _detect_causes computed them *)
  i_new : option json;
  i_reason : reason;                 (* verdict of detect_changing_cause *)
  i_initial : bool;
  i_finalizer : string;              (* settings.persistence.finalizer *)
  i_deleted_event : bool;            (* raw_event['type'] == 'DELETED' *)
  i_forever_stopped : list string;   (* memory.daemons_memory.forever_stopped *)
  i_patch_empty : bool;              (* patch_initially_empty: no carried remaining patch *)
  i_achieved : bool;                 (* oracle: consistency pre-proven or the wait timed out *)
  i_spawn_delays : bool;             (* oracle: stop/spawn/match/pause_daemons returned delays *)
  i_change_delays : list hdecl -> bool }.  (* oracle: executing these handlers leaves delays *)

Definition mk_cause (cls : cclass) (i : cycle_in) : cause :=
  {| c_class := cls; c_resource := i_resource i; c_body := i_body i; c_old := i_old i; c_new := i_new i;
     c_reason := i_reason i; c_initial := i_initial i |}.

(* finalizers.is_deletion_blocked(body, finalizer): finalizer in body.get('metadata', {}).get('finalizers', []) *)
Definition deletion_blocked (fin : string) (body : json) : res bool :=
  match body with
  | JObj b =>
      match lookup "metadata" b with
      | None => Ok false
      | Some (JObj m) =>
          match lookup "finalizers" m with
          | None => Ok false
          | Some (JList l) => Ok (existsb (py_eqb (JStr fin)) l)
          | Some _ => ErrType             (* `x in None`, `x in 5`; str/dict finalizers are outside the model *)
          end
      | Some _ => ErrType
      end
  | _ => ErrType
  end.

Definition handler_reason (r : reason) : bool :=
  match r with RCreate | RUpdate | RDelete | RResume => true | _ => false end.

Record cycle_out := {
  o_watching : list hdecl;              (* handed to execute_handlers_once by process_watching_cause *)
  o_spawning : option (list hdecl);     (* Some l: handed to spawn_daemons/match_daemons; None: no cause, or stop_daemons *)
  o_fns : list fnop;                    (* appended to patch.fns, in order *)
  o_changing : option (list hdecl);     (* Some l: process_changing_cause ran, l handed to execute_handlers_once *)
  o_matched : bool }.                   (* second component of the returned tuple *)

(* process_watching_cause *)
Definition cycle_watching (g : registry) (i : cycle_in) : res (list hdecl) :=
  if has_handlers (g_watching g) (i_resource i)
  then get_handlers [] (g_watching g) (mk_cause CWatching i)
  else Ok [].

(* process_spawning_cause: which handlers go to the daemons; and its delays *)
Definition cycle_spawning (g : registry) (i : cycle_in) : res (option (list hdecl)) :=
  if has_handlers (g_spawning g) (i_resource i) then
    bind (cause_deleted (mk_cause CSpawning i)) (fun deleting =>
      if deleting then Ok None
      else bind (get_handlers (i_forever_stopped i) (g_spawning g) (mk_cause CSpawning i)) (fun l => Ok (Some l)))
  else Ok None.

(* "be blind to it": the changing cause survives only if some handler prematches *)
Definition cycle_scope (g : registry) (i : cycle_in) : res bool :=
  if has_handlers (g_changing g) (i_resource i)
  then registry_prematch (g_changing g) (mk_cause CChanging i)
  else Ok false.

(* deletion_must_be_blocked: Python's `(a and f()) or (b and g())` *)
Definition cycle_must (g : registry) (i : cycle_in) (in_scope : bool) : res bool :=
  bind (if has_handlers (g_spawning g) (i_resource i)
        then requires_finalizer false (i_forever_stopped i) (g_spawning g) (mk_cause CSpawning i)
        else Ok false) (fun a =>
  if a then Ok true
  else if in_scope then requires_finalizer true [] (g_changing g) (mk_cause CChanging i)
  else Ok false).

Definition cycle (g : registry) (i : cycle_in) : res cycle_out :=
  bind (cycle_watching g i) (fun w =>
  bind (cycle_spawning g i) (fun sp =>
  bind (cycle_scope g i) (fun scope0 =>
  bind (cause_deleted (mk_cause CChanging i)) (fun ongoing =>
  bind (deletion_blocked (i_finalizer i) (i_body i)) (fun blocked =>
  bind (cycle_must g i scope0) (fun must =>
  let add := must && negb blocked && negb ongoing in
  let rem := negb must && blocked in
  let fns12 := (if add then [FBlock] else []) ++ (if rem then [FAllow] else []) in
  let scope := scope0 && negb add && negb rem in          (* changing_cause = None in both branches *)
  let achieved := (reason_eqb (i_reason i) RGone || i_achieved i) && i_patch_empty i in
  let sdel := has_handlers (g_spawning g) (i_resource i) && i_spawn_delays i in
  if scope && negb achieved then
    Ok {| o_watching := w; o_spawning := sp; o_fns := fns12; o_changing := None; o_matched := false |}
  else
    bind (if scope then
            if handler_reason (i_reason i)
            then bind (get_handlers [] (g_changing g) (mk_cause CChanging i)) (fun l => Ok (Some l))
            else Ok (Some [])
          else Ok None) (fun ch =>
    let cdel := match ch with Some l => i_change_delays i l | None => false end in
    let release := negb (i_deleted_event i) && ongoing && blocked && negb (sdel || cdel) in
    Ok {| o_watching := w; o_spawning := sp; o_fns := fns12 ++ (if release then [FAllow] else []);
          o_changing := ch; o_matched := scope |}))))))).

(* ---------- the documented cause kinds (docs/handlers.rst), for the selection gate of the ChangingRegistry ---------- *)
Inductive KindHolds (h : hdecl) (c : cause) : Prop :=
| K_other : c_class c <> CChanging -> KindHolds h c
    (* event / daemon / timer / index handlers have no cause kinds *)
| K_regular : c_class c = CChanging -> h_initial h = false ->
    (h_reason h = None \/ h_reason h = Some (c_reason c)) -> KindHolds h c
    (* "@kopf.on.create/update/delete" react to that cause; "@kopf.on.field" to any of them *)
| K_resume : c_class c = CChanging -> h_initial h = true -> c_initial c = true ->
    (h_reason h = None \/ h_reason h = Some (c_reason c)) ->
    (cause_deleted c = Ok false \/ (cause_deleted c = Ok true /\ h_deleted h = true)) -> KindHolds h c.
    (* "@kopf.on.resume": objects existing when the operator starts, mixed into whatever happens to them;
       "not called for the objects being deleted" unless deleted=True *)

(* ---------- what the harness compares ---------- *)
Definition fns_of (l : list hdecl) : list nat := map h_fn l.

Fixpoint nat_list_eqb (a b : list nat) : bool :=
  match a, b with
  | [], [] => true
  | x :: a', y :: b' => Nat.eqb x y && nat_list_eqb a' b'
  | _, _ => false
  end.

Fixpoint fnops_eqb (a b : list fnop) : bool :=
  match a, b with
  | [], [] => true
  | x :: a', y :: b' => fnop_eqb x y && fnops_eqb a' b'
  | _, _ => false
  end.

Definition opt_list_eqb {A} (eqb : list A -> list A -> bool) (a b : option (list A)) : bool :=
  match a, b with
  | Some x, Some y => eqb x y
  | None, None => true
  | _, _ => false
  end.

(* observed: watching calls (function identities, in order), spawning handler ids, fns, changing calls, matched *)
Definition cycle_obs_eqb (o : cycle_out) (w : list nat) (sp : option (list string)) (fns : list fnop)
    (ch : option (list nat)) (matched : bool) : bool :=
  nat_list_eqb (fns_of (o_watching o)) w
  && opt_list_eqb str_list_eqb (option_map ids_of (o_spawning o)) sp
  && fnops_eqb (o_fns o) fns
  && opt_list_eqb nat_list_eqb (option_map fns_of (o_changing o)) ch
  && Bool.eqb (o_matched o) matched.

Definition rcycle_eqb (r : res cycle_out) (exp : res (list nat * option (list string) * list fnop * option (list nat) * bool)) : bool :=
  match r, exp with
  | Ok o, Ok (w, sp, fns, ch, m) => cycle_obs_eqb o w sp fns ch m
  | ErrKey, ErrKey | ErrType, ErrType | ErrValue, ErrValue => true
  | _, _ => false
  end.

Definition cycle_show (r : res cycle_out) :=
  bind r (fun o => Ok (fns_of (o_watching o), option_map ids_of (o_spawning o), o_fns o, option_map fns_of (o_changing o), o_matched o)).

(* "delays iff one of the executed handlers is a failing one" : the oracle the harness instantiates *)
Definition delays_if_any (failing : list nat) : list hdecl -> bool :=
  fun l => existsb (fun h => existsb (Nat.eqb (h_fn h)) failing) l.
