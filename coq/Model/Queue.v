(* Model of kopf/_core/reactor/queueing.py (watcher, worker, _wait_for_depletion) and of
   kopf/_cogs/aiokits/aiotasks.py (Scheduler) as a labelled transition system.  Definitions only.

   One label = one maximal stretch of code between two suspension points of ONE coroutine, as
   dictated by the await skeleton extracted from the current source (Gen/Awaits.v; the literal the
   model assumes is `expected_awaits_*` in Model/QueueSk.v, proved equal in Proofs/Queue.v).

   What is abstracted:
   - time: `LTimeout`/`LDepletionTimeout` may fire at any moment (every timing is a trace);
   - the processor: an oracle; `LEnd`/`LFail` may happen whenever an event is in flight;
   - workers are counted per uid (npend / nwait / procs), NOT assumed unique: that at most one worker
     serves a uid is a theorem (Proofs/Queue.v), not a modelling decision;
   - a worker addresses its backlog through streams[key] (the code keeps the Queue object in a
     local; the two coincide as long as the stream it started with was not deleted — which only that
     worker does, in its `finally`);
   - asyncio.Queue() is unbounded, so `await backlog.put(x)` completes without suspending (the
     skeleton lists it as an await; the T-tie checks on every put that the queue is not full);
   - after `scheduler.close()` (LCloseScheduler) nothing is modelled: the state is frozen.        *)
From Coq Require Import List Arith Bool.
Import ListNotations.

Definition uid := nat.
Definition ev := nat.

Inductive item := Ev (e : ev) | EOS.

Definition item_eqb (a b : item) : bool :=
  match a, b with
  | Ev x, Ev y => Nat.eqb x y
  | EOS, EOS => true
  | _, _ => false
  end.

Fixpoint evs (b : list item) : list ev :=
  match b with
  | [] => []
  | Ev e :: b' => e :: evs b'
  | EOS :: b' => evs b'
  end.

Definition has_ev (b : list item) : bool := match evs b with [] => false | _ => true end.

(* ---------------- per-uid component ---------------- *)
Record ust := mkU {
  stream : option (list item * bool);  (* streams[key] = Stream(backlog, pressure); None = no entry *)
  npend : nat;           (* worker coroutines of this uid waiting in Scheduler._pending_coros     *)
  nwait : nat;           (* worker tasks of this uid suspended in wait_for(backlog.get())          *)
  procs : list ev;       (* events inside a running processor() call of a worker of this uid      *)
  arrived : list ev;     (* ghost: events the watcher put into this uid's backlogs, in order       *)
  processed : list ev;   (* ghost: events whose processor() call returned, in order                *)
  intact : bool          (* ghost: no processor() call of this uid raised                          *)
}.

Definition u0 : ust := mkU None 0 0 [] [] [] true.

Definition backlog (o : ust) : list item := match stream o with Some (b, _) => b | None => [] end.

(* ---------------- watcher program counter ---------------- *)
Inductive wpc :=
| WIdle                        (* suspended in `async for raw_event in stream`                      *)
| WInsert (u : uid) (e : ev)   (* KeyError seen for u; (possibly) suspended in make_toggle          *)
| WSpawn (u : uid).            (* stream inserted and fed; inside `await scheduler.spawn(...)` before the job is queued *)

Inductive phase :=
| PAlive        (* watcher in its loop                                                     *)
| PCancelled    (* watcher cancelled; _wait_for_depletion task created, EOS not yet put    *)
| PDraining     (* EOS put into every stream; waiting on the signaller up to exit_timeout  *)
| PDepleted     (* depletion wait is over (or timed out); scheduler not yet closed         *)
| PClosed.      (* scheduler.close() called: everything cancelled; frozen                  *)

Definition phase_eqb (a b : phase) : bool :=
  match a, b with
  | PAlive, PAlive | PCancelled, PCancelled | PDraining, PDraining
  | PDepleted, PDepleted | PClosed, PClosed => true
  | _, _ => false
  end.

Record st := mkS {
  obj : uid -> ust;
  pc : wpc;
  ph : phase;
  pending : list uid;     (* Scheduler._pending_coros, FIFO                                       *)
  active : list uid;      (* uids of running worker tasks that have not yet left their main loop   *)
  exiting : nat;          (* running worker tasks past `del streams[key]`, not yet discarded       *)
  limit : option nat;     (* settings.queueing.worker_limit                                        *)
  known : list uid;       (* uids for which a stream was ever created (finite support)             *)
  timedout : bool;        (* ghost: the depletion wait hit exit_timeout                            *)
  cancel_pc : wpc;        (* ghost: where the watcher was when it was cancelled                    *)
  werr : bool             (* a worker failed (exception_handler will cancel the watcher)           *)
}.

Definition init (lim : option nat) : st :=
  mkS (fun _ => u0) WIdle PAlive [] [] 0 lim [] false WIdle false.

Definition upd (f : uid -> ust) (u : uid) (o : ust) : uid -> ust :=
  fun v => if Nat.eqb v u then o else f v.

Definition set_obj (s : st) (u : uid) (o : ust) : st :=
  mkS (upd (obj s) u o) (pc s) (ph s) (pending s) (active s) (exiting s) (limit s) (known s)
      (timedout s) (cancel_pc s) (werr s).

Definition running (s : st) : nat := List.length (active s) + exiting s.

Definition under_limit (s : st) : bool :=
  match limit s with None => true | Some l => Nat.ltb (running s) l end.

Fixpoint remove1 (u : nat) (l : list nat) : option (list nat) :=
  match l with
  | [] => None
  | x :: l' => if Nat.eqb x u then Some l'
               else match remove1 u l' with Some r => Some (x :: r) | None => None end
  end.

Definition pc_idle (s : st) : bool := match pc s with WIdle => true | _ => false end.

(* the watcher is inside spawn() for u, the job not yet queued: the stream exists without a worker *)
Definition unsp (s : st) (u : uid) : nat :=
  match pc s with WSpawn v => if Nat.eqb v u then 1 else 0 | _ => 0 end.

Definition add_known (u : uid) (l : list uid) : list uid :=
  if existsb (Nat.eqb u) l then l else u :: l.

(* the watcher is inside `await scheduler.spawn(...)`, the job not yet queued *)
Definition in_spawn (p : wpc) : bool := match p with WSpawn _ => true | _ => false end.

Definition workers_live (s : st) : bool := negb (phase_eqb (ph s) PClosed).

(* ---------------- labels ---------------- *)
Inductive label :=
| LArrive (u : uid) (e : ev)      (* watcher, streams[key] exists: pressure.set(); backlog.put(e)              *)
| LArriveNew1 (u : uid) (e : ev)  (* watcher, KeyError: before `await make_toggle`                              *)
| LArriveNew2 (u : uid) (e : ev)  (* watcher: streams[key] = Stream(..); pressure.set(); backlog.put(e)         *)
| LSpawn (u : uid)                (* Scheduler.spawn: job put into _pending_coros, spawner notified             *)
| LStart (u : uid)                (* _task_spawner: get_nowait; create_task; _running_tasks.add                 *)
| LGet (u : uid) (e : ev) (p : bool) (* worker: wait_for returned e; [pressure.clear() iff backlog empty]; processor(e) entered seeing pressure p *)
| LGetEOS (u : uid)               (* worker: wait_for returned EOS; break; del streams[key]                     *)
| LTimeout (u : uid)              (* worker: TimeoutError; `if backlog.empty(): break -> del streams[key]` else continue *)
| LEnd (u : uid) (e : ev)         (* processor(e) returned; worker is back at wait_for                          *)
| LFail (u : uid) (e : ev)        (* processor(e) raised; del streams[key]; the task fails                      *)
| LExit                           (* a finished worker task's done-callback: _running_tasks.discard(task)       *)
| LCancel                         (* the watcher task is cancelled                                             *)
| LPutEOS                         (* _wait_for_depletion: EOS into every stream                                 *)
| LDepleted                       (* signaller.wait_for(not streams or scheduler.empty()) satisfied             *)
| LDepletionTimeout               (* ... or exit_timeout elapsed                                                *)
| LCloseScheduler.                (* scheduler.close()                                                          *)

Definition retire (s : st) (u : uid) (o : ust) (act' : list uid) : st :=
  mkS (upd (obj s) u o) (pc s) (ph s) (pending s) act' (S (exiting s)) (limit s) (known s)
      (timedout s) (cancel_pc s) (werr s).

Definition stream_none (o : ust) : bool := match stream o with None => true | Some _ => false end.

Definition put_eos (o : ust) : ust :=
  match stream o with
  | Some (b, p) => mkU (Some (b ++ [EOS], p)) (npend o) (nwait o) (procs o) (arrived o) (processed o) (intact o)
  | None => o
  end.

Definition step (s : st) (l : label) : option st :=
  let o := fun u => obj s u in
  match l with
  | LArrive u e =>
      if phase_eqb (ph s) PAlive && pc_idle s then
        match stream (o u) with
        | Some (b, _) =>
            Some (set_obj s u (mkU (Some (b ++ [Ev e], true)) (npend (o u)) (nwait (o u)) (procs (o u))
                                   (arrived (o u) ++ [e]) (processed (o u)) (intact (o u))))
        | None => None
        end
      else None
  | LArriveNew1 u e =>
      if phase_eqb (ph s) PAlive && pc_idle s && stream_none (o u) then
        Some (mkS (obj s) (WInsert u e) (ph s) (pending s) (active s) (exiting s) (limit s) (known s)
                  (timedout s) (cancel_pc s) (werr s))
      else None
  | LArriveNew2 u e =>
      if phase_eqb (ph s) PAlive then
        match pc s with
        | WInsert u' e' =>
            if Nat.eqb u u' && Nat.eqb e e' then
              (* NB: a plain assignment streams[key] = Stream(...): whatever was there is overwritten *)
              Some (mkS (upd (obj s) u (mkU (Some ([Ev e], true)) (npend (o u)) (nwait (o u)) (procs (o u))
                                            (arrived (o u) ++ [e]) (processed (o u)) (intact (o u))))
                        (WSpawn u) (ph s) (pending s) (active s) (exiting s) (limit s) (add_known u (known s))
                        (timedout s) (cancel_pc s) (werr s))
            else None
        | _ => None
        end
      else None
  | LSpawn u =>
      if phase_eqb (ph s) PAlive then
        match pc s with
        | WSpawn u' =>
            if Nat.eqb u u' then
              Some (mkS (upd (obj s) u (mkU (stream (o u)) (S (npend (o u))) (nwait (o u)) (procs (o u))
                                            (arrived (o u)) (processed (o u)) (intact (o u))))
                        WIdle (ph s) (pending s ++ [u]) (active s) (exiting s) (limit s) (known s)
                        (timedout s) (cancel_pc s) (werr s))
            else None
        | _ => None
        end
      else None
  | LStart u =>
      if workers_live s && under_limit s then
        match pending s with
        | u' :: rest =>
            if Nat.eqb u u' then
              Some (mkS (upd (obj s) u (mkU (stream (o u)) (pred (npend (o u))) (S (nwait (o u))) (procs (o u))
                                            (arrived (o u)) (processed (o u)) (intact (o u))))
                        (pc s) (ph s) rest (u :: active s) (exiting s) (limit s) (known s)
                        (timedout s) (cancel_pc s) (werr s))
            else None
        | [] => None
        end
      else None
  | LGet u e p =>
      if workers_live s && Nat.ltb 0 (nwait (o u)) then
        match stream (o u) with
        | Some (Ev e' :: b', p0) =>
            let p1 := match b' with [] => false | _ => p0 end in
            if Nat.eqb e e' && Bool.eqb p p1 then
              Some (set_obj s u (mkU (Some (b', p1)) (npend (o u)) (pred (nwait (o u))) (procs (o u) ++ [e])
                                     (arrived (o u)) (processed (o u)) (intact (o u))))
            else None
        | _ => None
        end
      else None
  | LGetEOS u =>
      if workers_live s && Nat.ltb 0 (nwait (o u)) then
        match stream (o u), remove1 u (active s) with
        | Some (EOS :: _, _), Some act' =>
            Some (retire s u (mkU None (npend (o u)) (pred (nwait (o u))) (procs (o u))
                                  (arrived (o u)) (processed (o u)) (intact (o u))) act')
        | _, _ => None
        end
      else None
  | LTimeout u =>
      if workers_live s && Nat.ltb 0 (nwait (o u)) then
        match stream (o u) with
        | Some ([], _) =>
            match remove1 u (active s) with
            | Some act' =>
                Some (retire s u (mkU None (npend (o u)) (pred (nwait (o u))) (procs (o u))
                                      (arrived (o u)) (processed (o u)) (intact (o u))) act')
            | None => None
            end
        | Some (_ :: _, _) => Some s         (* backlog not empty: `continue` *)
        | None => None
        end
      else None
  | LEnd u e =>
      if workers_live s then
        match remove1 e (procs (o u)) with
        | Some rest =>
            Some (set_obj s u (mkU (stream (o u)) (npend (o u)) (S (nwait (o u))) rest
                                   (arrived (o u)) (processed (o u) ++ [e]) (intact (o u))))
        | None => None
        end
      else None
  | LFail u e =>
      if workers_live s then
        match remove1 e (procs (o u)), remove1 u (active s) with
        | Some rest, Some act' =>
            Some (mkS (upd (obj s) u (mkU None (npend (o u)) (nwait (o u)) rest
                                          (arrived (o u)) (processed (o u)) false))
                      (pc s) (ph s) (pending s) act' (S (exiting s)) (limit s) (known s)
                      (timedout s) (cancel_pc s) true)
        | _, _ => None
        end
      else None
  | LExit =>
      if workers_live s then
        match exiting s with
        | S n => Some (mkS (obj s) (pc s) (ph s) (pending s) (active s) n (limit s) (known s)
                           (timedout s) (cancel_pc s) (werr s))
        | O => None
        end
      else None
  | LCancel =>
      if phase_eqb (ph s) PAlive then
        Some (mkS (obj s) (pc s) PCancelled (pending s) (active s) (exiting s) (limit s) (known s)
                  (timedout s) (pc s) (werr s))
      else None
  | LPutEOS =>
      if phase_eqb (ph s) PCancelled then
        Some (mkS (fun u => put_eos (obj s u)) (pc s) PDraining (pending s) (active s) (exiting s) (limit s)
                  (known s) (timedout s) (cancel_pc s) (werr s))
      else None
  | LDepleted =>
      if phase_eqb (ph s) PDraining
         && (forallb (fun u => stream_none (o u)) (known s)
             || (match pending s with [] => true | _ => false end && Nat.eqb (running s) 0)) then
        Some (mkS (obj s) (pc s) PDepleted (pending s) (active s) (exiting s) (limit s) (known s)
                  (timedout s) (cancel_pc s) (werr s))
      else None
  | LDepletionTimeout =>
      if phase_eqb (ph s) PDraining then
        Some (mkS (obj s) (pc s) PDepleted (pending s) (active s) (exiting s) (limit s) (known s)
                  true (cancel_pc s) (werr s))
      else None
  | LCloseScheduler =>
      if phase_eqb (ph s) PDepleted then
        Some (mkS (obj s) (pc s) PClosed (pending s) (active s) (exiting s) (limit s) (known s)
                  (timedout s) (cancel_pc s) (werr s))
      else None
  end.

(* what the system does next by itself: no new arrival, no cancellation, no failure.  A timeout counts
   only for an idle worker (empty backlog) — that one does fire after idle_timeout of real time. *)
Definition progress_label (s : st) (l : label) : bool :=
  match l with
  | LArriveNew2 _ _ | LSpawn _ | LStart _ | LGet _ _ _ | LGetEOS _ | LEnd _ _ | LExit => true
  | LTimeout u => match stream (obj s u) with Some ([], _) => true | _ => false end
  | _ => false
  end.

Definition limit_positive (s : st) : bool := match limit s with Some O => false | _ => true end.

(* a variant for the progress labels: how much work is left if nothing new arrives *)
Definition uweight (o : ust) : nat := 3 * List.length (evs (backlog o)) + 2 * List.length (procs o).
Fixpoint usum (f : uid -> ust) (l : list uid) : nat :=
  match l with [] => 0 | u :: l' => uweight (f u) + usum f l' end.
Definition pcweight (p : wpc) : nat := match p with WIdle => 0 | WInsert _ _ => 8 | WSpawn _ => 4 end.
Definition work_left (s : st) : nat :=
  pcweight (pc s) + usum (obj s) (known s) + 3 * List.length (pending s) + 2 * List.length (active s) + exiting s.

Fixpoint run (s : st) (tr : list label) : option st :=
  match tr with
  | [] => Some s
  | l :: tr' => match step s l with Some s' => run s' tr' | None => None end
  end.

(* ---------------- trace observables (what a monitor on the implementation sees) ---------------- *)
Fixpoint arrivals_of (u : uid) (tr : list label) : list ev :=
  match tr with
  | [] => []
  | LArrive v e :: tr' | LArriveNew2 v e :: tr' =>
      if Nat.eqb v u then e :: arrivals_of u tr' else arrivals_of u tr'
  | _ :: tr' => arrivals_of u tr'
  end.

Fixpoint begins_of (u : uid) (tr : list label) : list ev :=
  match tr with
  | [] => []
  | LGet v e _ :: tr' => if Nat.eqb v u then e :: begins_of u tr' else begins_of u tr'
  | _ :: tr' => begins_of u tr'
  end.

Fixpoint ends_of (u : uid) (tr : list label) : list ev :=
  match tr with
  | [] => []
  | LEnd v e :: tr' => if Nat.eqb v u then e :: ends_of u tr' else ends_of u tr'
  | _ :: tr' => ends_of u tr'
  end.

Fixpoint failed_in (u : uid) (tr : list label) : bool :=
  match tr with
  | [] => false
  | LFail v _ :: tr' => Nat.eqb v u || failed_in u tr'
  | _ :: tr' => failed_in u tr'
  end.

(* ---------------- trace acceptor with state snapshots (T-tie) ---------------- *)
(* A snapshot of the implementation taken between two loop iterations: for every uid of the
   finite universe of the scenario the stream entry (backlog items, pressure flag) or None; the
   uids of the jobs in Scheduler._pending_coros; len(Scheduler._running_tasks).               *)
Record snap := mkSnap {
  sn_universe : list uid;
  sn_streams : list (uid * (list item * bool));
  sn_pending : list uid;
  sn_running : nat
}.

Fixpoint lookup_stream (u : uid) (l : list (uid * (list item * bool))) : option (list item * bool) :=
  match l with
  | [] => None
  | (v, x) :: l' => if Nat.eqb v u then Some x else lookup_stream u l'
  end.

Fixpoint items_eqb (a b : list item) : bool :=
  match a, b with
  | [], [] => true
  | x :: a', y :: b' => item_eqb x y && items_eqb a' b'
  | _, _ => false
  end.

Fixpoint nats_eqb (a b : list nat) : bool :=
  match a, b with
  | [], [] => true
  | x :: a', y :: b' => Nat.eqb x y && nats_eqb a' b'
  | _, _ => false
  end.

Definition stream_eqb (a b : option (list item * bool)) : bool :=
  match a, b with
  | None, None => true
  | Some (x, p), Some (y, q) => items_eqb x y && Bool.eqb p q
  | _, _ => false
  end.

Definition snap_ok (s : st) (sn : snap) : bool :=
  forallb (fun u => stream_eqb (stream (obj s u)) (lookup_stream u (sn_streams sn))) (sn_universe sn)
  && nats_eqb (pending s) (sn_pending sn)
  && Nat.eqb (running s) (sn_running sn).

(* Quiescence of the implementation (the stepped loop has nothing ready and no timer due) must be quiescence
   of the model: no internal step is enabled for the uids of the scenario.  `final`: also no idle worker and
   no call in flight are left (after the epilogue let every call return and every timer fire). *)
Definition enabled (s : st) (l : label) : bool := match step s l with Some _ => true | None => false end.

Definition can_get (s : st) (u : uid) : bool :=
  workers_live s && Nat.ltb 0 (nwait (obj s u)) &&
  match stream (obj s u) with Some (Ev _ :: _, _) => true | _ => false end.

Definition quiet (s : st) (us : list uid) (final : bool) : bool :=
  negb (enabled s LExit)
  && match pc s with WIdle => true | _ => negb (phase_eqb (ph s) PAlive) end
  && forallb (fun u => negb (enabled s (LSpawn u)) && negb (enabled s (LStart u)) && negb (enabled s (LGetEOS u))
                       && negb (can_get s u)
                       && (negb final || (Nat.eqb (nwait (obj s u)) 0 && match procs (obj s u) with [] => true | _ => false end)))
             us.

Inductive titem := TL (l : label) | TS (sn : snap) | TQ (us : list uid) (final : bool).

(* None = whole trace accepted; Some i = rejected at position i *)
Fixpoint accept_from (i : nat) (s : st) (t : list titem) : option nat :=
  match t with
  | [] => None
  | TL l :: t' => match step s l with Some s' => accept_from (S i) s' t' | None => Some i end
  | TS sn :: t' => if snap_ok s sn then accept_from (S i) s t' else Some i
  | TQ us final :: t' => if quiet s us final then accept_from (S i) s t' else Some i
  end.

Definition accepts (lim : option nat) (t : list titem) : bool :=
  match accept_from 0 (init lim) t with None => true | Some _ => false end.

Fixpoint labels_of (t : list titem) : list label :=
  match t with
  | [] => []
  | TL l :: t' => l :: labels_of t'
  | TS _ :: t' => labels_of t'
  | TQ _ _ :: t' => labels_of t'
  end.

(* final ghost histories of the model for the uids of a universe: compared with what the harness's
   processor saw *)
Definition final_histories (lim : option nat) (t : list titem) (us : list uid)
  : option (list (list ev * list ev)) :=
  match run (init lim) (labels_of t) with
  | Some s => Some (map (fun u => (arrived (obj s u), processed (obj s u))) us)
  | None => None
  end.

Fixpoint hist_eqb (a b : list (list ev * list ev)) : bool :=
  match a, b with
  | [], [] => true
  | (x1, x2) :: a', (y1, y2) :: b' => nats_eqb x1 y1 && nats_eqb x2 y2 && hist_eqb a' b'
  | _, _ => false
  end.

Definition accepts_with (lim : option nat) (t : list titem) (us : list uid)
                        (h : list (list ev * list ev)) : bool :=
  accepts lim t &&
  match final_histories lim t us with Some h' => hist_eqb h h' | None => false end.
