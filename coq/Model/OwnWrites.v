(* The writes the framework itself performs on an object, as functions built from Model/Storage.v:
   progress store / purge (progression.State.store/purge -> ProgressStorage), last-handled
   state (DiffBaseStorage.store), touch (application.apply -> ProgressStorage.touch), the
   kopf-managed marker (_store_marker, part of every annotation write), and the finalizer
   functions of kopf/_cogs/structs/finalizers.py (patch.fns, applied to the body as a whole).
   All merge-patch writes of one processing cycle accumulate in ONE patch, in this order:
   records, purge, diff-base, touch(None).  Definitions only. *)
From Coq Require Import ZArith NArith List String Bool Ascii.
From KV Require Import Base.Json Base.Dicts Model.Keys Model.Storage.
Import ListNotations.
Open Scope string_scope.
Open Scope list_scope.

Inductive own_op : Type :=
| OwStore (key : string) (record : obj)      (* progress_storage.store(key, record, body, patch) *)
| OwPurge (key : string)                     (* progress_storage.purge(key, body, patch) *)
| OwDiffbase (essence : json)                (* diffbase_storage.store(body, patch, essence) *)
| OwTouch (value : json)                     (* progress_storage.touch(body, patch, value) *)
| OwMarker (prefix : string).                (* _store_marker(prefix, patch, body) on its own *)

Section WithDigest.
  Variable dg : chars -> list N.

  Definition own_step (ds : dstorage) (ps : pstorage) (body : json) (patch : json) (op : own_op) : res json :=
    match op with
    | OwStore key record => pstore dg ps key record body patch
    | OwPurge key => ppurge dg ps key body patch
    | OwDiffbase e => dstore dg ds body patch e
    | OwTouch v => ptouch dg ps body patch v
    | OwMarker prefix => store_marker prefix body patch
    end.

  (* the accumulated merge-patch of a sequence of framework writes, starting from an empty patch *)
  Definition own_patch (ds : dstorage) (ps : pstorage) (body : json) (ops : list own_op) : res json :=
    fold_left (fun acc op => bind acc (fun p => own_step ds ps body p op)) ops (Ok (JObj [])).

  (* the body as the API server has it after the merge-patch (RFC 7386) *)
  Definition own_body_after (ds : dstorage) (ps : pstorage) (body : json) (ops : list own_op) : res json :=
    bind (own_patch ds ps body ops) (fun p => Ok (merge body p)).
End WithDigest.

(* ---------- finalizers.block_deletion / allow_deletion (functions on the raw body) ---------- *)
Definition str_in (s : string) (l : list json) : bool :=
  existsb (fun j => match j with JStr t => String.eqb s t | _ => false end) l.

Definition get_list (o : obj) (k : string) : res (list json) :=      (* o.get(k, []) used as a list *)
  match lookup k o with
  | None => Ok []
  | Some (JList l) => Ok l
  | Some _ => ErrType
  end.

Definition fin_block (fin : string) (body : json) : res json :=
  match body with
  | JObj kvs =>
      bind (get_obj body "metadata") (fun md =>
      bind (get_list md "finalizers") (fun fins =>
        if str_in fin fins then Ok body
        else Ok (JObj (set "metadata" (JObj (set "finalizers" (JList (fins ++ [JStr fin])) md)) kvs))))
  | _ => ErrType
  end.

Definition fin_allow (fin : string) (body : json) : res json :=
  match body with
  | JObj kvs =>
      bind (get_obj body "metadata") (fun md =>
      bind (get_list md "finalizers") (fun fins =>
        let fins' := filter (fun j => match j with JStr t => negb (String.eqb fin t) | _ => true end) fins in
        (* the list is only written when something was removed; emptied containers are dropped *)
        let md1 := if str_in fin fins then set "finalizers" (JList fins') md else md in
        let md2 := match lookup "finalizers" md1 with
                   | Some f => if is_falsy f then del "finalizers" md1 else md1
                   | None => md1
                   end in
        match lookup "metadata" kvs with
        | None => Ok body
        | Some _ => Ok (JObj (match md2 with [] => del "metadata" kvs | _ => set "metadata" (JObj md2) kvs end))
        end))
  | _ => ErrType
  end.
