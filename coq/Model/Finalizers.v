(* C06 — the finalizer: list edits, the decision points of one processing cycle, the life of one
   object's finalizer list.  Definitions only (no proofs; proofs in Proofs/Finalizers.v).

   Mirrors, statement by statement:
     kopf/_cogs/structs/finalizers.py   is_deletion_ongoing / is_deletion_blocked / block_deletion /
                                        allow_deletion                         (part 1, over Base/Json)
     kopf/_cogs/structs/patches.py      Patch.as_json_patch for a patch that consists of fns only
                                        (what patch_obj builds as `remaining_patch`)          (part 1)
     kopf/_core/reactor/processing.py   process_resource_causes: deletion_must_be_blocked, the three
                                        places where a fn is appended, `changing_cause = None`, the
                                        consistency gate, the final release condition          (part 2)
     kopf/_core/intents/registries.py   requires_finalizer of the spawning (match, minus excluded)
                                        and changing (prematch) registries, ChangingRegistry.prematch
     kopf/_cogs/clients/patching.py     patch_obj: merge-patch first (unconditional), then
                                        [test resourceVersion] + ops computed on the freshest body;
                                        422 -> the fns are handed back as the remaining patch
     kopf/_core/reactor/processing.py   process_resource_event: Patch(memory.remaining_patch),
                                        memory.remaining_patch = remaining_patch               (part 3)
   Python exceptions are visible: AttributeError/TypeError = ErrType.  ErrValue is never raised by this
   code; the model uses it as the marker "outside the model" (a [finalizers] value that is a str holding
   JSON text, JEnc: its characters are not known to the model).
   jsonpatch.JsonPatch.from_diff and the API server's application of the operations are oracles with the
   law apply(from_diff(a, b), a) = b; the harness validates the law on every case with its own RFC 6902
   evaluator. *)
From Coq Require Import ZArith List String Bool Ascii Arith.
From KV Require Import Base.Json Base.Dicts.
Import ListNotations.
Open Scope string_scope.
Open Scope list_scope.

(* ====================================================================================== *)
(* Part 1: finalizers.py over JSON bodies                                                  *)
(* ====================================================================================== *)

Definition fz_is_null (j : json) : bool := match j with JNull => true | _ => false end.

(* Python truthiness of a JSON-like value *)
Definition fz_truthy (j : json) : bool :=
  match j with
  | JNull => false
  | JBool b => b
  | JNum z => negb (Z.eqb z 0)
  | JStr s => negb (String.eqb s "")
  | JList l => match l with [] => false | _ => true end
  | JObj o => match o with [] => false | _ => true end
  | JEnc _ => true            (* JSON text is never the empty string *)
  end.

(* x.get(k, default) on an arbitrary value x: AttributeError unless x is a dict *)
Definition fz_get (x : json) (k : string) (default : json) : res json :=
  match x with
  | JObj kvs => Ok (match lookup k kvs with Some v => v | None => default end)
  | _ => ErrType
  end.

(* body.get('metadata', {}).get('finalizers', []) *)
Definition fz_finalizers_of (body : json) : res json :=
  bind (fz_get body "metadata" (JObj [])) (fun m => fz_get m "finalizers" (JList [])).

Fixpoint fz_substr (sub s : string) : bool :=
  String.prefix sub s || match s with EmptyString => false | String _ s' => fz_substr sub s' end.

Definition fz_is_fin (fin : string) (x : json) : bool :=
  match x with JStr s => String.eqb s fin | _ => false end.

(* `finalizer in c` for a str finalizer (not itself JSON text) *)
Definition fz_in (fin : string) (c : json) : res bool :=
  match c with
  | JList l => Ok (existsb (fz_is_fin fin) l)
  | JObj kvs => Ok (has fin kvs)            (* key membership *)
  | JStr s => Ok (fz_substr fin s)          (* substring test *)
  | JEnc _ => ErrValue                      (* outside the model *)
  | _ => ErrType                            (* None / bool / int: not iterable *)
  end.

Definition fz_is_ongoing (body : json) : res bool :=
  bind (fz_get body "metadata" (JObj [])) (fun m =>
  bind (fz_get m "deletionTimestamp" JNull) (fun v => Ok (negb (fz_is_null v)))).

Definition fz_is_blocked (fin : string) (body : json) : res bool :=
  bind (fz_finalizers_of body) (fz_in fin).

(* if finalizer not in body.get('metadata', {}).get('finalizers', []):
       body.setdefault('metadata', {}).setdefault('finalizers', []).append(finalizer) *)
Definition fz_block (fin : string) (body : json) : res json :=
  bind (fz_finalizers_of body) (fun fs =>
  bind (fz_in fin fs) (fun present =>
  if present then Ok body
  else match body, fs with
       | JObj kvs, JList l =>
           let mk := match lookup "metadata" kvs with Some (JObj mk) => mk | _ => [] end in
           Ok (JObj (set "metadata" (JObj (set "finalizers" (JList (l ++ [JStr fin])) mk)) kvs))
       | _, _ => ErrType                      (* str / dict have no .append *)
       end)).

(* while finalizer in body.get('metadata', {}).get('finalizers', []):
       body['metadata']['finalizers'].remove(finalizer)
   if 'finalizers' in body.get('metadata', {}) and not body.get('metadata', {}).get('finalizers'):
       del body['metadata']['finalizers']
   if 'metadata' in body and not body['metadata']:
       del body['metadata'] *)
Definition fz_allow (fin : string) (body : json) : res json :=
  bind (fz_finalizers_of body) (fun fs =>
  bind (fz_in fin fs) (fun present =>
  bind (if present
        then match fs with
             | JList l => Ok (JList (filter (fun x => negb (fz_is_fin fin x)) l))
             | _ => ErrType                   (* str / dict have no .remove *)
             end
        else Ok fs) (fun fs' =>
  match body with
  | JObj kvs =>
      let mk := match lookup "metadata" kvs with Some (JObj mk) => mk | _ => [] end in
      let mk1 := if present then set "finalizers" fs' mk else mk in
      let mk2 := if has "finalizers" mk1 && negb (fz_truthy fs') then del "finalizers" mk1 else mk1 in
      Ok (JObj (if has "metadata" kvs
                then match mk2 with [] => del "metadata" kvs | _ => set "metadata" (JObj mk2) kvs end
                else kvs))
  | _ => ErrType
  end))).

(* the transformation functions kept in Patch.fns: functools.partial(finalizers.X, finalizer=...) *)
Inductive fz_fn := FBlock | FAllow.
Definition fz_fn_eqb (a b : fz_fn) : bool :=
  match a, b with FBlock, FBlock | FAllow, FAllow => true | _, _ => false end.

Definition fz_apply_fn (fin : string) (f : fz_fn) (body : json) : res json :=
  match f with FBlock => fz_block fin body | FAllow => fz_allow fin body end.

(* for fn in self.fns: fn(body_to_be) *)
Fixpoint fz_apply_fns (fin : string) (fns : list fz_fn) (body : json) : res json :=
  match fns with
  | [] => Ok body
  | f :: fns' => bind (fz_apply_fn fin f body) (fz_apply_fns fin fns')
  end.

(* Patch(fns=...).as_json_patch(body): None = no operations ([]: nothing will be sent);
   Some b = operations whose application to [body] yields b (from_diff law). *)
Definition fz_edit (fin : string) (fns : list fz_fn) (body : json) : res (option json) :=
  match fns with
  | [] => Ok None                                   (* `if not self: return []` *)
  | _ => bind (fz_apply_fns fin fns body) (fun b' => Ok (if jeqb body b' then None else Some b'))
  end.

(* The API server on `[test /metadata/resourceVersion = rv(base)] + ops`: everything or nothing. *)
Definition fz_rv (body : json) : option json := resolve body ["metadata"; "resourceVersion"].
Definition fz_server (base to_be current : json) : option json :=
  if ojeqb (fz_rv base) (fz_rv current) && match fz_rv base with Some _ => true | None => false end
  then Some to_be else None.                        (* None = HTTP 422, nothing changed *)

(* the finalizer list of a body, as a list of values (absent / not a list: no entries) *)
Definition fz_fins (body : json) : list json :=
  match resolve body ["metadata"; "finalizers"] with Some (JList l) => l | _ => [] end.
Definition fz_foreign (fin : string) (l : list json) : list json :=
  filter (fun x => negb (fz_is_fin fin x)) l.
(* bodies the API server can hold: a mapping whose metadata is a mapping and whose finalizers, if any,
   are a list *)
Definition fz_wellformed (body : json) : bool :=
  match body with
  | JObj kvs =>
      match lookup "metadata" kvs with
      | None => true
      | Some (JObj mk) => match lookup "finalizers" mk with None | Some (JList _) => true | _ => false end
      | Some _ => false
      end
  | _ => false
  end.

(* ====================================================================================== *)
(* Part 2: the decision points of process_resource_causes                                 *)
(* ====================================================================================== *)

(* one handler of registry._spawning (daemons, timers) as the decision sees it *)
Record fz_sh := {
  sh_reqfin : bool;      (* bool(handler.requires_finalizer) *)
  sh_match : bool;       (* ORACLE: registries.match(handler, cause) *)
  sh_excluded : bool     (* handler.id in memory.daemons_memory.forever_stopped *)
}.
(* one handler of registry._changing *)
Record fz_ch := {
  ch_reqfin : bool;      (* bool(handler.requires_finalizer): on.delete(optional=False) *)
  ch_prematch : bool     (* ORACLE: registries.prematch(handler, cause) *)
}.

(* SpawningRegistry.requires_finalizer(cause, excluded=forever_stopped) *)
Definition fz_spawn_requires (hs : list fz_sh) : bool :=
  existsb (fun h => negb (sh_excluded h) && (sh_reqfin h && sh_match h)) hs.
(* ChangingRegistry.requires_finalizer(cause) / ChangingRegistry.prematch(cause) *)
Definition fz_chg_requires (hs : list fz_ch) : bool := existsb (fun h => ch_reqfin h && ch_prematch h) hs.
Definition fz_chg_prematch (hs : list fz_ch) : bool := existsb ch_prematch hs.

(* consistency_time: None | a falsy float (0.0) | a truthy float *)
Inductive fz_ctime := CtNone | CtZero | CtSome.

Record fz_atoms := {
  a_spawn : option (list fz_sh);   (* spawning_cause is not None (registry._spawning.has_handlers) : its handlers *)
  a_chg : option (list fz_ch);     (* changing_cause is not None (registry._changing.has_handlers) : its handlers *)
  a_blocked : bool;                (* finalizers.is_deletion_blocked(body, finalizer) *)
  a_ongoing : bool;                (* finalizers.is_deletion_ongoing(body) *)
  a_deleted : bool;                (* raw_event['type'] == 'DELETED' (then the changing cause is GONE) *)
  a_patch0_empty : bool;           (* patch_initially_empty: `not patch` on entry *)
  a_low_empty : bool;              (* ORACLE: the low-level handlers (on.event results) added nothing to the patch *)
  a_ctime : fz_ctime;
  a_timed_out : bool;              (* ORACLE: aiotime.sleep(...) returned None (slept in full, no new events) *)
  a_sdelays : list Z;              (* ORACLE: result of process_spawning_cause *)
  a_cdelays : list Z               (* ORACLE: result of process_changing_cause (if it is reached) *)
}.

Record fz_out := {
  o_fns : list fz_fn;     (* what was appended to patch.fns, in order *)
  o_slept : bool;         (* the consistency sleep was entered *)
  o_changing : bool;      (* process_changing_cause was called *)
  o_delays : list Z;      (* first component of the result *)
  o_matched : bool        (* second component of the result *)
}.

Definition fz_must (a : fz_atoms) : bool :=
  match a_spawn a with Some hs => fz_spawn_requires hs | None => false end
  || match a_chg a with Some hs => fz_chg_prematch hs && fz_chg_requires hs | None => false end.

Definition fz_opt (b : bool) (f : fz_fn) : list fz_fn := if b then [f] else [].

Definition fz_decide (a : fz_atoms) : fz_out :=
  (* if changing_cause is not None and not registry._changing.prematch(cause): changing_cause = None *)
  let chg0 := match a_chg a with Some hs => fz_chg_prematch hs | None => false end in
  let must := fz_must a in
  let add := must && negb (a_blocked a) && negb (a_ongoing a) in
  let rem := negb must && a_blocked a in
  let chg1 := chg0 && negb add && negb rem in                    (* changing_cause = None after either append *)
  let early := fz_opt add FBlock ++ fz_opt rem FAllow in
  let required := chg1 in
  let achieved0 := match a_ctime a with CtNone => true | _ => false end || (chg1 && a_deleted a) in
  (* `not patch` here: carried content, low-level results, fns appended above *)
  let patch_empty := a_patch0_empty a && a_low_empty a && negb add && negb rem in
  let sleeps := required && negb achieved0 && patch_empty && match a_ctime a with CtSome => true | _ => false end in
  let achieved1 := if sleeps then a_timed_out a else achieved0 in
  let achieved := achieved1 && a_patch0_empty a in
  if required && negb achieved
  then {| o_fns := early; o_slept := sleeps; o_changing := false; o_delays := a_sdelays a; o_matched := false |}
  else
    let cd := if chg1 then a_cdelays a else [] in
    let delays := a_sdelays a ++ cd in
    let rel := negb (a_deleted a) && a_ongoing a && a_blocked a && match delays with [] => true | _ => false end in
    {| o_fns := early ++ fz_opt rel FAllow; o_slept := sleeps; o_changing := chg1; o_delays := delays;
       o_matched := chg1 |}.

(* the same with the two body predicates computed from the body (their exceptions escape) *)
Definition fz_decide_body (fin : string) (body : json) (a : fz_atoms) : res fz_out :=
  bind (fz_is_ongoing body) (fun ongoing =>
  bind (fz_is_blocked fin body) (fun blocked =>
  Ok (fz_decide {| a_spawn := a_spawn a; a_chg := a_chg a; a_blocked := blocked; a_ongoing := ongoing;
                   a_deleted := a_deleted a; a_patch0_empty := a_patch0_empty a; a_low_empty := a_low_empty a;
                   a_ctime := a_ctime a; a_timed_out := a_timed_out a; a_sdelays := a_sdelays a;
                   a_cdelays := a_cdelays a |}))).

(* ====================================================================================== *)
(* Part 2b: patch_obj for a patch = (merge part?) + fns, against a server that may have moved *)
(* ====================================================================================== *)
(* patch_obj, the part after the merge-patches: `fresh_body = patched_body or patch._original`; ops computed on
   it; `[test rv(fresh)] + ops` sent unless ops = []; HTTP 422 -> (patched_body, remaining_patch = the fns). *)
Inductive fz_po :=
| PoNoRequest                                      (* no operations: nothing sent, nothing remains *)
| PoLanded (tested : option json) (after : json)   (* accepted: the server now holds [after]; nothing remains *)
| PoConflict (tested : option json).               (* 422: nothing changed; the fns remain for the next cycle *)

Definition fz_patch_obj (fin : string) (fns : list fz_fn) (orig : json) (merge_resp : option json) (server : json)
  : res fz_po :=
  let fresh := match merge_resp with Some b => if fz_truthy b then b else orig | None => orig end in
  bind (fz_edit fin fns fresh) (fun e =>
  match e with
  | None => Ok PoNoRequest
  | Some to_be =>
      match fz_server fresh to_be server with
      | Some b => Ok (PoLanded (fz_rv fresh) b)
      | None => Ok (PoConflict (fz_rv fresh))
      end
  end).
Definition fz_po_eqb (a b : fz_po) : bool :=
  match a, b with
  | PoNoRequest, PoNoRequest => true
  | PoLanded t1 a1, PoLanded t2 a2 => ojeqb t1 t2 && jeqb a1 a2
  | PoConflict t1, PoConflict t2 => ojeqb t1 t2
  | _, _ => false
  end.

(* The finalizer edits on plain lists of names (bridge to part 1: Proofs/Finalizers.v) *)
Definition fl_mem (x : string) (l : list string) : bool := existsb (String.eqb x) l.
Definition fl_block (own : string) (l : list string) : list string := if fl_mem own l then l else l ++ [own].
Definition fl_allow (own : string) (l : list string) : list string := filter (fun x => negb (String.eqb x own)) l.
Definition fl_apply_fn (own : string) (f : fz_fn) (l : list string) : list string :=
  match f with FBlock => fl_block own l | FAllow => fl_allow own l end.
Definition fl_apply_fns (own : string) (fns : list fz_fn) (l : list string) : list string :=
  fold_left (fun l f => fl_apply_fn own f l) fns l.
Definition fl_foreign (own : string) (l : list string) : list string := fl_allow own l.
Fixpoint fl_eqb (a b : list string) : bool :=
  match a, b with
  | [], [] => true
  | x :: a', y :: b' => String.eqb x y && fl_eqb a' b'
  | _, _ => false
  end.

(* ====================================================================================== *)
(* Part 3: the life of one object's finalizer list                                        *)
(* ====================================================================================== *)
(* What the API server holds of the object (and what an event / a PATCH response shows of it).
   One distinguished mandatory deletion handler H and one distinguished daemon D are followed; all
   other handlers appear as oracles in the cycle label (their requirements and delays are arbitrary). *)
Record fl_srv := {
  v_alive : bool;            (* the object exists *)
  v_rv : nat;                (* metadata.resourceVersion *)
  v_fins : list string;      (* metadata.finalizers, ordered *)
  v_deleting : bool;         (* metadata.deletionTimestamp is set *)
  v_mdel : bool;             (* labels/annotations/fields: H's filters (pre)match the object *)
  v_mdmn : bool;             (* D's filters match the object *)
  v_rec : bool               (* the progress record under H's id says "finished" *)
}.

Inductive fl_daemon := DIdle | DLive | DStopping | DExited | DAbandoned.
Definition fl_daemon_live (d : fl_daemon) : bool := match d with DLive | DStopping => true | _ => false end.

Inductive fl_flight :=
| FNone
| FMerge (rec' : bool) (fns : list fz_fn)       (* merge-patch request not yet at the server; fns to follow *)
| FJson (fresh : fl_srv) (fns : list fz_fn).    (* ops to be computed on [fresh], tested on its resourceVersion *)

Record fl_state := {
  sv : fl_srv;                     (* the server *)
  g_foreign : list string;         (* GHOST: the finalizers of others, as others edited them *)
  g_done : bool;                   (* GHOST: H was invoked with reason=delete and finished *)
  p_view : option fl_srv;          (* operator: the event to be processed next *)
  p_carried : list fz_fn;          (* operator: memory.remaining_patch.fns *)
  p_flight : fl_flight;            (* operator: inside patch_obj *)
  p_daemon : fl_daemon;            (* operator: D's task *)
  p_forever : bool                 (* operator: D's id in forever_stopped *)
}.

(* the registry (fixed) *)
Record fl_cfg := {
  c_own : string;          (* settings.persistence.finalizer *)
  c_del : bool;            (* H is registered (on.delete, optional=False) *)
  c_dmn : bool;            (* D is registered (daemon / timer: requires_finalizer=True) *)
  c_shared : bool          (* H's id is also used by a handler of another cause (F8) *)
}.

(* what daemons.stop_daemons does to D's task in one call (the staging by age/backoff/timeout is in
   Model/FinalizersDaemon.v; here it is an oracle of the cycle) *)
Inductive fl_stop :=
| SStill        (* flagged / signalled / cancelled, the task is still running: a delay is reported *)
| SExited       (* the task was done before, or finished within the "instant exit" wait: no delay *)
| SAbandoned.   (* cancellation_timeout exhausted: marked DAEMON_ABANDONED, left orphaned, no delay *)

(* oracles of one processing cycle *)
Record fl_orc := {
  k_spawn_others : list fz_sh;     (* the other daemons/timers as the decision sees them *)
  k_chg_others : list fz_ch;       (* the other changing handlers *)
  k_low_empty : bool;
  k_ctime : fz_ctime;
  k_timed_out : bool;
  k_sdelays_others : list Z;
  k_cdelays_others : list Z;
  k_h_finishes : bool;             (* H, if invoked, finishes in this cycle (success or permanent failure) *)
  k_other_rec : bool;              (* c_shared: what the other cause's run leaves in the record under H's id *)
  k_extra_merge : bool;            (* the merge-patch has other content (progress of others, results, diff-base) *)
  k_stop : fl_stop                 (* outcome of stop_daemons for D, if it is called in this cycle *)
}.

Inductive fl_label :=
| LForeign (l' : list string)      (* others rewrite the finalizer list, keeping the entries of [own] *)
| LMatch (mdel mdmn : bool)        (* others edit labels/annotations/spec: the filters' verdicts change *)
| LDelete                          (* deletion is requested *)
| LEvent                           (* the watch stream delivers the current state to the worker *)
| LCycle (k : fl_orc)              (* process_resource_causes on the delivered event, up to patch_obj *)
| LMerge                           (* patch_obj: the merge-patch request is served *)
| LJson                            (* patch_obj: the ops are computed and the JSON-patch request is served *)
| LDaemonExit
| LRestart.

Definition fl_own_part (own : string) (l : list string) : list string := filter (String.eqb own) l.

Definition fl_bump (s : fl_srv) : fl_srv :=
  {| v_alive := v_alive s; v_rv := S (v_rv s); v_fins := v_fins s; v_deleting := v_deleting s;
     v_mdel := v_mdel s; v_mdmn := v_mdmn s; v_rec := v_rec s |}.
(* Kubernetes: an object marked for deletion goes away when its last finalizer is removed *)
Definition fl_settle (s : fl_srv) : fl_srv :=
  if v_deleting s && match v_fins s with [] => true | _ => false end
  then {| v_alive := false; v_rv := v_rv s; v_fins := []; v_deleting := true; v_mdel := v_mdel s; v_mdmn := v_mdmn s;
          v_rec := v_rec s |}
  else s.
Definition fl_with_fins (s : fl_srv) (l : list string) : fl_srv :=
  fl_settle (fl_bump {| v_alive := v_alive s; v_rv := v_rv s; v_fins := l; v_deleting := v_deleting s;
                        v_mdel := v_mdel s; v_mdmn := v_mdmn s; v_rec := v_rec s |}).
Definition fl_with_match (s : fl_srv) (a b : bool) : fl_srv :=
  fl_bump {| v_alive := v_alive s; v_rv := v_rv s; v_fins := v_fins s; v_deleting := v_deleting s;
             v_mdel := a; v_mdmn := b; v_rec := v_rec s |}.
Definition fl_with_deleting (s : fl_srv) : fl_srv :=
  fl_settle (fl_bump {| v_alive := v_alive s; v_rv := v_rv s; v_fins := v_fins s; v_deleting := true;
                        v_mdel := v_mdel s; v_mdmn := v_mdmn s; v_rec := v_rec s |}).
Definition fl_with_rec (s : fl_srv) (r : bool) : fl_srv :=
  fl_bump {| v_alive := v_alive s; v_rv := v_rv s; v_fins := v_fins s; v_deleting := v_deleting s;
             v_mdel := v_mdel s; v_mdmn := v_mdmn s; v_rec := r |}.

Definition fl_set_x (s : fl_state) (x' : fl_srv) (gf : list string) : fl_state :=
  {| sv := x'; g_foreign := gf; g_done := g_done s; p_view := p_view s; p_carried := p_carried s;
     p_flight := p_flight s; p_daemon := p_daemon s; p_forever := p_forever s |}.
Definition fl_set_op (s : fl_state) (view : option fl_srv) (carried : list fz_fn) (fl : fl_flight) : fl_state :=
  {| sv := sv s; g_foreign := g_foreign s; g_done := g_done s; p_view := view; p_carried := carried;
     p_flight := fl; p_daemon := p_daemon s; p_forever := p_forever s |}.
Definition fl_set_daemon (s : fl_state) (d : fl_daemon) (forever : bool) : fl_state :=
  {| sv := sv s; g_foreign := g_foreign s; g_done := g_done s; p_view := p_view s; p_carried := p_carried s;
     p_flight := p_flight s; p_daemon := d; p_forever := forever |}.

(* stop_daemons on D's entry of memory.running_daemons (present while the runner task has not finished) *)
Definition fl_staged (stop : fl_stop) (d : fl_daemon) : fl_daemon * list Z :=
  match d with
  | DLive | DStopping =>
      match stop with
      | SStill => (DStopping, [0%Z])
      | SExited => (DExited, [])
      | SAbandoned => (DAbandoned, [])
      end
  | DAbandoned => (DAbandoned, [])           (* still in the dict, its timeouts stay exhausted: no delay *)
  | _ => (d, [])                             (* not in the dict *)
  end.

(* the daemon part of process_spawning_cause on view v: (new task state, D's own delays).
   handlers = registry._spawning.get_handlers(cause, excluded=forever_stopped); spawn_daemons starts those not in
   the dict; match_daemons stops (staged) those in the dict that are not among the handlers. *)
Definition fl_spawning (c : fl_cfg) (v : fl_srv) (d : fl_daemon) (forever : bool) (stop : fl_stop) : fl_daemon * list Z :=
  if v_deleting v then fl_staged stop d                  (* stop_daemons *)
  else
    let selected := c_dmn c && v_mdmn v && negb forever in
    match d with
    | DIdle | DExited => if selected then (DLive, []) else (d, [])
    | DLive | DStopping | DAbandoned => if selected then (d, []) else fl_staged stop d
    end.

(* the atoms of the cycle on view v *)
Definition fl_atoms (c : fl_cfg) (s : fl_state) (v : fl_srv) (k : fl_orc) (d_delays : list Z) (h_delay : list Z)
  : fz_atoms :=
  {| a_spawn := Some ({| sh_reqfin := c_dmn c; sh_match := c_dmn c && v_mdmn v; sh_excluded := p_forever s |}
                      :: k_spawn_others k);
     a_chg := Some ({| ch_reqfin := c_del c; ch_prematch := c_del c && v_mdel v |} :: k_chg_others k);
     a_blocked := fl_mem (c_own c) (v_fins v);
     a_ongoing := v_deleting v;
     a_deleted := negb (v_alive v);
     a_patch0_empty := match p_carried s with [] => true | _ => false end;
     a_low_empty := k_low_empty k;
     a_ctime := k_ctime k;
     a_timed_out := k_timed_out k;
     a_sdelays := d_delays ++ k_sdelays_others k;
     a_cdelays := h_delay ++ k_cdelays_others k |}.

(* H inside process_changing_cause on view v (reached only if the decision says so):
   selected iff the cause is DELETE (deleting and blocked, not a DELETED event) and H matches;
   invoked iff selected and its record is not finished. *)
Definition fl_h_selected (c : fl_cfg) (v : fl_srv) : bool :=
  c_del c && v_mdel v && v_deleting v && fl_mem (c_own c) (v_fins v) && v_alive v.
Definition fl_h_invoked (c : fl_cfg) (v : fl_srv) : bool := fl_h_selected c v && negb (v_rec v).
Definition fl_h_delay (c : fl_cfg) (v : fl_srv) (k : fl_orc) : list Z :=
  if fl_h_invoked c v && negb (k_h_finishes k) then [0%Z] else [].

Definition fl_cycle (c : fl_cfg) (s : fl_state) (v : fl_srv) (k : fl_orc) : fl_state :=
  if negb (v_alive v) then
    (* DELETED event: memories.forget (the daemons' memory goes with it: a still running task is an orphan nobody
       knows of); nothing is applied *)
    fl_set_daemon (fl_set_op s None [] FNone) DIdle false
  else
    let '(d', dd) := fl_spawning c v (p_daemon s) (p_forever s) (k_stop k) in
    let a := fl_atoms c s v k dd (fl_h_delay c v k) in
    let out := fz_decide a in
    let fns := p_carried s ++ o_fns out in
    let is_delete_cause := v_deleting v && fl_mem (c_own c) (v_fins v) in
    (* the record under H's id after this cycle's merge-patch *)
    let rec' :=
      if o_changing out then
        if fl_h_selected c v then
          match a_cdelays a with
          | [] => false                                     (* state.done: purge *)
          | _ => v_rec v || (fl_h_invoked c v && k_h_finishes k)
          end
        else if c_shared c && negb is_delete_cause then k_other_rec k   (* the other cause's run under H's id *)
        else v_rec v && k_other_rec k                       (* untouched, or purged with the others *)
      else v_rec v in
    let done' := g_done s || (o_changing out && fl_h_invoked c v && k_h_finishes k) in
    let has_merge := k_extra_merge k || negb (Bool.eqb rec' (v_rec v)) in
    let fl := if has_merge then FMerge rec' fns
              else match fns with [] => FNone | _ => FJson v fns end in
    {| sv := sv s; g_foreign := g_foreign s; g_done := done'; p_view := None;
       p_carried := match fl with FNone => [] | _ => p_carried s end;     (* nothing to patch: remaining = None *)
       p_flight := fl; p_daemon := d'; p_forever := p_forever s |}.

(* the JSON-patch request: ops computed on [fresh]; the server takes all of them iff its resourceVersion is
   still the tested one (and, Kubernetes: no new finalizers on an object being deleted), else 422 *)
Definition fl_adds (old new : list string) : bool := existsb (fun f => negb (fl_mem f old)) new.

Definition fl_json (c : fl_cfg) (s : fl_state) (fresh : fl_srv) (fns : list fz_fn) : fl_state :=
  let to_be := fl_apply_fns (c_own c) fns (v_fins fresh) in
  if fl_eqb to_be (v_fins fresh) then fl_set_op s (p_view s) [] FNone              (* ops = []: no request *)
  else if negb (v_alive (sv s)) then fl_set_op s (p_view s) [] FNone                (* 404 *)
  else if Nat.eqb (v_rv fresh) (v_rv (sv s)) && negb (v_deleting (sv s) && fl_adds (v_fins (sv s)) to_be)
  then fl_set_op (fl_set_x s (fl_with_fins (sv s) to_be) (g_foreign s)) (p_view s) [] FNone
  else fl_set_op s (p_view s) fns FNone.                                            (* 422: fns remain *)

Definition fl_step (c : fl_cfg) (s : fl_state) (l : fl_label) : option fl_state :=
  match l with
  | LForeign l' =>
      if v_alive (sv s) && fl_eqb (fl_own_part (c_own c) l') (fl_own_part (c_own c) (v_fins (sv s)))
      then Some (fl_set_x s (fl_with_fins (sv s) l') (fl_foreign (c_own c) l'))
      else None
  | LMatch a b => if v_alive (sv s) then Some (fl_set_x s (fl_with_match (sv s) a b) (g_foreign s)) else None
  | LDelete => if v_alive (sv s) && negb (v_deleting (sv s))
               then Some (fl_set_x s (fl_with_deleting (sv s)) (g_foreign s)) else None
  | LEvent => Some (fl_set_op s (Some (sv s)) (p_carried s) (p_flight s))
  | LCycle k =>
      match p_view s, p_flight s with
      | Some v, FNone => Some (fl_cycle c s v k)
      | _, _ => None
      end
  | LMerge =>
      match p_flight s with
      | FMerge rec' fns =>
          if v_alive (sv s) then
            let x' := fl_with_rec (sv s) rec' in
            Some (fl_set_op (fl_set_x s x' (g_foreign s)) (p_view s)
                            (match fns with [] => [] | _ => p_carried s end)
                            (match fns with [] => FNone | _ => FJson x' fns end))
          else Some (fl_set_op s (p_view s) [] FNone)                              (* 404 *)
      | _ => None
      end
  | LJson =>
      match p_flight s with
      | FJson fresh fns => Some (fl_json c s fresh fns)
      | _ => None
      end
  | LDaemonExit =>
      match p_daemon s with
      | DLive => Some (fl_set_daemon s DExited true)           (* exited on its own: forever_stopped *)
      | DStopping | DAbandoned => Some (fl_set_daemon s DExited (p_forever s))   (* after a stop flag: may be respawned *)
      | _ => None
      end
  | LRestart =>
      Some {| sv := sv s; g_foreign := g_foreign s; g_done := g_done s; p_view := None; p_carried := [];
              p_flight := FNone; p_daemon := DIdle; p_forever := false |}
  end.

Fixpoint fl_run (c : fl_cfg) (s : fl_state) (tr : list fl_label) : option fl_state :=
  match tr with
  | [] => Some s
  | l :: tr' => match fl_step c s l with Some s' => fl_run c s' tr' | None => None end
  end.

(* a freshly created object, nothing known to the operator *)
Definition fl_init (c : fl_cfg) (fins : list string) (mdel mdmn : bool) : fl_state :=
  {| sv := {| v_alive := true; v_rv := 1; v_fins := fl_foreign (c_own c) fins; v_deleting := false; v_mdel := mdel;
             v_mdmn := mdmn; v_rec := false |};
     g_foreign := fl_foreign (c_own c) fins; g_done := false; p_view := None; p_carried := []; p_flight := FNone;
     p_daemon := DIdle; p_forever := false |}.

(* the own finalizer is removed by this step, and the step is the framework's *)
Definition fl_framework_label (l : fl_label) : bool := match l with LJson => true | _ => false end.
Definition fl_releases (c : fl_cfg) (s s' : fl_state) : bool :=
  fl_mem (c_own c) (v_fins (sv s)) && negb (fl_mem (c_own c) (v_fins (sv s'))).
Definition fl_calm (l : fl_label) : bool := match l with LMatch _ _ => false | _ => true end.

(* a weaker guard than fl_calm: a label/annotation/spec edit is admitted if it keeps the filters' verdicts, or if the
   operator is quiescent for this object (no undelivered view, nothing in flight, nothing carried) *)
Definition fl_op_quiet (s : fl_state) : bool :=
  match p_view s, p_carried s, p_flight s with None, [], FNone => true | _, _, _ => false end.
Definition fl_steady (s : fl_state) (l : fl_label) : bool :=
  match l with
  | LMatch a b => (Bool.eqb a (v_mdel (sv s)) && Bool.eqb b (v_mdmn (sv s))) || fl_op_quiet s
  | _ => true
  end.
Fixpoint fl_run_steady (c : fl_cfg) (s : fl_state) (tr : list fl_label) : option fl_state :=
  match tr with
  | [] => Some s
  | l :: tr' => if fl_steady s l then match fl_step c s l with Some s' => fl_run_steady c s' tr' | None => None end else None
  end.

(* ---------- equalities for the correspondence checks ---------- *)
Fixpoint fz_fns_eqb (a b : list fz_fn) : bool :=
  match a, b with
  | [], [] => true
  | x :: a', y :: b' => fz_fn_eqb x y && fz_fns_eqb a' b'
  | _, _ => false
  end.
Fixpoint fz_zs_eqb (a b : list Z) : bool :=
  match a, b with
  | [], [] => true
  | x :: a', y :: b' => Z.eqb x y && fz_zs_eqb a' b'
  | _, _ => false
  end.
Definition fz_out_eqb (o : fz_out) (fns : list fz_fn) (slept changing : bool) (delays : list Z) (matched : bool) : bool :=
  fz_fns_eqb (o_fns o) fns && Bool.eqb (o_slept o) slept && Bool.eqb (o_changing o) changing &&
  fz_zs_eqb (o_delays o) delays && Bool.eqb (o_matched o) matched.
Definition fz_ores_eqb (a b : res (option json)) : bool := res_eqb ojeqb a b.
