(* C19 — kopf/_core/reactor/orchestration.py: Ensemble, adjust_tasks = terminate_redundancies ;
   spawn_missing_peerings ; spawn_missing_watchers, as finite-set algebra over EnsembleKey;
   kopf/_core/reactor/observation.py: revise_namespaces (is_deleted, get_blockers);
   kopf/_cogs/structs/references.py: match_namespace (fnmatch is an oracle).  Definitions only.

   Sets are duplicate-free lists; the order inside is irrelevant (Python iterates hash sets) and every
   comparison with the implementation is order-insensitive. *)
From Coq Require Import ZArith List String Bool.
Import ListNotations.
Open Scope Z_scope.

(* references.Resource: identity (group/version/plural, here a number) and its scope *)
Record res := { rid : Z; rns : bool }.           (* rns: namespaced *)

Definition nsname := option string.               (* references.Namespace: None = cluster-wide *)
Definition key := (res * nsname)%type.            (* EnsembleKey(resource, namespace) *)

Definition res_eqb (a b : res) : bool := Z.eqb (rid a) (rid b) && Bool.eqb (rns a) (rns b).
Definition ns_eqb (a b : nsname) : bool :=
  match a, b with Some x, Some y => String.eqb x y | None, None => true | _, _ => false end.
Definition key_eqb (a b : key) : bool := res_eqb (fst a) (fst b) && ns_eqb (snd a) (snd b).

Definition mem_res (r : res) (l : list res) : bool := existsb (res_eqb r) l.
Definition mem_ns (n : nsname) (l : list nsname) : bool := existsb (ns_eqb n) l.
Definition mem_key (k : key) (l : list key) : bool := existsb (key_eqb k) l.

Record ens := { watchers : list key;      (* Ensemble.watcher_tasks *)
                peerings : list key;      (* Ensemble.peering_tasks *)
                pingers : list key;       (* Ensemble.pinging_tasks *)
                conflicts : list key }.   (* Ensemble.conflicts_found *)

Definition ens0 : ens := {| watchers := []; peerings := []; pingers := []; conflicts := [] |}.

(* references.Insights as far as adjust_tasks reads it, plus the peering resources found in the
   backbone for settings.peering (guess_selectors) *)
Record insights := { watched : list res; namespaces : list nsname; peering : list res }.

Definition get_keys (e : ens) : list key := watchers e ++ peerings e ++ pingers e ++ conflicts e.

(* terminate_redundancies: remaining_resources = watched | peering, remaining_namespaces = namespaces | {None} *)
Definition redundant (i : insights) (k : key) : bool :=
  negb (mem_ns (snd k) (None :: namespaces i)) || negb (mem_res (fst k) (watched i ++ peering i)).

Definition keep (i : insights) (l : list key) : list key := filter (fun k => negb (redundant i k)) l.

Definition terminate (i : insights) (e : ens) : ens :=
  {| watchers := keep i (watchers e); peerings := keep i (peerings e);
     pingers := keep i (pingers e); conflicts := keep i (conflicts e) |}.

(* `namespace = namespace if resource.namespaced else None` *)
Definition mkkey (p : res * nsname) : key := (fst p, if rns (fst p) then snd p else None).

Definition add_key (acc : list key) (k : key) : list key := if mem_key k acc then acc else k :: acc.

(* itertools.product(resources, namespaces) *)
Definition wanted (rs : list res) (nss : list nsname) : list key := map mkkey (list_prod rs nss).

Definition spawn_watchers (i : insights) (e : ens) : ens :=
  {| watchers := fold_left add_key (wanted (watched i) (namespaces i)) (watchers e);
     peerings := peerings e; pingers := pingers e; conflicts := conflicts e |}.

(* `if dkey not in ensemble.peering_tasks:` conflicts_found[dkey] = ..; pinging_tasks[dkey] = ..; peering_tasks[dkey] = .. *)
Definition spawn_peering_step (e : ens) (k : key) : ens :=
  if mem_key k (peerings e) then e
  else {| watchers := watchers e; peerings := k :: peerings e;
          pingers := add_key (pingers e) k; conflicts := add_key (conflicts e) k |}.

Definition spawn_peerings (i : insights) (e : ens) : ens :=
  fold_left spawn_peering_step (wanted (peering i) (namespaces i)) e.

Definition adjust (i : insights) (e : ens) : ens :=
  spawn_watchers i (spawn_peerings i (terminate i e)).

(* what the tasks see: which were cancelled, which were created *)
Definition stopped (i : insights) (l : list key) : list key := filter (redundant i) l.
Definition started (before after : list key) : list key := filter (fun k => negb (mem_key k before)) after.

Definition run_adjust (hs : list insights) : ens := fold_left (fun e i => adjust i e) hs ens0.

(* the pairs kopf means to serve *)
Definition served (i : insights) : list key := wanted (watched i) (namespaces i).

(* order-insensitive comparison *)
Definition keys_sub (a b : list key) : bool := forallb (fun k => mem_key k b) a.
Definition keys_same (a b : list key) : bool := keys_sub a b && keys_sub b a.

Fixpoint nodup_keys (l : list key) : bool :=
  match l with [] => true | k :: l' => negb (mem_key k l') && nodup_keys l' end.

(* ---- observation.revise_namespaces ------------------------------------------------------ *)

Record nsevent := { ne_name : string;
                    ne_matched : bool;        (* any(match_namespace(name, pattern) for pattern in namespaces) *)
                    ne_type_deleted : bool;   (* raw_event['type'] == 'DELETED' *)
                    ne_marked : bool;         (* metadata.deletionTimestamp is set *)
                    ne_conditions : bool;     (* status.conditions is non-empty *)
                    ne_blocked : bool }.      (* some condition has status == 'True' *)

Definition is_deleted (e : nsevent) : bool := (ne_marked e && ne_conditions e) || ne_type_deleted e.

Definition revise_one (nss : list nsname) (e : nsevent) : list nsname :=
  if is_deleted e && ne_blocked e then nss
  else if is_deleted e then filter (fun n => negb (ns_eqb n (Some (ne_name e)))) nss
  else if ne_matched e then (if mem_ns (Some (ne_name e)) nss then nss else Some (ne_name e) :: nss)
  else nss.

Definition revise_namespaces (nss : list nsname) (es : list nsevent) : list nsname := fold_left revise_one es nss.

Definition ns_sub (a b : list nsname) : bool := forallb (fun k => mem_ns k b) a.
Definition ns_same (a b : list nsname) : bool := ns_sub a b && ns_sub b a.

(* ---- references.match_namespace: the glob combination; fnmatch(name, glob) is the oracle `hit` ---- *)

Record glob := { g_neg : bool;    (* glob.startswith('!') *)
                 g_hit : bool }.  (* fnmatch.fnmatch(name, glob.lstrip('!')) *)

(* `globs` after the split/strip; a catch-all is prepended when the first glob is exclusive *)
Definition match_globs (gs : list glob) : bool :=
  let gs' := match gs with
             | [] => [{| g_neg := false; g_hit := true |}]
             | g :: _ => if g_neg g then {| g_neg := false; g_hit := true |} :: gs else gs
             end in
  match gs' with
  | [] => true
  | g0 :: rest =>
      let first := g_hit g0 in
      fold_left (fun m g => if g_neg g then m && negb (g_hit g) else m || (first && g_hit g)) rest first
  end.

(* ---- the conflict toggles and the operator_paused ToggleSet -------------------------------
   Every peering key owns one Toggle (Ensemble.conflicts_found[key]) made by
   `operator_paused.make_toggle(...)` in spawn_missing_peerings (pre-activated when peering is mandatory);
   terminate_redundancies drops the toggles of the removed keys from operator_paused:
       redundant_flags = ensemble.get_flags(redundant_keys)      -- read BEFORE del_keys
       await ensemble.operator_paused.drop_toggles(redundant_flags)
       ensemble.del_keys(redundant_keys)
   A toggle is (key, serial number): a key that goes and comes back gets a new toggle.  Whether a toggle is
   on (a live peer of higher/equal priority, or still pre-activated) is an input, not modelled here. *)

Definition tog := (key * nat)%type.

Definition tog_eqb (a b : tog) : bool := key_eqb (fst a) (fst b) && Nat.eqb (snd a) (snd b).
Definition mem_tog (t : tog) (l : list tog) : bool := existsb (tog_eqb t) l.

Record tens := { te : ens;                 (* the task maps and the keys of conflicts_found *)
                 flags : list tog;         (* conflicts_found: key -> toggle *)
                 pset : list tog;          (* operator_paused._toggles, without the `peering CRD is missing` toggle *)
                 fresh : nat }.            (* serial number of the next toggle *)

Definition tens0 : tens := {| te := ens0; flags := []; pset := []; fresh := 0 |}.

(* Ensemble.get_flags(keys) *)
Definition get_flags (i : insights) (fl : list tog) : list tog := filter (fun t => redundant i (fst t)) fl.

Definition tterminate (i : insights) (t : tens) : tens :=
  let dropped := get_flags i (flags t) in
  {| te := terminate i (te t);
     flags := filter (fun f => negb (redundant i (fst f))) (flags t);
     pset := filter (fun f => negb (mem_tog f dropped)) (pset t);
     fresh := fresh t |}.

(* `conflicts_found[dkey] = ...` replaces an entry of the same key *)
Definition tspawn_step (t : tens) (k : key) : tens :=
  if mem_key k (peerings (te t)) then t
  else let f := (k, fresh t) in
       {| te := spawn_peering_step (te t) k;
          flags := f :: filter (fun g => negb (key_eqb (fst g) k)) (flags t);
          pset := f :: pset t;
          fresh := S (fresh t) |}.

Definition tspawn_peerings (i : insights) (t : tens) : tens :=
  fold_left tspawn_step (wanted (peering i) (namespaces i)) t.

Definition tadjust (i : insights) (t : tens) : tens :=
  let t1 := tspawn_peerings i (tterminate i t) in
  {| te := spawn_watchers i (te t1); flags := flags t1; pset := pset t1; fresh := fresh t1 |}.

Definition trun_adjust (hs : list insights) : tens := fold_left (fun t i => tadjust i t) hs tens0.

(* ensemble.peering_missing.turn_to(settings.peering.mandatory and not peering_resources) *)
Definition peering_missing (mandatory : bool) (i : insights) : bool :=
  mandatory && match peering i with [] => true | _ => false end.

(* operator_paused.is_on() = any(...): `onk` are the keys whose toggle is on *)
Definition paused_on (mandatory : bool) (i : insights) (onk : list key) (t : tens) : bool :=
  peering_missing mandatory i || existsb (fun f => mem_key (fst f) onk) (pset t).

(* what the property allows: some CURRENT peering reports a conflict *)
Definition blocked_by_current (mandatory : bool) (i : insights) (onk : list key) (t : tens) : bool :=
  peering_missing mandatory i || existsb (fun k => mem_key k onk) (peerings (te t)).

Definition togs_sub (a b : list tog) : bool := forallb (fun t => mem_tog t b) a.
Definition togs_same (a b : list tog) : bool := togs_sub a b && togs_sub b a.

(* ---- observation._update_resources: one dimension of the insights after a (re)scan -------------
   `group` = None for the initial full scan, Some g when a CRD of API group g changed;
   `selected` = the union of selector.select(source) over the handlers' selectors (the selectors are the
   user's declaration: an oracle here; C15 is about them). *)
Definition gres := (string * res)%type.            (* a resource with its API group *)

Definition gres_eqb (a b : gres) : bool := String.eqb (fst a) (fst b) && res_eqb (snd a) (snd b).
Definition mem_gres (x : gres) (l : list gres) : bool := existsb (gres_eqb x) l.

(* `group in [None, resource.group]` *)
Definition in_group (g : option string) (x : gres) : bool :=
  match g with None => true | Some s => String.eqb s (fst x) end.

Definition update_resources (g : option string) (rs selected : list gres) : list gres :=
  fold_left (fun acc x => if mem_gres x acc then acc else x :: acc) selected
            (filter (fun x => negb (in_group g x)) rs).

Definition gres_sub (a b : list gres) : bool := forallb (fun x => mem_gres x b) a.
Definition gres_same (a b : list gres) : bool := gres_sub a b && gres_sub b a.

(* ---- observation._disable_unsuitable_resources ------------------------------------------------
   `nowatch` = the resources lacking the `list` or `watch` verb, `nopatch` = those lacking `patch`;
   `psel` = the resources selected by some STATE-STORING handler's selector (on.create/update/delete/resume,
   timers, daemons: registry._spawning | registry._changing) — an oracle, like `selected` above.
       nonwatchable = {r | no watch or no list};  nonpatchable = {r | no patch} - nonwatchable
       nonpatchable = {r for selector in selectors for r in selector.select(nonpatchable)}     (since 4448d18)
   both sets are removed. *)
Definition disable_unsuitable (rs nowatch nopatch psel : list gres) : list gres :=
  filter (fun x => negb (mem_gres x nowatch) && negb (mem_gres x nopatch && mem_gres x psel)) rs.

(* insights.watched_resources after revise_resources, ambiguity aside *)
Definition revise_watched (g : option string) (rs selected nowatch nopatch psel : list gres) : list gres :=
  disable_unsuitable (update_resources g rs selected) nowatch nopatch psel.
