(* C11 — several handlers in one execution.execute_handlers_once batch: the handlers of an activity, the
   sub-handlers of kopf.execute(), the change handlers of one cause.

     handlers_todo = [h for h in handlers if state[h.id].awakened]
     handlers_plan = lifecycle(handlers_todo, state=state, ...)
     for handler in handlers_plan: outcomes[handler.id] = await execute_handler_once(..., state=state[handler.id])
     state = state.with_outcomes(outcomes)                       # reads the clock once more, after the whole batch

   The batch LTS [bstep] takes the plan as a LABEL: every lifecycle (also randomized/shuffled and user-written ones)
   is an instance as long as it picks distinct handlers among those offered to it ([plan_ok]).  The three
   deterministic lifecycles of lifecycles.py and the run_activity loop over several handlers are modelled on top.
   [sub_raise] is the tail of subhandling.execute: `if not state.done: raise HandlerChildrenRetry(delay=state.delay)`.
   Definitions only; proofs in Proofs/AttemptsBatch.v. *)
From Coq Require Import ZArith List Bool Arith.
From KV Require Import Model.Outcome Model.Attempts.
Import ListNotations.
Open Scope Z_scope.

Record bslot := mkSlot {
  b_cfg : hcfg;                  (* the handler's settings *)
  b_hs  : hstate;                (* its state in the State *)
  b_log : list entry;            (* its entries so far, newest first *)
  b_sc  : script }.              (* oracle: what its next invocations do *)

Record bexec := mkBx {           (* one execute_handler_once of the batch *)
  x_idx : nat; x_tc : Z; x_tx : Z; x_out : outcome; x_called : bool; x_r : raised }.

(* the for-loop over the plan; every handler sees the state as it was when the batch began *)
Fixpoint exec_plan (e : env) (slots : list bslot) (cursor : Z) (plan : list nat) : list bexec * Z :=
  match plan with
  | [] => ([], cursor)
  | i :: rest =>
      match nth_error slots i with
      | None => exec_plan e slots cursor rest
      | Some sl =>
          let hs := b_hs sl in
          let r := fst (next_act (b_sc sl)) in
          let tx := cursor + Z.max 0 (snd (next_act (b_sc sl))) in
          let oc := exec e (b_cfg sl) (s_retries hs) (runtime cursor hs) (runtime tx hs) r in
          let cursor' := if snd oc then tx else cursor in
          let rec := exec_plan e slots cursor' rest in
          (mkBx i cursor cursor' (fst oc) (snd oc) r :: fst rec, snd rec)
      end
  end.

Definition find_exec (i : nat) (xs : list bexec) : option bexec := find (fun x => Nat.eqb (x_idx x) i) xs.

(* State.with_outcomes at [te] for the handler at index i *)
Definition apply_out (te : Z) (xs : list bexec) (i : nat) (sl : bslot) : bslot :=
  match find_exec i xs with
  | Some x => mkSlot (b_cfg sl) (with_outcome te (b_hs sl) (x_out x))
                     (if x_called x then mkEn (x_tc x) (s_retries (b_hs sl)) te (x_r x) :: b_log sl else b_log sl)
                     (if x_called x then tl (b_sc sl) else b_sc sl)
  | None => sl
  end.

Fixpoint map_idx {A B : Type} (f : nat -> A -> B) (i : nat) (l : list A) : list B :=
  match l with [] => [] | a :: l' => f i a :: map_idx f (S i) l' end.

Fixpoint nodupb (l : list nat) : bool :=
  match l with [] => true | x :: l' => negb (existsb (Nat.eqb x) l') && nodupb l' end.

Definition awake_at (ta : Z) (slots : list bslot) (i : nat) : bool :=
  match nth_error slots i with Some sl => awakened ta (b_hs sl) | None => false end.

(* what a lifecycle may return: distinct handlers among the awakened ones *)
Definition plan_ok (ta : Z) (slots : list bslot) (plan : list nat) : bool :=
  nodupb plan && forallb (awake_at ta slots) plan.

Record bstate := mkB { bs_slots : list bslot; bs_clock : Z }.

Definition bstep (e : env) (s : bstate) (l : Z * list nat) : option bstate :=
  let '(ta, plan) := l in
  if (bs_clock s <=? ta) && plan_ok ta (bs_slots s) plan then
    let r := exec_plan e (bs_slots s) ta plan in
    Some (mkB (map_idx (apply_out (snd r) (fst r)) 0 (bs_slots s)) (snd r))
  else None.

Fixpoint brun (e : env) (s : bstate) (tr : list (Z * list nat)) : option bstate :=
  match tr with
  | [] => Some s
  | l :: tr' => match bstep e s l with Some s' => brun e s' tr' | None => None end
  end.

Definition binit (t0 : Z) (hs : list (hcfg * script)) : bstate :=
  mkB (map (fun cs => mkSlot (fst cs) (from_scratch t0) [] (snd cs)) hs) t0.

(* ---------------------------------------------------------------- lifecycles.py *)

Definition todo (ta : Z) (slots : list bslot) : list nat :=
  filter (awake_at ta slots) (seq 0 (List.length slots)).

Inductive lifecycle := LAllAtOnce | LOneByOne | LAsap.

Definition retries_at (slots : list bslot) (i : nat) : Z :=
  match nth_error slots i with Some sl => s_retries (b_hs sl) | None => 0 end.

(* sorted(handlers, key=retries)[:1]: the first among those with the fewest retries *)
Fixpoint argmin_retries (slots : list bslot) (best : nat) (l : list nat) : nat :=
  match l with
  | [] => best
  | i :: l' => argmin_retries slots (if retries_at slots i <? retries_at slots best then i else best) l'
  end.

Definition choose (lc : lifecycle) (slots : list bslot) (td : list nat) : list nat :=
  match lc with
  | LAllAtOnce => td
  | LOneByOne => firstn 1 td
  | LAsap => match td with [] => [] | i :: l => [argmin_retries slots i l] end
  end.

(* activities.run_activity over several handlers *)
Fixpoint mact_trace (fuel : nat) (e : env) (lc : lifecycle) (now : Z) (slots : list bslot) : list (Z * list nat) :=
  match fuel with
  | O => []
  | S f =>
      if st_done (map b_hs slots) then [] else
      let plan := choose lc slots (todo now slots) in
      let r := exec_plan e slots now plan in
      let slots' := map_idx (apply_out (snd r) (fst r)) 0 slots in
      let te := snd r in
      (now, plan) :: mact_trace f e lc (sleep_to None te (sleep_len (olist (st_delay te (map b_hs slots'))))) slots'
  end.

(* ---------------------------------------------------------------- subhandling.execute *)

(* what the parent handler "raises" after a batch of its sub-handlers, folded in at [te] *)
Definition sub_raise (te : Z) (children : list hstate) : raised :=
  if st_done children then ROk else RChild (st_delay te children).

(* ---------------------------------------------------------------- for the harness *)

Fixpoint nat_list_eqb (a b : list nat) : bool :=
  match a, b with
  | [], [] => true
  | x :: a', y :: b' => Nat.eqb x y && nat_list_eqb a' b'
  | _, _ => false
  end.

Fixpoint batches_eqb (a b : list (Z * list nat)) : bool :=
  match a, b with
  | [], [] => true
  | (t, p) :: a', (u, q) :: b' => (t =? u) && nat_list_eqb p q && batches_eqb a' b'
  | _, _ => false
  end.

Fixpoint slots_match (slots : list bslot) (obs : list (list (Z * Z * Z))) : bool :=
  match slots, obs with
  | [], [] => true
  | sl :: slots', o :: obs' => obs_list_eqb (map obs_of (rev (b_log sl))) o && slots_match slots' obs'
  | _, _ => false
  end.

(* run_activity with several handlers against the implementation: the same batches (start, who was executed, in
   which order) and the same entries of every handler (the states are compared batch by batch in T:multi_activity) *)
Definition mact_matches (fuel : nat) (e : env) (lc : lifecycle) (t0 : Z) (hs : list (hcfg * script))
                        (batches : list (Z * list nat)) (obs : list (list (Z * Z * Z))) : bool :=
  let tr := mact_trace fuel e lc t0 (bs_slots (binit t0 hs)) in
  batches_eqb tr batches &&
  match brun e (binit t0 hs) tr with
  | Some s => slots_match (bs_slots s) obs
  | None => false
  end.

(* the parent's progress record after a batch of its sub-handlers: delayed until the first sub-handler is due *)
Definition sub_parent_delayed (te : Z) (children : list hstate) : option Z :=
  match sub_raise te children with RChild (Some d) => Some (te + d) | _ => None end.
