(* C19 — the watch-stream client of kopf (kopf/_cogs/clients/watching.py: infinite_watch,
   streaming_block, continuous_watch, watch_objs; kopf/_cogs/clients/api.py: request's retry loop
   as far as it decides what the stream does, stream's stopper handling; fetching.list_objs)
   as a labelled transition system, and the API server it talks to.  Definitions only.

   Observation points (DESIGN Appendix B): the requests the server receives, the responses and
   stream lines it sends, how a stream ends, what the consumer of `infinite_watch` is handed,
   and the pause toggle.  Silent moves of the code (the reconnect back-off sleep, the re-check
   of the pause in streaming_block, `while not operator_pause_waiter.done()`) are folded into
   the next observable label.

   resourceVersions are integers (the fake server's; kopf treats them as opaque strings and only
   copies them); `None` is "no metadata.resourceVersion in the payload". *)
From Coq Require Import ZArith List String Bool.
Import ListNotations.
Open Scope Z_scope.

Inductive etype := TAdded | TModified | TDeleted | TBookmark.

(* outcome of one HTTP attempt other than success, as api.request classifies it *)
Inductive fault :=
| FConn      (* aiohttp.ClientConnectionError: retried *)
| FTimeout   (* asyncio.TimeoutError: retried *)
| F5xx       (* APIServerError: retried *)
| F429       (* APITooManyRequestsError: retried *)
| F403       (* APIForbiddenError: retried *)
| F4xx.      (* any other 4xx (HTTP 410 Gone, 404, 400 ...): APIClientError, raised at once *)

(* how an open stream stops producing lines *)
Inductive ending :=
| EEof       (* server closed it cleanly (server-side timeout) *)
| EConn      (* ClientConnectionError while reading *)
| EPayload   (* ClientPayloadError while reading *)
| ETimeout   (* asyncio.TimeoutError while reading (aiohttp total timeout) *)
| EInactive  (* watch_objs' own asyncio.timeout(inactivity_timeout) fired *)
| EClosed.   (* response.close() by the stopper callback: the operator was paused *)

Inductive line :=
| LnEv (t : etype) (orv : option Z) (name : string)   (* ADDED/MODIFIED/DELETED/BOOKMARK *)
| LnErr (code : Z)                                    (* {"type": "ERROR", "object": {"code": ...}} *)
| LnUnknown.                                          (* any other "type" *)

Inductive yielded :=
| YItem (name : string) (orv : option Z)              (* {'type': None, 'object': item} *)
| YListed                                             (* Bookmark.LISTED *)
| YEv (t : etype) (orv : option Z) (name : string).

Definition item := (string * option Z)%type.

Inductive label :=
| LPause | LResume                       (* the operator_paused toggle-set turns on / off *)
| LReqList                               (* the server receives GET <resource list> *)
| LListOk (orv : option Z) (items : list item)
| LFault (f : fault)                     (* the pending request attempt fails *)
| LReqWatch (since : option Z)           (* the server receives GET ...?watch=true&resourceVersion=since *)
| LWatchOk                               (* response headers: the stream is open *)
| LLine (l : line)
| LYield (y : yielded)                   (* the consumer of infinite_watch receives y *)
| LEnd (e : ending)
| LRaised.                               (* the consumer's `async for` raises: the generator is finished *)

Inductive phase :=
| PIdle                                  (* between streams: reconnect back-off / streaming_block *)
| PList (k : nat)                        (* api.request's back-off sleep before LIST attempt k+1, k >= 1 *)
| PListWait (k : nat)                    (* LIST attempt k+1 sent, k earlier attempts failed *)
| PItems (rv : option Z) (rest : list item)   (* `for obj in objs: yield` *)
| PLoop (rv : option Z)                  (* `while not operator_pause_waiter.done():` *)
| PWatch (rv : option Z) (k : nat)       (* back-off sleep before WATCH attempt k+1, k >= 1 *)
| PWatchWait (rv : option Z) (k : nat)
| POpen (rv : option Z)                  (* `async for raw_input in stream:` waiting for a line *)
| PGot (rv : option Z) (y : yielded)     (* a line was accepted and is being yielded (no suspension point) *)
| PFail                                  (* an exception is propagating out of infinite_watch *)
| PDead.                                 (* the generator is finished; nothing is watched any more *)

Record cstate := { ph : phase;
                   paused : bool;        (* operator_paused.is_on() *)
                   stopper : bool }.     (* operator_pause_waiter.done() *)

Definition mk (p : phase) (pa st : bool) : cstate := {| ph := p; paused := pa; stopper := st |}.

Definition cinit (pa : bool) : cstate := mk PIdle pa false.

(* the pause-waiter task exists from streaming_block's `yield` to its `finally` *)
Definition has_waiter (p : phase) : bool :=
  match p with PIdle | PFail | PDead => false | _ => true end.

Definition retriable (f : fault) : bool :=
  match f with F4xx => false | _ => true end.

(* where an error that escaped api.request during the LIST goes *)
Definition list_escalated (f : fault) : phase :=
  match f with
  | FConn | FTimeout => PIdle      (* continuous_watch: except (...): return *)
  | F429 => PIdle                  (* infinite_watch: except APITooManyRequestsError: pass *)
  | F5xx | F403 | F4xx => PFail
  end.

(* ... and during the WATCH request *)
Definition watch_escalated (rv : option Z) (f : fault) : phase :=
  match f with
  | FConn | FTimeout => PLoop rv   (* watch_objs: except (...): pass *)
  | F429 => PIdle
  | F5xx | F403 | F4xx => PFail
  end.

(* body.get('metadata', {}).get('resourceVersion', resource_version) *)
Definition adv (rv orv : option Z) : option Z :=
  match orv with Some v => Some v | None => rv end.

Definition orv_eqb (a b : option Z) : bool :=
  match a, b with Some x, Some y => Z.eqb x y | None, None => true | _, _ => false end.

Definition etype_eqb (a b : etype) : bool :=
  match a, b with
  | TAdded, TAdded | TModified, TModified | TDeleted, TDeleted | TBookmark, TBookmark => true
  | _, _ => false
  end.

Definition swallowed_end (e : ending) : bool :=
  match e with EClosed => false | _ => true end.

Section Client.
Variable retries : nat.      (* len(settings.networking.error_backoffs) *)

Definition cstep (s : cstate) (l : label) : option cstate :=
  let pa := paused s in let st := stopper s in
  match l, ph s with
  (* ---- the environment toggles the pause; yielding an accepted line has no suspension point *)
  | LPause, PGot _ _ => None
  | LResume, PGot _ _ => None
  | LPause, p => Some (mk p true (st || has_waiter p))
  | LResume, p => Some (mk p false st)
  (* ---- a new stream: streaming_block lets through only when not paused; fresh pause-waiter *)
  | LReqList, PIdle => if pa then None else Some (mk (PListWait 0) pa false)
  (* `while not operator_pause_waiter.done()` found it done: same as PIdle *)
  | LReqList, PLoop _ => if st && negb pa then Some (mk (PListWait 0) pa false) else None
  (* a retry inside api.request: the pause is not consulted *)
  | LReqList, PList k => Some (mk (PListWait k) pa st)
  | LFault f, PListWait k =>
      if retriable f && Nat.ltb k retries then Some (mk (PList (S k)) pa st)
      else Some (mk (list_escalated f) pa st)
  | LListOk orv items, PListWait _ => Some (mk (PItems orv items) pa st)
  | LYield (YItem n v), PItems rv ((n', v') :: rest) =>
      if String.eqb n n' && orv_eqb v v'
      then Some (mk (PItems rv rest) pa st) else None
  | LYield YListed, PItems rv [] => Some (mk (PLoop rv) pa st)
  (* ---- the watch loop *)
  | LReqWatch since, PLoop rv =>
      if st then None
      else if orv_eqb since rv
           then Some (mk (PWatchWait rv 0) pa st) else None
  | LReqWatch since, PWatch rv k =>
      if orv_eqb since rv
      then Some (mk (PWatchWait rv k) pa st) else None
  | LFault f, PWatchWait rv k =>
      if retriable f && Nat.ltb k retries then Some (mk (PWatch rv (S k)) pa st)
      else Some (mk (watch_escalated rv f) pa st)
  (* api.stream: "Do not proceed if managed to avoid the cancellation": close and return *)
  | LWatchOk, PWatchWait rv _ => Some (mk (if st then PLoop rv else POpen rv) pa st)
  (* the inactivity timeout spans the request, its retries and the stream *)
  | LEnd EInactive, PWatchWait rv _ => Some (mk (PLoop rv) pa st)
  | LEnd EInactive, PWatch rv _ => Some (mk (PLoop rv) pa st)
  (* ---- lines of an open stream; none after the stopper closed the response *)
  | LLine ln, POpen rv =>
      if st then None else
      match ln with
      | LnErr code => if Z.eqb code 410 then Some (mk PIdle pa st)     (* return: re-list *)
                      else Some (mk PFail pa st)                       (* raise WatchingError *)
      | LnUnknown => Some (mk (POpen rv) pa st)                        (* logged, skipped *)
      | LnEv t orv n => Some (mk (PGot (adv rv orv) (YEv t orv n)) pa st)
      end
  | LYield y, PGot rv y' =>
      match y, y' with
      | YEv t v n, YEv t' v' n' =>
          if etype_eqb t t' && String.eqb n n' && orv_eqb v v'
          then Some (mk (POpen rv) pa st) else None
      | _, _ => None
      end
  | LEnd e, POpen rv =>
      if swallowed_end e then Some (mk (PLoop rv) pa st)
      else if st then Some (mk (PLoop rv) pa st) else None             (* EClosed only by the stopper *)
  (* ---- failure *)
  | LRaised, PFail => Some (mk PDead pa st)
  | _, _ => None
  end.

Fixpoint crun (s : cstate) (tr : list label) : option cstate :=
  match tr with
  | [] => Some s
  | l :: tr' => match cstep s l with Some s' => crun s' tr' | None => None end
  end.

(* index of the first label that is not accepted (None: all accepted) — for diagnostics *)
Fixpoint crej (s : cstate) (tr : list label) (i : nat) : option nat :=
  match tr with
  | [] => None
  | l :: tr' => match cstep s l with Some s' => crej s' tr' (S i) | None => Some i end
  end.

End Client.

(* ------------------------------------------------------------------------------------------
   The API server for one (resource, namespace): an append-only change log with integer
   versions, a compaction horizon, and at most one open stream of the client under study.
   Assumed Kubernetes rules (trusted base): versions grow; a watch from `since` delivers exactly
   the changes with version > since, in order; a BOOKMARK b is sent only when every change up to b
   was sent on that stream; an ERROR line (410 or other) may come at any time; LIST returns the current state and the
   current version. *)

Record change := { c_rv : Z; c_typ : etype; c_name : string }.

Record server := { log : list change;        (* newest first *)
                   cur : Z;                  (* the version counter *)
                   horizon : Z;              (* watches from below it get ERROR 410 *)
                   cursor : option Z }.      (* last version sent on the open stream *)

Definition sinit (v : Z) : server := {| log := []; cur := v; horizon := 0; cursor := None |}.

(* the objects that exist after the changes (newest first): name -> version of its last change *)
Fixpoint snapshot_of (l : list change) (seen : list string) : list item :=
  match l with
  | [] => []
  | c :: l' =>
      if existsb (String.eqb (c_name c)) seen then snapshot_of l' seen
      else match c_typ c with
           | TDeleted | TBookmark => snapshot_of l' (c_name c :: seen)
           | _ => (c_name c, Some (c_rv c)) :: snapshot_of l' (c_name c :: seen)
           end
  end.

Definition item_eqb (a b : item) : bool :=
  String.eqb (fst a) (fst b) &&
  orv_eqb (snd a) (snd b).

Fixpoint mem_item (a : item) (l : list item) : bool :=
  match l with [] => false | b :: l' => item_eqb a b || mem_item a l' end.

Definition items_same (a b : list item) : bool :=
  forallb (fun x => mem_item x b) a && forallb (fun x => mem_item x a) b
  && Nat.eqb (List.length a) (List.length b).

(* the oldest change with a version above v *)
Fixpoint next_after (l : list change) (v : Z) : option change :=
  match l with
  | [] => None
  | c :: l' => match next_after l' v with
               | Some d => Some d
               | None => if Z.ltb v (c_rv c) then Some c else None
               end
  end.

Inductive wlabel :=
| WC (l : label)                          (* a label of the client *)
| WChange (t : etype) (name : string)     (* an object is created / modified / deleted *)
| WTick                                   (* the version counter moves (a change elsewhere) *)
| WCompact.                               (* the server forgets its log up to now *)

Definition sstep (sv : server) (l : label) : option server :=
  match l with
  | LListOk orv items =>
      match orv with
      | Some v => if Z.eqb v (cur sv) && items_same items (snapshot_of (log sv) []) then Some sv else None
      | None => None
      end
  | LReqWatch since =>
      Some {| log := log sv; cur := cur sv; horizon := horizon sv;
              cursor := Some (match since with Some v => v | None => 0 end) |}
  | LLine (LnEv t orv n) =>
      match cursor sv, orv with
      | Some cu, Some v =>
          match t with
          | TBookmark =>
              if Z.leb cu v && Z.leb v (cur sv)
                 && match next_after (log sv) cu with Some c => Z.ltb v (c_rv c) | None => true end
              then Some {| log := log sv; cur := cur sv; horizon := horizon sv; cursor := Some v |} else None
          | _ =>
              match next_after (log sv) cu with
              | Some c => if Z.eqb (c_rv c) v && etype_eqb (c_typ c) t && String.eqb (c_name c) n
                          then Some {| log := log sv; cur := cur sv; horizon := horizon sv; cursor := Some v |}
                          else None
              | None => None
              end
          end
      | _, _ => None
      end
  | _ => Some sv
  end.

Record world := { cl : cstate; sv : server }.

Definition winit (pa : bool) (v : Z) : world := {| cl := cinit pa; sv := sinit v |}.

Definition wstep (retries : nat) (w : world) (l : wlabel) : option world :=
  match l with
  | WC l =>
      match cstep retries (cl w) l, sstep (sv w) l with
      | Some c, Some s => Some {| cl := c; sv := s |}
      | _, _ => None
      end
  | WChange t n =>
      match t with
      | TBookmark => None
      | _ => let s := sv w in
             Some {| cl := cl w;
                     sv := {| log := {| c_rv := cur s + 1; c_typ := t; c_name := n |} :: log s;
                              cur := cur s + 1; horizon := horizon s; cursor := cursor s |} |}
      end
  | WTick => let s := sv w in
             Some {| cl := cl w; sv := {| log := log s; cur := cur s + 1; horizon := horizon s; cursor := cursor s |} |}
  | WCompact => let s := sv w in
             Some {| cl := cl w; sv := {| log := log s; cur := cur s; horizon := cur s; cursor := cursor s |} |}
  end.

Fixpoint wrun (retries : nat) (w : world) (tr : list wlabel) : option world :=
  match tr with
  | [] => Some w
  | l :: tr' => match wstep retries w l with Some w' => wrun retries w' tr' | None => None end
  end.

Fixpoint wrej (retries : nat) (w : world) (tr : list wlabel) (i : nat) : option nat :=
  match tr with
  | [] => None
  | l :: tr' => match wstep retries w l with Some w' => wrej retries w' tr' (S i) | None => Some i end
  end.

(* the client's position: the version it would resume from *)
Definition position (p : phase) : option (option Z) :=
  match p with
  | PItems rv _ | PLoop rv | PWatch rv _ | PWatchWait rv _ | POpen rv | PGot rv _ => Some rv
  | _ => None
  end.

(* ------------------------------------------------------------------------------------------
   kopf/_cogs/clients/api.py iter_jsonlines: lines out of arbitrarily chunked bytes.
   `scan` is the inner `while index >= 0` over one buffer: the complete non-empty lines in order and
   the unterminated rest (`buffer = buffer[start:]`); `feed` is the `async for data in ...` loop with
   the final `if buffer: yield buffer`. Bytes are numbers; 10 is the newline. *)
Fixpoint scan (buf : list Z) (acc : list Z) : list (list Z) * list Z :=
  match buf with
  | [] => ([], acc)
  | b :: buf' =>
      if Z.eqb b 10
      then let (ls, r) := scan buf' [] in (match acc with [] => ls | _ => acc :: ls end, r)
      else scan buf' (acc ++ [b])
  end.

Fixpoint feed (chunks : list (list Z)) (buffer : list Z) : list (list Z) :=
  match chunks with
  | [] => match buffer with [] => [] | _ => [buffer] end
  | d :: rest => let (ls, r) := scan (buffer ++ d) [] in ls ++ feed rest r
  end.

Definition jsonlines (chunks : list (list Z)) : list (list Z) := feed chunks [].

(* labels of a fault-free continuation: requests, successful responses, event lines, yields, and the
   client's own closing of a stream whose pause-waiter has fired *)
Definition quiet (l : wlabel) : bool :=
  match l with
  | WC LReqList | WC (LListOk _ _) | WC (LYield _) | WC (LReqWatch _) | WC LWatchOk
  | WC (LLine (LnEv _ _ _)) | WC (LEnd EClosed) => true
  | _ => false
  end.
