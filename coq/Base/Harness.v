(* Glue used by the generated case files of the correspondence checks. No proofs needed. *)
From Coq Require Import List NArith Bool.
Import ListNotations.

Fixpoint kv_bad_from (i : nat) (l : list bool) : list nat :=
  match l with
  | [] => []
  | b :: l' => if b then kv_bad_from (S i) l' else i :: kv_bad_from (S i) l'
  end.

Definition kv_bad_indices (l : list bool) : list nat := kv_bad_from 0 l.

Definition opt_eqb {A} (eqb : A -> A -> bool) (x y : option A) : bool :=
  match x, y with
  | Some a, Some b => eqb a b
  | None, None => true
  | _, _ => false
  end.

Fixpoint list_eqb {A} (eqb : A -> A -> bool) (x y : list A) : bool :=
  match x, y with
  | [], [] => true
  | a :: x', b :: y' => eqb a b && list_eqb eqb x' y'
  | _, _ => false
  end.

Definition pair_eqb {A B} (ea : A -> A -> bool) (eb : B -> B -> bool) (x y : A * B) : bool :=
  ea (fst x) (fst y) && eb (snd x) (snd y).
