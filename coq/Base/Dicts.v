(* kopf/_cogs/structs/dicts.py : resolve / ensure / remove / cherrypick with Python's errors visible. *)
From Coq Require Import ZArith List String Bool.
From KV Require Import Base.Json.
Import ListNotations.
Open Scope string_scope.
Open Scope list_scope.

Inductive res (A : Type) : Type :=
| Ok (a : A)
| ErrKey          (* KeyError *)
| ErrType         (* TypeError *)
| ErrValue.       (* ValueError *)
Arguments Ok {A} a.
Arguments ErrKey {A}.
Arguments ErrType {A}.
Arguments ErrValue {A}.

Definition bind {A B} (r : res A) (f : A -> res B) : res B :=
  match r with Ok a => f a | ErrKey => ErrKey | ErrType => ErrType | ErrValue => ErrValue end.

(* dicts.resolve(d, path) without default: KeyError on absent key, TypeError on non-mapping *)
Fixpoint resolve_strict (j : json) (p : path) : res json :=
  match p with
  | [] => Ok j
  | k :: p' =>
      match j with
      | JObj kvs => match lookup k kvs with Some v => resolve_strict v p' | None => ErrKey end
      | _ => ErrType
      end
  end.

(* dicts.resolve(d, path, default): see Json.resolve (None = the default was returned). *)

(* dicts.ensure(d, path, value): mutation modelled as returning the new dict. *)
Fixpoint ensure (j : json) (p : path) (v : json) : res json :=
  match p with
  | [] => ErrValue
  | [k] =>
      match j with
      | JObj kvs => Ok (JObj (set k v kvs))
      | _ => ErrType
      end
  | k :: p' =>
      match j with
      | JObj kvs =>
          let sub := match lookup k kvs with Some s => s | None => JObj [] end in
          bind (ensure sub p' v) (fun sub' => Ok (JObj (set k sub' kvs)))
      | _ => ErrType
      end
  end.

Definition is_empty_obj (j : json) : bool :=
  match j with JObj [] => true | _ => false end.

(* dicts.remove(d, path) *)
Fixpoint remove (j : json) (p : path) : res json :=
  match p with
  | [] => ErrValue
  | [k] =>
      match j with
      | JObj kvs => Ok (JObj (del k kvs))
      | _ => ErrType
      end
  | k :: p' =>
      match j with
      | JObj kvs =>
          match lookup k kvs with
          | None => Ok j                      (* KeyError swallowed: already absent *)
          | Some sub =>
              bind (remove sub p') (fun sub' =>
                if is_empty_obj sub' then Ok (JObj (del k kvs)) else Ok (JObj (set k sub' kvs)))
          end
      | _ => ErrType
      end
  end.

(* equality of results, used by the correspondence checks *)
Definition res_eqb {A} (eqb : A -> A -> bool) (x y : res A) : bool :=
  match x, y with
  | Ok a, Ok b => eqb a b
  | ErrKey, ErrKey | ErrType, ErrType | ErrValue, ErrValue => true
  | _, _ => false
  end.

Definition ojeqb (x y : option json) : bool :=
  match x, y with
  | Some a, Some b => jeqb a b
  | None, None => true
  | _, _ => false
  end.
