(* JSON values as kopf sees them (Python dict/list/str/int/bool/None), association-list
   objects with insertion order (Python dicts keep it).  Floats are outside the model. *)
From Coq Require Import ZArith List String Bool Ascii Lia.
Import ListNotations.
Open Scope string_scope.
Open Scope list_scope.

Inductive json : Type :=
| JNull
| JBool (b : bool)
| JNum (z : Z)
| JStr (s : string)
| JList (l : list json)
| JObj (kvs : list (string * json))
| JEnc (j : json).
(* [JEnc j] is a *string* whose content is the compact JSON text of [j] (kopf stores progress
   records and the last-handled essence that way in annotations).  json.dumps/json.loads are
   oracles with the law loads (dumps j) = j; the constructor builds that law in.  The harness
   validates it on every value it encodes this way.  Everything treats it as an opaque str. *)

Definition obj := list (string * json).

(* ---------- association lists (generic in the value type) ---------- *)
Section Assoc.
  Context {V : Type}.

  Fixpoint lookup (k : string) (l : list (string * V)) : option V :=
    match l with
    | [] => None
    | (k', v) :: l' => if String.eqb k k' then Some v else lookup k l'
    end.

  Definition has (k : string) (l : list (string * V)) : bool :=
    match lookup k l with Some _ => true | None => false end.

  (* d[k] = v : replace in place, else append (Python dict semantics) *)
  Fixpoint set (k : string) (v : V) (l : list (string * V)) : list (string * V) :=
    match l with
    | [] => [(k, v)]
    | (k', v') :: l' => if String.eqb k k' then (k, v) :: l' else (k', v') :: set k v l'
    end.

  (* del d[k] (no error if absent: callers model KeyError separately) *)
  Fixpoint del (k : string) (l : list (string * V)) : list (string * V) :=
    match l with
    | [] => []
    | (k', v') :: l' => if String.eqb k k' then del k l' else (k', v') :: del k l'
    end.

  Definition keys (l : list (string * V)) : list string := map fst l.

  Definition filter_keys (p : string -> bool) (l : list (string * V)) : list (string * V) :=
    filter (fun kv => p (fst kv)) l.
End Assoc.

Definition mem_str (k : string) (l : list string) : bool := existsb (String.eqb k) l.

(* ---------- strong induction principle for the nested inductive ---------- *)
Section JsonInd.
  Variable P : json -> Prop.
  Hypothesis Hnull : P JNull.
  Hypothesis Hbool : forall b, P (JBool b).
  Hypothesis Hnum : forall z, P (JNum z).
  Hypothesis Hstr : forall s, P (JStr s).
  Hypothesis Hlist : forall l, Forall P l -> P (JList l).
  Hypothesis Hobj : forall kvs, Forall (fun kv => P (snd kv)) kvs -> P (JObj kvs).
  Hypothesis Henc : forall j, P j -> P (JEnc j).

  Fixpoint json_ind' (j : json) : P j :=
    match j with
    | JNull => Hnull
    | JBool b => Hbool b
    | JNum z => Hnum z
    | JStr s => Hstr s
    | JList l =>
        Hlist l ((fix go (l : list json) : Forall P l :=
                    match l with
                    | [] => Forall_nil _
                    | x :: l' => Forall_cons _ (json_ind' x) (go l')
                    end) l)
    | JObj kvs =>
        Hobj kvs ((fix go (l : list (string * json)) : Forall (fun kv => P (snd kv)) l :=
                     match l with
                     | [] => Forall_nil _
                     | kv :: l' => Forall_cons _ (json_ind' (snd kv)) (go l')
                     end) kvs)
    | JEnc j' => Henc j' (json_ind' j')
    end.
End JsonInd.

(* ---------- equalities ---------- *)

(* Strict structural equality up to the order of object keys (objects have unique keys).
   This is what the correspondence checks use to compare model and implementation values. *)
Fixpoint jeqb (a b : json) {struct a} : bool :=
  match a, b with
  | JNull, JNull => true
  | JBool x, JBool y => Bool.eqb x y
  | JNum x, JNum y => Z.eqb x y
  | JStr x, JStr y => String.eqb x y
  | JList xs, JList ys =>
      (fix go (xs ys : list json) : bool :=
         match xs, ys with
         | [], [] => true
         | x :: xs', y :: ys' => jeqb x y && go xs' ys'
         | _, _ => false
         end) xs ys
  | JObj xs, JObj ys =>
      Nat.eqb (List.length xs) (List.length ys) &&
      (fix go (xs : list (string * json)) : bool :=
         match xs with
         | [] => true
         | (k, v) :: xs' =>
             match lookup k ys with
             | Some w => jeqb v w
             | None => false
             end && go xs'
         end) xs
  | JEnc x, JEnc y => jeqb x y
  | _, _ => false
  end.

(* Python's `==` on JSON-like values: like jeqb, but True == 1 and False == 0. *)
Definition num_of (j : json) : option Z :=
  match j with
  | JBool true => Some 1%Z
  | JBool false => Some 0%Z
  | JNum z => Some z
  | _ => None
  end.

Fixpoint py_eqb (a b : json) {struct a} : bool :=
  match a, b with
  | JNull, JNull => true
  | JBool x, JBool y => Bool.eqb x y
  | JBool x, JNum y => Z.eqb (if x then 1 else 0) y
  | JNum x, JBool y => Z.eqb x (if y then 1 else 0)
  | JNum x, JNum y => Z.eqb x y
  | JStr x, JStr y => String.eqb x y
  | JList xs, JList ys =>
      (fix go (xs ys : list json) : bool :=
         match xs, ys with
         | [], [] => true
         | x :: xs', y :: ys' => py_eqb x y && go xs' ys'
         | _, _ => false
         end) xs ys
  | JObj xs, JObj ys =>
      Nat.eqb (List.length xs) (List.length ys) &&
      (fix go (xs : list (string * json)) : bool :=
         match xs with
         | [] => true
         | (k, v) :: xs' =>
             match lookup k ys with
             | Some w => py_eqb v w
             | None => false
             end && go xs'
         end) xs
  | JEnc x, JEnc y => jeqb x y   (* two JSON texts: equal strings iff equal content *)
  | _, _ => false
  end.

Definition is_obj (j : json) : bool := match j with JObj _ => true | _ => false end.
Definition as_obj (j : json) : option obj := match j with JObj o => Some o | _ => None end.

(* well-formedness: every object has unique keys, recursively *)
Fixpoint nodup_keys (l : list string) : bool :=
  match l with
  | [] => true
  | k :: l' => negb (mem_str k l') && nodup_keys l'
  end.

Fixpoint wf (j : json) : bool :=
  match j with
  | JList l => forallb wf l
  | JObj kvs => nodup_keys (map fst kvs) && forallb (fun kv => wf (snd kv)) kvs
  | JEnc j' => wf j'
  | _ => true
  end.

(* ---------- paths ---------- *)
Definition path := list string.

(* dicts.resolve(d, path, default) with "default given": None result = default returned *)
Fixpoint resolve (j : json) (p : path) : option json :=
  match p with
  | [] => Some j
  | k :: p' =>
      match j with
      | JObj kvs => match lookup k kvs with Some v => resolve v p' | None => None end
      | _ => None
      end
  end.

(* RFC 7386 JSON merge patch: the server-side meaning of kopf's patches *)
Fixpoint merge (target patch : json) {struct patch} : json :=
  match patch with
  | JObj pkvs =>
      let t := match target with JObj tkvs => tkvs | _ => [] end in
      JObj ((fix go (pkvs : list (string * json)) (t : obj) : obj :=
               match pkvs with
               | [] => t
               | (k, JNull) :: rest => go rest (del k t)
               | (k, v) :: rest =>
                   go rest (set k (merge (match lookup k t with Some tv => tv | None => JNull end) v) t)
               end) pkvs t)
  | _ => patch
  end.
