(* C04 — change detection is exact: own writes invisible, diffs sound and complete.
   Only statements here; proofs in Proofs/C04*.v.  Models: Model/Diff.v (diffs.diff_iter / reduce_iter),
   Model/Storage.v (DiffBaseStorage.build = dbuild, ProgressStorage.clear = pclear, stores, marker),
   Model/Essence.v (old/new/diff as processing.py computes them, adjust_cause), Model/OwnWrites.v (the framework's
   writes, finalizers), Model/Results.v (deliver_results).  All quantifiers are unbounded: every json body of any
   nesting, every prefix, every handler id, every digest oracle dg.  "all configs" = every dstorage/pstorage incl.
   arbitrarily nested Multi, every extra_fields/ignored_fields; "ann configs" = DAnn Q + PAnn Q' (and the default
   smart progress storage), ignored_fields = extra_fields = [].

   CLAUSE TABLE (statement of properties.jsonl C04, split)
   ---------------------------------------------------------------------------------------------------------------
   A  "triggered only by essential changes"
   A1 own writes never count
      progress records / purge / touch-dummy      FULL (ann configs): C04_own_progress_store_invisible(+_first,+_smart),
                                                   C04_own_progress_purge_invisible, C04_own_touch_invisible(+_smart)
      last-handled state (diff-base store)        PARTIAL, guard = exactly F41: C04_own_diffbase_store_invisible
                                                   (+_first_store, +_fresh_store, +_smart); REFUTED without the guard:
                                                   C04_own_writes_invisible_refuted (finding F41)
      whole accumulated patch of a cycle, any     PARTIAL (guard F41; none when the two prefixes coincide):
      list of store/purge/diffbase/touch/marker   C04_own_patch_invisible, C04_own_patch_invisible_same_prefix,
                                                   C04_own_patch_after_store_invisible; smart: ..._smart_partial
      writes confined to the status stanza        FULL (all configs): C04_status_patch_invisible (status progress /
      (status storages, handler results)          diff-base storages, results), C04_results_invisible
      finalizer added / removed                   FULL (all configs): C04_finalizer_block_invisible, C04_finalizer_allow_invisible
      one patch touching status AND annotations   monitored only (monitor own-write-visible, tie D:own) — e.g. smart purge
      with status storages in the own-writes thms  of a record still present in status, DStatus + PAnn
   A2 the status stanza never counts              FULL (all configs): C04_system_fields_invisible_status(+_removed),
                                                   C04_status_patch_invisible; exact proviso (handlers' fields inside
                                                   status must not see the change): C04_status_patch_invisible_fields
   A3 system metadata never counts                FULL (all configs): C04_essence_frame (the essence depends on NOTHING but
                                                   payload keys, labels, annotations, the ReplicaSet-of-Deployment bit and
                                                   the handlers' field values), corollaries C04_system_metadata_general,
                                                   C04_system_kind_invisible, C04_system_fields_invisible_*
   A4 handling can never trigger itself           PARTIAL (ann configs + smart; guard F41): C04_no_self_trigger(_wf_body,
                                                   _smart), C04_no_self_trigger_after_own_writes; REFUTED without the guard:
                                                   C04_no_self_trigger_guard_needed (F41: one spurious UPDATE).
                                                   Other configurations: monitored only (monitor self-trigger-after-store /
                                                   cycle own-write:noop, tie D:essence)
   A5 no ping-pong with another Kopf operator     FULL as far as detection goes (all configs of the observer):
                                                   C04_prefix_detectable_after_store(+_diffbase), C04_other_operator_invisible
                                                   (+_diffbase); essence UNCHANGED (ann configs): C04_other_operator_first_store_
                                                   invisible, _later_store_invisible; PARTIAL guard = F41: C04_other_operator_
                                                   store_invisible_partial.  (F5 fixed by kopf e6fe434.)
   A6 any other change does count
      spec / other payload fields                 FULL (all configs): C04_payload_visible, C04_payload_change_visible
      labels                                      FULL (all configs): C04_labels_visible, C04_label_visible, C04_label_change_visible,
                                                   C04_label_remove_visible, C04_labels_absent
      ordinary annotations                        FULL (all configs): C04_annotation_visible(+_gen), C04_annotation_change_visible,
                                                   C04_annotation_add_visible ("ordinary" = not under a marked / own prefix,
                                                   not kubectl last-applied — exactly the exclusions of the statement)
   B  "old/new/diff given to handlers are exact"
   B1 applying diff to old yields new             PARTIAL modulo deq: C04_diff_sound; REFUTED for JSON equality:
   B2 diff empty only if nothing differs          C04_diff_strict_refuted, C04_diff_strict_bool_refuted (finding F3); C04_diff_complete,
                                                   C04_update_iff_essential_change
   B3 narrowed to a handler's field               FULL: C04_reduce_exact (literal list equality), C04_field_handler_exact(+_create)
   Observation (pinned by kopf's tests, no finding): a handler's field= path running through a non-mapping value makes
   DiffBaseStorage.build fail (TypeError): C04_field_through_nonmapping_fails; model and code agree (D:build, D:essence).
   NOT COVERED: floats (1 == 1.0; outside the model); metadata.annotations/labels that are not mappings; non-empty
   ignored_fields/extra_fields in the ann-config own-write theorems (monitored); the closed loop on a simulated API
   server (only the function-level loop old_new_diff o merge o own_patch is proved/monitored).
   --------------------------------------------------------------------------------------------------------------- *)
From Coq Require Import ZArith NArith List String Bool Ascii.
From KV Require Import Base.Json Base.Dicts Model.Keys Model.Storage Model.Diff Model.Essence Model.OwnWrites Model.Results.
From KV Require Import Proofs.C04Diff Proofs.C04Reduce Proofs.C04System Proofs.C04Own Proofs.C04Bridge Proofs.C04Other Proofs.C04Frame Proofs.C04Visible Proofs.C04Cycle Proofs.C04Results Proofs.C04Main Proofs.C04Witness.
Import ListNotations.
Open Scope string_scope.
Open Scope list_scope.

(* ======================= diffs ======================= *)
(* Full statement "diff a b = [] <-> a = b (JSON equality)" and "apply_diff (diff a b) a = b" are FALSE of the
   faithful model (known finding F3): *)
Theorem C04_diff_strict_refuted : exists a b, diff a b = [] /\ jeqb a b = false.
Proof. exact diff_strict_refuted. Qed.
Print Assumptions C04_diff_strict_refuted.

Theorem C04_diff_strict_bool_refuted :
  diff (JObj [("x", JNum 1)]) (JObj [("x", JBool true)]) = [] /\
  jeqb (JObj [("x", JNum 1)]) (JObj [("x", JBool true)]) = false.
Proof. exact diff_bool_int_refuted. Qed.
Print Assumptions C04_diff_strict_bool_refuted.

(* ... they hold exactly modulo deq (Model/Diff.v): Python ==, or mappings agreeing key by key with a
   null-valued key counting as absent.  wf = object keys unique (always true of parsed JSON). *)
Theorem C04_diff_complete : forall a b, wf a = true -> wf b = true -> (diff a b = [] <-> deq a b).
Proof. exact diff_complete. Qed.
Print Assumptions C04_diff_complete.

Theorem C04_diff_sound : forall a b, wf a = true -> wf b = true -> deq (apply_diff (diff a b) a) b.
Proof. exact diff_sound. Qed.
Print Assumptions C04_diff_sound.

(* the equivalence is not trivial, and does conflate null with absent *)
Theorem C04_deq_not_trivial : ~ deq (JObj [("x", JNum 1)]) (JObj [("x", JNum 2)]).
Proof. exact deq_not_trivial. Qed.
Print Assumptions C04_deq_not_trivial.

Theorem C04_deq_null_absent : deq (JObj [("x", JNull)]) (JObj []).
Proof. exact deq_null_absent. Qed.
Print Assumptions C04_deq_null_absent.

(* an update cause (for an object with a last-handled state) iff old and new differ essentially *)
Theorem C04_update_iff_essential_change : forall old new, wf old = true -> wf new = true ->
  (classify_change (Some old) (diff old new) = KUpdate <-> ~ deq old new).
Proof. exact classify_update_iff. Qed.
Print Assumptions C04_update_iff_essential_change.

(* ======================= reduce / field handlers ======================= *)
Theorem C04_reduce_exact : forall a b p, wf a = true -> wf b = true ->
  reduce (diff a b) p = diff (resolve_d a p) (resolve_d b p).
Proof. exact reduce_exact. Qed.
Print Assumptions C04_reduce_exact.

Theorem C04_field_handler_exact : forall old new p, wf old = true -> wf new = true ->
  adjust_cause p (Some old) new (diff old new)
  = (resolve_d old p, resolve_d new p, diff (resolve_d old p) (resolve_d new p)).
Proof. exact field_handler_exact. Qed.
Print Assumptions C04_field_handler_exact.

Theorem C04_field_handler_exact_create : forall new p, wf new = true ->
  adjust_cause p None new (diff JNull new) = (JNull, resolve_d new p, diff JNull (resolve_d new p)).
Proof. exact field_handler_exact_create. Qed.
Print Assumptions C04_field_handler_exact_create.

Example C04_reduce_exact_ex :
  reduce (diff (JObj [("spec", JObj [("a", JNum 1); ("b", JNum 2)])])
               (JObj [("spec", JObj [("a", JNum 3); ("b", JNum 2)])])) ["spec"; "a"]
  = [mk_ditem DChange [] (JNum 1) (JNum 3)].
Proof. exact reduce_exact_ex. Qed.
Print Assumptions C04_reduce_exact_ex.

(* ======================= system fields never count ======================= *)
(* every storage configuration ds/ps (any nesting of Multi), every body; extra = the handlers' fields *)
Theorem C04_system_fields_invisible_status : forall dg ds ps kvs s extra,
  (forall f, In f extra -> hd_error f <> Some "status") ->
  essence dg ds ps (JObj (set "status" s kvs)) extra = essence dg ds ps (JObj kvs) extra.
Proof. exact system_status_invisible. Qed.
Print Assumptions C04_system_fields_invisible_status.

Theorem C04_system_fields_invisible_status_removed : forall dg ds ps kvs extra,
  (forall f, In f extra -> hd_error f <> Some "status") ->
  essence dg ds ps (JObj (del "status" kvs)) extra = essence dg ds ps (JObj kvs) extra.
Proof. exact system_status_del_invisible. Qed.
Print Assumptions C04_system_fields_invisible_status_removed.

Theorem C04_system_fields_invisible_apiversion : forall dg ds ps kvs s extra,
  (forall f, In f extra -> hd_error f <> Some "apiVersion") ->
  essence dg ds ps (JObj (set "apiVersion" s kvs)) extra = essence dg ds ps (JObj kvs) extra.
Proof. exact system_apiversion_invisible. Qed.
Print Assumptions C04_system_fields_invisible_apiversion.

(* resourceVersion, generation, uid, managedFields, finalizers, deletionTimestamp, ...: every metadata key
   except labels / annotations (essential) and ownerReferences (selects the -ofDRS storage keys) *)
Theorem C04_system_fields_invisible_metadata : forall dg ds ps kvs md k v extra,
  lookup "metadata" kvs = Some (JObj md) ->
  k <> "labels" -> k <> "annotations" -> k <> "ownerReferences" ->
  (forall f, In f extra -> hd_error f <> Some "metadata") ->
  essence dg ds ps (JObj (set "metadata" (JObj (set k v md)) kvs)) extra = essence dg ds ps (JObj kvs) extra.
Proof. exact system_metadata_invisible. Qed.
Print Assumptions C04_system_fields_invisible_metadata.

Theorem C04_system_fields_invisible_metadata_removed : forall dg ds ps kvs md k extra,
  lookup "metadata" kvs = Some (JObj md) ->
  k <> "labels" -> k <> "annotations" -> k <> "ownerReferences" ->
  (forall f, In f extra -> hd_error f <> Some "metadata") ->
  essence dg ds ps (JObj (set "metadata" (JObj (del k md)) kvs)) extra = essence dg ds ps (JObj kvs) extra.
Proof. exact system_metadata_del_invisible. Qed.
Print Assumptions C04_system_fields_invisible_metadata_removed.

(* ======================= payload always counts ======================= *)
(* every top-level field other than apiVersion/kind/metadata/status that no configured field
   (extra / ignored_fields / status storage field) reaches into is copied verbatim into the essence *)
Theorem C04_payload_visible : forall dg ds ps kvs k extra e,
  k <> "apiVersion" -> k <> "kind" -> k <> "metadata" -> k <> "status" ->
  fields_avoid k ds ps extra ->
  essence dg ds ps (JObj kvs) extra = Ok e ->
  exists ekvs, e = JObj ekvs /\ lookup k ekvs = lookup k kvs.
Proof. exact payload_visible. Qed.
Print Assumptions C04_payload_visible.

Theorem C04_payload_change_visible : forall dg ds ps kvs kvs' k extra e e',
  k <> "apiVersion" -> k <> "kind" -> k <> "metadata" -> k <> "status" ->
  fields_avoid k ds ps extra -> lookup k kvs <> lookup k kvs' ->
  essence dg ds ps (JObj kvs) extra = Ok e -> essence dg ds ps (JObj kvs') extra = Ok e' -> e <> e'.
Proof. exact payload_change_visible. Qed.
Print Assumptions C04_payload_change_visible.

(* ======================= own writes ======================= *)
(* Full statement "every framework write leaves the essence unchanged" is FALSE of the faithful model:
   F41 (the first marker under the diff-base prefix hides annotations that were visible) *)
Theorem C04_own_writes_invisible_refuted :
  exists ds ps body e b', essence w_dg ds ps body [] = Ok e /\ own_body_after w_dg ds ps body [OwDiffbase e] = Ok b' /\
    res_jeqb (essence w_dg ds ps b' []) (Ok e) = false.
Proof. exact own_writes_invisible_refuted. Qed.
Print Assumptions C04_own_writes_invisible_refuted.

(* F42 (MultiDiffBaseStorage strips `<key>` instead of `<key>-ofDRS` for a ReplicaSet of a Deployment) is masked
   since kopf commit e6fe434: the prefix is always marked or known, so the own annotation is dropped with it *)
Example C04_own_writes_multi_drs_ex :
  match essence w_dg w42_ds w41_ps w42_body [] with
  | Ok e =>
      match own_body_after w_dg w42_ds w41_ps w42_body [OwDiffbase e] with
      | Ok b' => res_jeqb (essence w_dg w42_ds w41_ps b' []) (Ok e)
                 && match resolve b' ["metadata"; "annotations"; "kopf.dev/last-handled-configuration-ofDRS"] with Some _ => true | None => false end
      | _ => false
      end
  | _ => false
  end = true.
Proof. exact own_writes_multi_drs_ex. Qed.
Print Assumptions C04_own_writes_multi_drs_ex.

(* Partial (annotation storages DAnn P / PAnn P', any prefixes, v1/v2, any body with a metadata mapping,
   ignored_fields = extra_fields = []): the essence is a function of the VISIBLE annotations only ... *)
Theorem C04_essence_depends_on_visible_annotations : forall dg P key v1 P' pv1 verbose tk kvs md A1 A2,
  P' <> "" -> lookup "metadata" kvs = Some (JObj md) ->
  filter (fun kv => vis P' (full_keys dg P v1 (body_with kvs md A1) key) A1 (fst kv)) A1
  = filter (fun kv => vis P' (full_keys dg P v1 (body_with kvs md A2) key) A2 (fst kv)) A2 ->
  essence dg (DAnn P key v1 []) (PAnn P' pv1 verbose tk) (body_with kvs md A1) []
  = essence dg (DAnn P key v1 []) (PAnn P' pv1 verbose tk) (body_with kvs md A2) [].
Proof. exact essence_ann_congr. Qed.
Print Assumptions C04_essence_depends_on_visible_annotations.

(* ... so writing or deleting ANY annotation under the progress prefix (records, touch-dummy, marker) ... *)
Theorem C04_own_writes_invisible_progress : forall dg P key v1 P' pv1 verbose tk kvs md A k v,
  P' <> "" -> lookup "metadata" kvs = Some (JObj md) ->
  C04Own.no_slash P' = true -> under_prefix P' k = true ->
  essence dg (DAnn P key v1 []) (PAnn P' pv1 verbose tk) (body_with kvs md (set k v A)) []
  = essence dg (DAnn P key v1 []) (PAnn P' pv1 verbose tk) (body_with kvs md A) [].
Proof. exact own_progress_write_invisible. Qed.
Print Assumptions C04_own_writes_invisible_progress.

Theorem C04_own_writes_invisible_progress_delete : forall dg P key v1 P' pv1 verbose tk kvs md A k,
  P' <> "" -> lookup "metadata" kvs = Some (JObj md) ->
  C04Own.no_slash P' = true -> under_prefix P' k = true ->
  essence dg (DAnn P key v1 []) (PAnn P' pv1 verbose tk) (body_with kvs md (del k A)) []
  = essence dg (DAnn P key v1 []) (PAnn P' pv1 verbose tk) (body_with kvs md A) [].
Proof. exact own_progress_delete_invisible. Qed.
Print Assumptions C04_own_writes_invisible_progress_delete.

(* ... the last-handled annotation (own diff-base key), unless it marks a prefix not marked before ... *)
Theorem C04_own_writes_invisible_diffbase : forall dg P key v1 P' pv1 verbose tk kvs md A k v,
  P' <> "" -> lookup "metadata" kvs = Some (JObj md) ->
  mem_str k (full_keys dg P v1 (body_with kvs md A) key) = true ->
  (key_marks_prefix k = None \/ exists q, key_marks_prefix k = Some q /\ In q (marked_prefixes (keys A))) ->
  essence dg (DAnn P key v1 []) (PAnn P' pv1 verbose tk) (body_with kvs md (set k v A)) []
  = essence dg (DAnn P key v1 []) (PAnn P' pv1 verbose tk) (body_with kvs md A) [].
Proof. exact own_diffbase_write_invisible. Qed.
Print Assumptions C04_own_writes_invisible_diffbase.

(* ... and the marker, exactly under the guard F41 violates: nothing under its prefix was visible before *)
Theorem C04_own_marker_write_invisible_partial : forall dg P key v1 P' pv1 verbose tk kvs md A k v q,
  P' <> "" -> lookup "metadata" kvs = Some (JObj md) ->
  key_marks_prefix k = Some q ->
  (forall j, In j (keys A) -> under_prefix q j = true ->
     vis P' (full_keys dg P v1 (body_with kvs md A) key) A j = false) ->
  essence dg (DAnn P key v1 []) (PAnn P' pv1 verbose tk) (body_with kvs md (set k v A)) []
  = essence dg (DAnn P key v1 []) (PAnn P' pv1 verbose tk) (body_with kvs md A) [].
Proof. exact own_marker_write_invisible. Qed.
Print Assumptions C04_own_marker_write_invisible_partial.

(* The same at the level of what kopf really does: the RFC 7386 merge of the patch that the storage
   function itself produces (model functions pstore / ppurge / ptouch / dstore of Model/Storage.v). *)
Theorem C04_own_progress_store_invisible : forall dg P key v1 P' pv1 verbose tk kvs md A hkey record p,
  P' <> "" -> C04Own.no_slash P' = true ->
  lookup "metadata" kvs = Some (JObj md) -> lookup "annotations" md = Some (JObj A) ->
  pstore dg (PAnn P' pv1 verbose tk) hkey record (JObj kvs) (JObj []) = Ok p ->
  essence dg (DAnn P key v1 []) (PAnn P' pv1 verbose tk) (merge (JObj kvs) p) []
  = essence dg (DAnn P key v1 []) (PAnn P' pv1 verbose tk) (JObj kvs) [].
Proof. exact own_progress_store_invisible. Qed.
Print Assumptions C04_own_progress_store_invisible.

Theorem C04_own_progress_store_invisible_first : forall dg P key v1 P' pv1 verbose tk kvs md hkey record p,
  P' <> "" -> C04Own.no_slash P' = true ->
  lookup "metadata" kvs = Some (JObj md) -> lookup "annotations" md = None ->
  pstore dg (PAnn P' pv1 verbose tk) hkey record (JObj kvs) (JObj []) = Ok p ->
  essence dg (DAnn P key v1 []) (PAnn P' pv1 verbose tk) (merge (JObj kvs) p) []
  = essence dg (DAnn P key v1 []) (PAnn P' pv1 verbose tk) (JObj kvs) [].
Proof. exact own_progress_store_invisible_first. Qed.
Print Assumptions C04_own_progress_store_invisible_first.

Theorem C04_own_progress_purge_invisible : forall dg P key v1 P' pv1 verbose tk kvs md A hkey p,
  P' <> "" -> C04Own.no_slash P' = true ->
  lookup "metadata" kvs = Some (JObj md) -> lookup "annotations" md = Some (JObj A) ->
  ppurge dg (PAnn P' pv1 verbose tk) hkey (JObj kvs) (JObj []) = Ok p ->
  essence dg (DAnn P key v1 []) (PAnn P' pv1 verbose tk) (merge (JObj kvs) p) []
  = essence dg (DAnn P key v1 []) (PAnn P' pv1 verbose tk) (JObj kvs) [].
Proof. exact own_progress_purge_invisible. Qed.
Print Assumptions C04_own_progress_purge_invisible.

Theorem C04_own_touch_invisible : forall dg P key v1 P' pv1 verbose tk kvs md A v p,
  P' <> "" -> C04Own.no_slash P' = true -> is_obj v = false ->
  lookup "metadata" kvs = Some (JObj md) -> lookup "annotations" md = Some (JObj A) ->
  ptouch dg (PAnn P' pv1 verbose tk) (JObj kvs) (JObj []) v = Ok p ->
  essence dg (DAnn P key v1 []) (PAnn P' pv1 verbose tk) (merge (JObj kvs) p) []
  = essence dg (DAnn P key v1 []) (PAnn P' pv1 verbose tk) (JObj kvs) [].
Proof. exact own_touch_invisible. Qed.
Print Assumptions C04_own_touch_invisible.

(* kopf's defaults: SmartProgressStorage *)
Theorem C04_own_progress_store_invisible_smart :
  forall dg P key v1 P' pv1 verbose tk field tf kvs md A hkey record p,
  P' <> "" -> C04Own.no_slash P' = true -> hd_error field = Some "status" ->
  lookup "metadata" kvs = Some (JObj md) -> lookup "annotations" md = Some (JObj A) ->
  pstore dg (smart P' pv1 verbose tk field tf) hkey record (JObj kvs) (JObj []) = Ok p ->
  essence dg (DAnn P key v1 []) (smart P' pv1 verbose tk field tf) (merge (JObj kvs) p) []
  = essence dg (DAnn P key v1 []) (smart P' pv1 verbose tk field tf) (JObj kvs) [].
Proof. exact own_progress_store_invisible_smart. Qed.
Print Assumptions C04_own_progress_store_invisible_smart.

Theorem C04_own_touch_invisible_smart :
  forall dg P key v1 P' pv1 verbose tk field tf kvs md A v p,
  P' <> "" -> C04Own.no_slash P' = true -> hd_error field = Some "status" -> is_obj v = false ->
  lookup "metadata" kvs = Some (JObj md) -> lookup "annotations" md = Some (JObj A) ->
  ptouch dg (smart P' pv1 verbose tk field tf) (JObj kvs) (JObj []) v = Ok p ->
  essence dg (DAnn P key v1 []) (smart P' pv1 verbose tk field tf) (merge (JObj kvs) p) []
  = essence dg (DAnn P key v1 []) (smart P' pv1 verbose tk field tf) (JObj kvs) [].
Proof. exact own_touch_invisible_smart. Qed.
Print Assumptions C04_own_touch_invisible_smart.

(* the last-handled state: invisible once the diff-base prefix is marked on the object (the guard F41 needs) *)
Theorem C04_own_diffbase_store_invisible_partial : forall dg P key v1 P' pv1 verbose tk kvs md A e p,
  P <> "" -> C04Own.no_slash P = true -> P' <> "" ->
  lookup "metadata" kvs = Some (JObj md) -> lookup "annotations" md = Some (JObj A) ->
  In P (marked_prefixes (keys A)) ->
  dstore dg (DAnn P key v1 []) (JObj kvs) (JObj []) e = Ok p ->
  essence dg (DAnn P key v1 []) (PAnn P' pv1 verbose tk) (merge (JObj kvs) p) []
  = essence dg (DAnn P key v1 []) (PAnn P' pv1 verbose tk) (JObj kvs) [].
Proof. exact own_diffbase_store_invisible_partial. Qed.
Print Assumptions C04_own_diffbase_store_invisible_partial.

Theorem C04_own_diffbase_store_invisible_smart_partial :
  forall dg P key v1 P' pv1 verbose tk field tf kvs md A e p,
  P <> "" -> C04Own.no_slash P = true -> P' <> "" -> hd_error field = Some "status" ->
  lookup "metadata" kvs = Some (JObj md) -> lookup "annotations" md = Some (JObj A) ->
  In P (marked_prefixes (keys A)) ->
  dstore dg (DAnn P key v1 []) (JObj kvs) (JObj []) e = Ok p ->
  essence dg (DAnn P key v1 []) (smart P' pv1 verbose tk field tf) (merge (JObj kvs) p) []
  = essence dg (DAnn P key v1 []) (smart P' pv1 verbose tk field tf) (JObj kvs) [].
Proof. exact own_diffbase_store_invisible_smart_partial. Qed.
Print Assumptions C04_own_diffbase_store_invisible_smart_partial.

(* kopf's default progress storage (smart = annotations + no-write status) behaves as the annotations one *)
Theorem C04_smart_progress_as_annotations : forall dg P key v1 P' pv1 verbose tk field tf nw kvs md A,
  lookup "metadata" kvs = Some (JObj md) -> hd_error field = Some "status" ->
  essence dg (DAnn P key v1 []) (PMulti [PAnn P' pv1 verbose tk; PStatus field tf nw]) (body_with kvs md A) []
  = essence dg (DAnn P key v1 []) (PAnn P' pv1 verbose tk) (body_with kvs md A) [].
Proof. exact essence_smart_eq. Qed.
Print Assumptions C04_smart_progress_as_annotations.

(* non-vacuity: a whole cycle of own writes under kopf's defaults changes the body, not the essence *)
Example C04_own_cycle_invisible_ex :
  match essence w_dg w_ds w_ps w_body [] with
  | Ok e =>
      match own_body_after w_dg w_ds w_ps w_body [OwStore "create_fn" w_record; OwDiffbase e; OwTouch (JStr "t")] with
      | Ok b' => res_jeqb (essence w_dg w_ds w_ps b' []) (Ok e) && negb (jeqb b' w_body)
                 && jeqb e (JObj [("spec", JObj [("field", JStr "v")]);
                                  ("metadata", JObj [("labels", JObj [("app", JStr "v")]); ("annotations", JObj [("note", JStr "x")])])])
      | _ => false
      end
  | _ => false
  end = true.
Proof. exact own_cycle_invisible_ex. Qed.
Print Assumptions C04_own_cycle_invisible_ex.

(* ======================= other Kopf operators ======================= *)
(* F5 is fixed (kopf commit e6fe434: _store_marker skips only kopf.zalando.org and its subdomains, which are
   detected without a marker).  Full statement, for EVERY non-empty slash-free prefix P (kopf.dev included):
   after the first store of an operator under P, P is detectable on the object ... *)
Theorem C04_prefix_detectable_after_store : forall dg P pv1 verbose tk hkey record kvs md A p,
  P <> "" -> C04Own.no_slash P = true ->
  lookup "metadata" kvs = Some (JObj md) -> lookup "annotations" md = Some (JObj A) ->
  pstore dg (PAnn P pv1 verbose tk) hkey record (JObj kvs) (JObj []) = Ok p ->
  exists A', merge (JObj kvs) p = body_with kvs md A' /\ In P (marked_prefixes (keys A')).
Proof. exact prefix_detectable_after_store. Qed.
Print Assumptions C04_prefix_detectable_after_store.

Theorem C04_prefix_detectable_after_diffbase_store : forall dg P key v1 ign e kvs md A p,
  P <> "" -> C04Own.no_slash P = true ->
  lookup "metadata" kvs = Some (JObj md) -> lookup "annotations" md = Some (JObj A) ->
  dstore dg (DAnn P key v1 ign) (JObj kvs) (JObj []) e = Ok p ->
  exists A', merge (JObj kvs) p = body_with kvs md A' /\ In P (marked_prefixes (keys A')).
Proof. exact prefix_detectable_after_diffbase_store. Qed.
Print Assumptions C04_prefix_detectable_after_diffbase_store.

(* ... hence, for EVERY storage configuration ds/ps and extra fields of the observing operator, nothing under P/
   reaches its essence ... *)
Theorem C04_other_operator_invisible : forall dg' P pv1 verbose tk hkey record kvs md A p dg ds ps extra e j,
  P <> "" -> C04Own.no_slash P = true ->
  lookup "metadata" kvs = Some (JObj md) -> lookup "annotations" md = Some (JObj A) ->
  pstore dg' (PAnn P pv1 verbose tk) hkey record (JObj kvs) (JObj []) = Ok p ->
  (forall f, In f extra -> hd_error f <> Some "metadata") ->
  essence dg ds ps (merge (JObj kvs) p) extra = Ok e ->
  under_prefix P j = true ->
  resolve e ["metadata"; "annotations"; j] = None.
Proof. exact other_operator_absent_after_store. Qed.
Print Assumptions C04_other_operator_invisible.

Theorem C04_other_operator_invisible_diffbase : forall dg' P key v1 ign e0 kvs md A p dg ds ps extra e j,
  P <> "" -> C04Own.no_slash P = true ->
  lookup "metadata" kvs = Some (JObj md) -> lookup "annotations" md = Some (JObj A) ->
  dstore dg' (DAnn P key v1 ign) (JObj kvs) (JObj []) e0 = Ok p ->
  (forall f, In f extra -> hd_error f <> Some "metadata") ->
  essence dg ds ps (merge (JObj kvs) p) extra = Ok e ->
  under_prefix P j = true ->
  resolve e ["metadata"; "annotations"; j] = None.
Proof. exact other_operator_absent_after_diffbase_store. Qed.
Print Assumptions C04_other_operator_invisible_diffbase.

(* ... and (annotation storages of the observing operator) the essence is UNCHANGED by the other operator's store,
   at first contact (nothing under P/ on the object yet) and at every later store (P marked by then).  The
   general guard "nothing under P/ was visible before" is the one F41 violates (annotations left under P/ by
   users or by a Kopf older than the marker). *)
Theorem C04_other_operator_first_store_invisible : forall dg Q key v1 Q' pv1 verbose tk kvs md A dg' P pv1' verbose' tk' hkey record p,
  Q' <> "" -> P <> "" -> C04Own.no_slash P = true ->
  lookup "metadata" kvs = Some (JObj md) -> lookup "annotations" md = Some (JObj A) ->
  (forall j, In j (keys A) -> under_prefix P j = false) ->
  pstore dg' (PAnn P pv1' verbose' tk') hkey record (JObj kvs) (JObj []) = Ok p ->
  essence dg (DAnn Q key v1 []) (PAnn Q' pv1 verbose tk) (merge (JObj kvs) p) []
  = essence dg (DAnn Q key v1 []) (PAnn Q' pv1 verbose tk) (JObj kvs) [].
Proof. exact other_operator_first_store_invisible. Qed.
Print Assumptions C04_other_operator_first_store_invisible.

Theorem C04_other_operator_later_store_invisible : forall dg Q key v1 Q' pv1 verbose tk kvs md A dg' P pv1' verbose' tk' hkey record p,
  Q' <> "" -> P <> "" -> C04Own.no_slash P = true ->
  lookup "metadata" kvs = Some (JObj md) -> lookup "annotations" md = Some (JObj A) ->
  In P (marked_prefixes (keys A)) ->
  pstore dg' (PAnn P pv1' verbose' tk') hkey record (JObj kvs) (JObj []) = Ok p ->
  essence dg (DAnn Q key v1 []) (PAnn Q' pv1 verbose tk) (merge (JObj kvs) p) []
  = essence dg (DAnn Q key v1 []) (PAnn Q' pv1 verbose tk) (JObj kvs) [].
Proof. exact other_operator_later_store_invisible. Qed.
Print Assumptions C04_other_operator_later_store_invisible.

Theorem C04_other_operator_store_invisible_partial : forall dg Q key v1 Q' pv1 verbose tk kvs md A dg' P pv1' verbose' tk' hkey record p,
  Q' <> "" -> P <> "" -> C04Own.no_slash P = true ->
  lookup "metadata" kvs = Some (JObj md) -> lookup "annotations" md = Some (JObj A) ->
  (forall j, In j (keys A) -> under_prefix P j = true ->
     vis Q' (full_keys dg Q v1 (body_with kvs md A) key) A j = false) ->
  pstore dg' (PAnn P pv1' verbose' tk') hkey record (JObj kvs) (JObj []) = Ok p ->
  essence dg (DAnn Q key v1 []) (PAnn Q' pv1 verbose tk) (merge (JObj kvs) p) []
  = essence dg (DAnn Q key v1 []) (PAnn Q' pv1 verbose tk) (JObj kvs) [].
Proof. exact other_operator_store_invisible. Qed.
Print Assumptions C04_other_operator_store_invisible_partial.

Theorem C04_other_operator_diffbase_store_invisible_partial : forall dg Q key v1 Q' pv1 verbose tk kvs md A dg' P key' v1' ign e0 p,
  Q' <> "" -> P <> "" -> C04Own.no_slash P = true ->
  lookup "metadata" kvs = Some (JObj md) -> lookup "annotations" md = Some (JObj A) ->
  (forall j, In j (keys A) -> under_prefix P j = true ->
     vis Q' (full_keys dg Q v1 (body_with kvs md A) key) A j = false) ->
  dstore dg' (DAnn P key' v1' ign) (JObj kvs) (JObj []) e0 = Ok p ->
  essence dg (DAnn Q key v1 []) (PAnn Q' pv1 verbose tk) (merge (JObj kvs) p) []
  = essence dg (DAnn Q key v1 []) (PAnn Q' pv1 verbose tk) (JObj kvs) [].
Proof. exact other_operator_diffbase_store_invisible. Qed.
Print Assumptions C04_other_operator_diffbase_store_invisible_partial.

(* regression example for F5: an operator with prefix kopf.dev gets its marker and is invisible *)
Example C04_other_operator_kopf_dev_ex :
  match own_body_after w_dg w_other_ds w_other_ps w_body [OwStore "create_fn" w_record; OwDiffbase (JObj [("spec", JObj [])]); OwTouch (JStr "t")] with
  | Ok b' => res_jeqb (essence w_dg w_ds w_ps b' []) (essence w_dg w_ds w_ps w_body []) && negb (jeqb b' w_body)
             && match resolve b' ["metadata"; "annotations"; "kopf.dev/kopf-managed"] with Some (JStr "yes") => true | _ => false end
  | _ => false
  end = true.
Proof. exact other_operator_kopf_dev_ex. Qed.
Print Assumptions C04_other_operator_kopf_dev_ex.

(* The two detection facts used above, on their own: with the marker q/kopf-managed on the object (every
   configuration, every body) nothing under q/ reaches the essence; the same for kopf.zalando.org without a marker *)
Theorem C04_other_operator_marked_absent : forall dg ds ps kvs md anns q j extra e,
  lookup "metadata" kvs = Some (JObj md) -> lookup "annotations" md = Some (JObj anns) ->
  C04System.no_slash q = true -> In (q ++ "/" ++ marker_name)%string (keys anns) ->
  under_prefix q j = true ->
  (forall f, In f extra -> hd_error f <> Some "metadata") ->
  essence dg ds ps (JObj kvs) extra = Ok e ->
  resolve e ["metadata"; "annotations"; j] = None.
Proof. exact other_operator_marked_absent. Qed.
Print Assumptions C04_other_operator_marked_absent.

Theorem C04_other_operator_known_prefix_absent : forall dg ds ps kvs md anns n j extra e,
  lookup "metadata" kvs = Some (JObj md) -> lookup "annotations" md = Some (JObj anns) ->
  In (known_prefix ++ "/" ++ n)%string (keys anns) ->
  under_prefix known_prefix j = true ->
  (forall f, In f extra -> hd_error f <> Some "metadata") ->
  essence dg ds ps (JObj kvs) extra = Ok e ->
  resolve e ["metadata"; "annotations"; j] = None.
Proof. exact other_operator_known_absent. Qed.
Print Assumptions C04_other_operator_known_prefix_absent.

(* and a write under an already marked prefix leaves the essence unchanged (annotation storages) *)
Theorem C04_other_operator_write_invisible_partial : forall dg P key v1 P' pv1 verbose tk kvs md A q k v,
  P' <> "" -> lookup "metadata" kvs = Some (JObj md) ->
  In q (marked_prefixes (keys A)) -> under_prefix q k = true ->
  (key_marks_prefix k = None \/ exists q', key_marks_prefix k = Some q' /\ In q' (marked_prefixes (keys A))) ->
  essence dg (DAnn P key v1 []) (PAnn P' pv1 verbose tk) (body_with kvs md (set k v A)) []
  = essence dg (DAnn P key v1 []) (PAnn P' pv1 verbose tk) (body_with kvs md A) [].
Proof. exact other_operator_write_invisible. Qed.
Print Assumptions C04_other_operator_write_invisible_partial.

Example C04_other_operator_marked_ex :
  match own_body_after w_dg (DAnn "my-op.example.com" "last-handled-configuration" true []) (PAnn "my-op.example.com" true false "touch-dummy")
          w_body [OwStore "create_fn" w_record; OwDiffbase (JObj [("spec", JObj [])]); OwTouch (JStr "t")] with
  | Ok b' => res_jeqb (essence w_dg w_ds w_ps b' []) (essence w_dg w_ds w_ps w_body []) && negb (jeqb b' w_body)
  | _ => false
  end = true.
Proof. exact other_operator_marked_ex. Qed.
Print Assumptions C04_other_operator_marked_ex.

(* ======================= deepening round: what the essence depends on (A2, A3) ======================= *)
(* two bodies that agree on the payload keys, labels, annotations, the ReplicaSet-of-Deployment bit and the handlers' field values have the SAME essence: everything else (all system metadata at once, status, apiVersion, kind) is invisible *)
Theorem C04_essence_frame :
  forall dg ds ps kvs kvs' extra,
  sy_strip kvs = sy_strip kvs' ->
  resolve_strict (JObj kvs) ["metadata"; "labels"] = resolve_strict (JObj kvs') ["metadata"; "labels"] ->
  resolve_strict (JObj kvs) ["metadata"; "annotations"] = resolve_strict (JObj kvs') ["metadata"; "annotations"] ->
  is_drs_body (JObj kvs) = is_drs_body (JObj kvs') ->
  (forall f, In f extra -> resolve_strict (JObj kvs) f = resolve_strict (JObj kvs') f) ->
  essence dg ds ps (JObj kvs) extra = essence dg ds ps (JObj kvs') extra.
Proof. exact essence_frame. Qed.
Print Assumptions C04_essence_frame.

(* any simultaneous change of system metadata (resourceVersion + generation + managedFields + finalizers + ...) *)
Theorem C04_system_metadata_general :
  forall dg ds ps kvs md md' extra,
  lookup "metadata" kvs = Some (JObj md) ->
  lookup "labels" md' = lookup "labels" md ->
  lookup "annotations" md' = lookup "annotations" md ->
  is_drs_body (JObj (set "metadata" (JObj md') kvs)) = is_drs_body (JObj kvs) ->
  (forall f, In f extra -> hd_error f <> Some "metadata") ->
  essence dg ds ps (JObj (set "metadata" (JObj md') kvs)) extra = essence dg ds ps (JObj kvs) extra.
Proof. exact system_metadata_general. Qed.
Print Assumptions C04_system_metadata_general.

Theorem C04_system_kind_invisible :
  forall dg ds ps kvs k' extra,
  is_drs_body (JObj (set "kind" k' kvs)) = is_drs_body (JObj kvs) ->
  (forall f, In f extra -> hd_error f <> Some "kind") ->
  essence dg ds ps (JObj (set "kind" k' kvs)) extra = essence dg ds ps (JObj kvs) extra.
Proof. exact system_kind_invisible. Qed.
Print Assumptions C04_system_kind_invisible.

(* EVERY merge-patch confined to the status stanza (status progress / diff-base storages, handler results), every configuration *)
Theorem C04_status_patch_invisible :
  forall dg ds ps kvs sp extra,
  (forall f, In f extra -> hd_error f <> Some "status") ->
  essence dg ds ps (merge (JObj kvs) (JObj [("status", sp)])) extra = essence dg ds ps (JObj kvs) extra.
Proof. exact status_patch_invisible. Qed.
Print Assumptions C04_status_patch_invisible.

(* the exact proviso when handlers' fields live inside status: they must not see the change *)
Theorem C04_status_patch_invisible_fields :
  forall dg ds ps kvs sp extra,
  (forall f, In f extra ->
     resolve_strict (merge (JObj kvs) (JObj [("status", sp)])) f = resolve_strict (JObj kvs) f) ->
  essence dg ds ps (merge (JObj kvs) (JObj [("status", sp)])) extra = essence dg ds ps (JObj kvs) extra.
Proof. exact status_patch_invisible_fields. Qed.
Print Assumptions C04_status_patch_invisible_fields.

(* progression.deliver_results (Model/Results.v): the handlers' results *)
Theorem C04_results_invisible :
  forall dg ds ps kvs outs p extra,
  (forall f, In f extra -> hd_error f <> Some "status") ->
  deliver_results outs (JObj []) = Ok p ->
  essence dg ds ps (merge (JObj kvs) p) extra = essence dg ds ps (JObj kvs) extra.
Proof. exact results_invisible. Qed.
Print Assumptions C04_results_invisible.

(* finalizers.block_deletion / allow_deletion (Model/OwnWrites.v), every configuration *)
Theorem C04_finalizer_block_invisible :
  forall dg ds ps fin body body' extra,
  (forall f, In f extra -> hd_error f <> Some "metadata") ->
  fin_block fin body = Ok body' ->
  essence dg ds ps body' extra = essence dg ds ps body extra.
Proof. exact finalizer_block_invisible. Qed.
Print Assumptions C04_finalizer_block_invisible.

Theorem C04_finalizer_allow_invisible :
  forall dg ds ps fin body body' extra,
  (forall f, In f extra -> hd_error f <> Some "metadata") ->
  fin_allow fin body = Ok body' ->
  essence dg ds ps body' extra = essence dg ds ps body extra.
Proof. exact finalizer_allow_invisible. Qed.
Print Assumptions C04_finalizer_allow_invisible.

(* OBSERVATION (kopf's tests pin the TypeError of dicts.cherrypick): a handler's field path through a non-mapping value makes the essence fail *)
Theorem C04_field_through_nonmapping_fails :
  forall dg ds ps kvs extra f,
  In f extra -> resolve_strict (JObj kvs) f = ErrType ->
  forall e, essence dg ds ps (JObj kvs) extra <> Ok e.
Proof. exact field_through_nonmapping_fails. Qed.
Print Assumptions C04_field_through_nonmapping_fails.

(* non-vacuity *)
Example C04_ex_frame :
  essence fr_dg fr_ds fr_ps (JObj fr_kvs0) fr_extra = essence fr_dg fr_ds fr_ps (JObj fr_kvs1) fr_extra /\
  essence fr_dg fr_ds fr_ps (JObj fr_kvs0) fr_extra = Ok fr_essence0.
Proof. exact fr_ex_frame. Qed.
Print Assumptions C04_ex_frame.

Example C04_ex_metadata_general :
  set "metadata" (JObj fr_md1) fr_kvs0 <> fr_kvs0 /\
  essence fr_dg fr_ds fr_ps (JObj (set "metadata" (JObj fr_md1) fr_kvs0)) fr_extra = Ok fr_essence0.
Proof. exact fr_ex_metadata_general. Qed.
Print Assumptions C04_ex_metadata_general.

Example C04_ex_status_patch :
  merge (JObj fr_kvs0) (JObj [("status", fr_sp)]) <> JObj fr_kvs0 /\
  essence fr_dg fr_ds fr_ps (merge (JObj fr_kvs0) (JObj [("status", fr_sp)])) fr_extra = Ok fr_essence0.
Proof. exact fr_ex_status_patch. Qed.
Print Assumptions C04_ex_status_patch.

Example C04_ex_fin_allow :
  fin_allow fr_marker (JObj fr_kvs2) = Ok (JObj (del "metadata" fr_kvs2)) /\
  fin_allow fr_marker (JObj fr_kvs1) =
    Ok (JObj (set "metadata" (JObj (del "finalizers" fr_md1)) fr_kvs1)) /\
  essence fr_dg fr_ds fr_ps (JObj (del "metadata" fr_kvs2)) fr_extra = essence fr_dg fr_ds fr_ps (JObj fr_kvs2) fr_extra /\
  essence fr_dg fr_ds fr_ps (JObj fr_kvs2) fr_extra = Ok (JObj [("spec", JObj [("field", JNum 1)])]).
Proof. exact fr_ex_fin_allow. Qed.
Print Assumptions C04_ex_fin_allow.

Example C04_ex_nonmapping :
  essence fr_dg fr_ds fr_ps (JObj [("spec", JObj [("struct", JNull)])]) [["spec"; "struct"; "other"]] = ErrType.
Proof. exact fr_ex_nonmapping. Qed.
Print Assumptions C04_ex_nonmapping.

Example C04_ex_results :
  let body := [("kind", JStr "KopfExample"); ("metadata", JObj [("name", JStr "o")]); ("spec", JObj [("f", JNum 1)]);
               ("status", JObj [("x", JNum 1)])] in
  deliver_results [("create_fn", Some (JObj [("job", JStr "j1")])); ("upd", Some (JStr "done")); ("boom", None); ("quiet", Some JNull)] (JObj [])
  = Ok (JObj [("status", JObj [("create_fn", JObj [("job", JStr "j1")]); ("upd", JStr "done")])])
  /\ merge (JObj body) (JObj [("status", JObj [("create_fn", JObj [("job", JStr "j1")]); ("upd", JStr "done")])]) <> JObj body.
Proof. exact results_invisible_ex. Qed.
Print Assumptions C04_ex_results.


(* ======================= deepening round: labels and ordinary annotations count (A6) ======================= *)
(* every configuration (nested Multi), every body: an ordinary annotation is copied verbatim into the essence *)
Theorem C04_annotation_visible :
  forall dg ds ps kvs md anns j v extra e,
  lookup "metadata" kvs = Some (JObj md) -> lookup "annotations" md = Some (JObj anns) ->
  lookup j anns = Some v ->
  ann_ordinary j anns ds ps -> fields_avoid "metadata" ds ps extra ->
  essence dg ds ps (JObj kvs) extra = Ok e ->
  resolve e ["metadata"; "annotations"; j] = Some v.
Proof. exact annotation_visible. Qed.
Print Assumptions C04_annotation_visible.

Theorem C04_annotation_visible_gen :
  forall dg ds ps kvs md anns j v extra e,
  lookup "metadata" kvs = Some (JObj md) -> lookup "annotations" md = Some (JObj anns) ->
  lookup j anns = Some v ->
  ann_ordinary_gen dg j anns ds ps -> fields_avoid "metadata" ds ps extra ->
  essence dg ds ps (JObj kvs) extra = Ok e ->
  resolve e ["metadata"; "annotations"; j] = Some v.
Proof. exact annotation_visible_gen. Qed.
Print Assumptions C04_annotation_visible_gen.

Theorem C04_labels_visible :
  forall dg ds ps kvs md L extra e,
  lookup "metadata" kvs = Some (JObj md) -> lookup "labels" md = Some L -> is_falsy L = false ->
  fields_avoid "metadata" ds ps extra ->
  essence dg ds ps (JObj kvs) extra = Ok e ->
  resolve e ["metadata"; "labels"] = Some L.
Proof. exact labels_visible. Qed.
Print Assumptions C04_labels_visible.

Theorem C04_label_visible :
  forall dg ds ps kvs md labs k extra e,
  lookup "metadata" kvs = Some (JObj md) -> lookup "labels" md = Some (JObj labs) -> labs <> [] ->
  fields_avoid "metadata" ds ps extra ->
  essence dg ds ps (JObj kvs) extra = Ok e ->
  resolve e ["metadata"; "labels"; k] = lookup k labs.
Proof. exact label_visible. Qed.
Print Assumptions C04_label_visible.

Theorem C04_annotation_change_visible :
  forall dg ds ps kvs kvs' md md' anns anns' j v v' extra e e',
  lookup "metadata" kvs = Some (JObj md) -> lookup "annotations" md = Some (JObj anns) -> lookup j anns = Some v ->
  lookup "metadata" kvs' = Some (JObj md') -> lookup "annotations" md' = Some (JObj anns') -> lookup j anns' = Some v' ->
  v <> v' ->
  ann_ordinary j anns ds ps -> ann_ordinary j anns' ds ps ->
  fields_avoid "metadata" ds ps extra ->
  essence dg ds ps (JObj kvs) extra = Ok e ->
  essence dg ds ps (JObj kvs') extra = Ok e' ->
  e <> e'.
Proof. exact annotation_change_visible. Qed.
Print Assumptions C04_annotation_change_visible.

Theorem C04_annotation_add_visible :
  forall dg ds ps kvs b' md anns j v extra e e',
  lookup "metadata" kvs = Some (JObj md) -> lookup "annotations" md = Some (JObj anns) -> lookup j anns = Some v ->
  resolve b' ["metadata"; "annotations"; j] = None ->
  ann_ordinary j anns ds ps ->
  fields_avoid "metadata" ds ps extra ->
  essence dg ds ps (JObj kvs) extra = Ok e ->
  essence dg ds ps b' extra = Ok e' ->
  e <> e'.
Proof. exact annotation_add_visible. Qed.
Print Assumptions C04_annotation_add_visible.

Theorem C04_label_change_visible :
  forall dg ds ps kvs kvs' md md' L L' extra e e',
  lookup "metadata" kvs = Some (JObj md) -> lookup "labels" md = Some L -> is_falsy L = false ->
  lookup "metadata" kvs' = Some (JObj md') -> lookup "labels" md' = Some L' -> is_falsy L' = false ->
  L <> L' ->
  fields_avoid "metadata" ds ps extra ->
  essence dg ds ps (JObj kvs) extra = Ok e ->
  essence dg ds ps (JObj kvs') extra = Ok e' ->
  e <> e'.
Proof. exact label_change_visible. Qed.
Print Assumptions C04_label_change_visible.

Theorem C04_labels_absent :
  forall dg ds ps b extra e,
  (forall x, resolve b ["metadata"; "labels"] = Some x -> is_falsy x = true) ->
  (forall f, In f extra -> hd_error f <> Some "metadata") ->
  essence dg ds ps b extra = Ok e ->
  resolve e ["metadata"; "labels"] = None.
Proof. exact labels_absent. Qed.
Print Assumptions C04_labels_absent.

Theorem C04_label_remove_visible :
  forall dg ds ps kvs b' md L extra e e',
  lookup "metadata" kvs = Some (JObj md) -> lookup "labels" md = Some L -> is_falsy L = false ->
  (forall x, resolve b' ["metadata"; "labels"] = Some x -> is_falsy x = true) ->
  fields_avoid "metadata" ds ps extra ->
  essence dg ds ps (JObj kvs) extra = Ok e ->
  essence dg ds ps b' extra = Ok e' ->
  e <> e'.
Proof. exact label_remove_visible. Qed.
Print Assumptions C04_label_remove_visible.

Example C04_ex_visible_essence_ok :
  essence (table_dg []) vs_ex_ds vs_ex_ps (JObj vs_ex_kvs) [] = Ok vs_ex_essence.
Proof. exact vs_ex_essence_ok. Qed.
Print Assumptions C04_ex_visible_essence_ok.

Example C04_ex_visible_annotation_visible :
  forall e,
  essence (table_dg []) vs_ex_ds vs_ex_ps (JObj vs_ex_kvs) [] = Ok e ->
  resolve e ["metadata"; "annotations"; "note"] = Some (JStr "x").
Proof. exact vs_ex_annotation_visible. Qed.
Print Assumptions C04_ex_visible_annotation_visible.

Example C04_ex_visible_labels_visible :
  forall e,
  essence (table_dg []) vs_ex_ds vs_ex_ps (JObj vs_ex_kvs) [] = Ok e ->
  resolve e ["metadata"; "labels"] = Some (JObj [("app", JStr "v")]).
Proof. exact vs_ex_labels_visible. Qed.
Print Assumptions C04_ex_visible_labels_visible.

Example C04_ex_visible2_essence_ok :
  essence (table_dg []) vs_ex_ds2 vs_ex_ps2 (JObj vs_ex_kvs) [["status"; "x"]] = Ok vs_ex_essence.
Proof. exact vs_ex2_essence_ok. Qed.
Print Assumptions C04_ex_visible2_essence_ok.


(* ======================= deepening round: the whole cycle and no self-trigger (A1, A4) ======================= *)
(* the last-handled state under exactly the guard F41 violates (supersedes C04_own_diffbase_store_invisible_partial) *)
Theorem C04_own_diffbase_store_invisible :
  forall dg Q key v1 Q' pv1 verbose tk kvs md A e p,
  Q <> "" -> C04Own.no_slash Q = true -> Q' <> "" ->
  lookup "metadata" kvs = Some (JObj md) -> lookup "annotations" md = Some (JObj A) ->
  (forall j, In j (keys A) -> under_prefix Q j = true ->
     vis Q' (full_keys dg Q v1 (body_with kvs md A) key) A j = false) ->
  dstore dg (DAnn Q key v1 []) (JObj kvs) (JObj []) e = Ok p ->
  essence dg (DAnn Q key v1 []) (PAnn Q' pv1 verbose tk) (merge (JObj kvs) p) []
  = essence dg (DAnn Q key v1 []) (PAnn Q' pv1 verbose tk) (JObj kvs) [].
Proof. exact own_diffbase_store_invisible. Qed.
Print Assumptions C04_own_diffbase_store_invisible.

Theorem C04_own_diffbase_first_store_invisible :
  forall dg Q key v1 Q' pv1 verbose tk kvs md A e p,
  Q <> "" -> C04Own.no_slash Q = true -> Q' <> "" ->
  lookup "metadata" kvs = Some (JObj md) -> lookup "annotations" md = Some (JObj A) ->
  (forall j, In j (keys A) -> under_prefix Q j = true ->
     mem_str j (full_keys dg Q v1 (body_with kvs md A) key) = true \/ under_prefix Q' j = true) ->
  dstore dg (DAnn Q key v1 []) (JObj kvs) (JObj []) e = Ok p ->
  essence dg (DAnn Q key v1 []) (PAnn Q' pv1 verbose tk) (merge (JObj kvs) p) []
  = essence dg (DAnn Q key v1 []) (PAnn Q' pv1 verbose tk) (JObj kvs) [].
Proof. exact own_diffbase_first_store_invisible. Qed.
Print Assumptions C04_own_diffbase_first_store_invisible.

Theorem C04_own_diffbase_fresh_store_invisible :
  forall dg Q key v1 Q' pv1 verbose tk kvs md A e p,
  Q <> "" -> C04Own.no_slash Q = true -> Q' <> "" ->
  lookup "metadata" kvs = Some (JObj md) -> lookup "annotations" md = Some (JObj A) ->
  (forall j, In j (keys A) -> under_prefix Q j = false) ->
  dstore dg (DAnn Q key v1 []) (JObj kvs) (JObj []) e = Ok p ->
  essence dg (DAnn Q key v1 []) (PAnn Q' pv1 verbose tk) (merge (JObj kvs) p) []
  = essence dg (DAnn Q key v1 []) (PAnn Q' pv1 verbose tk) (JObj kvs) [].
Proof. exact own_diffbase_fresh_store_invisible. Qed.
Print Assumptions C04_own_diffbase_fresh_store_invisible.

Theorem C04_own_diffbase_store_invisible_smart :
  forall dg Q key v1 Q' pv1 verbose tk field tf kvs md A e p,
  Q <> "" -> C04Own.no_slash Q = true -> Q' <> "" -> hd_error field = Some "status" ->
  lookup "metadata" kvs = Some (JObj md) -> lookup "annotations" md = Some (JObj A) ->
  (forall j, In j (keys A) -> under_prefix Q j = true ->
     vis Q' (full_keys dg Q v1 (body_with kvs md A) key) A j = false) ->
  dstore dg (DAnn Q key v1 []) (JObj kvs) (JObj []) e = Ok p ->
  essence dg (DAnn Q key v1 []) (smart Q' pv1 verbose tk field tf) (merge (JObj kvs) p) []
  = essence dg (DAnn Q key v1 []) (smart Q' pv1 verbose tk field tf) (JObj kvs) [].
Proof. exact own_diffbase_store_invisible_smart. Qed.
Print Assumptions C04_own_diffbase_store_invisible_smart.

(* ANY list of framework writes accumulated in one patch (Model/OwnWrites.v own_patch) *)
Theorem C04_own_patch_invisible :
  forall dg Q key v1 Q' pv1 verbose tk kvs md A ops p,
  Q <> "" -> Q' <> "" -> C04Own.no_slash Q = true -> C04Own.no_slash Q' = true ->
  lookup "metadata" kvs = Some (JObj md) -> lookup "annotations" md = Some (JObj A) ->
  ops_ok Q Q' ops ->
  (forall j, In j (keys A) -> under_prefix Q j = true ->
     vis Q' (full_keys dg Q v1 (body_with kvs md A) key) A j = false) ->
  own_patch dg (DAnn Q key v1 []) (PAnn Q' pv1 verbose tk) (JObj kvs) ops = Ok p ->
  essence dg (DAnn Q key v1 []) (PAnn Q' pv1 verbose tk) (merge (JObj kvs) p) []
  = essence dg (DAnn Q key v1 []) (PAnn Q' pv1 verbose tk) (JObj kvs) [].
Proof. exact own_patch_invisible. Qed.
Print Assumptions C04_own_patch_invisible.

Theorem C04_own_patch_invisible_same_prefix :
  forall dg Q key v1 pv1 verbose tk kvs md A ops p,
  Q <> "" -> C04Own.no_slash Q = true ->
  lookup "metadata" kvs = Some (JObj md) -> lookup "annotations" md = Some (JObj A) ->
  ops_ok Q Q ops ->
  own_patch dg (DAnn Q key v1 []) (PAnn Q pv1 verbose tk) (JObj kvs) ops = Ok p ->
  essence dg (DAnn Q key v1 []) (PAnn Q pv1 verbose tk) (merge (JObj kvs) p) []
  = essence dg (DAnn Q key v1 []) (PAnn Q pv1 verbose tk) (JObj kvs) [].
Proof. exact own_patch_invisible_same_prefix. Qed.
Print Assumptions C04_own_patch_invisible_same_prefix.

Theorem C04_own_patch_invisible_marked :
  forall dg Q key v1 Q' pv1 verbose tk kvs md A ops p,
  Q <> "" -> Q' <> "" -> C04Own.no_slash Q = true -> C04Own.no_slash Q' = true ->
  lookup "metadata" kvs = Some (JObj md) -> lookup "annotations" md = Some (JObj A) ->
  ops_ok Q Q' ops -> In Q (marked_prefixes (keys A)) ->
  own_patch dg (DAnn Q key v1 []) (PAnn Q' pv1 verbose tk) (JObj kvs) ops = Ok p ->
  essence dg (DAnn Q key v1 []) (PAnn Q' pv1 verbose tk) (merge (JObj kvs) p) []
  = essence dg (DAnn Q key v1 []) (PAnn Q' pv1 verbose tk) (JObj kvs) [].
Proof. exact own_patch_invisible_marked. Qed.
Print Assumptions C04_own_patch_invisible_marked.

Theorem C04_own_patch_after_store_invisible :
  forall dg Q key v1 Q' pv1 verbose tk kvs md A e p ops p2,
  Q <> "" -> Q' <> "" -> C04Own.no_slash Q = true -> C04Own.no_slash Q' = true ->
  lookup "metadata" kvs = Some (JObj md) -> lookup "annotations" md = Some (JObj A) ->
  (forall j, In j (keys A) -> under_prefix Q j = true ->
     vis Q' (full_keys dg Q v1 (body_with kvs md A) key) A j = false) ->
  dstore dg (DAnn Q key v1 []) (JObj kvs) (JObj []) e = Ok p ->
  ops_ok Q Q' ops ->
  own_patch dg (DAnn Q key v1 []) (PAnn Q' pv1 verbose tk) (merge (JObj kvs) p) ops = Ok p2 ->
  essence dg (DAnn Q key v1 []) (PAnn Q' pv1 verbose tk) (merge (merge (JObj kvs) p) p2) []
  = essence dg (DAnn Q key v1 []) (PAnn Q' pv1 verbose tk) (JObj kvs) [].
Proof. exact own_patch_after_store_invisible. Qed.
Print Assumptions C04_own_patch_after_store_invisible.

Theorem C04_own_body_after_invisible :
  forall dg Q key v1 Q' pv1 verbose tk kvs md A ops b,
  Q <> "" -> Q' <> "" -> C04Own.no_slash Q = true -> C04Own.no_slash Q' = true ->
  lookup "metadata" kvs = Some (JObj md) -> lookup "annotations" md = Some (JObj A) ->
  ops_ok Q Q' ops ->
  (forall j, In j (keys A) -> under_prefix Q j = true ->
     vis Q' (full_keys dg Q v1 (body_with kvs md A) key) A j = false) ->
  own_body_after dg (DAnn Q key v1 []) (PAnn Q' pv1 verbose tk) (JObj kvs) ops = Ok b ->
  essence dg (DAnn Q key v1 []) (PAnn Q' pv1 verbose tk) b []
  = essence dg (DAnn Q key v1 []) (PAnn Q' pv1 verbose tk) (JObj kvs) [].
Proof. exact own_body_after_invisible. Qed.
Print Assumptions C04_own_body_after_invisible.

Theorem C04_own_patch_invisible_smart_partial :
  forall dg Q key v1 Q' pv1 verbose tk field tf kvs md A ops p,
  Q <> "" -> Q' <> "" -> C04Own.no_slash Q = true -> C04Own.no_slash Q' = true ->
  lookup "metadata" kvs = Some (JObj md) -> lookup "annotations" md = Some (JObj A) ->
  hd_error field = Some "status" ->
  ops_ok Q Q' ops ->
  (forall hkey, In (OwPurge hkey) ops -> resolve (JObj kvs) (field ++ [hkey]) = None) ->
  (forall j, In j (keys A) -> under_prefix Q j = true ->
     vis Q' (full_keys dg Q v1 (body_with kvs md A) key) A j = false) ->
  own_patch dg (DAnn Q key v1 []) (smart Q' pv1 verbose tk field tf) (JObj kvs) ops = Ok p ->
  essence dg (DAnn Q key v1 []) (smart Q' pv1 verbose tk field tf) (merge (JObj kvs) p) []
  = essence dg (DAnn Q key v1 []) (smart Q' pv1 verbose tk field tf) (JObj kvs) [].
Proof. exact own_patch_invisible_smart_partial. Qed.
Print Assumptions C04_own_patch_invisible_smart_partial.

Theorem C04_essence_wf :
  forall dg Q key v1 Q' pv1 verbose tk kvs md A e,
  Q' <> "" -> lookup "metadata" kvs = Some (JObj md) -> lookup "annotations" md = Some (JObj A) ->
  wf (JObj kvs) = true ->
  essence dg (DAnn Q key v1 []) (PAnn Q' pv1 verbose tk) (JObj kvs) [] = Ok e -> wf e = true.
Proof. exact essence_wf. Qed.
Print Assumptions C04_essence_wf.

Theorem C04_pclear_essence_idempotent :
  forall dg Q key v1 Q' pv1 verbose tk kvs md A e,
  Q' <> "" -> lookup "metadata" kvs = Some (JObj md) -> lookup "annotations" md = Some (JObj A) ->
  essence dg (DAnn Q key v1 []) (PAnn Q' pv1 verbose tk) (JObj kvs) [] = Ok e ->
  pclear (PAnn Q' pv1 verbose tk) e = Ok e /\ exists o, e = JObj o.
Proof. exact pclear_essence_idempotent. Qed.
Print Assumptions C04_pclear_essence_idempotent.

Theorem C04_diffbase_fetch_after_store :
  forall dg Q key v1 kvs md A e p o,
  lookup "metadata" kvs = Some (JObj md) -> lookup "annotations" md = Some (JObj A) ->
  e = JObj o ->
  dstore dg (DAnn Q key v1 []) (JObj kvs) (JObj []) e = Ok p ->
  dfetch dg (DAnn Q key v1 []) (merge (JObj kvs) p) = Ok (Some e).
Proof. exact diffbase_fetch_after_store. Qed.
Print Assumptions C04_diffbase_fetch_after_store.

(* after the new essence has been recorded, the next detection sees old = new and an EMPTY diff (cause NOOP) *)
Theorem C04_no_self_trigger :
  forall dg Q key v1 Q' pv1 verbose tk kvs md A e p,
  Q <> "" -> C04Own.no_slash Q = true -> Q' <> "" ->
  lookup "metadata" kvs = Some (JObj md) -> lookup "annotations" md = Some (JObj A) ->
  (forall j, In j (keys A) -> under_prefix Q j = true ->
     vis Q' (full_keys dg Q v1 (body_with kvs md A) key) A j = false) ->
  essence dg (DAnn Q key v1 []) (PAnn Q' pv1 verbose tk) (JObj kvs) [] = Ok e ->
  wf e = true ->
  dstore dg (DAnn Q key v1 []) (JObj kvs) (JObj []) e = Ok p ->
  old_new_diff dg (DAnn Q key v1 []) (PAnn Q' pv1 verbose tk) (merge (JObj kvs) p) [] = Ok (Some e, e, []).
Proof. exact no_self_trigger. Qed.
Print Assumptions C04_no_self_trigger.

Theorem C04_no_self_trigger_wf_body :
  forall dg Q key v1 Q' pv1 verbose tk kvs md A e p,
  Q <> "" -> C04Own.no_slash Q = true -> Q' <> "" ->
  lookup "metadata" kvs = Some (JObj md) -> lookup "annotations" md = Some (JObj A) ->
  (forall j, In j (keys A) -> under_prefix Q j = true ->
     vis Q' (full_keys dg Q v1 (body_with kvs md A) key) A j = false) ->
  wf (JObj kvs) = true ->
  essence dg (DAnn Q key v1 []) (PAnn Q' pv1 verbose tk) (JObj kvs) [] = Ok e ->
  dstore dg (DAnn Q key v1 []) (JObj kvs) (JObj []) e = Ok p ->
  old_new_diff dg (DAnn Q key v1 []) (PAnn Q' pv1 verbose tk) (merge (JObj kvs) p) [] = Ok (Some e, e, []) /\
  classify_change (Some e) [] = KSame.
Proof. exact no_self_trigger_wf_body. Qed.
Print Assumptions C04_no_self_trigger_wf_body.

Theorem C04_no_self_trigger_smart :
  forall dg Q key v1 Q' pv1 verbose tk field tf kvs md A e p,
  Q <> "" -> C04Own.no_slash Q = true -> Q' <> "" -> hd_error field = Some "status" ->
  lookup "metadata" kvs = Some (JObj md) -> lookup "annotations" md = Some (JObj A) ->
  (forall j, In j (keys A) -> under_prefix Q j = true ->
     vis Q' (full_keys dg Q v1 (body_with kvs md A) key) A j = false) ->
  essence dg (DAnn Q key v1 []) (smart Q' pv1 verbose tk field tf) (JObj kvs) [] = Ok e ->
  wf e = true ->
  dstore dg (DAnn Q key v1 []) (JObj kvs) (JObj []) e = Ok p ->
  old_new_diff dg (DAnn Q key v1 []) (smart Q' pv1 verbose tk field tf) (merge (JObj kvs) p) []
  = Ok (Some e, e, []).
Proof. exact no_self_trigger_smart. Qed.
Print Assumptions C04_no_self_trigger_smart.

Theorem C04_no_self_trigger_after_own_writes :
  forall dg Q key v1 Q' pv1 verbose tk kvs md A e p ops p2,
  Q <> "" -> C04Own.no_slash Q = true -> Q' <> "" -> C04Own.no_slash Q' = true -> Q <> Q' ->
  lookup "metadata" kvs = Some (JObj md) -> lookup "annotations" md = Some (JObj A) ->
  (forall j, In j (keys A) -> under_prefix Q j = true ->
     vis Q' (full_keys dg Q v1 (body_with kvs md A) key) A j = false) ->
  essence dg (DAnn Q key v1 []) (PAnn Q' pv1 verbose tk) (JObj kvs) [] = Ok e ->
  wf e = true ->
  dstore dg (DAnn Q key v1 []) (JObj kvs) (JObj []) e = Ok p ->
  Forall (cy_prog_ok Q') ops ->
  own_patch dg (DAnn Q key v1 []) (PAnn Q' pv1 verbose tk) (merge (JObj kvs) p) ops = Ok p2 ->
  old_new_diff dg (DAnn Q key v1 []) (PAnn Q' pv1 verbose tk) (merge (merge (JObj kvs) p) p2) []
  = Ok (Some e, e, []).
Proof. exact no_self_trigger_after_own_writes. Qed.
Print Assumptions C04_no_self_trigger_after_own_writes.

(* non-vacuity: kopf defaults, and a custom diff-base prefix *)
Example C04_no_self_trigger_example_default :
  let Q := "kopf.zalando.org" in
  let ds := DAnn Q "last-handled-configuration" true [] in
  let ps := PAnn Q true false "touch-dummy" in
  cy_ex_hyps Q Q /\
  (* first detection: never handled, cause CREATE *)
  (exists d, old_new_diff (table_dg []) ds ps (JObj cy_ex_kvs) [] = Ok (None, cy_ex_e, d) /\
             classify_change None d = KCreate) /\
  essence (table_dg []) ds ps (JObj cy_ex_kvs) [] = Ok cy_ex_e /\
  dstore (table_dg []) ds (JObj cy_ex_kvs) (JObj []) cy_ex_e
  = Ok (ann_patch [("kopf.zalando.org/last-handled-configuration", JEnc cy_ex_e)]) /\
  old_new_diff (table_dg []) ds ps
    (merge (JObj cy_ex_kvs) (ann_patch [("kopf.zalando.org/last-handled-configuration", JEnc cy_ex_e)])) []
  = Ok (Some cy_ex_e, cy_ex_e, []) /\
  (* the whole cycle in one patch *)
  own_patch (table_dg []) ds ps (JObj cy_ex_kvs) cy_ex_ops
  = Ok (ann_patch [("kopf.zalando.org/create_fn", JEnc (JObj [("started", JStr "t0"); ("success", JBool true)]));
                   ("kopf.zalando.org/old_fn", JNull);
                   ("kopf.zalando.org/last-handled-configuration", JEnc cy_ex_e);
                   ("kopf.zalando.org/touch-dummy", JNull)]) /\
  bind (own_body_after (table_dg []) ds ps (JObj cy_ex_kvs) cy_ex_ops)
       (fun b => old_new_diff (table_dg []) ds ps b [])
  = Ok (Some cy_ex_e, cy_ex_e, []).
Proof. exact no_self_trigger_example_default. Qed.
Print Assumptions C04_no_self_trigger_example_default.

Example C04_no_self_trigger_example_custom :
  let Q := "my-op.example.com" in
  let Q' := "kopf.zalando.org" in
  let ds := DAnn Q "last-handled-configuration" true [] in
  let ps := PAnn Q' true false "touch-dummy" in
  cy_ex_hyps Q Q' /\
  essence (table_dg []) ds ps (JObj cy_ex_kvs) [] = Ok cy_ex_e /\
  dstore (table_dg []) ds (JObj cy_ex_kvs) (JObj []) cy_ex_e
  = Ok (ann_patch [("my-op.example.com/last-handled-configuration", JEnc cy_ex_e);
                   ("my-op.example.com/kopf-managed", JStr "yes")]) /\
  old_new_diff (table_dg []) ds ps
    (merge (JObj cy_ex_kvs) (ann_patch [("my-op.example.com/last-handled-configuration", JEnc cy_ex_e);
                                        ("my-op.example.com/kopf-managed", JStr "yes")])) []
  = Ok (Some cy_ex_e, cy_ex_e, []) /\
  own_patch (table_dg []) ds ps (JObj cy_ex_kvs) cy_ex_ops
  = Ok (ann_patch [("kopf.zalando.org/create_fn", JEnc (JObj [("started", JStr "t0"); ("success", JBool true)]));
                   ("kopf.zalando.org/old_fn", JNull);
                   ("my-op.example.com/last-handled-configuration", JEnc cy_ex_e);
                   ("my-op.example.com/kopf-managed", JStr "yes");
                   ("kopf.zalando.org/touch-dummy", JNull)]) /\
  bind (own_body_after (table_dg []) ds ps (JObj cy_ex_kvs) cy_ex_ops)
       (fun b => essence (table_dg []) ds ps b []) = Ok cy_ex_e /\
  bind (own_body_after (table_dg []) ds ps (JObj cy_ex_kvs) cy_ex_ops)
       (fun b => old_new_diff (table_dg []) ds ps b [])
  = Ok (Some cy_ex_e, cy_ex_e, []).
Proof. exact no_self_trigger_example_custom. Qed.
Print Assumptions C04_no_self_trigger_example_custom.

(* the guard cannot be dropped: F41 as an actual self-trigger (one spurious UPDATE) *)
Example C04_no_self_trigger_guard_needed :
  let Q := "my-op.example.com" in
  let ds := DAnn Q "last-handled-configuration" true [] in
  let ps := PAnn "kopf.zalando.org" true false "touch-dummy" in
  let A := [("my-op.example.com/note", JStr "x")] in
  let md := [("name", JStr "x"); ("annotations", JObj A)] in
  let kvs := [("apiVersion", JStr "v1"); ("kind", JStr "KopfExample"); ("metadata", JObj md);
              ("spec", JObj [("field", JNum 1)])] in
  let e := JObj [("spec", JObj [("field", JNum 1)]);
                 ("metadata", JObj [("annotations", JObj [("my-op.example.com/note", JStr "x")])])] in
  vis "kopf.zalando.org" (full_keys (table_dg []) Q true (body_with kvs md A) "last-handled-configuration") A
    "my-op.example.com/note" = true /\
  essence (table_dg []) ds ps (JObj kvs) [] = Ok e /\ wf e = true /\
  exists p d,
    dstore (table_dg []) ds (JObj kvs) (JObj []) e = Ok p /\
    old_new_diff (table_dg []) ds ps (merge (JObj kvs) p) []
    = Ok (Some e, JObj [("spec", JObj [("field", JNum 1)])], d) /\
    classify_change (Some e) d = KUpdate.
Proof. exact no_self_trigger_guard_needed. Qed.
Print Assumptions C04_no_self_trigger_guard_needed.

